"""Family "text": C46 (RLP), C47 (revertibleRandom), C35 (LEB128 / instruction codec / compile
determinism), C17 (numeric text and byte encodings), C40 (literals).

Every check has the same shape: TLC evaluates the specification in spec/text/ (laws of the
specified function as invariants + the table / behaviours used for conformance), the Go driver
harness/cmd/text executes the real code on exactly those cases, and every row where the code
differs from the specification is reported with a semantic signature."""
import json, os, random, hashlib
from vlib.core import Infra, read_ndjson, write_ndjson

# TLC pre-computes constant definitions (type bounds, the case file) on the JVM's main thread; with the default main-thread
# stack that fails silently for deep recursions and TLC falls back to re-evaluating them at every use (measured: 40 ms per
# state instead of 0.2 ms). JDK_JAVA_OPTIONS is read by the java launcher itself, so it also sizes the main thread.
os.environ.setdefault("JDK_JAVA_OPTIONS", "-Xss512m")

LEVEL = {"C46": "model_checking", "C47": "model_checking", "C35": "model_checking",
         "C17": "model_checking", "C40": "model_checking"}


# ------------------------------------------------------------------------------------------
# helpers
def run_driver(ctx, binary, sub, args, tag, timeout=14000, env=None):
    out = os.path.join(ctx.work, tag + ".results.ndjson")
    ctx.run([binary, sub, out] + args, timeout=timeout, env=env)
    rows = read_ndjson(out)
    summary = [r for r in rows if r.get("summary")]
    if not summary:
        raise Infra("driver %s wrote no summary (%s)" % (sub, tag))
    fails = [r for r in rows if not r.get("summary")]
    for f in fails:
        if f.get("harness"):
            raise Infra("harness error in %s/%s: %s" % (sub, tag, json.dumps(f)[:1500]))
    return summary[0], fails


def tlc_out(res):
    return os.path.join(res.dir, "tlc.out")


def table_rows(res):
    """rows printed by PrintT(ToJson(row)) in a TLC output"""
    return res.json_lines()


# ------------------------------------------------------------------------------------------
# C46 RLP
RLP_FILES = ["text/Rlp.tla", "text/MC_RlpEnum.tla", "text/MC_RlpCases.tla", "text/MC_RlpEnum_b4.cfg",
             "text/MC_RlpEnum_b5.cfg", "text/MC_RlpEnum_all2.cfg", "text/MC_RlpEnum_all3.cfg", "text/MC_RlpCases.cfg"]


def _be(n):
    out = []
    while n:
        out.insert(0, n & 255)
        n >>= 8
    return out


def _hdr(base, n):
    if n <= 55:
        return [base + n]
    lb = _be(n)
    return [base + 55 + len(lb)] + lb


def rlp_enc(t):
    """generator-side encoder (untrusted: the model re-encodes every tree and requires equality)"""
    if "s" in t:
        s = t["s"]
        if len(s) == 1 and s[0] <= 127:
            return list(s)
        return _hdr(128, len(s)) + list(s)
    p = []
    for c in t["l"]:
        p += rlp_enc(c)
    return _hdr(192, len(p)) + p


EXTREME_LENGTHS = [
    [255], [56], [55], [1], [0], [0, 56], [1, 0], [255, 255], [0, 255, 255], [1, 0, 0], [255, 255, 255],
    [1, 0, 0, 0], [127, 255, 255, 255], [128, 0, 0, 0], [255, 255, 255, 255], [1, 0, 0, 0, 0],
    [255] * 5, [255] * 6, [255] * 7, [1] + [0] * 7, [127] + [255] * 7, [127] + [255] * 6 + [247],
    [127] + [255] * 6 + [246], [127] + [255] * 6 + [254], [128] + [0] * 7, [128] + [0] * 6 + [1], [255] * 8,
    [0] * 7 + [56], [0] + [255] * 7,
]


def header_mutants(base, payload):
    """inputs that differ from Hdr(base, len(payload)) ++ payload in the header only"""
    n = len(payload)
    out = []
    for k in range(1, 9):                      # every long form, left-padded with zeros
        lb = _be(n)
        if len(lb) <= k:
            out.append([base + 55 + k] + [0] * (k - len(lb)) + lb + payload)
    for d in (-1, 1, 2, 256, 65536):           # neighbouring lengths in minimal form
        if n + d >= 0:
            out.append(_hdr(base, n + d) + payload)
    for lb in EXTREME_LENGTHS:                 # extreme declared lengths, up to 2^64-1
        out.append([base + 55 + len(lb)] + lb + payload)
    other = 192 if base == 128 else 128        # same length, other kind
    out.append(_hdr(other, n) + payload)
    return out


def rlp_mutants(t, rnd):
    e = rlp_enc(t)
    muts = []
    if "s" in t:
        s = list(t["s"])
        muts += header_mutants(128, s)
        if len(s) == 1 and s[0] <= 127:
            muts.append([129] + s)             # single byte wrapped in a header
    else:
        p = []
        encs = [rlp_enc(c) for c in t["l"]]
        for x in encs:
            p += x
        muts += header_mutants(192, p)
        # mutate the header of one direct item, outer header re-computed or kept
        if encs:
            for idx in {0, len(encs) - 1, rnd.randrange(len(encs))}:
                c = t["l"][idx]
                if "s" in c:
                    cp = list(c["s"])
                    cm = header_mutants(128, cp)
                    if len(cp) == 1 and cp[0] <= 127:
                        cm.append([129] + cp)
                else:
                    cp = []
                    for g in c["l"]:
                        cp += rlp_enc(g)
                    cm = header_mutants(192, cp)
                # also the bare huge header without payload
                cm += [[191] + lb for lb in EXTREME_LENGTHS if len(lb) == 8] + [[255] + lb for lb in EXTREME_LENGTHS if len(lb) == 8]
                for m in cm:
                    before = [b for x in encs[:idx] for b in x]
                    after = [b for x in encs[idx + 1:] for b in x]
                    np_ = before + m + after
                    muts.append(_hdr(192, len(np_)) + np_)         # outer header consistent
                    if rnd.random() < 0.15:
                        muts.append(_hdr(192, len(p)) + np_)       # outer header stale
    muts.append(e[:-1])
    muts.append(e + [0])
    muts.append(e + [128])
    # dedupe, drop the canonical encoding itself, bound the size
    seen, res = set(), []
    for m in muts:
        k = bytes(m)
        if k in seen or m == e or len(m) > 70000:
            continue
        seen.add(k)
        res.append(m)
    return e, res


def rlp_random_tree(rnd, depth, big):
    def rbytes(n):
        pool = [0, 1, 127, 128, 129, 183, 184, 191, 192, 193, 247, 248, 255]
        return [rnd.choice(pool) if rnd.random() < 0.5 else rnd.randrange(256) for _ in range(n)]
    if depth == 0 or rnd.random() < 0.45:
        n = rnd.choice([0, 1, 1, 1, 2, 3, 5, 54, 55, 56, 57, 60] + ([200, 255, 256, 257] if big else []))
        return {"s": rbytes(n)}
    k = rnd.choice([0, 1, 2, 3, 4, 6])
    return {"l": [rlp_random_tree(rnd, depth - 1, big and rnd.random() < 0.3) for _ in range(k)]}


def rlp_cases(seed, quick):
    rnd = random.Random(1000003 * seed + 46)
    trees = [
        {"s": []}, {"s": [0]}, {"s": [127]}, {"s": [128]}, {"s": [255]}, {"s": [1, 2]}, {"l": []},
        {"l": [{"l": []}]}, {"l": [{"s": []}]}, {"l": [{"s": [5]}]}, {"l": [{"s": [200]}]},
        {"s": [7] * 55}, {"s": [7] * 56}, {"s": [200] * 255}, {"s": [9] * 256},
        {"l": [{"s": [1]}] * 55}, {"l": [{"s": [1]}] * 56}, {"l": [{"s": [1]}] * 260},
        {"l": [{"s": [3] * 54}]}, {"l": [{"s": [3] * 55}]}, {"l": [{"s": [3] * 60}, {"l": [{"s": [4] * 60}]}]},
        {"l": [{"l": [{"l": [{"l": []}]}]}, {"s": [128]}]},
        # the set-theoretic encoding of three: [ [], [[]], [ [], [[]] ] ]
        {"l": [{"l": []}, {"l": [{"l": []}]}, {"l": [{"l": []}, {"l": [{"l": []}]}]}]},
    ]
    if not quick:
        trees.append({"s": [9] * 1024})
        trees.append({"s": [rnd.randrange(256) for _ in range(65536)]})      # three length bytes
        trees.append({"l": [{"s": [1] * 40000}, {"s": [2] * 30000}]})
    n = 120 if quick else 1500
    for i in range(n):
        trees.append(rlp_random_tree(rnd, rnd.choice([1, 2, 3, 4]), True))
    cases = []
    for t in trees:
        e, m = rlp_mutants(t, rnd)
        if len(e) > 200:                       # long inputs are costly for TLC: keep a spread of 16 mutants
            rnd.shuffle(m)
            m = m[:16]
        cases.append({"t": t, "e": e, "m": m})
    return cases


def rlp_sig(f):
    return {"fn": f["fn"], "level": f["level"], "dev": f["dev"], "why": f.get("why", ""), "cls": f.get("cls", ""),
            "input": f["input"] if f.get("len", 99) <= 16 else "(long)"}


def check_C46(ctx):
    binary = ctx.build("text")
    cores = ctx.cores
    # 1. tables evaluated by TLC: one state per input, laws of the decoder as invariants
    rb = ctx.tlc(RLP_FILES, "MC_RlpEnum", "MC_RlpEnum_b4.cfg" if ctx.quick else "MC_RlpEnum_b5.cfg",
                 workers=cores, tag="rlp-boundary", timeout=(1500 if ctx.quick else 14000))
    ra = ctx.tlc(RLP_FILES, "MC_RlpEnum", "MC_RlpEnum_all2.cfg", workers=cores, tag="rlp-allbytes", timeout=(2400 if ctx.quick else 14000))
    tables = [(rb, "2" if ctx.quick else "8"), (ra, "4")]
    if not ctx.quick:      # every 3-byte string whose first byte is a boundary byte (19 x 65536 + shorter ones)
        tables.append((ctx.tlc(RLP_FILES, "MC_RlpEnum", "MC_RlpEnum_all3.cfg", workers=cores, tag="rlp-allbytes3", timeout=(3000 if ctx.quick else 14000)), "32"))
    cases = rlp_cases(ctx.seed, ctx.quick)
    cf = os.path.join(ctx.work, "cases.ndjson")
    write_ndjson(cf, cases)
    rc = ctx.tlc(RLP_FILES + [cf], "MC_RlpCases", "MC_RlpCases.cfg", workers=cores, tag="rlp-cases", timeout=(1500 if ctx.quick else 14000))
    ninputs = sum(1 + len(c["m"]) for c in cases)
    if rc.distinct != ninputs + len(cases) + 1:      # one state per input + the fan-out states (start, one per case)
        raise Infra("case table has %d states for %d cases / %d inputs" % (rc.distinct, len(cases), ninputs))
    # 2. the real decoders on every row (Go API on all rows, Cadence scripts on both engines on all generated
    #    cases and on a hash-selected share of the enumerated tables: 1/2 and 1/4 quick, 1/8, 1/4 and 1/32 thorough)
    tables.append((rc, "all"))
    summary, fails = run_driver(ctx, binary, "rlp", ["%s=%s" % (tlc_out(r), m) for r, m in tables], "rlp", timeout=(3000 if ctx.quick else 14000))
    expected_rows = sum(r.distinct for r, _ in tables[:-1]) + ninputs
    if summary["rows"] != expected_rows:
        raise Infra("driver judged %d rows, TLC printed %d" % (summary["rows"], expected_rows))
    for f in fails:
        ctx.report(rlp_sig(f), "RLP.%s (%s) on 0x%s: %s; specification: %s (declared length class %s); observed: %s"
                   % (f["fn"], f["level"], f["input"], f["dev"], f["why"], f["cls"], f["msg"]),
                   {"input_hex": f["input"], "fn": f["fn"], "level": f["level"], "spec": f["why"], "observed": f["msg"]})
    # 3. negative control: corrupted table entries must be rejected by the same driver
    rows = table_rows(rc)
    acc = next((r for r in rows if r[1] != 0 and len(r[0]) > 2), None)
    rej = next((r for r in rows if r[1] == 0 and r[2] == 0 and r[4][0] == "trailing-bytes" and len(r[0]) < 40), None)
    accl = next((r for r in rows if r[2] != 0 and len(r[2]["v"]) > 0), None)
    if not acc or not rej or not accl:
        raise Infra("negative control: no suitable rows")
    bad1 = json.loads(json.dumps(acc)); bad1[1]["v"][-1] ^= 1; bad1[3]["t"]["s"][-1] ^= 1
    bad2 = json.loads(json.dumps(rej)); bad2[1] = {"v": rej[0][1:]}
    bad3 = json.loads(json.dumps(accl)); bad3[2] = 0
    nf = os.path.join(ctx.work, "negctl.ndjson")
    write_ndjson(nf, [bad1, bad2, bad3])
    _, nfails = run_driver(ctx, binary, "rlp", [nf + "=all"], "rlp-negctl")
    kinds = {(f["fn"], f["dev"]) for f in nfails}
    need = {("decodeString", "wrong-value"), ("decodeString", "rejects-canonical-input"), ("decodeList", "accepts-rejected-input")}
    if not need <= kinds:
        raise Infra("negative control failed: corrupted rows were not all rejected: %s" % sorted(kinds))
    ctx.add_sample({"input": rows[len(rows) // 3][0][:40], "string": rows[len(rows) // 3][1], "list": rows[len(rows) // 3][2],
                    "reasons": rows[len(rows) // 3][4]})
    ctx.add_sample({"tree": json.dumps(cases[23]["t"])[:300], "encoding_hex": bytes(cases[23]["e"]).hex()[:120],
                    "mutants": len(cases[23]["m"]), "first_mutants_hex": [bytes(m).hex()[:60] for m in cases[23]["m"][:4]]})
    ctx.add_sample({"extreme length prefix": "bf7fffffffffffffff", "spec": "payload-beyond-input, class edge63 (offset+length leaves int64)"})
    return ctx.finish({
        "states": sum(r.distinct for r, _ in tables),
        "transitions": sum(r.generated for r, _ in tables) - len(tables),
        "traces_validated_against_impl": summary["rows"],
        "evaluations": summary["go_evals"] + summary["cadence_evals"],
        "go_api_evaluations": summary["go_evals"], "cadence_script_evaluations": summary["cadence_evals"],
        "distinct_nontrivial": summary["nontrivial"],
        "rule": "one table row per input byte string (TLC state); distinct inputs counted by the driver; non-trivial = at least 2 bytes "
                "and first byte >= 0x80, i.e. a string/list header whose declared length must be checked against the rest of the input",
        "distinct_inputs": summary["distinct_inputs"],
        "accepted_string": summary["accepted_string"], "accepted_list": summary["accepted_list"], "accepted_deep": summary["accepted_deep"],
        "reason_classes": summary["reason_classes"],
        "generated_trees": len(cases), "mutant_inputs": ninputs - len(cases),
        "negative_control": "3 corrupted rows (payload bit, reject->accept, accept->reject) all rejected by the driver",
        "exhaustive": True,
    }, assumptions=["inputs are shorter than 2^24 bytes (the model caps declared lengths at 2^24; longer declared lengths are 'beyond the input')",
                    "decodeList is one-level: items are returned encoded and only their headers are judged; full canonicity is bound through "
                    "recursive decoding via the real API against the model's Deep()"])


# ------------------------------------------------------------------------------------------
# C47 revertibleRandom
RND_FILES = ["text/Random.tla", "text/MC_Random.tla", "text/MC_Random_u8.cfg", "text/MC_Random_u16q.cfg",
             "text/MC_Random_u16t.cfg", "text/MC_Random_file.cfg"]
RND_WIDE = {"UInt32": 4, "UInt64": 8, "UInt128": 16, "UInt256": 32, "Word32": 4, "Word64": 8, "Word128": 16, "Word256": 32}
RND_ALL = dict(RND_WIDE, UInt8=1, UInt16=2, Word8=1, Word16=2)


def rnd_cases(seed, quick):
    """(type, modulus, finite stream) cases for the wide types; the model computes the expected behaviour"""
    rnd = random.Random(1000003 * seed + 47)
    cases = []

    def tobytes(n, size):
        return list(n.to_bytes(size, "big"))

    def add(ty, m, stream, nomod=False):
        size = RND_ALL[ty]
        cases.append({"ty": ty, "size": size, "M": tobytes(m, size), "stream": stream[:96], "nomod": nomod})

    for ty, size in sorted(RND_WIDE.items()):
        bits = 8 * size
        ks = list(range(0, bits + 1))
        if quick:
            ks = sorted(set([0, 1, 2, 7, 8, 9, 15, 16, 17, bits // 2 - 1, bits // 2, bits // 2 + 1, bits - 9, bits - 8, bits - 7,
                             bits - 1, bits] + rnd.sample(ks, 6)))
        mods = set()
        for k in ks:
            for d in (-1, 0, 1):
                m = (1 << k) + d
                if 0 < m < (1 << bits):
                    mods.add(m)
        mods.add((1 << bits) - 1)
        for _ in range(8 if quick else 60):
            mods.add(rnd.randrange(1, 1 << rnd.randrange(1, bits + 1)))
        for m in sorted(mods):
            mx = m - 1
            nb = (mx.bit_length() + 7) // 8
            bl = mx.bit_length()
            streams = []
            if nb == 0:
                streams = [[], [255, 255]]
            else:
                mxb = tobytes(mx, nb)
                mb = tobytes(m & ((1 << (8 * nb)) - 1), nb)
                high = [0xff] + mxb[1:] if nb else []                      # bits above the mask set, low bits = max
                streams.append(mxb)                                         # exactly max: accepted
                streams.append(mb + mxb)                                    # max+1 (rejected unless it wraps), then max
                streams.append(high + [1] * nb)
                streams.append([255] * nb * 3 + mxb)                        # three all-ones draws, then max
                streams.append([255] * (nb * 2 + 1))                        # stream ends in the middle of a draw
                streams.append([rnd.randrange(256) for _ in range(nb * 4)])
                if not quick:
                    streams.append([0x80] + [0] * (nb - 1) + [rnd.randrange(256) for _ in range(nb * 2)])
                    streams.append([rnd.randrange(256) for _ in range(nb * 6)])
                    streams.append([255] * 96)
            for st in streams:
                add(ty, m, st)
        add(ty, 0, [1, 2, 3])                                               # zero modulo
    for ty, size in sorted(RND_ALL.items()):
        add(ty, 0, [7])
        for st in ([], [255] * size, [1] + [0] * (size - 1), list(range(1, size + 1)), [rnd.randrange(256) for _ in range(size + 3)],
                   [255] * (size - 1)):
            add(ty, 1, st, nomod=True)
    return cases


def check_C47(ctx):
    binary = ctx.build("text")
    r8 = ctx.tlc(RND_FILES, "MC_Random", "MC_Random_u8.cfg", workers=ctx.cores, tag="rnd-u8", timeout=(1500 if ctx.quick else 14000))
    r16 = ctx.tlc(RND_FILES, "MC_Random", "MC_Random_u16q.cfg" if ctx.quick else "MC_Random_u16t.cfg", workers=ctx.cores,
                  tag="rnd-u16", timeout=(2400 if ctx.quick else 14000))
    cases = rnd_cases(ctx.seed, ctx.quick)
    cf = os.path.join(ctx.work, "cases.ndjson")
    write_ndjson(cf, cases)
    rf = ctx.tlc(RND_FILES + [cf], "MC_Random", "MC_Random_file.cfg", workers=ctx.cores, tag="rnd-wide", timeout=(1500 if ctx.quick else 14000))
    if rf.distinct != 2 * len(cases) + 1:
        raise Infra("wide-type table has %d states for %d cases" % (rf.distinct, len(cases)))
    summary, fails = run_driver(ctx, binary, "random", [tlc_out(r8), tlc_out(r16), tlc_out(rf)], "random", timeout=(3000 if ctx.quick else 14000))
    for f in fails:
        ctx.report({"ty": f["ty"], "engine": f["engine"], "dev": f["dev"], "nomod": f["nomod"]},
                   "revertibleRandom<%s>(%s) on source 0x%s (%s): %s: %s"
                   % (f["ty"], "" if f["nomod"] else "modulo: " + f["modulo"], f["stream"], f["engine"], f["dev"], f["msg"]),
                   {"type": f["ty"], "modulo": f["modulo"], "stream_hex": f["stream"], "engine": f["engine"], "observed": f["msg"]})
    # negative control: corrupted behaviours (result bit, one more request, another request size) must be rejected
    rows = table_rows(rf)
    ok_rows = [r for r in rows if r[3] == "ok" and not r[6] and len(r[4]) >= 2 and r[4][0] > 0]
    if not ok_rows:
        raise Infra("negative control: no suitable rows")
    base = ok_rows[len(ok_rows) // 2]
    b1 = json.loads(json.dumps(base)); b1[5][-1] ^= 1
    b2 = json.loads(json.dumps(base)); b2[4] = b2[4][:-1]
    b3 = json.loads(json.dumps(base)); b3[4] = [x + 1 for x in b3[4]]
    nf = os.path.join(ctx.work, "negctl.ndjson")
    write_ndjson(nf, [b1, b2, b3])
    _, nfails = run_driver(ctx, binary, "random", [nf], "random-negctl")
    devs = {f["dev"] for f in nfails}
    if not {"result", "draws", "draw-size"} <= devs:
        raise Infra("negative control failed: corrupted behaviours not all rejected: %s" % sorted(devs))
    nmod8 = 255
    n16 = (r16.distinct - 1) // 65537
    ctx.add_sample({"type": base[0], "modulo_bytes": base[1], "source_bytes": base[2], "requests": base[4], "result_bytes": base[5]})
    r8rows = table_rows(r8)
    ctx.add_sample({"row": r8rows[len(r8rows) // 2]})
    ctx.add_sample({"row": r8rows[7]})
    return ctx.finish({
        "states": r8.distinct + r16.distinct + rf.distinct,
        "transitions": r8.generated + r16.generated + rf.generated - 3,
        "traces_validated_against_impl": summary["calls_checked"],
        "evaluations": summary["executions"],
        "scripts": summary["scripts"],
        "distinct_nontrivial": summary["nontrivial"],
        "rule": "distinct (type, modulus, consumed source bytes) cases; non-trivial = a draw was rejected or the accepted draw had bits above "
                "the mask (masking or rejection decided the outcome); each case is one revertibleRandom call in a real script, both engines",
        "distinct_cases": summary["distinct"],
        "rejected_draws_replayed": summary["rejected_draws"],
        "uniformity_proved_on_model": "8-bit: all %d moduli, histogram of all 256 first draws; 16-bit: %d boundary moduli, low-bits "
                                      "identity on all 65536 draws + counting lemma" % (nmod8, n16),
        "wide_cases": len(cases),
        "negative_control": "3 corrupted behaviours (result bit, dropped request, request size) all rejected",
        "exhaustive": True,
    }, assumptions=["the random source is finite: the scripted bytes are followed by zeros (an all-0xff source never terminates; excluded by the host contract)",
                    "uniformity is a statement about the model (counting); the code is bound to the model by equal request sizes, accept/reject decisions and results",
                    "Word8/Word16 are driven with the rows computed for UInt8/UInt16 (the model depends on the size only)"])


# ------------------------------------------------------------------------------------------
# C35 LEB128, instruction codec, compile determinism
LEB_FILES = ["text/Leb128.tla", "text/MC_Leb128.tla", "text/MC_Leb128_native_q.cfg", "text/MC_Leb128_native_t.cfg",
             "text/MC_Leb128_big.cfg", "text/Digest.tla", "text/Digest.cfg"]

CORPUS_FIXED = [
    ("loops", """
access(all) fun sum(_ n: Int): Int { var i = 0; var s = 0; while i < n { if i % 2 == 0 { s = s + i } else { s = s - 1 }; i = i + 1 }; return s }
access(all) fun find(_ xs: [Int], _ x: Int): Int? { for i, v in xs { if v == x { return i }; if v > 100 { break }; continue }; return nil }
access(all) fun main(): Int { return sum(10) + (find([1, 2, 3], 2) ?? -1) }
"""),
    ("closures", """
access(all) fun counter(): fun(): Int { var c = 0; return fun (): Int { c = c + 1; return c } }
access(all) fun compose(_ f: fun(Int): Int, _ g: fun(Int): Int): fun(Int): Int { return fun (x: Int): Int { return f(g(x)) } }
access(all) fun main(): Int { let c = counter(); c(); let h = compose(fun (x: Int): Int { return x * 2 }, fun (x: Int): Int { return x + 1 }); return h(c()) }
"""),
    ("composites", """
access(all) struct interface Shape { access(all) fun area(): Int; access(all) fun describe(): String { return "shape ".concat(self.area().toString()) } }
access(all) struct Sq: Shape { access(all) let s: Int; init(_ s: Int) { self.s = s } access(all) fun area(): Int { return self.s * self.s } }
access(all) struct Rect: Shape { access(all) let w: Int; access(all) let h: Int; init(w: Int, h: Int) { self.w = w; self.h = h }
  access(all) fun area(): Int { return self.w * self.h } access(all) fun describe(): String { return "rect" } }
access(all) enum Color: UInt8 { access(all) case red; access(all) case green; access(all) case blue }
access(all) fun main(): String { let shapes: [{Shape}] = [Sq(2), Rect(w: 2, h: 3)]; var out = ""; for s in shapes { out = out.concat(s.describe()) }
  switch Color.green { case Color.red: out = out.concat("r") case Color.green: out = out.concat("g") default: out = out.concat("?") }; return out }
"""),
    ("resources", """
access(all) resource R { access(all) var v: Int; init(_ v: Int) { self.v = v } access(all) fun bump() { self.v = self.v + 1 } }
access(all) resource Box { access(all) var items: @[R]; access(all) var named: @{String: R}; init() { self.items <- []; self.named <- {} }
  access(all) fun add(_ r: @R) { self.items.append(<- r) } access(all) fun put(_ k: String, _ r: @R) { let old <- self.named[k] <- r; destroy old }
  access(all) fun take(): @R { return <- self.items.removeLast() } }
access(all) fun main(): Int { let b <- create Box(); b.add(<- create R(1)); b.put("a", <- create R(2)); let r <- b.take(); r.bump(); let v = r.v
  let ref = &b.named["a"] as &R?; let w = ref?.v ?? 0; destroy r; destroy b; return v + w }
"""),
    ("conditions", """
access(all) struct interface Acc { access(all) var bal: Int
  access(all) fun withdraw(_ n: Int): Int { pre { n > 0: "positive"; n <= self.bal: "enough" } post { self.bal == before(self.bal) - n: "debited"; result == n } } }
access(all) struct A: Acc { access(all) var bal: Int; init() { self.bal = 10 } access(all) fun withdraw(_ n: Int): Int { self.bal = self.bal - n; return n } }
access(all) fun f(_ x: Int): Int { pre { x >= 0 } post { result >= x } return x + 1 }
access(all) fun main(): Int { var a = A(); return a.withdraw(3) + f(2) }
"""),
    ("optionals-casts", """
access(all) struct P { access(all) let q: Q?; init(_ q: Q?) { self.q = q } }
access(all) struct Q { access(all) let n: Int; init(_ n: Int) { self.n = n } access(all) fun twice(): Int { return self.n * 2 } }
access(all) fun main(): Int { let p: P? = P(Q(4)); let a = p?.q?.n ?? 0; let b = p?.q?.twice() ?? 0; let any: AnyStruct = a
  let c = any as? Int ?? 0; let d = any as! Int; let e = (any as? String) == nil ? 1 : 2; if let q = p?.q { return a + b + c + d + e + q!.n }; return 0 }
"""),
    ("strings-collections", """
access(all) fun main(): String { let xs = [3, 1, 2]; let m: {String: Int} = {"a": 1, "b": 2}; var s = ""
  for k in m.keys { s = s.concat(k) }; let ys = xs.map(fun (x: Int): Int { return x * x }).filter(view fun (x: Int): Bool { return x > 1 })
  let t = "n=\\(ys.length) \\u{1F600} \\n"; let u: UFix64 = 1.5; let w: Fix64 = -2.25; let big: UInt256 = 0xffff_ffff_ffff_ffff_ffff
  let addr: Address = 0x1; let path = /storage/foo; return s.concat(t).concat(u.toString()).concat(w.toString()).concat(big.toString()).concat(addr.toString()).concat(path.toString()) }
"""),
    ("entitlements-attachments", """
access(all) entitlement E
access(all) entitlement F
access(all) entitlement mapping M { E -> F }
access(all) struct Inner { access(F) fun secret(): Int { return 7 } access(all) fun open(): Int { return 1 } }
access(all) struct Outer { access(mapping M) let inner: Inner; init() { self.inner = Inner() } access(E) fun guarded(): Int { return 2 } }
access(all) resource Base { access(all) let id: Int; init() { self.id = 5 } }
access(all) attachment Att for Base { access(all) fun baseId(): Int { return base.id } }
access(all) fun main(): Int { let o = Outer(); let r = &o as auth(E) &Outer; let x = r.inner.secret() + r.guarded()
  let b <- attach Att() to <- create Base(); let y = b[Att]?.baseId() ?? 0; destroy b; return x + y }
"""),
    ("events-globals", """
access(all) event Ev(a: Int, b: String)
access(all) let G: Int = 42
access(all) var H: [Int] = [1, 2, 3]
access(all) fun emitIt(_ n: Int) { emit Ev(a: n, b: n.toString()) }
access(all) fun main(): Int { emitIt(G); H.append(4); return H.length + G }
"""),
    ("contract", """
access(all) contract C { access(all) var total: Int; access(all) struct S { access(all) let v: Int; init(_ v: Int) { self.v = v } }
  access(all) resource R { access(all) let s: S; init(_ v: Int) { self.s = S(v) } }
  access(all) fun mk(_ v: Int): @R { self.total = self.total + v; return <- create R(v) } access(all) view fun get(): Int { return self.total }
  init() { self.total = 0 } }
"""),
    ("transaction", """
transaction(n: Int) { let x: Int
  prepare(acct: auth(Storage) &Account) { self.x = n + 1; acct.storage.save(self.x, to: /storage/x) }
  pre { n > 0 } execute { let y = self.x + 1 } post { self.x > n } }
"""),
]


def gen_program(rnd, ndecl):
    """a type-correct program with many top-level declarations of different kinds in random order"""
    decls = []
    kinds = ["struct", "resource", "iface", "enum", "fun", "funloop", "closure", "global", "event", "entitlement", "attachment"]
    for i in range(ndecl):
        k = rnd.choice(kinds)
        n = "%s%d" % (k[:2].upper(), i)
        c = rnd.randrange(1, 100000)
        if k == "struct":
            fs = ["access(all) fun m%d(_ x: Int): Int { return x %s %d }" % (j, rnd.choice("+-*"), rnd.randrange(1, 9)) for j in range(rnd.randrange(1, 5))]
            rnd.shuffle(fs)
            decls.append("access(all) struct %s { access(all) let a: Int; access(all) var b: String; init() { self.a = %d; self.b = \"%s\" } %s }" % (n, c, n, " ".join(fs)))
        elif k == "resource":
            decls.append("access(all) resource %s { access(all) var v: Int; init() { self.v = %d } access(all) fun inc(): Int { self.v = self.v + 1; return self.v } }\n"
                         "access(all) fun use%s(): Int { let r <- create %s(); let x = r.inc(); destroy r; return x }" % (n, c, n, n))
        elif k == "iface":
            decls.append("access(all) struct interface %s { access(all) fun f(_ x: Int): Int { pre { x > %d } post { result >= 0 } } access(all) fun g(): Int { return %d } }\n"
                         "access(all) struct Impl%s: %s { access(all) fun f(_ x: Int): Int { return x } }" % (n, c % 7, c, n, n))
        elif k == "enum":
            cases = " ".join("access(all) case c%d;" % j for j in range(rnd.randrange(1, 6)))
            decls.append("access(all) enum %s: UInt8 { %s }" % (n, cases))
        elif k == "fun":
            decls.append("access(all) fun f%s(_ x: Int, y: Int): Int { if x > y { return x - y } else if x == y { return %d }; return y - x }" % (n, c))
        elif k == "funloop":
            decls.append("access(all) fun g%s(_ n: Int): [Int] { var out: [Int] = []; var i = 0; while i < n { if i == %d { i = i + 2; continue }; out.append(i * %d); i = i + 1 }; for v in out { if v > %d { break } }; return out }" % (n, c % 5, c % 11, c))
        elif k == "closure":
            decls.append("access(all) fun h%s(): fun(Int): Int { var acc = %d; let k = \"%s\"; return fun (d: Int): Int { acc = acc + d + k.length; return acc } }" % (n, c, n))
        elif k == "global":
            decls.append("access(all) let v%s: {String: Int} = {\"%s\": %d, \"z\": %d}" % (n, n, c, c + 1))
        elif k == "event":
            decls.append("access(all) event e%s(x: Int, y: String)\naccess(all) fun emit%s() { emit e%s(x: %d, y: \"%s\") }" % (n, n, n, c, n))
        elif k == "entitlement":
            decls.append("access(all) entitlement X%s\naccess(all) struct G%s { access(X%s) fun p(): Int { return %d } access(all) fun q(): Int { return %d } }" % (n, n, n, c, c + 1))
        elif k == "attachment":
            decls.append("access(all) resource B%s { access(all) let id: Int; init() { self.id = %d } }\naccess(all) attachment A%s for B%s { access(all) fun bid(): Int { return base.id + %d } }" % (n, c, n, n, c % 13))
    rnd.shuffle(decls)
    return "\n".join(decls) + "\n"


def lib_contract(name, c, ncases):
    cases = " ".join("access(all) case c%d" % k for k in range(ncases))
    return ("access(all) contract %s {\n  access(all) enum E: UInt8 { %s }\n  access(all) let k: Int\n"
            "  access(all) view fun f(_ x: Int): Int { return x + %d }\n  access(all) struct P { access(all) let v: Int; init() { self.v = %d } }\n"
            "  init() { self.k = %d }\n}\n" % (name, cases, c % 7 + 1, c, c))


def gen_bundle(rnd, i):
    """programs that import each other: library contracts with enums / globals, a contract interface that imports them in
    SEPARATE import declarations and has conditions using them, a contract conforming to it WITHOUT importing the libraries
    (the compiler has to add the transitive imports), optionally a second interface level and a user of the contract."""
    nlib = rnd.choice([2, 3, 3, 4])
    libs = []
    for j in range(nlib):
        libs.append({"name": "L%d" % j, "addr": rnd.choice([1, 2]), "c": rnd.randrange(1, 1000), "n": rnd.randrange(2, 5)})
    progs = [{"name": l["name"], "addr": l["addr"], "code": lib_contract(l["name"], l["c"], l["n"])} for l in libs]
    order = libs[:]
    rnd.shuffle(order)
    split = rnd.randrange(1, nlib) if rnd.random() < 0.5 else nlib        # how many libraries the first-level interface imports
    first, second = order[:split], order[split:]

    def imports(ls):
        return "".join("import %s from 0x%d\n" % (l["name"], l["addr"]) for l in ls)

    def conds(ls):
        pre = "; ".join("%s.E.c0.rawValue <= %s.E.c1.rawValue" % (l["name"], l["name"]) for l in ls)
        pre2 = "; ".join("%s.f(x) > 0" % l["name"] for l in ls[:2])
        post = "; ".join("result >= x - %s.k" % l["name"] for l in ls)
        return pre + "; " + pre2, post

    pre, post = conds(first)
    progs.append({"name": "I", "addr": 1, "code": imports(first) +
                  "access(all) contract interface I {\n  access(all) struct interface SI {\n"
                  "    access(all) fun check(_ x: Int): Int { pre { %s } post { %s } }\n  }\n"
                  "  access(all) resource interface RI { access(all) fun use(_ x: Int): Int { pre { %s } } }\n}\n" % (pre, post, pre)})
    top = "I"
    if second:
        pre2, post2 = conds(second)
        progs.append({"name": "J", "addr": 2, "code": "import I from 0x1\n" + imports(second) +
                      "access(all) contract interface J {\n  access(all) struct interface SJ: I.SI {\n"
                      "    access(all) fun check(_ x: Int): Int { pre { %s } post { %s } }\n  }\n}\n" % (pre2, post2)})
        top = "J"
    conf = "J.SJ" if top == "J" else "I.SI"
    progs.append({"name": "D", "addr": 3, "code": ("import I from 0x1\n" + ("import J from 0x2\n" if top == "J" else "")) +
                  "access(all) contract D {\n  access(all) struct S: %s { access(all) fun check(_ x: Int): Int { return x + %d } }\n"
                  "  access(all) resource R: I.RI { access(all) fun use(_ x: Int): Int { return x } }\n"
                  "  access(all) fun run(): Int { let r <- create R(); let v = r.use(1) + S().check(2); destroy r; return v }\n}\n" % (conf, i)})
    progs.append({"name": "U", "addr": 4, "code": "import D from 0x3\naccess(all) contract U { access(all) fun go(): Int { return D.run() + D.S().check(%d) } }\n" % i})
    return {"id": "bundle-%d" % i, "programs": progs}


BUNDLES_FIXED = [
    # same-named contracts at different addresses, reached through two interfaces
    {"id": "bundle-same-name", "programs": [
        {"name": "A", "addr": 1, "code": "access(all) contract A { access(all) enum Color: UInt8 { access(all) case red; access(all) case green } }\n"},
        {"name": "A", "addr": 2, "code": "access(all) contract A { access(all) enum Color: UInt8 { access(all) case blue; access(all) case black; access(all) case white } }\n"},
        {"name": "I", "addr": 1, "code": "import A from 0x1\naccess(all) contract interface I { access(all) struct interface SI { access(all) fun check(): Int { pre { A.Color.red.rawValue < A.Color.green.rawValue } } } }\n"},
        {"name": "J", "addr": 2, "code": "import A from 0x2\naccess(all) contract interface J { access(all) struct interface SJ { access(all) fun other(): Int { post { A.Color.white.rawValue > A.Color.blue.rawValue } } } }\n"},
        {"name": "D", "addr": 3, "code": "import I from 0x1\nimport J from 0x2\naccess(all) contract D { access(all) struct S: I.SI, J.SJ { access(all) fun check(): Int { return 1 } access(all) fun other(): Int { return 2 } } }\n"},
    ]},
    # the minimal shape: two enums, one interface with two import declarations, one conforming contract
    {"id": "bundle-two-enums", "programs": [
        {"name": "A", "addr": 1, "code": "access(all) contract A { access(all) enum Color: UInt8 { access(all) case red; access(all) case green } }\n"},
        {"name": "B", "addr": 1, "code": "access(all) contract B { access(all) enum Size: UInt8 { access(all) case small; access(all) case big } }\n"},
        {"name": "I", "addr": 1, "code": "import A from 0x1\nimport B from 0x1\naccess(all) contract interface I { access(all) struct interface SI { access(all) fun check(): Int { pre { A.Color.red.rawValue < B.Size.big.rawValue } } } }\n"},
        {"name": "D", "addr": 1, "code": "import I from 0x1\naccess(all) contract D { access(all) struct S: I.SI { access(all) fun check(): Int { return 1 } } }\n"},
    ]},
]


def compile_corpus(seed, quick):
    rnd = random.Random(1000003 * seed + 35)
    corpus = [{"id": "fixed-" + n, "code": c} for n, c in CORPUS_FIXED]
    for i in range(30 if quick else 250):
        corpus.append({"id": "gen-%d" % i, "code": gen_program(rnd, rnd.choice([5, 12, 25, 40]))})
    corpus += BUNDLES_FIXED
    for i in range(10 if quick else 60):
        corpus.append(gen_bundle(rnd, i))
    return corpus


def check_C35(ctx):
    binary = ctx.build("text")
    # --- LEB128: model (laws + table) and table conformance
    rn = ctx.tlc(LEB_FILES, "MC_Leb128", "MC_Leb128_native_q.cfg" if ctx.quick else "MC_Leb128_native_t.cfg",
                 workers=ctx.cores, tag="leb-native", timeout=(2400 if ctx.quick else 14000))
    rnd = random.Random(1000003 * ctx.seed + 351)
    vals = []
    for _ in range(300 if ctx.quick else 5000):
        v = rnd.getrandbits(rnd.randrange(1, 65))
        vals.append({"neg": rnd.random() < 0.5, "mag": list(v.to_bytes(8, "big"))})
    cf = os.path.join(ctx.work, "cases.ndjson")
    write_ndjson(cf, vals)
    rb = ctx.tlc(LEB_FILES + [cf], "MC_Leb128", "MC_Leb128_big.cfg", workers=ctx.cores, tag="leb-big", timeout=(1500 if ctx.quick else 14000))
    ls, lfails = run_driver(ctx, binary, "leb", [tlc_out(rn), tlc_out(rb)], "leb")
    for f in lfails:
        ctx.report({"part": "leb128", "fn": f["fn"], "dev": f["dev"]},
                   "leb128.%s(%s): %s: %s" % (f["fn"], f["value"], f["dev"], f["msg"]), {"fn": f["fn"], "value": f["value"], "observed": f["msg"]})
    # negative control on the table
    brow = next(r for r in table_rows(rb) if r[0] == "B" and r[3] != 0 and len(r[3]) >= 3)
    c1 = json.loads(json.dumps(brow)); c1[3][1] ^= 1
    c2 = json.loads(json.dumps(brow)); c2[4] = c2[4] + [0]; c2[4][-2] |= 128
    nf = os.path.join(ctx.work, "negctl.ndjson")
    write_ndjson(nf, [c1, c2])
    _, nfails = run_driver(ctx, binary, "leb", [nf], "leb-negctl")
    if not ({f["fn"] for f in nfails} >= {"AppendUint64", "AppendInt64"}):
        raise Infra("negative control failed: corrupted LEB128 rows not rejected: %s" % nfails[:3])
    # --- instruction codec
    corpus = compile_corpus(ctx.seed, ctx.quick)
    corpf = os.path.join(ctx.work, "corpus.ndjson")
    write_ndjson(corpf, corpus)
    isum, ifails = run_driver(ctx, binary, "instr", [corpf], "instr")
    for f in ifails:
        ctx.report({"part": "instruction-codec", "dev": f["dev"], "opcode": f["opcode"], "src": f["src"]},
                   "instruction codec (%s, %s): %s: %s" % (f["opcode"], f["src"], f["dev"], f["msg"]), {"opcode": f["opcode"], "observed": f["msg"]})
    # --- compile determinism: rounds in one process x fresh processes with different scheduler settings
    trace = []
    procs = [{"GOMAXPROCS": "1"}, {"GOMAXPROCS": "4"}, {"GOMAXPROCS": "16", "GOGC": "20"}] + ([] if ctx.quick else [{"GOMAXPROCS": "2", "GOGC": "off"}, {}])
    rounds = 3 if ctx.quick else 5
    brounds = 60 if ctx.quick else 150               # bundle members: compiled this often by fresh compilers in each process
    compilations = 0
    csum = None
    for pi, env in enumerate(procs):
        csum, crows = run_driver(ctx, binary, "compile", [corpf, str(rounds), str(brounds)], "compile-%d" % pi, env=env)
        for r in crows:
            seen = {}                                   # equal outcomes of one process are merged into one event with a count
            for k, d in enumerate(r["digests"]):
                compilations += 1
                if d in seen:
                    seen[d]["count"] += 1
                else:
                    seen[d] = {"prog": r["id"], "digest": d, "parts": r["parts"][k], "proc": "p%d-%d" % (pi, r["pid"]), "round": k, "count": 1}
                    trace.append(seen[d])
    if os.environ.get("VERIF_NEGCTL_C35"):                    # manual negative control: corrupt one event
        trace[len(trace) // 2]["digest"] = "0" * 64
    tf = os.path.join(ctx.work, "trace.ndjson")
    write_ndjson(tf, trace)
    rd = ctx.tlc(LEB_FILES + [tf], "Digest", "Digest.cfg", workers=1, tag="digest", timeout=(600 if ctx.quick else 14000), count=False)
    verdict = [x for x in rd.json_lines() if isinstance(x, dict) and "bad" in x]
    if not verdict or verdict[0]["events"] != len(trace):
        raise Infra("Digest.tla did not judge the trace")
    for i in verdict[0]["bad"]:
        e = trace[i - 1]
        first = next(x for x in trace if x["prog"] == e["prog"])
        diff = sorted(k for k in e["parts"] if e["parts"][k] != first["parts"][k])
        ctx.report({"part": "compile-determinism", "differs": ",".join(diff)},
                   "program %s: compilation in %s round %d gives digest %s, first compilation %s (differs in: %s)"
                   % (e["prog"], e["proc"], e["round"], e["digest"][:16], first["digest"][:16], ",".join(diff)),
                   {"program": next((c.get("code") or c.get("programs")) for c in corpus if c["id"] == e["prog"].split("/")[0]), "event": e, "first": first})
    # built-in negative control of the relation: one corrupted event must be in Bad
    ctrace = json.loads(json.dumps(trace)); ctrace[len(ctrace) // 2]["digest"] = "f" * 64
    write_ndjson(tf, ctrace)
    rdc = ctx.tlc(LEB_FILES + [tf], "Digest", "Digest.cfg", workers=1, tag="digest-negctl", timeout=(600 if ctx.quick else 14000), count=False)
    vc = [x for x in rdc.json_lines() if isinstance(x, dict) and "bad" in x]
    if not vc or (len(ctrace) // 2 + 1) not in vc[0]["bad"]:
        raise Infra("negative control failed: corrupted digest event not rejected by Digest.tla")
    ctx.add_sample({"leb128 row": brow})
    ctx.add_sample({"program": corpus[len(CORPUS_FIXED)]["code"][:400], "digest event": next(e for e in trace if e["prog"] == corpus[len(CORPUS_FIXED)]["id"])})
    ctx.add_sample({"bundle": BUNDLES_FIXED[1]["programs"]})
    ctx.add_sample({"fixed program": CORPUS_FIXED[3][1][:300]})
    return ctx.finish({
        "states": rn.distinct + rb.distinct, "transitions": rn.generated + rb.generated - 2,
        "traces_validated_against_impl": ls["values"] + compilations,
        "evaluations": ls["evaluations"] + ls["sweep_evaluations"] + isum["corpus_instructions"] + isum["generated_instructions"] + compilations,
        "leb128_values_in_table": ls["values"], "leb128_table_evaluations": ls["evaluations"], "leb128_sweep_evaluations": ls["sweep_evaluations"],
        "distinct_nontrivial": ls["nontrivial"] + isum["distinct_instructions"],
        "rule": "LEB128: table values whose encoding has more than one byte (continuation logic exercised), each a distinct value; "
                "instructions: distinct (opcode, operands) values round-tripped; compile events are counted separately",
        "leb128_length_classes": ls["length_classes"],
        "leb128_values_checked_on_model": (rn.distinct - 1 - (rn.distinct - 1 + 32) // 33) * 256 * 3,
        "instructions_from_corpus": isum["corpus_instructions"], "instructions_generated": isum["generated_instructions"],
        "opcodes_covered": isum["opcodes"], "decodable_opcodes": isum["decodable_opcodes"],
        "programs": csum["programs"], "bundles_of_importing_programs": sum(1 for c in corpus if "programs" in c),
        "compilations": compilations, "digest_events": len(trace), "processes": len(procs), "rounds_per_process": rounds,
        "bundle_rounds_per_process": brounds,
        "functions_compiled": csum["functions"], "instructions_compiled": csum["instructions"],
        "negative_control": "2 corrupted LEB128 rows rejected by the driver; 1 corrupted digest event rejected by Digest.tla",
        "exhaustive": True,
    }, assumptions=["TLA+ decides the LEB128 part (laws on the model + byte-exact table) and the functional relation on the digest trace; the instruction "
                    "codec round trip and the choice of corpus programs are exploration: there is no independent model of the instruction set or the compiler",
                    "compile determinism is observed over the listed processes/rounds only; the corpus is hand-written programs plus seeded generated "
                    "programs with up to 40 shuffled top-level declarations, plus bundles of contracts that import each other (libraries with enums/globals, "
                    "contract interfaces with conditions and 1-4 separate import declarations, conforming contracts that rely on transitive imports, same-named contracts at different addresses)"])


# ------------------------------------------------------------------------------------------
# C17 numeric text / byte encodings
NT_FILES = ["text/Dec.tla", "text/NumTypes.tla", "text/NumText.tla", "text/MC_NumText.tla", "text/MC_NumText_enum5.cfg",
            "text/MC_NumText_enum6.cfg", "text/MC_NumText_file.cfg"]
NUM_TYPES = {}
for _b in (8, 16, 32, 64, 128, 256):
    NUM_TYPES["Int%d" % _b] = (True, False, _b, 0)
    NUM_TYPES["UInt%d" % _b] = (False, False, _b, 0)
    NUM_TYPES["Word%d" % _b] = (False, False, _b, 0)
NUM_TYPES.update({"Int": (True, False, 0, 0), "UInt": (False, False, 0, 0), "Fix64": (True, True, 64, 8), "UFix64": (False, True, 64, 8),
                  "Fix128": (True, True, 128, 24), "UFix128": (False, True, 128, 24)})


def type_bounds(t):
    signed, fixed, bits, scale = NUM_TYPES[t]
    if bits == 0:
        return ((-(1 << 300)) if signed else 0, 1 << 300)
    return (-(1 << (bits - 1)), (1 << (bits - 1)) - 1) if signed else (0, (1 << bits) - 1)


def num_text(t, v, trim=False):
    """generator-side rendering of a scaled value (untrusted; the model decides what every string means)"""
    signed, fixed, bits, scale = NUM_TYPES[t]
    if not fixed:
        return str(v)
    a = abs(v)
    ip, fp = divmod(a, 10 ** scale)
    fs = str(fp).rjust(scale, "0")
    if trim:
        fs = fs.rstrip("0") or "0"
    return ("-" if v < 0 else "") + str(ip) + "." + fs


def numtext_cases(seed, quick):
    rnd = random.Random(1000003 * seed + 17)
    cases = []
    for t in sorted(NUM_TYPES):
        signed, fixed, bits, scale = NUM_TYPES[t]
        lo, hi = type_bounds(t)
        unit = 10 ** scale
        # ---- values: toString / toBigEndianBytes and back
        vals = {0, 1, hi, hi - 1, lo, lo + 1, 9, 10, 11, 99, 100, 127, 128, 255, 256, unit, unit - 1, unit + 1, 5 * unit // 10 or 1}
        if signed:
            vals |= {-1, -9, -10, -128, -129, -unit, -unit + 1, -(unit // 10 or 1)}
        for k in (3, 9, 10, 19, 20, 38, 39, 76, 77):
            vals |= {10 ** k, 10 ** k - 1, -(10 ** k)}
        for k in (7, 8, 15, 16, 31, 32, 63, 64, 127, 128, 255, 256):
            vals |= {1 << k, (1 << k) - 1, -(1 << k), -(1 << k) - 1}
        for _ in range(6 if quick else 60):
            vals.add(rnd.randrange(lo, hi + 1) if bits else rnd.randrange(-(1 << 200) if signed else 0, 1 << 200))
        for v in sorted(vals):
            if lo <= v <= hi:
                cases.append({"k": "S", "t": t, "neg": v < 0, "d": [int(c) for c in str(abs(v))]})
        # ---- strings at the range boundaries, with perturbations
        strs = set()
        bvals = [hi, hi + 1, lo, lo - 1, hi + 10, lo - 10, hi * 10, 0]
        if bits == 0:
            bvals = [10 ** 80, -(10 ** 80), 0, (1 << 256), -(1 << 256) - 1]
        for v in bvals:
            for trim in (False, True):
                x = num_text(t, v, trim)
                strs |= {x, "+" + x.lstrip("-"), "00" + x if not x.startswith("-") else "-00" + x[1:], x + "0", x[:-1] or "0",
                         x[:1] + "_" + x[1:], " " + x, x + " ", x.replace(".", "..", 1), x.replace(".", "", 1), "0x" + x}
                if fixed:
                    strs |= {x + "0" * (scale + 1), x.split(".")[0] + ".", "." + x.split(".")[1], x.split(".")[0] + ".5", x.split(".")[0] + ".9" * 1,
                             x.split(".")[0] + "." + "9" * scale, x.split(".")[0] + "." + "9" * (scale + 1), x.split(".")[0] + ".0", x.split(".")[0] + ".+5"}
        if fixed:
            ih = hi // unit
            il = -((-lo) // unit)
            for ip in (ih, ih + 1, il, il - 1):
                for fp in ("0", "5", "9", "99", "0" * scale, "9" * scale, str(hi % unit).rjust(scale, "0"), str((hi % unit) + 1).rjust(scale, "0"),
                           str((-lo) % unit).rjust(scale, "0"), str(((-lo) % unit) + 1).rjust(scale, "0"), "1" + "0" * (scale - 1), "0" * (scale - 1) + "1"):
                    strs.add("%d.%s" % (ip, fp))
        strs |= {"", "-", "+", ".", "0", "-0", "+0", "-0.0", "+0.0", "0.0", "1" * 200, "-" + "1" * 200, "1." + "0" * 30, "1e5", "1E5", "٣", "１２"}
        for x in sorted(strs):
            if len(x) <= 260:
                cases.append({"k": "P", "t": t, "s": list(x)})
        # ---- byte arrays of every length 0..size+1
        size = bits // 8
        lens = range(0, size + 2) if size else list(range(0, 12)) + [16, 17, 31, 32, 33, 40]
        for n in lens:
            pats = [[0] * n, [255] * n, [128] + [0] * (n - 1), [127] + [255] * (n - 1), [0] * (n - 1) + [1], [1] + [0] * (n - 1), [0, 128] + [255] * (n - 2),
                    [255, 127] + [0] * (n - 2), [rnd.randrange(256) for _ in range(n)], [rnd.randrange(256) for _ in range(n)]]
            seen = set()
            for b in pats:
                b = b[:n]
                if len(b) == n and bytes(b) not in seen:
                    seen.add(bytes(b))
                    cases.append({"k": "B", "t": t, "b": b})
    for b in ([0] * 8, [0] * 7 + [1], [255] * 8, [0, 0, 0, 0, 0, 0, 16, 0], [18, 52, 86, 120, 154, 188, 222, 240]):
        cases.append({"k": "A", "b": b})
    for _ in range(20 if quick else 300):
        cases.append({"k": "A", "b": [rnd.randrange(256) for _ in range(8)]})
        cases.append({"k": "H", "b": [rnd.randrange(256) for _ in range(rnd.randrange(0, 41))]})
    cases.append({"k": "H", "b": []})
    cases.append({"k": "H", "b": list(range(256))})
    idc = "abcdefghijklmnopqrstuvwxyzABCDEFGHIJKLMNOPQRSTUVWXYZ_0123456789"
    for ident in ["foo", "a", "_x1", "Abc_9", "storage", "x" * 40] + ["".join([rnd.choice(idc[:53])] + [rnd.choice(idc) for _ in range(rnd.randrange(0, 12))]) for _ in range(10 if quick else 100)]:
        for dom in ("storage", "public", "private"):
            cases.append({"k": "Q", "dom": list(dom), "id": list(ident)})
    return cases


def nt_sig(f):
    return {"op": f["op"], "ty": f.get("ty", ""), "class": f.get("class", ""), "width": f.get("width", ""), "dev": f["dev"],
            "shape": f.get("shape", ""), "engine": f.get("engine", "")}


def check_C17(ctx):
    binary = ctx.build("text")
    re_ = ctx.tlc(NT_FILES, "MC_NumText", "MC_NumText_enum5.cfg" if ctx.quick else "MC_NumText_enum6.cfg", workers=ctx.cores,
                  tag="numtext-enum", timeout=(3000 if ctx.quick else 14000))
    cases = numtext_cases(ctx.seed, ctx.quick)
    cf = os.path.join(ctx.work, "cases.ndjson")
    write_ndjson(cf, cases)
    rf = ctx.tlc(NT_FILES + [cf], "MC_NumText", "MC_NumText_file.cfg", workers=ctx.cores, tag="numtext-cases", timeout=(3000 if ctx.quick else 14000))
    frows = table_rows(rf)
    nS = sum(1 for c in cases if c["k"] == "S")
    if len(frows) != len(cases):
        raise Infra("case table has %d rows for %d cases" % (len(frows), len(cases)))
    summary, fails = run_driver(ctx, binary, "numtext", [tlc_out(re_), tlc_out(rf)], "numtext", timeout=(3000 if ctx.quick else 14000))
    if summary["rows"] != re_.distinct + len(frows):
        raise Infra("driver judged %d rows, TLC printed %d" % (summary["rows"], re_.distinct + len(frows)))
    for f in fails:
        ctx.report(nt_sig(f), "%s %s (%s, %s): %s: %s" % (f.get("ty", ""), f["op"], f.get("engine", ""), f.get("shape", ""), f["dev"], f["msg"]),
                   {"op": f["op"], "type": f.get("ty"), "input": f.get("input"), "engine": f.get("engine"), "observed": f["msg"]})
    # negative control: corrupted rows must be rejected
    prow = next(r for r in frows if r[0] == "P" and r[3] != 0 and r[1] == "Int64" and len(r[3]["d"]) > 3)
    srow = next(r for r in frows if r[0] == "S" and r[1] == "Fix64" and len(r[3]) > 3)
    brow = next(r for r in frows if r[0] == "B" and r[1] == "Int32" and len(r[2]) == 5)
    c1 = json.loads(json.dumps(prow)); c1[3]["d"][-1] = (c1[3]["d"][-1] + 1) % 10
    c2 = json.loads(json.dumps(prow)); c2[3] = 0
    c3 = json.loads(json.dumps(srow)); c3[4][-1] = "1" if c3[4][-1] != "1" else "2"
    c4 = json.loads(json.dumps(brow)); c4[3] = {"n": False, "d": [1]}; c4[4] = [0, 0, 0, 1]
    nf = os.path.join(ctx.work, "negctl.ndjson")
    write_ndjson(nf, [c1, c2, c3, c4])
    _, nfails = run_driver(ctx, binary, "numtext", [nf], "numtext-negctl")
    devs = {(f["op"], f["dev"]) for f in nfails}
    need = {("fromString", "wrong-value"), ("fromString", "accepts-specified-nil"), ("toString", "wrong-text"), ("fromBigEndianBytes", "nil-for-specified-value")}
    if not need <= devs:
        raise Infra("negative control failed: corrupted rows not all rejected: %s" % sorted(devs))
    erows = [r for r in table_rows(re_) if r[3]]
    ctx.add_sample({"enumerated string": "".join(erows[len(erows) // 2][1]), "class results": erows[len(erows) // 2][2], "nil for": erows[len(erows) // 2][3]})
    ctx.add_sample({"boundary string row": [prow[1], "".join(prow[2]), prow[3]]})
    ctx.add_sample({"value row": [srow[1], srow[2], "".join(map(str, srow[3])), "".join(srow[4]), srow[5]]})
    ctx.add_sample({"bytes row": brow})
    return ctx.finish({
        "states": re_.distinct + rf.distinct, "transitions": re_.generated + rf.generated - 2,
        "traces_validated_against_impl": summary["rows"],
        "evaluations": summary["evaluations"],
        "distinct_nontrivial": summary["nontrivial"],
        "rule": "distinct (operation, type, input) cases executed in real scripts; a fromString case is non-trivial when the string contains a digit "
                "(so the automaton, scale or range rule decides) -- pure garbage strings are counted as evaluations only",
        "distinct_cases": summary["distinct"],
        "enumerated_strings": re_.distinct, "string_type_pairs": re_.distinct * 24,
        "boundary_cases": len(cases), "scripts": summary["scripts"],
        "negative_control": "4 corrupted rows (value digit, accept->nil, toString text, over-long bytes expected non-nil) all rejected",
        "exhaustive": True,
    }, assumptions=["sign rule per class taken from the fixed-width parsers (signed: +/-, unsigned integer: none, unsigned fixed: +); the reference only says invalid input gives nil",
                    "fromBigEndianBytes with fewer bytes than the type's size: the bytes are the low-order bytes (zero padding); the property only fixes the round trip and the nil rule",
                    "values are passed to scripts as JSON-CDC arguments built from Go big integers (not through Cadence literals)"])


# ------------------------------------------------------------------------------------------
# C40 literals
LIT_FILES = ["text/Dec.tla", "text/NumTypes.tla", "text/Literals.tla", "text/MC_Literals.tla", "text/MC_Literals_int_q.cfg",
             "text/MC_Literals_int_t.cfg", "text/MC_Literals_fix_q.cfg", "text/MC_Literals_fix_t.cfg", "text/MC_Literals_file.cfg"]


def to_base(n, base):
    ds = "0123456789abcdef"
    if n == 0:
        return "0"
    out = ""
    while n:
        out = ds[n % base] + out
        n //= base
    return out


def literal_cases(seed, quick):
    rnd = random.Random(1000003 * seed + 40)
    cases = []

    def underscore(body):
        if len(body) < 3 or rnd.random() < 0.5:
            return body
        i = rnd.randrange(1, len(body))
        return body[:i] + "_" * rnd.choice([1, 1, 2]) + body[i:]

    for t in sorted(NUM_TYPES):
        signed, fixed, bits, scale = NUM_TYPES[t]
        lo, hi = type_bounds(t)
        if not fixed:
            vals = {hi, hi + 1, hi - 1, -lo, -lo + 1, -lo - 1, 0, 1, hi * 16 + 15}
            if bits == 0:
                vals = {10 ** 100, (1 << 300) + 1, 0, 1, 12345678901234567890123456789}
            for _ in range(2 if quick else 20):
                vals.add(rnd.randrange(0, hi + 2))
            for v in sorted(x for x in vals if x >= 0):
                for prefix, base in (("", 10), ("0b", 2), ("0o", 8), ("0x", 16)):
                    body = to_base(v, base)
                    if base == 16 and rnd.random() < 0.5:
                        body = body.upper()
                    variants = {body, "0" * rnd.choice([1, 3, 64]) + body, underscore(body), body + "_", "_" + body if prefix else body}
                    if not quick or base in (10, 16):
                        variants.add("0" * 300 + body)                      # hundreds of digits
                    for b in sorted(variants):
                        for neg in (False, True):
                            cases.append({"k": "I", "t": t, "neg": neg, "prefix": list(prefix), "body": list(b)})
        else:
            unit = 10 ** scale
            svals = {hi, hi + 1, hi - 1, -lo, -lo + 1, -lo - 1, 0, 1, unit, unit - 1, (hi // unit) * unit + unit // 2, (hi // unit + 1) * unit,
                     (-lo // unit) * unit + unit // 2, (hi // unit) * unit + (hi % unit) // 10 * 10 + 10}
            for _ in range(3 if quick else 30):
                svals.add(rnd.randrange(0, hi + 2))
            for v in sorted(x for x in svals if x >= 0):
                ip, fp = divmod(v, unit)
                fs = str(fp).rjust(scale, "0")
                fracs = {fs, fs.rstrip("0") or "0", fs + "0", fs + "1", fs[:max(1, scale // 2)], underscore(fs), fs[:-1] or "0"}
                ints = {str(ip), "00" + str(ip), underscore(str(ip))}
                for i_ in sorted(ints):
                    for f_ in sorted(fracs):
                        for neg in (False, True):
                            cases.append({"k": "F", "t": t, "neg": neg, "ip": list(i_), "fp": list(f_)})
    # string / character literals: tokens = ordinary code points (NFC-stable), simple escapes, \u{...} escapes
    ordinary = [97, 122, 65, 48, 32, 33, 126, 233, 946, 8364, 20013, 128512, 65533]
    simple = ["0", "\\", "t", "n", "r", "\"", "'"]
    uni = ["0", "41", "7f", "80", "e9", "7FF", "800", "fFfF", "10000", "1F600", "10FFFF", "0041", "000041", "00000041", "D7FF", "E000",
           "D800", "DBFF", "DC00", "DFFF", "110000", "FFFFFFFF", "000000041", "", "12G", "fffe"]
    for l in simple + ["a", "x", "U", "e", "1", "N", " "]:
        cases.append({"k": "S", "toks": [{"e": l}], "ch": False})
    for u in uni:
        cases.append({"k": "S", "toks": [{"u": list(u)}], "ch": False})
        cases.append({"k": "S", "toks": [{"c": 97}, {"u": list(u)}, {"c": 98}], "ch": False})
    for u in ("41", "e9", "1F600", "D800", "0"):
        cases.append({"k": "S", "toks": [{"u": list(u)}], "ch": True})
    for l in simple:
        cases.append({"k": "S", "toks": [{"e": l}], "ch": True})
    good_uni = ["41", "e9", "7FF", "800", "fFfF", "10000", "1F600", "10FFFF", "0041", "E000", "D7FF", "0"]
    for _ in range(60 if quick else 1500):
        toks = []
        for _ in range(rnd.randrange(0, 9)):
            r = rnd.random()
            if r < 0.4:
                toks.append({"c": rnd.choice(ordinary)})
            elif r < 0.7:
                toks.append({"e": rnd.choice(simple)})
            else:
                toks.append({"u": list(rnd.choice(good_uni if rnd.random() < 0.85 else uni))})
        cases.append({"k": "S", "toks": toks, "ch": False})
    return cases


def lit_sig(f):
    return {"kind": f["kind"], "ty": f.get("ty", ""), "class": f.get("class", ""), "dev": f["dev"], "why": f.get("why", ""),
            "shape": f.get("shape", ""), "base": f.get("base", 0), "engine": f.get("engine", "")}


def check_C40(ctx):
    binary = ctx.build("text")
    ri = ctx.tlc(LIT_FILES, "MC_Literals", "MC_Literals_int_q.cfg" if ctx.quick else "MC_Literals_int_t.cfg", workers=ctx.cores,
                 tag="lit-int", timeout=(3000 if ctx.quick else 14000))
    rx = ctx.tlc(LIT_FILES, "MC_Literals", "MC_Literals_fix_q.cfg" if ctx.quick else "MC_Literals_fix_t.cfg", workers=ctx.cores,
                 tag="lit-fix", timeout=(3000 if ctx.quick else 14000))
    cases = literal_cases(ctx.seed, ctx.quick)
    cf = os.path.join(ctx.work, "cases.ndjson")
    write_ndjson(cf, cases)
    rf = ctx.tlc(LIT_FILES + [cf], "MC_Literals", "MC_Literals_file.cfg", workers=ctx.cores, tag="lit-cases", timeout=(3000 if ctx.quick else 14000))
    frows = table_rows(rf)
    if len(frows) != len(cases):
        raise Infra("case table has %d rows for %d cases" % (len(frows), len(cases)))
    summary, fails = run_driver(ctx, binary, "literals", [tlc_out(ri), tlc_out(rx), tlc_out(rf)], "literals", timeout=(3000 if ctx.quick else 14000))
    for f in fails:
        ctx.report(lit_sig(f), "%s literal `%s` for %s (%s): %s: %s" % (f["kind"], f["literal"][:80], f.get("ty", ""), f.get("engine", ""), f["dev"], f["msg"][:600]),
                   {"literal": f["literal"], "type": f.get("ty"), "spec": f.get("why"), "observed": f["msg"]})
    # negative control
    ip = next(r for r in frows if r[0] == "IP" and r[6] and r[1] == "Int64" and len(r[7]) > 3 and not r[2])
    fpr = next(r for r in frows if r[0] == "FP" and r[6] and r[1] == "UFix64" and len(r[7]) > 3)
    sr = next(r for r in frows if r[0] == "S" and r[2] and len(r[3]) >= 2 and not r[4])
    c1 = json.loads(json.dumps(ip)); c1[7][-1] = (c1[7][-1] + 1) % 10
    c2 = json.loads(json.dumps(ip)); c2[6] = False
    c3 = json.loads(json.dumps(fpr)); c3[7][0] = c3[7][0] % 9 + 1
    c4 = json.loads(json.dumps(sr)); c4[3][0] += 1
    nf = os.path.join(ctx.work, "negctl.ndjson")
    write_ndjson(nf, [c1, c2, c3, c4])
    _, nfails = run_driver(ctx, binary, "literals", [nf], "literals-negctl")
    devs = {(f["kind"], f["dev"]) for f in nfails}
    need = {("int", "wrong-value"), ("int", "accepts-specified-reject"), ("fixed", "wrong-value"), ("string", "wrong-value")}
    if not need <= devs:
        raise Infra("negative control failed: corrupted rows not all rejected: %s" % sorted(devs))
    irows = table_rows(ri)
    ctx.add_sample({"integer literal row": ["".join(irows[len(irows) // 2][1]) + "".join(irows[len(irows) // 2][2])] + irows[len(irows) // 2][3:5]})
    ctx.add_sample({"generated integer literal": [ip[1], ("-" if ip[2] else "") + "".join(ip[3]) + "".join(ip[4])[:80], "accept", ip[6]]})
    ctx.add_sample({"generated fixed-point literal": [fpr[1], ("-" if fpr[2] else "") + "".join(fpr[3]) + "." + "".join(fpr[4]), "accept", fpr[6], fpr[8]]})
    ctx.add_sample({"string literal tokens": sr[1], "code points": sr[3]})
    return ctx.finish({
        "states": ri.distinct + rx.distinct + rf.distinct, "transitions": ri.generated + rx.generated + rf.generated - 3,
        "traces_validated_against_impl": summary["rows"],
        "evaluations": summary["checks"] + summary["values"] + summary["string_evals"],
        "checker_runs": summary["checks"], "values_evaluated_in_scripts": summary["values"], "string_literal_runs": summary["string_evals"],
        "distinct_nontrivial": summary["nontrivial"],
        "rule": "distinct (type, literal text) pairs; non-trivial = the literal contains a digit (well-formed, or ill-formed only by an underscore / "
                "digit-of-base rule) or, for strings, an escape sequence",
        "distinct_cases": summary["distinct"], "generated_cases": len(cases),
        "ill_formed_strings_tolerated_by_lexer_not_judged": summary["ill_formed_tolerated"],
        "negative_control": "4 corrupted rows (int value digit, accept->reject, fixed value digit, string code point) all rejected",
        "exhaustive": True,
    }, assumptions=["literals are checked in the context `let x: T = <literal>` with T an integer type for integer literals and a fixed-point type for fixed-point literals",
                    "string literal tokens use NFC-stable characters only (normalisation is property C19's subject)",
                    "strings that are not literals of the grammar (misplaced underscores, digits outside the base, \\u{} without digits) are outside the "
                    "property's domain: enumerated and counted, but their acceptance is not judged",
                    "values of accepted literals are read back through script results"])


META = {
    "C46": {
        "level_text": "TLC evaluates the RLP decoder specification (Rlp.tla: encoder = definition of canonical, DecodeString, one-level DecodeList, "
                      "recursive Deep) on one state per input: every byte string over a 19-byte boundary alphabet up to length 4 (5 thorough), every "
                      "byte string up to length 2 (thorough: also every 3-byte string whose first byte is one of the 19 boundary bytes), and the encoder's images of seeded random nested items plus header mutants "
                      "(every long form with leading zeros, off-by-one lengths, declared lengths up to 2^64-1, truncation, extension, kind flip, "
                      "also on direct list items). Laws checked by TLC on every state: accepted implies re-encoding gives the input, the three "
                      "decoders agree, Deep(Enc(t)) = t. Every row is compared with stdlib/rlp.DecodeString/DecodeList, with recursive decoding "
                      "through that API, and with RLP.decodeString/decodeList scripts on interpreter and VM (value, user error, never internal).",
        "level_note": "Trusted: TLC, the JSON row printer, the Go comparison loop. Bounded: inputs < 2^24 bytes; beyond the enumerated lengths only "
                      "generated cases. The Cadence wrappers (scripts on both engines) are exercised on all generated cases and on a hash-selected share of the enumerated tables (1/2 and 1/4 quick; 1/8, 1/4, 1/32 thorough); the Go API on every row.",
        "technique": "TLA+ function specification model-checked with TLC (laws as invariants), TLC-evaluated table compared with the real functions (E4)",
        "design_ref": "DESIGN.md section 5 C46, Appendix A.5",
        "engine": "E4 table conformance",
    },
    "C47": {
        "level_text": "Random.tla specifies rejection sampling on big-endian byte sequences (exact for all widths) as a state machine with one "
                      "action per request to the source. TLC explores one state per case: every UInt8 modulus 0..255 x every first byte x two "
                      "second bytes, boundary UInt16 moduli x all 65536 first draws, and seeded boundary/adversarial cases for the 32..256-bit "
                      "types, the no-modulo path and zero moduli; invariants: result < m, uniform request size, and uniformity by counting "
                      "(8-bit: equal non-zero histogram over all 256 draws for every m; 16-bit: low-bits identity for all draws + counting lemma). "
                      "Every case is replayed through real scripts on interpreter and VM with a scripted finite source; request sizes, number of "
                      "draws and the result must equal the model; zero modulo must be the user error without touching the source.",
        "level_note": "Trusted: TLC, the row printer, the Go replay loop, host.World's random callback. Uniformity for widths above 16 bits is not "
                      "enumerated; it follows from the same width-independent definitions that are checked exhaustively at 8 bits.",
        "technique": "TLA+ state machine model-checked with TLC; its behaviours replayed into the real runtime (E2)",
        "design_ref": "DESIGN.md section 5 C47",
        "engine": "E2 replay",
    },
    "C35": {
        "level_text": "Leb128.tla specifies unsigned/signed LEB128 twice (native integers and exact sign+byte-sequence numbers) and TLC checks on every "
                      "value n and -n below 2^16 (2^21 thorough): decode(encode(n) ++ garbage) = (n, length), the closed-form length, minimality, and "
                      "agreement of the two formulations; on 2^k+d (k <= 64, |d| <= 2, both signs) and seeded random 64-bit values the big-number laws. "
                      "TLC prints the expected bytes; bbq/leb128 Append*/Read* (32 and 64 bit) must reproduce bytes, value and length. Exploration part: "
                      "every instruction of the compiled corpus and generated instructions of every opcode with operands at width boundaries "
                      "round-trip through Encode/DecodeInstruction; each corpus program (single programs and bundles of contracts importing each other) is compiled repeatedly in several fresh processes, bundle members 60+ times per process, and "
                      "Digest.tla checks that the digest (code, constants, function order, types, globals) is a function of the program.",
        "level_note": "Model checking applies to LEB128 only. The instruction codec and compile determinism have no independent model: they are "
                      "relational exploration (round trip, functional digest) over a corpus; a non-determinism that needs a program shape outside the "
                      "corpus is not found. Trusted: TLC, JSON printers, Go comparison loops, the digest function.",
        "technique": "TLA+ function specification model-checked with TLC + table conformance (E4); relational trace validation of digests (E3); round-trip exploration",
        "design_ref": "DESIGN.md section 5 C35",
        "engine": "E4 table + E3 relational",
    },
    "C17": {
        "level_text": "NumText.tla specifies fromString as an acceptance automaton parameterised only by (signed, fixed-point) followed by the value "
                      "fold on exact decimal digit sequences, the scale rule and the range check; toString; and the big-endian byte fold with the "
                      "nil-iff-longer rule. TLC enumerates every string of length <= 5 (6 thorough) over {+,-,0,7,_,.,space,x} (one state each, "
                      "width-independence checked per string) and seeded boundary cases for all 24 numeric types (values at the range bounds, "
                      "strings at max/min +-1 with sign, zero, underscore, whitespace, scale perturbations, 200-digit strings; byte arrays of every "
                      "length 0..size+1), checking string and byte round-trip laws on the model. Every row is executed through real scripts on "
                      "interpreter and VM: fromString for every string x every type, toString, to/fromBigEndianBytes, plus address/hex/path text forms.",
        "level_note": "Trusted: TLC, the private decimal arithmetic module Dec.tla, JSON printers, the Go comparison loops and JSON-CDC argument passing. "
                      "Strings longer than the enumeration bound are covered by generated boundary cases only.",
        "technique": "TLA+ function specification model-checked with TLC; TLC-evaluated table compared with the real functions (E4)",
        "design_ref": "DESIGN.md section 5 C17",
        "engine": "E4 table conformance",
    },
    "C40": {
        "level_text": "Literals.tla specifies integer literals (prefix, digits of the base, underscores inside only, value by fold on exact decimal digit "
                      "sequences), fixed-point literals (exact scaled value, scale rule), the per-type range check and string escape decoding as a "
                      "token transducer. TLC enumerates every integer literal body up to 6 characters decimal / 4 after a prefix (7 / 5 thorough) over "
                      "per-base class alphabets incl. underscore and an out-of-base digit, every fixed-point string up to 6 (7) characters over "
                      "{0,1,9,_,.}, and seeded long literals (up to 300+ digits, all four bases, underscores, leading zeros) at the exact range "
                      "bounds of all 24 numeric types plus string/character literals with every escape form. Each (literal, type, sign) goes through "
                      "the real parser and checker (accept iff specified), accepted ones are evaluated in scripts on both engines and compared "
                      "with the specified value.",
        "level_note": "Trusted: TLC, Dec.tla, JSON printers, Go comparison loops. Only the context `let x: T = literal` is exercised; literals in "
                      "other positions (arguments, array sizes, addresses) are not.",
        "technique": "TLA+ function specification model-checked with TLC; TLC-evaluated table compared with the real parser/checker/runtime (E4)",
        "design_ref": "DESIGN.md section 5 C40",
        "engine": "E4 table conformance",
    },
}
