"""Family "types": C06 entitlement algebra, C08 subtyping, C45 type identity, C09 casts.

All four are E4 table conformance on top of TLC model checking: TLC checks the laws on the
specification (spec/lang/*.tla) and evaluates the specified function over the whole bounded domain;
harness/cmd/types builds the real objects / runs the real programs and compares point by point.
Named deviations of the specification (DevImageDropsEmpty, DevNeverKind, DevRefForward) are evaluated
by TLC as well; a disagreement is a KNOWN finding only when the deviation variant reproduces the
implementation's entry, anything else is a VIOLATION."""
import json, os, threading, collections
from vlib.core import Infra, read_ndjson, write_ndjson

LEVEL = {"C06": "model_checking", "C08": "model_checking", "C45": "model_checking", "C09": "model_checking"}

ENT_FILES = ["lang/EntitlementsBase.tla", "lang/Entitlements.tla", "lang/MC_Entitlements.tla", "lang/MC_Entitlements_side.tla",
             "lang/MC_Entitlements_lemma.tla",
             "lang/MC_Entitlements_q.cfg", "lang/MC_Entitlements_t.cfg", "lang/MC_Entitlements_dev.cfg",
             "lang/MC_Entitlements_devcause_q.cfg", "lang/MC_Entitlements_devcause_t.cfg",
             "lang/MC_Entitlements_lemma.cfg"]


def jvm_env():
    """TLC's default JVM (1/4 of RAM as heap, one GC thread per core) thrashes when several TLC runs
    share the machine; a bounded heap and few GC threads is 3-5x faster for these small models."""
    if "-Xmx" not in os.environ.get("JAVA_TOOL_OPTIONS", ""):
        os.environ["JAVA_TOOL_OPTIONS"] = (os.environ.get("JAVA_TOOL_OPTIONS", "") + " -Xmx4g -XX:ParallelGCThreads=4").strip()


def parallel(jobs):
    """Run thunks concurrently (TLC side runs); re-raise the first exception."""
    res, errs = [None] * len(jobs), []

    def run(i, f):
        try:
            res[i] = f()
        except BaseException as e:  # noqa
            errs.append(e)
    ths = [threading.Thread(target=run, args=(i, f)) for i, f in enumerate(jobs)]
    for t in ths:
        t.start()
    for t in ths:
        t.join()
    if errs:
        raise errs[0]
    return res


def driver_rows(ctx, binary, sub, inp, tag, env=None, timeout=3000):
    out = os.path.join(ctx.work, tag + ".results.ndjson")
    p = ctx.run([binary, sub, inp, out], timeout=timeout, env=env)
    for ln in p.stderr.splitlines():
        if ln.strip():
            ctx.log("  " + ln.strip())
    rows = read_ndjson(out)
    summ = [r for r in rows if r.get("summary")]
    if not summ:
        raise Infra("driver %s wrote no summary" % sub)
    for r in rows:
        if r.get("harness"):
            raise Infra("harness/renderer error in %s: %s\n%s" % (sub, r.get("msg"), (r.get("src") or "")[:3000]))
    return summ[0], [r for r in rows if r.get("fail")], [r for r in rows if r.get("sample")]


def corrupt_requested():
    """Negative control: VERIF_CORRUPT=1 flips one entry of the TLC table before the comparison."""
    return os.environ.get("VERIF_CORRUPT", "") not in ("", "0")


# =========================================================================================== C06
def check_C06(ctx):
    jvm_env()
    binary = ctx.build("types")
    cfgs = ["MC_Entitlements_q.cfg"] if ctx.quick else ["MC_Entitlements_q.cfg", "MC_Entitlements_t.cfg"]
    jobs = []
    for cfg in cfgs:
        jobs.append(lambda cfg=cfg: ctx.tlc(ENT_FILES, "MC_Entitlements", cfg, tag="ent-" + cfg[16:-4], timeout=2400))
    # the implemented image rule (deviation DevImageDropsEmpty) is refuted by TLC on the model ...
    jobs.append(lambda: ctx.tlc(ENT_FILES, "MC_Entitlements_side", "MC_Entitlements_dev.cfg", workers=1, tag="ent-dev",
                                expect_violation=True, count=False))
    # ... and it is the only cause of unsound images / upcast escalation in the deviating model
    jobs.append(lambda: ctx.tlc(ENT_FILES, "MC_Entitlements_side",
                                "MC_Entitlements_devcause_q.cfg" if ctx.quick else "MC_Entitlements_devcause_t.cfg",
                                tag="ent-devcause", timeout=2400))
    jobs.append(lambda: ctx.tlc(ENT_FILES, "MC_Entitlements_lemma", "MC_Entitlements_lemma.cfg", workers=1, tag="ent-lemma"))
    results = parallel(jobs)
    dev = results[len(cfgs)]
    if not dev.violated or "ImageSound" not in dev.out:
        raise Infra("the DevImageDropsEmpty variant of the model no longer refutes ImageSound -- the specification changed?")
    cex = [ln for ln in dev.lines if ln.startswith("/\\ m = ")]
    ctx.add_sample({"kind": "TLC counterexample to ImageSound under DevImageDropsEmpty (implemented rule)",
                    "mapping": cex[-1][7:] if cex else "?"})

    total = collections.Counter()
    notes = collections.Counter()
    for cfg, r in zip(cfgs, results):
        rows = r.json_lines()
        base = [x for x in rows if x.get("kind") == "base"]
        maps = {}
        for x in rows:
            if x.get("kind") == "map":
                maps[json.dumps([x["rel"], x["id"]], sort_keys=True)] = x
        if len(base) != 1 or len(maps) != r.distinct:
            raise Infra("TLC table incomplete: %d base rows, %d mapping rows, %d states" % (len(base), len(maps), r.distinct))
        maps = list(maps.values())
        if corrupt_requested():
            b = base[0]
            i, j = len(b["auths"]) - 1, len(b["auths"]) // 2
            s = b["permits"][i]
            b["permits"][i] = s[:j] + ("0" if s[j] == "1" else "1") + s[j + 1:]
            ctx.log("NEGATIVE CONTROL: flipped Permits[%d][%d] in the TLC table" % (i, j))
        tag = "ent-" + cfg[16:-4]
        inp = os.path.join(ctx.work, tag + ".tables.ndjson")
        write_ndjson(inp, base + maps)
        env = {}
        if ctx.quick:
            env["VERIF_ENT_PROGS"] = "220"
        elif cfg.endswith("_t.cfg"):
            env["VERIF_ENT_PROGS"] = "2500"
        summ, fails, samples = driver_rows(ctx, binary, "ent", inp, tag, env=env)
        for f in fails:
            sig = {"kind": f["kind"], "deviation": f.get("deviation", "none")}
            if f.get("impl"):
                sig["impl"] = f["impl"]
            if f.get("engine"):
                sig["engine"] = f["engine"]
            ctx.report(sig, "[%s] %s" % (f["kind"], f["msg"]), {"case": f.get("case"), "program": f.get("src")})
        for k in ("evaluations", "distinct_nontrivial", "mappings", "program_mappings", "programs"):
            total[k] += summ[k]
        for k, v in (summ.get("notes") or {}).items():
            notes[k] += v
        for s in samples[:2]:
            ctx.add_sample({"kind": s["kind"], "what": s["msg"], "case": s.get("case"), "program": (s.get("src") or "")[:1200]})
        ctx.log("%s: %d authorizations, %d mappings (programs for %d), %d evaluations, %d disagreements" %
                (tag, summ["authorizations"], summ["mappings"], summ["program_mappings"], summ["evaluations"], len(fails)))
    return ctx.finish({
        "traces_validated_against_impl": total["mappings"] + total["programs"] * 2,
        "evaluations": total["evaluations"],
        "distinct_nontrivial": total["distinct_nontrivial"],
        "rule": "distinct table cells / program probes whose operands are all entitlement sets (no unauthorized/self operand) "
                "and, for images, whose mapping is not empty; each compared with the TLC-evaluated possible-worlds semantics",
        "mappings_in_model": total["mappings"],
        "mappings_with_generated_programs": total["program_mappings"],
        "programs_executed_per_engine": total["programs"],
        "exhaustive": True,
        "precision_notes": dict(notes),
    }, assumptions=[
        "universe of 3 entitlements (all 1024 mappings incl. identity) in both tiers; thorough adds 4 entitlements with <= 4 relations (5034 mappings)",
        "include chains are rendered by the driver (1-3 layers, seeded) and the resolved relation is compared with the model's flattened mapping",
        "an unrepresentable image (checker rejects the access) grants nothing and is therefore sound",
        "verdict for intersection and image is soundness (never grants more), as the property states; answers that are sound but differ from the documented rule are counted in precision_notes, not reported",
    ])


# =========================================================================================== C08
SUB_FILES = ["lang/EntitlementsBase.tla", "lang/Types.tla", "lang/SubtypeRel.tla", "lang/Subtype.tla", "lang/MC_Subtype.tla"] + \
            ["lang/MC_Subtype_d%d_%s.cfg" % (d, v) for d in (1, 2, 3) for v in ("exact", "dev")]


def subtype_tables(ctx, depth):
    """TLC: laws of the exact relation (invariant Laws), and the relation as a table in both variants."""
    jobs = [lambda v=v: ctx.tlc(SUB_FILES, "MC_Subtype", "MC_Subtype_d%d_%s.cfg" % (depth, v), workers=1,
                                tag="sub-d%d-%s" % (depth, v), timeout=3000) for v in ("exact", "dev")]
    ex, dv = parallel(jobs)
    te, td = ex.json_lines(), dv.json_lines()
    if len(te) != 1 or len(td) != 1:
        raise Infra("TLC did not print the subtype table")
    te, td = te[0], td[0]
    if te["types"] != td["types"] or te["dev"] or not td["dev"]:
        raise Infra("exact / DevNeverKind tables are over different universes")
    if td["nontransitive"] == 0:
        raise Infra("the DevNeverKind variant is transitive: the named deviation lost its meaning")
    return te, td


def check_C08(ctx):
    jvm_env()
    binary = ctx.build("types")
    depth = 2 if ctx.quick else 3
    te, td = subtype_tables(ctx, depth)
    n = len(te["types"])
    ctx.log("universe: %d types; exact relation: %d pairs, %d equivalent pairs; DevNeverKind: %d non-transitive (a<:b) pairs" %
            (n, sum(len(r) for r in te["rows"]), te["equivalent"], td["nontransitive"]))
    exact = [list(r) for r in te["rows"]]
    devrows = [list(r) for r in td["rows"]]
    if corrupt_requested():
        i = n // 2
        j = 1 + (n // 3)
        for tab in (exact, devrows):      # the corrupted entry is "the specification's" in both variants
            if j in tab[i]:
                tab[i].remove(j)
            else:
                tab[i].append(j)
        ctx.log("NEGATIVE CONTROL: flipped entry (%d, %d) of the TLC subtype table" % (i + 1, j))
    inp = os.path.join(ctx.work, "subtype.table.json")
    json.dump({"types": te["types"], "exact": exact, "dev": devrows}, open(inp, "w"))
    summ, fails, samples = driver_rows(ctx, binary, "sub", inp, "sub")
    for f in fails:
        sig = {"kind": f["kind"], "deviation": f.get("deviation", "none"), "impl": f.get("impl", "")}
        if f.get("shape"):
            sig["shape"] = f["shape"]
        ctx.report(sig, "[%s] %s" % (f["kind"], f["msg"]), {"case": f.get("case")})
    if summ["fails"] > len(fails):
        ctx.log("(%d disagreements in total, first %d classified)" % (summ["fails"], len(fails)))
    for s_ in samples:
        ctx.add_sample({"kind": "subtype table cell", "case": s_.get("case")})
    ctx.add_sample({"kind": "type terms of the universe", "terms": te["types"][n // 2: n // 2 + 3]})
    ctx.log("%d types (%d denotable, %d judged) x %d implementations: %d evaluations, %d transitivity triples examined, %d disagreements" %
            (summ["types"], summ["denotable"], summ["judged"], summ["implementations"], summ["evaluations"], summ["triples"], summ["fails"]))
    return ctx.finish({
        "traces_validated_against_impl": summ["judged"] * summ["judged"],
        "evaluations": summ["evaluations"],
        "distinct_nontrivial": summ["distinct_nontrivial"],
        "rule": "ordered pairs of distinct judged types where the specification says 'subtype' for a reason other than Never-bottom/Any-top, "
                "or whose outermost constructors coincide (variance rules apply); each evaluated by 6 implementation entry points",
        "types_in_universe": summ["types"], "types_denotable": summ["denotable"], "types_judged": summ["judged"],
        "implementations": summ["implementations"],
        "transitivity_triples_examined_on_impl_tables": summ["triples"],
        "exhaustive": True,
    }, assumptions=[
        "a type takes part in the verdict when the checker accepts it as an annotation (bare interface/attachment types, InclusiveRange<Integer> are not denotable), "
        "plus Any (as top only) and function types with a type parameter (built through the sema API)",
        "universe depth %d of spec/lang/Types.tla (constructors over representatives of each rule's equivalence classes)" % depth,
        "legacy intersection types T{Us}, the Storable bound and the invalid type are outside the universe",
    ])


# =========================================================================================== C45
def location_pool(rng, per_kind):
    """Seeded pool of locations of every kind (records of TypeId.tla); the script location 00..01 is
    always present: the run-time type constructors are exercised at exactly that location."""
    import string
    def ident():
        first = string.ascii_letters + "_"
        rest = first + string.digits
        return rng.choice(first) + "".join(rng.choice(rest) for _ in range(rng.randint(0, 10)))
    def bs(n):
        return [rng.randint(0, 255) for _ in range(n)]
    locs = [{"k": "s", "addr": [], "id": "", "h": [0] * 31 + [1]}, {"k": "REPL", "addr": [], "id": "", "h": []}]
    for _ in range(per_kind):
        locs.append({"k": "A", "addr": bs(8), "id": "", "h": []})
        locs.append({"k": "S", "addr": [], "id": ident(), "h": []})
        locs.append({"k": "I", "addr": [], "id": ident(), "h": []})
        locs.append({"k": "t", "addr": [], "id": "", "h": bs(32)})
        locs.append({"k": "s", "addr": [], "id": "", "h": bs(32)})
    # boundary addresses
    locs.append({"k": "A", "addr": [0] * 8, "id": "", "h": []})
    locs.append({"k": "A", "addr": [255] * 8, "id": "", "h": []})
    return locs


def tla_seq(xs):
    return "<<" + ", ".join(str(x) for x in xs) + ">>"


def check_C45(ctx):
    import random
    jvm_env()
    binary = ctx.build("types")
    rng = random.Random(ctx.seed * 7919 + 45)
    locs = location_pool(rng, 2 if ctx.quick else 5)
    mc = os.path.join(ctx.work, "MC_TypeId.tla")
    with open(mc, "w") as fh:
        fh.write("---- MODULE MC_TypeId ----\n\\* generated per run: the seeded pool of locations (seed %d)\nEXTENDS TypeId\nMCLocs == <<\n" % ctx.seed)
        fh.write(",\n".join('  [k |-> "%s", addr |-> %s, id |-> "%s", h |-> %s]' % (l["k"], tla_seq(l["addr"]), l["id"], tla_seq(l["h"])) for l in locs))
        fh.write("\n>>\n====\n")
    depth = 1 if ctx.quick else 2
    r = ctx.tlc(["lang/EntitlementsBase.tla", "lang/Types.tla", "lang/TypeId.tla", "lang/MC_TypeId_d%d.cfg" % depth, mc],
                "MC_TypeId", "MC_TypeId_d%d.cfg" % depth, workers=1, tag="typeid", timeout=3000)
    rows = [x for x in r.json_lines() if x.get("kind") == "ids"]
    if len(rows) != len(locs):
        raise Infra("TLC printed %d ID rows for %d locations" % (len(rows), len(locs)))
    if corrupt_requested():
        row = rows[len(rows) // 2]
        i = len(row["ids"]) // 2
        row["ids"][i] = row["ids"][i] + "x"
        ctx.log("NEGATIVE CONTROL: corrupted the specified ID of %s at %s" % (json.dumps(row["types"][i]), row["prefix"]))
    inp = os.path.join(ctx.work, "typeid.table.ndjson")
    write_ndjson(inp, rows)
    summ, fails, samples = driver_rows(ctx, binary, "tid", inp, "tid")
    for f in fails:
        sig = {"kind": f["kind"], "impl": f.get("impl", ""), "shape": f.get("shape", "")}
        if f.get("engine"):
            sig["engine"] = f["engine"]
        ctx.report(sig, "[%s] %s" % (f["kind"], f["msg"]), {"case": f.get("case")})
    for s_ in samples:
        ctx.add_sample({"kind": "specified type ID", "case": s_.get("case")})
    ctx.add_sample({"kind": "location pool (seeded)", "prefixes": [x["prefix"] for x in rows[:8]]})
    ctx.log("%d locations %s x %d types: %d evaluations, %d disagreements" %
            (summ["locations"], summ["location_kinds"], summ["types"], summ["evaluations"], summ["fails"]))
    return ctx.finish({
        "traces_validated_against_impl": summ["locations"],
        "evaluations": summ["evaluations"],
        "distinct_nontrivial": summ["distinct_nontrivial"],
        "rule": "distinct (location, specified ID) pairs of non-primitive types; each compared in 3 representations x 2 member orders, "
                "round-tripped sema->static->sema and export->import; nominal IDs decoded; constructed types run through the run-time type constructors on both engines",
        "locations": summ["locations"], "types_per_location": summ["types"], "constructor_scripts": summ["programs"],
        "exhaustive": True,
    }, assumptions=[
        "location identifiers are random *identifiers* ([A-Za-z_][A-Za-z0-9_]*): a string location containing '.' makes the ID format ambiguous and is outside the model",
        "function and attachment types are not importable (ImportType rejects them by design) and are exempt from the export->import round trip",
        "ReferenceType(entitlements:type:) builds conjunctions only and FunctionType(parameters:return:) impure functions only: disjunctive references and view functions have no run-time constructor",
    ])


# =========================================================================================== C09
CAST_FILES = ["lang/EntitlementsBase.tla", "lang/Types.tla", "lang/SubtypeRel.tla", "lang/Casts.tla", "lang/MC_Casts.tla",
              "lang/MC_Casts_d1.cfg", "lang/MC_Casts_d2.cfg"]


def check_C09(ctx):
    jvm_env()
    binary = ctx.build("types")
    depth = 1 if ctx.quick else 2
    r = ctx.tlc(CAST_FILES, "MC_Casts", "MC_Casts_d%d.cfg" % depth, workers=1, tag="casts", timeout=3000)
    rows = r.json_lines()
    targets = [x for x in rows if x.get("kind") == "targets"]
    cases = {}
    for x in rows:
        if x.get("kind") == "case":
            cases[json.dumps([x["v"], x["held"]], sort_keys=True)] = x
    if len(targets) != 1 or len(cases) != r.distinct:
        raise Infra("TLC table incomplete: %d target rows, %d case rows, %d states" % (len(targets), len(cases), r.distinct))
    cases = list(cases.values())
    depth_rows = {json.dumps(x["v"], sort_keys=True): x for x in rows if x.get("kind") == "depth"}
    depth_rows = list(depth_rows.values())
    if len(depth_rows) < 12:
        raise Infra("TLC printed %d optional-depth rows" % len(depth_rows))
    if corrupt_requested():
        c = [x for x in cases if x["v"].get("k") == "num"][0]
        j = c["cast"][0]
        c["cast"].remove(j)
        ctx.log("NEGATIVE CONTROL: removed target %d from the specified `as?` successes of %s" % (j, json.dumps(c["v"])))
    inp = os.path.join(ctx.work, "casts.table.ndjson")
    write_ndjson(inp, targets + depth_rows + cases)
    summ, fails, samples = driver_rows(ctx, binary, "cast", inp, "cast",
                                       env={"VERIF_CAST_FAILS": "3" if ctx.quick else "16"})
    for f in fails:
        sig = {"kind": f["kind"], "deviation": f.get("deviation", "none"), "value": f.get("shape", ""), "engine": f.get("engine", "")}
        ctx.report(sig, "[%s] %s" % (f["kind"], f["msg"]), {"case": f.get("case"), "program": f.get("src")})
    if summ["fails"] > len(fails):
        ctx.log("(%d disagreements in total, first %d classified)" % (summ["fails"], len(fails)))
    for s_ in samples:
        ctx.add_sample({"kind": "value case", "what": s_["msg"], "case": s_.get("case")})
    ctx.add_sample({"kind": "value terms", "terms": [c["v"] for c in cases[:3]]})
    ctx.log("%d cases x %d targets x %d engines: %d evaluations, %d scripts, %d target lines not writable for the case, %d disagreements" %
            (summ["cases"], summ["targets"], summ["engines"], summ["evaluations"], summ["programs"], summ["pruned_target_lines"], summ["fails"]))
    return ctx.finish({
        "traces_validated_against_impl": summ["cases"] * summ["engines"],
        "evaluations": summ["evaluations"],
        "distinct_nontrivial": summ["distinct_nontrivial"],
        "rule": "distinct (value case, target) cells for which the specification predicts a successful cast or a positive type test; "
                "every cell is evaluated by as?, isInstance, getType().isSubtype, identity of the cast result and as! on interpreter and VM",
        "value_cases": summ["cases"], "targets": summ["targets"], "scripts_executed": summ["programs"],
        "optional_depth_operands": summ.get("depth_cases", 0),
        "exhaustive": True,
    }, assumptions=[
        "values are observed through an AnyStruct variable (which strips reference authorizations, as the language defines) and, for references, also through a variable of their own type",
        "resource values are covered behind references and, as operands, in the optional-depth probes (R, R?, R??, R??? against AnyResource/R/{RI} targets of depth 0..3, as? in an if-let and as! on a fresh operand); capabilities and storage references are not in the value universe",
        "identity of a successful cast = the result's run-time type equals the specified ResultType (operand, or its payload for non-Any* targets, boxed to the target's optional depth) and, in the table script, value equality",
        "isInstance / isSubtype on optional values are exempt, as the property says; for nil the success of `as?` is unobservable (some(nil) = nil) and only `as!` is checked",
        "`as!` on targets where `as?` gives nil runs in a script of its own: a seeded sample per case (3 quick / 16 thorough)",
    ])


META = {
    "C09": {
        "level_text": "TLC evaluates the cast model (DynType of 98 value cases -- numbers, strings, paths, types, nested arrays/dictionaries, composites, enums, functions, "
                      "ephemeral references with every authorization to struct/resource/array/primitive referents, optionals incl. nested and nil -- against 217 (quick) / 450+ (thorough) target types) "
                      "and checks the optional-unwrapping lemma and the three-way agreement on the model; every (case, target) cell is executed on interpreter and VM: "
                      "`as?`, `isInstance`, `getType().isSubtype`, identity of the cast result, `as!` success wherever `as?` succeeds and `as!` failure on a seeded sample where it does not. "
                      "Reference rows are accepted only when the DevRefForward variant of the model reproduces them.",
        "level_note": "Trusted: TLC, the Go renderer of value terms into Cadence expressions (self-checked against the model's declared types). Bounded value universe; resources only behind references.",
        "technique": "TLA+ spec (Casts.tla over SubtypeRel.tla/Types.tla) model-checked with TLC; TLC-evaluated cast table compared with executed scripts on both engines",
        "design_ref": "DESIGN.md section 5 C09",
        "engine": "E4 table conformance",
    },
    "C45": {
        "level_text": "TLC evaluates the specified type-ID function Id(location, type term) and its string-level decoder over a seeded pool of locations of all six kinds "
                      "(random addresses, hashes and identifiers; quick 14 locations x 298 types, thorough 29 x 560+) and checks Decode(Id) = (location, qualified identifier) and injectivity of Id; "
                      "for every (location, type) the checker type, the static type and the exported cadence.Type must all carry the specified ID in two construction orders of set members, "
                      "sema->static->sema and export->import must be identities, DecodeTypeID must invert nominal IDs, and the run-time type constructors (OptionalType, ReferenceType, CompositeType, ...) "
                      "must equal Type<T>() and carry the specified identifier on interpreter and VM.",
        "level_note": "Trusted: TLC, the Go builder of sema types from type terms. Bounded universe of Types.tla; nominal environment fixed (names), locations random.",
        "technique": "TLA+ spec (TypeId.tla over Types.tla) model-checked with TLC; TLC-evaluated ID table compared with the three real representations and executed scripts",
        "design_ref": "DESIGN.md section 5 C45",
        "engine": "E4 table conformance",
    },
    "C08": {
        "level_text": "TLC evaluates the specified subtype relation over a bounded universe of type terms (quick: 539+ types / 2.9e5 pairs, thorough: 1336+ types / 1.8e6 pairs; "
                      "all primitives incl. the numeric tower and paths, a nominal environment with a conformance DAG, optional/array/dictionary/reference x authorization/"
                      "intersection/capability/function/range constructors to depth 2 resp. 3) and checks reflexivity, transitivity over ALL triples, Never-bottom and Any-top on it; "
                      "every pair is then evaluated by six implementation entry points (hand-written and generated checker relation, sema.IsSubType, generated static-type relation, "
                      "interpreter.IsSubType, IsSubTypeOfSemaType) and compared with the table and with each other, and the four laws are re-checked on each implementation's own table over all triples. "
                      "The deviation DevNeverKind (Never not resource-kinded) is evaluated by TLC too and is the only accepted explanation of a difference.",
        "level_note": "Trusted: TLC, the Go builder of sema types from type terms (self-checked against the checker's reading of the same annotation). Bounded universe.",
        "technique": "TLA+ spec (Types.tla, Subtype.tla) model-checked with TLC; TLC-evaluated relation compared with the real functions pair by pair",
        "design_ref": "DESIGN.md section 5 C08, Appendix A.6",
        "engine": "E4 table conformance",
    },
    "C06": {
        "level_text": "TLC checks the possible-worlds semantics of authorizations against the documented rules over the whole bounded universe "
                      "(3 entitlements: 16 authorizations, all 1024 mappings with/without identity; thorough adds 4 entitlements, 32 authorizations, 5034 mappings): "
                      "PermitsRule = Permits, intersection entailed by both sides, image soundness, upcast monotonicity for direct, nested and mapped members, "
                      "include-chain flattening; the deviating image rule (DevImageDropsEmpty) is refuted by TLC and shown to be the only cause. "
                      "Every table cell is compared with the real sema.Access / static Authorization objects (PermitsAccess x5 paths, IntersectAccess, Image, include resolution) "
                      "and generated programs exercise upcasts, entitled members, nested references and mapped fields through upcast references on checker, interpreter and VM.",
        "level_note": "Trusted: TLC, the Go driver's rendering of authorizations/mappings into Cadence source. Bounded universe; mapped accessor functions (auth(mapping M)) no longer exist in the language and are not covered.",
        "technique": "TLA+ spec (Entitlements.tla) model-checked with TLC; TLC-evaluated tables compared with the real functions and with generated programs on both engines",
        "design_ref": "DESIGN.md section 5 C06, Appendix A.1",
        "engine": "E4 table conformance",
    },
}
