"""C11, C12, C13, C14, C32 — integer arithmetic, Word arithmetic, saturating arithmetic, bitwise
operations and shifts, big-integer memory metering (spec/num/*.tla, harness/cmd/num).

Binding, two directions (DESIGN 5 C11-C14, C32):
 * 8-bit types, spec -> impl, exhaustive: TLC evaluates the full operation tables of Int8, UInt8
   and Word8 from spec/num/Table8.tla (65 536 operand pairs per operation), checks them against
   the relational Bignum judge on every entry (accept the entry, reject two mutants), and the Go
   driver compares EVERY entry with the interpreter's value methods and with Cadence scripts on
   the interpreter and on the VM.
 * all other integer types (and the fixed-point types for the saturating members), impl -> spec,
   relational trace validation: spec/num/Operands.tla defines the boundary operand sets, the
   driver adds VERIF_SEED-seeded random operands, executes the real operations (value methods and
   batched scripts on both engines) and logs one NDJSON event per distinct observation;
   spec/num/NumJudge.tla (on Bignum/IntArith/Bits) judges every event, one TLC per chunk.
 * C32: spec/num/MC_BigMeterEnum.tla enumerates the operand-descriptor space, the driver
   materialises operands and runs the real operations with a recording memory gauge,
   spec/num/MC_BigMeterJudge.tla judges metered >= 8*words(result) for every event.
Known defects are named deviations of the specification (Bits.tla, BigMeter.tla): a rejected
event is a KNOWN finding only if the deviant formula explains the observed value exactly.
"""
import json, os, random
from concurrent.futures import ThreadPoolExecutor
from vlib.core import Infra, read_ndjson, write_ndjson

LEVEL = {"C11": "model_checking", "C12": "model_checking", "C13": "model_checking", "C14": "model_checking",
         "C32": "exploration"}

BASE = ["num/Bignum.tla", "num/IntArith.tla", "num/Bits.tla"]

# operations per property: 8-bit table operations and wide-type trace operations
TABLE = {
    "C11": {"Int8": ["add", "sub", "mul", "div", "mod", "neg"], "UInt8": ["add", "sub", "mul", "div", "mod"]},
    "C12": {"Word8": ["add", "sub", "mul", "div", "mod"]},
    "C13": {"Int8": ["satadd", "satsub", "satmul", "satdiv"], "UInt8": ["satadd", "satsub", "satmul", "satdiv"]},
    "C14": {"Int8": ["and", "or", "xor", "shl", "shr"], "UInt8": ["and", "or", "xor", "shl", "shr"],
            "Word8": ["and", "or", "xor", "shl", "shr"]},
}
SIGNED = ["Int16", "Int32", "Int64", "Int128", "Int256", "Int"]
UNSIGNED = ["UInt16", "UInt32", "UInt64", "UInt128", "UInt256", "UInt"]
WORDS = ["Word16", "Word32", "Word64", "Word128", "Word256"]
FIXED = ["Fix64", "UFix64", "Fix128", "UFix128"]
WIDE = {
    "C11": SIGNED + UNSIGNED,
    "C12": WORDS,
    "C13": SIGNED + UNSIGNED + FIXED,      # which members exist is read from sema by the driver
    "C14": SIGNED + UNSIGNED + WORDS,
}
# operand pairs per wide type (quick, thorough); measured: ~1.5-4 ms of TLC time per judged event
PAIRS = {"C11": (280, 5000), "C12": (1000, 8000), "C13": (260, 4000), "C14": (150, 3000)}


def _env():
    """JVM settings for this family's TLC runs.
    JDK_JAVA_OPTIONS -Xss: the java launcher gives the MAIN thread this stack; TLC pre-evaluates and
    caches constant definitions (the parsed trace!) on the main thread and silently gives up caching when
    that overflows the default 1 MB stack (measured: 40x slowdown). Many JVMs run in parallel, hence few
    GC threads and a bounded heap each."""
    os.environ.setdefault("JDK_JAVA_OPTIONS", "-Xss256m")
    if "ParallelGCThreads" not in os.environ.get("JAVA_TOOL_OPTIONS", ""):
        os.environ["JAVA_TOOL_OPTIONS"] = (os.environ.get("JAVA_TOOL_OPTIONS", "") + " -XX:ParallelGCThreads=2 -Xmx6g").strip()


def zval(z):
    x = 0
    for i, l in enumerate(z["m"]):
        x += l << (15 * i)
    return -x if z["n"] else x


def par_tlc(ctx, jobs, workers=None):
    """Run TLC jobs concurrently (each single-threaded). jobs: dict(files, module, cfg, tag, timeout)."""
    def one(j):
        return ctx.tlc(j["files"], j["module"], j["cfg"], workers=1, tag=j["tag"], timeout=j.get("timeout", 1500), count=False)
    with ThreadPoolExecutor(max_workers=workers or ctx.cores) as ex:
        futs = [ex.submit(one, j) for j in jobs]
        res = [f.result() for f in futs]      # re-raises Infra
    for r in res:
        ctx.tlc_states += r.distinct
        ctx.tlc_transitions += r.generated
    return res


def write_cfg(ctx, name, text):
    p = os.path.join(ctx.work, name)
    with open(p, "w") as fh:
        fh.write(text)
    return p


def laws_job(ctx):
    return {"files": ["num/Bignum.tla", "num/BignumLaws.tla", "num/BignumLaws.cfg"], "module": "BignumLaws",
            "cfg": "BignumLaws.cfg", "tag": "laws", "timeout": 1500}


def check_laws(res):
    if not any("BignumLaws checked" in ln for ln in res.lines):
        raise Infra("BignumLaws did not evaluate its assumptions")


# ------------------------------------------------------------------------------------------ 8-bit tables
def table_jobs(ctx, prop):
    jobs = []
    for t, ops in TABLE[prop].items():
        for op in ops:
            cfg = write_cfg(ctx, "Table8_%s_%s.cfg" % (t, op),
                            'SPECIFICATION Spec\nCONSTANTS TName = "%s"\n Op = "%s"\n Cross = "%s"\nINVARIANT RowOK\n' % (t, op, "some" if ctx.quick else "all"))
            jobs.append({"files": BASE + ["num/Table8.tla", cfg], "module": "Table8", "cfg": os.path.basename(cfg),
                         "tag": "t8-%s-%s" % (t, op), "timeout": 1500, "t": t, "op": op})
    return jobs


def cross_row(t, a, quick):
    """Mirror of Table8!CrossRow (only used to count, for the evidence file)."""
    lo, hi = (-128, 127) if t == "Int8" else (0, 255)
    return (not quick) or a in (lo, lo + 1, -1, 0, 1, 2, hi - 1, hi) or a % 16 == 5


def code_name(c):
    return {1000: "range-error", 1001: "divzero", 1002: "negshift", -1: "other"}.get(c, "value")


def run_table(ctx, binary, prop, jobs, results):
    rows = []
    for j, r in zip(jobs, results):
        rs = r.json_lines()
        want = 256
        if len(rs) != want:
            raise Infra("Table8 %s %s printed %d rows, expected %d" % (j["t"], j["op"], len(rs), want))
        rows += rs
    rp = os.path.join(ctx.work, "rows8.ndjson")
    op = os.path.join(ctx.work, "table8.out.ndjson")
    # negative control: a copy of one row with one entry changed must be reported by the driver
    # (on all three paths); it is recognised by its marker and never reported as a finding
    ctl = json.loads(json.dumps(next(r for r in rows[len(rows) // 2:] + rows if r["op"] != "satdiv")))
    ctl["ctl"] = True
    ctl["v"][0] = 1000 if ctl["v"][0] < 1000 else 0
    write_ndjson(rp, rows + [ctl])
    ctx.run([binary, "table", prop, rp, op], timeout=1500)
    out = read_ndjson(op)
    summ = [o for o in out if o.get("summary")]
    if not summ:
        raise Infra("num table wrote no summary")
    summ = summ[0]
    mism = [o for o in out if not o.get("summary") and not o.get("ctl")]
    nctl = len([o for o in out if o.get("ctl")])
    if nctl != 3:
        raise Infra("negative control: the corrupted table entry was reported %d times, expected 3 (value method, script on interpreter, script on VM)" % nctl)
    skipped = set(summ.get("skipped_members") or [])      # saturating members sema does not declare
    rows = [r for r in rows if r["t"] + "." + r["op"] not in skipped]
    summ["rows"] = len(rows)
    summ["entries"] -= len(ctl["v"])
    summ["error_entries"] -= len([v for v in ctl["v"] if v >= 1000])
    summ["direct"] -= len(ctl["v"])
    summ["script_evals"] -= 2 * len(ctl["v"])
    for m in mism:
        if m.get("other") and ("Checker" in m["other"] or "Pars" in m["other"]):
            raise Infra("generated script rejected by the checker: %s" % m)
        sig = {"kind": "table8", "type": m["t"], "op": m["op"], "via": m["via"],
               "expect": code_name(m["expect"]), "got": code_name(m["got"])}
        ctx.report(sig, "8-bit table: %s %s  a=%d b=%d  spec=%s  impl(%s)=%s %s   [%s]" % (
            m["t"], m["op"], m["a"], m["b"], m["expect"], m["via"], m["got"], m.get("other", ""), m.get("expr", "")), m)
    nontrivial = set()
    errors = 0
    for r in rows:
        lo = -128 if r["t"] == "Int8" else 0
        for k, v in enumerate(r["v"]):
            b = lo + k
            if v >= 1000:
                errors += 1
            if r["a"] != 0 and (b != 0 or r["op"] == "neg"):
                nontrivial.add((r["t"], r["op"], r["a"], b))
    if rows:
        r = next((x for x in rows if x["a"] in (-100, 200)), rows[len(rows) // 3])
        ctx.add_sample({"kind": "8-bit table row (TLC-computed, compared entry by entry with value methods and scripts on both engines)",
                        "type": r["t"], "op": r["op"], "a": r["a"], "entries_for_b_from_min": r["v"][:40], "codes": "1000 range error, 1001 division by zero, 1002 negative shift"})
    return summ, rows, len(nontrivial), errors


# ------------------------------------------------------------------------------------------ wide types
def operands_jobs(ctx, prop):
    """Quick: one TLC for all types (thinned sets); thorough: dense sets, one TLC per type."""
    groups = [WIDE[prop]] if ctx.quick else [[t] for t in WIDE[prop]]
    jobs = []
    for g in groups:
        sel = ", ".join('"%s"' % t for t in g)
        name = "Operands_%s_%s.cfg" % (prop, "all" if len(g) > 1 else g[0])
        cfg = write_cfg(ctx, name, "SPECIFICATION Spec\nCONSTANTS Sel = {%s}\n Dense = %s\nINVARIANT Emit\n" % (sel, "FALSE" if ctx.quick else "TRUE"))
        jobs.append({"files": BASE + ["num/Operands.tla", cfg], "module": "Operands", "cfg": os.path.basename(cfg),
                     "tag": "operands-" + ("all" if len(g) > 1 else g[0]), "timeout": 2400})
    return jobs


def check_sema(ctx, binary, ops):
    """The spec's type table (signedness, bounds, scale) against sema's declarations."""
    sp = os.path.join(ctx.work, "sema.json")
    ctx.run([binary, "sema", sp])
    sema = {t["name"]: t for t in json.load(open(sp))}
    for o in ops:
        s = sema.get(o["t"])
        if s is None:
            ctx.report({"kind": "type-table", "type": o["t"], "what": "missing"}, "sema declares no numeric type %s" % o["t"])
            continue
        smin = zval(s["min"]) if s["min"] else None
        smax = zval(s["max"]) if s["max"] else None
        pmin = zval(o["min"]) if o["hasmin"] else None
        pmax = zval(o["max"]) if o["hasmax"] else None
        if (smin, smax, s["scale"], s["signed"]) != (pmin, pmax, o["scale"], o["signed"]):
            ctx.report({"kind": "type-table", "type": o["t"], "what": "range"},
                       "type %s: sema declares [%s, %s] scale %s signed %s; the specification says [%s, %s] scale %s signed %s" % (
                           o["t"], smin, smax, s["scale"], s["signed"], pmin, pmax, o["scale"], o["signed"]))
    return sema


def judge_chunks(ctx, events, module_files, module, cfgname, tagp, controls):
    """Split events over one TLC per core; returns the list of non-ok verdict records."""
    rnd = random.Random(ctx.seed)
    evs = list(events)
    rnd.shuffle(evs)               # spread the expensive types evenly
    evs = controls + evs           # negative controls (k <= 0): TLC must reject every one of them
    # one TLC per core, but at most ~40 000 events per TLC (the parsed trace lives in the JVM heap)
    n = max(1, min(ctx.cores, (len(evs) + 399) // 400), (len(evs) + 39999) // 40000)
    jobs = []
    for c in range(n):
        part = evs[c::n]
        d = os.path.join(ctx.work, "%s-chunk%02d" % (tagp, c))
        os.makedirs(d, exist_ok=True)
        tp = os.path.join(d, "trace.ndjson")
        write_ndjson(tp, part)
        jobs.append({"files": module_files + [tp], "module": module, "cfg": cfgname, "tag": "%s-%02d" % (tagp, c),
                     "timeout": 2400, "n": len(part)})
    res = par_tlc(ctx, jobs)
    verdicts = []
    judged = 0
    for j, r in zip(jobs, res):
        if r.distinct != j["n"] + 1:
            raise Infra("TLC judged %d of %d events in %s" % (r.distinct - 1, j["n"], j["tag"]))
        judged += j["n"]
        verdicts += r.json_lines()
    rejected = {v["k"] for v in verdicts if v["v"] == "bad"}
    for c in controls:
        if c["k"] not in rejected:
            raise Infra("negative control: TLC accepted a corrupted event: %s" % json.dumps(c)[:500])
    verdicts = [v for v in verdicts if v["k"] > 0]
    return verdicts, judged - len(controls), n


def expected(v):
    x = v.get("exp") or {}
    if x.get("out") == "ok":
        return "ok %d" % zval(x["r"])
    return x.get("out", "?")


def trace_controls(events):
    """Corrupted copies of real events: one result limb changed, one outcome flipped."""
    src = next((e for e in events if e["out"] == "ok" and e["r"]["m"] and e["r"]["m"][0] >= 2 and e["op"] != "divmod"), None)
    if src is None:
        raise Infra("no event suitable for the negative control")
    c1 = json.loads(json.dumps(src)); c1["k"] = 0; c1["r"]["m"][0] ^= 1
    c2 = json.loads(json.dumps(src)); c2["k"] = -1; c2["out"] = "overflow"; c2["r"] = {"n": False, "m": []}
    return [c1, c2]


def describe(ev):
    s = "%s %s  a=%d" % (ev["t"], ev["op"], zval(ev["a"]))
    if ev["op"] != "neg":
        s += " b=%d" % zval(ev["b"])
    s += "  ->  %s" % ev["out"]
    if ev["out"] == "ok":
        s += " %d" % zval(ev["r"])
    if ev.get("out2"):
        s += "   (a %% b -> %s" % ev["out2"] + (" %d)" % zval(ev["r2"]) if ev["out2"] == "ok" else ")")
    return s + "   observed via " + "+".join(ev["via"]) + "   [" + ev.get("expr", "") + "]"


def run_trace(ctx, binary, prop, ops_res):
    ops = [o for r in ops_res for o in r.json_lines()]
    if len(ops) != len(WIDE[prop]):
        raise Infra("Operands printed %d types, expected %d" % (len(ops), len(WIDE[prop])))
    sema = check_sema(ctx, binary, ops)
    opath = os.path.join(ctx.work, "operands.ndjson")
    write_ndjson(opath, ops)
    tpath = os.path.join(ctx.work, "trace.ndjson")
    pairs = PAIRS[prop][0 if ctx.quick else 1]
    ctx.run([binary, "trace", prop, opath, tpath, str(pairs)], timeout=3000)
    out = read_ndjson(tpath)
    summ = [o for o in out if o.get("summary")]
    if not summ:
        raise Infra("num trace wrote no summary")
    summ = summ[0]
    events = [o for o in out if not o.get("summary")]
    if not events:
        raise Infra("num trace produced no events")
    for e in events:
        for f in ("out", "out2"):
            if e[f].startswith("other:") and ("Checker" in e[f] or "Pars" in e[f]):
                raise Infra("generated script rejected by the checker: %s" % e[f])
    if prop == "C13":
        # every saturating member declared by sema must have been exercised
        for t in WIDE[prop]:
            for m in sema[t]["sat"]:
                if not summ["per_type_op"].get("%s.%s" % (t, m)):
                    raise Infra("declared member %s.%s was not exercised" % (t, m))
    files = BASE + ["num/NumJudge.tla", "num/NumJudge.cfg"]
    verdicts, judged, nchunks = judge_chunks(ctx, events, files, "NumJudge", "NumJudge.cfg", "judge", trace_controls(events))
    byk = {e["k"]: e for e in events}
    for v in verdicts:
        ev = byk[v["k"]]
        if v["v"] in ("malformed", "unjudgeable"):
            raise Infra("event %s by the specification: %s" % (v["v"], json.dumps(ev)[:600]))
        sig = {"kind": "trace", "type": ev["t"], "op": ev["op"], "dev": v["dev"], "class": v["cls"], "out": ev["out"].split(" ")[0]}
        ctx.report(sig, "rejected by NumJudge (%s, deviation %s): %s   SPEC EXPECTS %s" % (v["cls"], v["dev"], describe(ev), expected(v)), ev)
    distinct = set()
    errs = 0
    for e in events:
        a, b = zval(e["a"]), zval(e["b"])
        if e["out"] != "ok":
            errs += 1
        if a != 0 and (b != 0 or e["op"] == "neg"):
            distinct.add((e["t"], e["op"], a, b))
    for e in (events[len(events) // 7], events[len(events) // 2], events[-3]):
        ctx.add_sample({"kind": "event judged by TLC", "event": describe(e)})
    return summ, events, len(distinct), errs, judged, nchunks, sema


def check_int_prop(ctx, prop):
    _env()
    binary = ctx.build("num")
    tjobs = table_jobs(ctx, prop)
    ojobs = operands_jobs(ctx, prop)
    res = par_tlc(ctx, [laws_job(ctx)] + ojobs + tjobs)
    check_laws(res[0])
    tsum, rows, t_nontrivial, t_errors = run_table(ctx, binary, prop, tjobs, res[1 + len(ojobs):])
    ctx.log("8-bit tables: %d rows, %d entries, %d error entries, %d scripts, skipped members %s" % (
        tsum["rows"], tsum["entries"], tsum["error_entries"], tsum["scripts"], tsum.get("skipped_members")))
    wsum, events, w_nontrivial, w_errors, judged, nchunks, sema = run_trace(ctx, binary, prop, res[1:1 + len(ojobs)])
    ctx.log("wide types: %d cases, %d events judged in %d TLC chunks, %d error outcomes" % (wsum["cases"], judged, nchunks, w_errors))
    cov = {
        "traces_validated_against_impl": judged + tsum["entries"],
        "evaluations": tsum["direct"] + tsum["script_evals"] + wsum["observations"],
        "distinct_nontrivial": t_nontrivial + w_nontrivial,
        "rule": "distinct (type, operation, a, b) cases with non-zero operands: every one of the 8-bit table entries "
                "(exhaustive) plus the wide-type cases (spec boundary sets, limit-straddling pairs, seeded random); each "
                "executed through the value method and through scripts on interpreter and VM",
        "exhaustive": True,
        "table8_rows": tsum["rows"], "table8_entries": tsum["entries"], "table8_error_entries": tsum["error_entries"],
        "table8_rows_cross_checked_by_relational_judge": sum(1 for r in rows if cross_row(r["t"], r["a"], ctx.quick)),
        "scripts_executed": tsum["scripts"] + wsum["scripts"],
        "wide_events_judged_by_tlc": judged, "wide_error_outcomes": w_errors, "tlc_judge_chunks": nchunks,
        "wide_events_per_type_op": wsum["per_type_op"],
    }
    if prop == "C13":
        cov["saturating_members_declared_by_sema"] = {t: sema[t]["sat"] for t in sorted(sema) if sema[t]["sat"]}
        cov["table8_members_not_declared_skipped"] = tsum.get("skipped_members") or []
    return ctx.finish(cov, assumptions=[
        "TLC and the CommunityModules Json/Bitwise modules are trusted; the Go driver only executes and records (operand "
        "materialisation and the base-2^15 limb encoding are the trusted part of the driver, guarded by the spec's well-formedness "
        "and range checks on every event)",
        "wide types are sampled (boundary-biased + seeded random), 8-bit types are exhaustive",
        "overflow vs. underflow is not distinguished (the property allows either)",
    ])


def check_C11(ctx):
    return check_int_prop(ctx, "C11")


def check_C12(ctx):
    return check_int_prop(ctx, "C12")


def check_C13(ctx):
    return check_int_prop(ctx, "C13")


def check_C14(ctx):
    return check_int_prop(ctx, "C14")


# ------------------------------------------------------------------------------------------ C32
def check_C32(ctx):
    _env()
    binary = ctx.build("num")
    cfg = "MC_BigMeterEnum_quick.cfg" if ctx.quick else "MC_BigMeterEnum_thorough.cfg"
    mfiles = ["num/Bignum.tla", "num/BigMeter.tla"]
    res = par_tlc(ctx, [laws_job(ctx),
                        {"files": mfiles + ["num/MC_BigMeterEnum.tla", "num/" + cfg], "module": "MC_BigMeterEnum", "cfg": cfg,
                         "tag": "enum", "timeout": 2400}])
    check_laws(res[0])
    rows = res[1].json_lines()
    if len(rows) != res[1].distinct or not rows:
        raise Infra("enumerator printed %d rows for %d states" % (len(rows), res[1].distinct))
    rp = os.path.join(ctx.work, "meter.rows.ndjson")
    tp = os.path.join(ctx.work, "meter.trace.ndjson")
    write_ndjson(rp, rows)
    ctx.run([binary, "meter", rp, tp], timeout=3000)
    out = read_ndjson(tp)
    summ = [o for o in out if o.get("summary")]
    if not summ:
        raise Infra("num meter wrote no summary")
    events = [o for o in out if not o.get("summary")]
    want = sum(max(1, len(r["bs"]) + len(r["ns"])) for r in rows)
    if len(events) != want:
        raise Infra("driver produced %d events for %d enumerated descriptor combinations" % (len(events), want))
    files = mfiles + ["num/MC_BigMeterJudge.tla", "num/MC_BigMeterJudge.cfg"]
    src = next(e for e in events if e["out"] == "ok" and e["words"] >= 2 and e["t"] == "Int" and e["op"] == "add")
    c1 = json.loads(json.dumps(src)); c1["k"] = 0
    c1["metered"] = {"n": False, "m": [8 * src["words"] - 1]}           # one byte short: must be rejected
    verdicts, judged, nchunks = judge_chunks(ctx, events, files, "MC_BigMeterJudge", "MC_BigMeterJudge.cfg", "mjudge", [c1])
    byk = {e["k"]: e for e in events}

    def desc(e):
        return "%s %s  a=%s b=%s n=%d  (|a|=%d words, |b|=%d words, cmp=%d) -> %s: metered %d bytes, result %d words = %d bytes" % (
            e["t"], e["op"], e["a"], e["b"], e["n"], e["wa"], e["wb"], e["cmp"], e["out"], zval(e["metered"]), e["words"], 8 * e["words"])
    for v in verdicts:
        ev = byk[v["k"]]
        if v["v"] == "malformed":
            raise Infra("metering event inconsistent with its descriptor or with the size bounds: %s" % desc(ev))
        sig = {"kind": "meter", "type": ev["t"], "op": ev["op"], "dev": v["dev"], "class": v["cls"]}
        ctx.report(sig, "under-reported (%s, deviation %s): %s" % (v["cls"], v["dev"], desc(ev)), ev)
    classes = set()
    okc = 0
    for e in events:
        if e["out"] == "ok":
            okc += 1
        if e["out"] == "ok" and e["wa"] > 0:
            # size class: the boundary kinds (max / min / random) of one size class are not counted separately
            classes.add((e["t"], e["op"], e["wa"], e["a"]["neg"], e["wb"], e["b"].get("neg"), e["n"]))
    for e in (events[len(events) // 5], events[len(events) // 2], events[-5]):
        ctx.add_sample({"kind": "metering event judged by TLC", "event": desc(e)})
    per = {}
    for e in events:
        per[e["t"] + "." + e["op"]] = per.get(e["t"] + "." + e["op"], 0) + 1
    return ctx.finish({
        "evaluations": len(events),
        "distinct_nontrivial": len(classes),
        "rule": "evaluations: every (type, operation, operand descriptors [word length, boundary kind, sign], shift amount) combination "
                "enumerated by TLC from spec/num/MC_BigMeterEnum.tla, each materialised and executed once on the real value method with a "
                "recording memory gauge and judged by TLC (metered >= 8*words(result)); distinct_nontrivial: distinct size classes (type, operation, "
                "word lengths, signs, shift amount) with a non-zero left operand that produced a result (the three boundary kinds of a class count once)",
        "exhaustive": True,
        "descriptor_rows_enumerated_by_tlc": len(rows), "events_judged_by_tlc": judged, "results_produced": okc,
        "tlc_judge_chunks": nchunks, "events_per_type_op": per,
    }, assumptions=[
        "metered = sum of MemoryKindBigInt usages reported to the gauge during the value method call; the size of the result is derived by the "
        "specification: from the exact result (recomputed with Bignum for and/or/xor/+/-/unary minus and short products of Int/UInt, logged otherwise) or, "
        "for shifts, from the operand's bit length and the amount; the driver's len(big.Int.Bits()) must agree",
        "operand sizes are bounded and asymmetric: quick 0..3, 7, 8, 11, 12, 21, 40 words; thorough 0..16, 21, 39-42, 99-101 words "
        "(every pair of sizes, every sign combination, all-ones / single-bit / random patterns); shift amounts 0..4096 bits (quick: thinned)",
        "random operands are seeded by VERIF_SEED; the size classes and boundary values are exhaustive within the bound",
    ])


# ------------------------------------------------------------------------------------------ replay
def _replay(ctx, obj):
    """bin/vcheck Cxx --replay f: re-execute the recorded case and let TLC judge it again."""
    _env()
    binary = ctx.build("num")
    ev = obj.get("replay") or {}
    sig = obj.get("sig", {})
    if sig.get("kind") == "meter":
        row = {"t": ev["t"], "op": ev["op"], "a": ev["a"], "bs": [ev["b"]] if ev["b"].get("kind") in ("max", "min", "rnd") else [],
               "ns": [ev["n"]] if ev["op"] in ("shl", "shr") else []}
        rp, tp = os.path.join(ctx.work, "row.ndjson"), os.path.join(ctx.work, "trace.ndjson")
        write_ndjson(rp, [row])
        ctx.run([binary, "meter", rp, tp])
        events = [o for o in read_ndjson(tp) if not o.get("summary")]
        files, mod, cfg = ["num/Bignum.tla", "num/BigMeter.tla", "num/MC_BigMeterJudge.tla", "num/MC_BigMeterJudge.cfg"], "MC_BigMeterJudge", "MC_BigMeterJudge.cfg"
        show = lambda e: "%s %s |a|=%d |b|=%d n=%d: metered %d bytes, result %d bytes" % (e["t"], e["op"], e["wa"], e["wb"], e["n"], zval(e["metered"]), 8 * e["words"])
    else:
        if sig.get("kind") == "table8":
            t, op, a, b = ev["t"], ev["op"], ev["a"], ev["b"]
        else:
            t, op, a, b = ev["t"], ev["op"], zval(ev["a"]), zval(ev["b"])
        tp = os.path.join(ctx.work, "trace.ndjson")
        ctx.run([binary, "one", t, op, str(a), str(b), tp])
        events = read_ndjson(tp)
        files, mod, cfg = BASE + ["num/NumJudge.tla", "num/NumJudge.cfg"], "NumJudge", "NumJudge.cfg"
        show = describe
    r = ctx.tlc(files + [tp], mod, cfg, workers=1, tag="replay")
    bad = {v["k"]: v for v in r.json_lines()}
    rc = 0
    for e in events:
        v = bad.get(e["k"])
        print("REPLAY %s: %s" % ("REJECTED by the specification (%s, deviation %s%s)" % (
            v["cls"], v["dev"], ", spec expects " + expected(v) if "exp" in v else "") if v else "accepted", show(e)))
        rc = rc or (1 if v else 0)
    return rc


replay_C11 = replay_C12 = replay_C13 = replay_C14 = replay_C32 = _replay

_T = "TLA+ specification (spec/num: Bignum, IntArith, Bits, Table8, Operands, NumJudge) checked with TLC; "
META = {
    "C11": {
        "level_text": "TLC evaluates the complete Int8/UInt8 tables of + - * / % and unary minus (65 536 operand pairs per operation) from the native-integer statement of the property, cross-checks every entry against the relational big-number judge (entry accepted, two mutants rejected), and the driver compares every entry with the interpreter value methods and with scripts on interpreter and VM; for Int16..Int256, UInt16..UInt256, Int and UInt thousands of boundary-biased and seeded random operand pairs per type are executed the same three ways and every recorded outcome is judged by TLC (exact-or-error, truncated quotient and signed remainder by the decomposition relation, division by zero).",
        "level_note": "Exhaustive for 8-bit types; wide types are sampled (spec-defined boundary sets, limit-straddling pairs, random). Trusted: TLC, the driver's operand construction and limb encoding. Overflow vs underflow is not distinguished.",
        "technique": _T + "8-bit tables compared exhaustively with the implementation (E4), wide types by relational trace validation (E3)",
        "design_ref": "DESIGN.md section 5 C11-C14, Appendix A.7", "engine": "E4 table + E3 relational trace",
    },
    "C12": {
        "level_text": "Exhaustive Word8 tables of + - * / % computed by TLC (modulo 256, never a range error, division by zero fails) and compared entry by entry with value methods and scripts on both engines; Word16..Word256 operations on boundary and random operands judged by TLC against reduction modulo 2^n computed on exact big numbers.",
        "level_note": "Exhaustive for Word8; Word16..Word256 sampled. Trusted: TLC, driver encoding.",
        "technique": _T + "E4 table for Word8, E3 relational trace for wider Word types",
        "design_ref": "DESIGN.md section 5 C11-C14", "engine": "E4 table + E3 relational trace",
    },
    "C13": {
        "level_text": "For every saturating member that sema declares (read from sema, not assumed): exhaustive Int8/UInt8 tables (clamp of the exact result; min / -1 saturates; only division by zero fails) compared entry by entry with value methods and scripts on both engines; all wider integer types and the four fixed-point types (on their scaled integers, quotients judged relationally) on boundary and random operands judged by TLC.",
        "level_note": "Exhaustive for 8-bit types; other types sampled. Members not declared by sema are skipped and listed in the evidence.",
        "technique": _T + "E4 table for 8-bit types, E3 relational trace for the rest",
        "design_ref": "DESIGN.md section 5 C11-C14", "engine": "E4 table + E3 relational trace",
    },
    "C14": {
        "level_text": "Exhaustive Int8/UInt8/Word8 tables of & | ^ << >> (two's complement at width 8, negative shift fails, shifts by >= 8) compared entry by entry with value methods and scripts on both engines; all wider integer and Word types on boundary operands, shift amounts 0..width+1, around 2^63/2^64, the type maximum and negative amounts, judged by TLC (two's-complement residues on exact big numbers, x*2^n truncated, floor(x/2^n) by inequalities, permitted overflow of Int/UInt for amounts >= 2^64).",
        "level_note": "Exhaustive for 8-bit types; other types sampled. Int/UInt left shifts are exercised for amounts <= 8192 or >= 2^64 only. Two known defects (Int128/Int256 shifts) are matched as named deviations of the specification.",
        "technique": _T + "E4 table for 8-bit types, E3 relational trace for the rest",
        "design_ref": "DESIGN.md section 5 C11-C14, section 7 #5 #5b", "engine": "E4 table + E3 relational trace",
    },
    "C32": {
        "level_text": "TLC enumerates the operand-descriptor space (word length x boundary kind x sign for both operands, every operation of Int, UInt, Int128, Int256, UInt128, UInt256, Word128, Word256, shift amounts up to 4096 bits); every combination is executed once on the real value methods with a recording memory gauge and TLC judges metered >= 8*words(result) plus consistency with the mathematical size bounds.",
        "level_note": "Exploration: the specification is a relation on (descriptor, metered, result size); sizes are bounded. Two known metering defects are matched as exact deviant formulas.",
        "technique": "TLA+ specification (spec/num/BigMeter.tla) with TLC enumerating the descriptor space and judging the recorded trace (E3 relational)",
        "design_ref": "DESIGN.md section 5 C32, section 7 #8d #8e", "engine": "E3 relational trace",
    },
}
