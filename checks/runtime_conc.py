"""C36 — concurrent checking and execution behave like sequential runs.
The cache/pool protocols are specified in PlusCal (spec/conc/Caches.tla) and all their interleavings
are model-checked by TLC. The code is bound by a -race build of the conformance driver: generated
programs sharing an imported contract are checked and executed by 2..16 goroutines with cold
process-level caches, and each program's errors / results must equal its sequential run; any data
race reported by the Go race detector is a violation."""
import json, os, subprocess
from vlib.core import Infra, read_ndjson

LEVEL = {"C36": "other"}


def check_C36(ctx):
    r0 = ctx.tlc(["conc/Caches.tla", "conc/Caches.cfg"], "Caches", "Caches.cfg", deadlock=False, timeout=1200)
    binary = ctx.build("conc", race=True)
    runs = 3 if ctx.quick else 9
    total = {"checked": 0, "accepted": 0, "executed": 0, "diffs": 0}
    configs = []
    for i in range(runs):
        rf = os.path.join(ctx.work, "res%d.ndjson" % i)
        env = dict(os.environ)
        env.update({"VERIF_SEED": str(ctx.seed * 9 + i), "VERIF_TIER": ctx.tier, "GORACE": "halt_on_error=1 exitcode=66"})
        p = subprocess.run([binary, rf], env=env, stdout=subprocess.PIPE, stderr=subprocess.PIPE, text=True, timeout=3000)
        if p.returncode == 66 or "WARNING: DATA RACE" in p.stderr:
            rep = p.stderr[p.stderr.find("WARNING: DATA RACE"):][:3000]
            import re
            frames = re.findall(r"github.com/onflow/cadence/[\w/\.\(\)\*]+", rep)
            ctx.report({"kind": "data-race", "site": frames[0] if frames else "?"},
                       "the Go race detector reported a data race while %s goroutines checked/executed independent programs:\n%s" % ("several", rep[:1500]),
                       {"seed": env["VERIF_SEED"], "report": rep})
            continue
        if p.returncode != 0:
            raise Infra("conc driver failed rc=%d: %s" % (p.returncode, p.stderr[-1500:]))
        rows = read_ndjson(rf)
        summ = [r for r in rows if r.get("summary")][0]
        configs.append({"goroutines": summ["goroutines"], "gomaxprocs": summ["gomaxprocs"]})
        for k in total:
            total[k] += summ[k]
        for r in rows:
            if r.get("summary"):
                continue
            ctx.report({"kind": "concurrent-differs", "phase": r["phase"]},
                       "program %d: %s result under concurrency differs from its sequential run\n  concurrent: %s\n  sequential: %s"
                       % (r["prog"], r["phase"], r["conc"][:400], r["seq"][:400]), {"source": r["src"], "phase": r["phase"]})
    ctx.add_sample({"run_configurations": configs})
    return ctx.finish({
        "explanation": "TLC explored all interleavings of the PlusCal cache/pool protocol model (%d distinct states); %d runs of a -race build checked %d generated programs (%d accepted) and executed %d on goroutines sharing process-global caches; results compared with sequential runs; race detector as monitor"
                       % (r0.distinct, runs, total["checked"], total["accepted"], total["executed"]),
        "evaluations": total["checked"] + total["executed"], "distinct_nontrivial": total["checked"] + total["executed"],
        "states": r0.distinct, "transitions": r0.generated,
        "rule": "each generated program (seeded; ~1 in 16 statements carries a type or access error) counts once per run",
    }, assumptions=["data-race freedom is decided by the Go race detector on the schedules that occurred, not by TLA+",
                    "the PlusCal model covers the protocol shapes (atomic-pointer lazy cache, RW-locked map, sync.Once, pool); it is not bound to the code by trace validation"])


META = {"C36": {
    "level_text": "PlusCal model of the lazy atomic-pointer caches, RW-locked caches, sync.Once initialisers and object pools, all interleavings of 3 processes model-checked by TLC (reads complete and deterministic, one user per pooled object, no reader/writer overlap). The implementation is exercised by a race-detector build: seeded generated programs sharing one imported elaboration are checked and executed concurrently (2/5/16 goroutines, GOMAXPROCS 2/4/16, cold caches) and must produce exactly the sequential error lists / results; any race report is a violation.",
    "level_note": "The race detector, not TLA+, decides data-race freedom, and only on observed schedules. The protocol model is not trace-validated against the code (no cache hooks yet).",
    "technique": "PlusCal/TLA+ protocol model checked by TLC + race-detector conformance driver comparing concurrent with sequential results",
    "design_ref": "DESIGN.md section 5 C36", "engine": "E1 + race-detector driver",
}}
