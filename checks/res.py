"""Family "res": C02 resources are never duplicated or lost, C04 references to moved/destroyed
resources become unusable, C49 attachment lifecycle, C23 committed storage is always healthy.

Shape of every check (as checks/system_storage.py): a TLA+ specification under spec/system is
model-checked by TLC (its own invariants and action properties on an exhaustive bounded
configuration), the transitions of that state graph are dumped and turned into behaviours that
cover every transition, deep histories are sampled by TLC simulation of the same actions on larger
constants, and every behaviour is replayed on the real runtime (interpreter and VM) by
harness/cmd/res, which compares what the specification predicts after every step / transaction.
The specification decides; the Go code renders, executes and records."""
import json, os, subprocess, shutil, time, re
from concurrent.futures import ThreadPoolExecutor
from vlib.core import Infra, read_ndjson, write_ndjson, TLCResult, SPEC, tail
from vlib.graph import Graph, key

LEVEL = {"C02": "model_checking", "C04": "model_checking", "C49": "model_checking", "C23": "model_checking"}

RES_FILES = ["system/Resources.tla", "system/MC_Resources.tla", "system/Sim_Resources.tla",
             "system/MC_Resources_quick.cfg", "system/MC_Resources_quick2.cfg", "system/MC_Resources_sim.cfg",
             "system/MC_Resources_thorough.cfg"]
REFS_FILES = RES_FILES + ["system/Refs.tla", "system/MC_Refs.tla", "system/Sim_Refs.tla",
                          "system/MC_Refs_quick.cfg", "system/MC_Refs_sim.cfg", "system/MC_Refs_thorough.cfg"]
ATT_FILES = ["system/Attachments.tla", "system/MC_Attachments.tla", "system/Sim_Attachments.tla",
             "system/MC_Attachments_quick.cfg", "system/MC_Attachments_quick2.cfg", "system/MC_Attachments_quick3.cfg",
             "system/MC_Attachments_sim.cfg", "system/MC_Attachments_thorough.cfg", "system/MC_Attachments_thorough3.cfg"]

SLOTS2 = ["var", "dict"]
SLOTS3 = ["var", "dict", "arr"]


# ------------------------------------------------------------------ helpers (family-local)
def dedupe_sim(hists, depth):
    """TLC evaluates the printing invariant on every candidate successor: keep one per trace."""
    seen, out = set(), []
    for h in hists:
        k = json.dumps(h[:depth - 1], sort_keys=True)
        if k in seen:
            continue
        seen.add(k)
        out.append(h)
    return out


def simulate_parallel(ctx, files, module, cfg, total, depth, tag, chunks=None, timeout=6000):
    """TLC -simulate is single-threaded: run `chunks` independent TLC processes with seeds derived
    from ctx.seed and merge the printed histories. Returns (histories, states_checked)."""
    chunks = chunks or max(1, min(ctx.cores, 16, (total + 13) // 14))
    per = (total + chunks - 1) // chunks

    def one(i):
        d = os.path.join(ctx.work, "tlc-%s-%d" % (tag, i))
        shutil.rmtree(d, ignore_errors=True)
        os.makedirs(d)
        for f in files:
            shutil.copy(f if os.path.isabs(f) else os.path.join(SPEC, f), d)
        cmd = ["timeout", str(timeout), "tlc", "-metadir", os.path.join(d, "meta"), "-config", cfg, "-workers", "1",
               "-simulate", "num=%d" % per, "-depth", str(depth), "-seed", str(ctx.seed * 1000 + i), "-deadlock", module]
        e = dict(os.environ)
        e["JAVA_TOOL_OPTIONS"] = (e.get("JAVA_TOOL_OPTIONS", "") + " -Xss64m -Xmx1500m -XX:ParallelGCThreads=1").strip()
        p = subprocess.run(cmd, cwd=d, stdout=subprocess.PIPE, stderr=subprocess.STDOUT, text=True, env=e)
        with open(os.path.join(d, "tlc.out"), "w") as fh:
            fh.write(p.stdout)
        r = TLCResult(p.stdout, p.returncode)
        shutil.rmtree(os.path.join(d, "meta"), ignore_errors=True)
        if p.returncode == 124:
            raise Infra("TLC simulation timeout (%s chunk %d)" % (tag, i))
        if r.violated:
            raise Infra("TLC reports a property violation ON THE MODEL during simulation %s (spec error, not a code verdict):\n%s"
                        % (tag, tail(p.stdout, 50)))
        if r.error or p.returncode not in (0, 12, 13):
            raise Infra("TLC simulation failed (%s chunk %d rc=%d):\n%s" % (tag, i, p.returncode, tail(p.stdout, 40)))
        return r

    t = time.time()
    with ThreadPoolExecutor(max_workers=chunks) as ex:
        rs = list(ex.map(one, range(chunks)))
    hists, states = [], 0
    for r in rs:
        hists += dedupe_sim(r.json_lines(), depth - 1)
        states += r.generated
    ctx.tlc_runs.append({"module": tag, "generated": states, "distinct": states, "wall_s": round(time.time() - t, 1),
                         "mode": "simulate x%d" % chunks})
    ctx.log("TLC %s: %d processes, %d states checked, %d histories, %.1fs" % (tag, chunks, states, len(hists), time.time() - t))
    return hists, states


def run_driver(ctx, binary, sub, behs, tag, extra=()):
    bf = os.path.join(ctx.work, tag + ".behaviours.ndjson")
    rf = os.path.join(ctx.work, tag + ".results.ndjson")
    write_ndjson(bf, behs)
    t = time.time()
    ctx.run([binary, sub, bf, rf] + list(extra), timeout=3000)
    rows = read_ndjson(rf)
    summary = [r for r in rows if r.get("summary")]
    if not summary:
        raise Infra("driver wrote no summary (%s)" % tag)
    fails = [r for r in rows if not r.get("summary")]
    for f in fails:
        if f.get("harness"):
            raise Infra("harness/renderer error in %s (behaviour %s, %s): %s\n%s" % (tag, f.get("id"), f.get("kind"), f.get("msg"), f.get("src", "")))
    ctx.log("replayed %s: %d behaviours x %d engines, %d transactions, %d failures, %.1fs" %
            (tag, summary[0]["behaviours"], summary[0]["engines"], summary[0]["transactions"], len(fails), time.time() - t))
    return summary[0], fails


def long_cover(g, init, is_final, maxlen=70):
    """Paths from init covering every reachable transition. Unlike Graph.transition_cover a path keeps
    going: from its current state it walks (through already covered transitions if necessary) to the
    nearest state that still has an uncovered outgoing transition, until it is maxlen long; then it is
    closed at the nearest final state. Fewer, longer behaviours = less re-execution of prefixes."""
    import collections
    unc = set(range(len(g.edges)))
    nunc = collections.Counter(g.edges[i][0] for i in unc)   # state -> number of uncovered out-edges
    cache = {}

    def nearest(s):
        seen = {s: None}
        q = collections.deque([s])
        while q:
            u = q.popleft()
            if nunc.get(u, 0) > 0:
                seg = []
                x = u
                while seen[x] is not None:
                    e = seen[x]
                    seg.append(e)
                    x = g.edges[e][0]
                seg.reverse()
                e = next(j for j in g.out[u] if j in unc)
                return seg + [e]
            for j in g.out[u]:
                t = g.edges[j][2]
                if t not in seen:
                    seen[t] = j
                    q.append(t)
        return None

    paths = []
    while unc:
        cur, path = init, []
        while len(path) < maxlen:
            seg = nearest(cur)
            if seg is None:
                break
            for e in seg:
                if e in unc:
                    unc.discard(e)
                    nunc[g.edges[e][0]] -= 1
            path += seg
            cur = g.edges[seg[-1]][2]
        if not path:
            break   # the rest is unreachable from init
        tailp = g.complete(cur, is_final, cache)
        if tailp is None:
            raise Infra("no way back to a final state")
        for e in tailp:
            if e in unc:
                unc.discard(e)
                nunc[g.edges[e][0]] -= 1
        paths.append(path + tailp)
    return paths


def cover_behaviours(ctx, edges, cfgrec, base_id, triples):
    if not edges:
        raise Infra("no transitions dumped")
    g = Graph(edges)
    init = key(edges[0]["s"])
    is_final = lambda s: json.loads(s)["phase"] == "idle"
    paths = long_cover(g, init, is_final)
    behs = []
    covered = set()
    for n, path in enumerate(paths):
        steps = []
        for i in path:
            ks, a, kt, t = g.edges[i]
            steps.append(a)
            covered.add(i)
            triples.add((ks, json.dumps({k: v for k, v in a.items() if k not in ("st", "pop")}, sort_keys=True)))
        behs.append({"id": base_id + n, "cfg": cfgrec, "steps": steps})
    if len(covered) != len(g.edges):
        raise Infra("transition cover incomplete: %d of %d" % (len(covered), len(g.edges)))
    ctx.log("graph: %d states, %d transitions -> %d behaviours" % (len(g.states), len(g.edges), len(behs)))
    return g, behs


def label_kinds(behs):
    c = {}
    for b in behs:
        for s in b["steps"]:
            k = s.get("op")
            if k in ("move", "badmove"):
                k += ":" + s["sp"][-1]["k"] + ">" + s["dp"][-1]["k"]
            elif k == "shift":
                k += ":" + (s["sp"][-1]["k"] if s["sp"] else "new") + ">" + s["mp"][-1]["k"] + ">" + s["dp"][-1]["k"]
            elif k in ("useref", "borrow"):
                k += ":" + str(s.get("res"))
            c[k] = c.get(k, 0) + 1
    return c


def sim_behaviours(hists, cfgrec, base_id):
    return [{"id": base_id + i, "cfg": cfgrec, "steps": h} for i, h in enumerate(hists)]


def sparse_copies(bs, offset=40000000):
    """The same behaviours without the per-step state description (which reads everything through
    references after every operation and can thereby mask stale internal state of the runtime)."""
    out = []
    for b in bs:
        e = dict(b)
        e["cfg"] = dict(b["cfg"], sparse=True)
        e["id"] = b["id"] + offset
        out.append(e)
    return out


HEALTH_KINDS = ("health", "root-count", "ledger-population")


def is_health(f):
    return any(f["kind"].startswith(k) for k in HEALTH_KINDS)


def is_health_or_internal(f):
    return is_health(f) or f["kind"] == "internal"


def reporter(ctx, only=None):
    def classify(f):
        if only and not only(f):
            return
        sig = {"kind": f["kind"], "engine": f["engine"], "op": f.get("op", ""), "form": f.get("form", ""), "err": f.get("err", "")}
        ctx.report(sig, "behaviour %d (%s) step %d, %s %s: [%s] %s" % (f["id"], f["engine"], f["step"], f.get("op", ""), f.get("form", ""), f["kind"], f["msg"]),
                   {"behaviour": f.get("beh"), "source": f.get("src"), "engine": f["engine"]})
    return classify


# ------------------------------------------------------------------ C02 / C23: Resources.tla
def resources_histories(ctx, triples):
    """TLC on Resources.tla: exhaustive configs (all invariants + action properties, transition dump)
    and simulation; returns (behaviours of the covers, simulated behaviours, graph sizes)."""
    states = transitions = 0
    behs = []
    q1 = ("MC_Resources_quick.cfg", {"slots": ["var"], "accts": 1, "paths": 1, "refs": 0})
    q2 = ("MC_Resources_quick2.cfg", {"slots": SLOTS2, "accts": 1, "paths": 2, "refs": 0})
    th = ("MC_Resources_thorough.cfg", {"slots": SLOTS2, "accts": 1, "paths": 2, "refs": 0})
    for n, (cfg, cfgrec) in enumerate([q1, q2] if ctx.quick else [q1, q2, th]):
        r = ctx.tlc(RES_FILES, "MC_Resources", cfg, workers=1, timeout=6000, tag="res-" + cfg[13:-4])
        g, bs = cover_behaviours(ctx, r.json_lines(), cfgrec, n * 1000000, triples)
        states += len(g.states)
        transitions += len(g.edges)
        behs += bs
    nsim = 224 if ctx.quick else 5600
    depth = 60
    hists, _ = simulate_parallel(ctx, RES_FILES, "Sim_Resources", "MC_Resources_sim.cfg", nsim, depth + 1, "res-sim")
    cfgs_ = {"slots": SLOTS3, "accts": 2, "paths": 2, "refs": 0}
    sbehs = sim_behaviours(hists, cfgs_, 5000000)
    if len(sbehs) < nsim // 3:
        raise Infra("simulation produced too few behaviours: %d" % len(sbehs))
    for b in sbehs:
        for s in b["steps"]:
            triples.add(("sim", json.dumps({k: v for k, v in s.items() if k not in ("st", "pop", "roots")}, sort_keys=True)))
    return behs, sbehs, states, transitions


def check_resources(ctx, pid):
    binary = ctx.build("res")
    triples = set()
    behs, sbehs, states, transitions = resources_histories(ctx, triples)
    health_only = pid == "C23"
    mine = is_health_or_internal if health_only else (lambda f: not is_health(f))
    cls = reporter(ctx, only=mine)
    other = []

    def classify(f):
        if not mine(f):
            other.append(f)
        cls(f)
    # atree validation inside the runtime is OFF (as in production) so that a leaked or doubly
    # referenced slab reaches the committed ledger and the monitor is what detects it (and because the
    # interpreter's in-transaction validation reports "slab overflows" on transient containers in some
    # nested histories, see known/res.json "observations")
    extra = ["health=1", "atree=0"] + (["healthfirst=1"] if health_only else [])
    s1, f1 = run_driver(ctx, binary, "replay", behs, "cover", extra)
    s2, f2 = run_driver(ctx, binary, "replay", sbehs + sparse_copies(sbehs), "sim", extra)
    for f in f1 + f2:
        classify(f)
    if other:
        ctx.log("note: %d disagreement(s) belong to the sibling property (%s) and are reported by its check: %s" %
                (len(other), "C02" if health_only else "C23", sorted(set(o["kind"] for o in other))))
    kinds = label_kinds(behs + sbehs)
    ctx.add_sample({"kind": "transition-cover behaviour", "steps": [{k: v for k, v in s.items() if k != "pop"} for s in behs[len(behs) // 2]["steps"][:8]]})
    ctx.add_sample({"kind": "simulated history (3 slots, 2 accounts x 2 paths, 14 resources, depth 2)",
                    "steps": [{k: v for k, v in s.items() if k != "pop"} for s in sbehs[0]["steps"][:10]]})
    cov = {
        "states": states, "transitions": transitions,
        "traces_validated_against_impl": (s1["behaviours"] + s2["behaviours"]) * s1["engines"],
        "transactions_executed": (s1["transactions"] + s2["transactions"]) * s1["engines"],
        "committed_transactions_checked": (s1["commits"] + s2["commits"]) * s1["engines"],
        "evaluations": (s1["steps"] + s2["steps"]) * s1["engines"],
        "distinct_nontrivial": len(triples),
        "rule": "distinct (abstract state, operation label) pairs of the exhaustive configurations plus distinct operation labels (operation, access paths of the places involved, predicted events) of the simulated histories; each was executed on the real runtime under both engines",
        "exhaustive": True, "simulated_histories": len(sbehs), "operation_forms": kinds,
    }
    if health_only:
        cov["health_checks"] = cov["committed_transactions_checked"]
        # the container histories of Containers.tla (arrays / dictionaries incl. 300-character dictionary keys
        # that atree stores in their own slabs, nested dictionaries, moves between two accounts) are monitored too
        from checks.vals import c20_histories_with_health
        nh, nc, cfails = c20_histories_with_health(ctx)
        for f in cfails:
            ctx.report(f["sig"], "container history (Containers.tla): " + f["msg"], f.get("replay"))
        cov["container_histories_monitored"] = nh
        cov["container_commits_checked"] = nc
        cov["health_checks"] += nc
    return ctx.finish(cov, assumptions=[
        "host = repo's TestRuntimeInterface/TestLedger (harness/host) with atree validation enabled",
        "resource universe of the model: two resource types implementing one interface, each with an optional field, an array field and a dictionary field; nesting depth <= 2",
        "uuids are assigned to model identities in creation order within a transaction"])


def check_C02(ctx):
    return check_resources(ctx, "C02")


def check_C23(ctx):
    return check_resources(ctx, "C23")


# ------------------------------------------------------------------ C04: Refs.tla
def check_C04(ctx):
    binary = ctx.build("res")
    triples = set()
    cfg = "MC_Refs_quick.cfg" if ctx.quick else "MC_Refs_thorough.cfg"
    r = ctx.tlc(REFS_FILES, "MC_Refs", cfg, workers=1, timeout=6000, tag="refs-cover")
    g, behs = cover_behaviours(ctx, r.json_lines(), {"slots": SLOTS2, "accts": 1, "paths": 1, "refs": 1}, 0, triples)
    nsim = 224 if ctx.quick else 5600
    depth = 60
    hists, _ = simulate_parallel(ctx, REFS_FILES, "Sim_Refs", "MC_Refs_sim.cfg", nsim, depth + 1, "refs-sim")
    sbehs = sim_behaviours(hists, {"slots": SLOTS3, "accts": 2, "paths": 2, "refs": 3}, 5000000)
    if len(sbehs) < nsim // 3:
        raise Infra("simulation produced too few behaviours: %d" % len(sbehs))
    uses = {}
    for b in sbehs:
        for s in b["steps"]:
            triples.add(("sim", json.dumps({k: v for k, v in s.items() if k not in ("st", "pop", "roots")}, sort_keys=True)))
    for b in behs + sbehs:
        for s in b["steps"]:
            if s.get("op") in ("useref", "borrow"):
                uses[s["op"] + ":" + s["res"]] = uses.get(s["op"] + ":" + s["res"], 0) + 1
    for need in ("useref:ok", "useref:err:invalidated", "useref:err:deref-nil", "borrow:some", "borrow:nil"):
        if not uses.get(need):
            raise Infra("behaviours never exercise %s" % need)
    cls = reporter(ctx, only=lambda f: not is_health(f))
    s1, f1 = run_driver(ctx, binary, "replay", behs, "cover", ["health=0", "atree=0"])
    s2, f2 = run_driver(ctx, binary, "replay", sbehs + sparse_copies(sbehs), "sim", ["health=0", "atree=0"])
    for f in f1 + f2:
        cls(f)
    ctx.add_sample({"kind": "transition-cover behaviour", "steps": [{k: v for k, v in s.items() if k != "pop"} for s in behs[len(behs) // 2]["steps"][:10]]})
    ctx.add_sample({"kind": "simulated history", "steps": [{k: v for k, v in s.items() if k not in ("pop", "st")} for s in sbehs[0]["steps"][:14]]})
    return ctx.finish({
        "states": len(g.states), "transitions": len(g.edges),
        "traces_validated_against_impl": (s1["behaviours"] + s2["behaviours"]) * s1["engines"],
        "transactions_executed": (s1["transactions"] + s2["transactions"]) * s1["engines"],
        "evaluations": (s1["steps"] + s2["steps"]) * s1["engines"],
        "reference_uses": uses,
        "distinct_nontrivial": len(triples),
        "rule": "distinct (abstract state incl. reference variables, operation label) pairs of the exhaustive configuration plus distinct operation labels of the simulated histories, each executed on both engines",
        "exhaustive": True, "simulated_histories": len(sbehs), "operation_forms": label_kinds(behs + sbehs),
    }, assumptions=[
        "invalidated-reference error = user error InvalidatedResourceReferenceError (both engines on the unchanged tree); failed storage dereference = DereferenceError; borrow with a non-matching type = StoredValueTypeMismatchError",
        "a reference and all its uses live in one transaction (ephemeral references cannot be stored)",
        "references are bound to variables of type &{T.N}? and used by reading the member `id`"])


# ------------------------------------------------------------------ C49: Attachments.tla
def check_C49(ctx):
    binary = ctx.build("res")
    triples = set()
    A2 = ["var", "arr"]
    res1 = ("MC_Attachments_quick.cfg", {"slots": A2, "paths": 1, "sslots": 0, "variant": "plain"})
    res2 = ("MC_Attachments_quick2.cfg", {"slots": A2, "paths": 1, "sslots": 0, "variant": "plain"})
    st1 = ("MC_Attachments_quick3.cfg", {"slots": A2, "paths": 1, "sslots": 2, "variant": "plain"})
    th1 = ("MC_Attachments_thorough.cfg", {"slots": A2, "paths": 1, "sslots": 0, "variant": "plain"})
    th3 = ("MC_Attachments_thorough3.cfg", {"slots": A2, "paths": 1, "sslots": 2, "variant": "plain"})
    states = transitions = 0
    behs = []
    for n, (cfg, cfgrec) in enumerate([res1, res2, st1] if ctx.quick else [res1, th1, st1, th3]):
        r = ctx.tlc(ATT_FILES, "MC_Attachments", cfg, workers=1, timeout=6000, tag="att-" + cfg[15:-4])
        g, bs = cover_behaviours(ctx, r.json_lines(), cfgrec, n * 1000000, triples)
        states += len(g.states)
        transitions += len(g.edges)
        behs += bs
    nsim = 224 if ctx.quick else 5600
    depth = 60
    hists, _ = simulate_parallel(ctx, ATT_FILES, "Sim_Attachments", "MC_Attachments_sim.cfg", nsim, depth + 1, "att-sim")
    simcfg = {"slots": ["var", "arr", "var"], "paths": 2, "sslots": 2, "variant": "plain"}
    sbehs = sim_behaviours(hists, simcfg, 5000000)
    if len(sbehs) < nsim // 3:
        raise Infra("simulation produced too few behaviours: %d" % len(sbehs))
    # the same world with a base type that declares an entitled member and an entitled attachment
    # function called through an authorized reference: a slice of the histories is replayed on it
    ent = []
    for b in sbehs[:max(40, len(sbehs) // 8)] + behs[:200]:
        e = dict(b)
        e["cfg"] = dict(b["cfg"], variant="ent")
        e["id"] = b["id"] + 20000000
        ent.append(e)
    for b in sbehs:
        for s in b["steps"]:
            triples.add(("sim", json.dumps({k: v for k, v in s.items() if k not in ("st", "cst")}, sort_keys=True)))

    def classify(f):
        sig = {"kind": f["kind"], "engine": f["engine"], "op": f.get("op", ""), "form": f.get("form", ""),
               "variant": f.get("variant", ""), "err": f.get("err", "")}
        ctx.report(sig, "behaviour %d (%s, %s contract) step %d, %s %s: [%s] %s" %
                   (f["id"], f["engine"], f.get("variant"), f["step"], f.get("op", ""), f.get("form", ""), f["kind"], f["msg"]),
                   {"behaviour": f.get("beh"), "source": f.get("src"), "engine": f["engine"]})
    # every behaviour is replayed twice: with the state description logged after every step, and
    # "sparse" (no reads of the attachments between the operations of a transaction; per-operation
    # results, events and the state re-read after the commit are still compared)
    def sparse(bs):
        out = []
        for b in bs:
            e = dict(b)
            e["cfg"] = dict(b["cfg"], sparse=True)
            e["id"] = b["id"] + 40000000
            out.append(e)
        return out
    s1, f1 = run_driver(ctx, binary, "att", behs + sparse(behs), "cover")
    s2, f2 = run_driver(ctx, binary, "att", sbehs + sparse(sbehs), "sim")
    s3, f3 = run_driver(ctx, binary, "att", ent, "ent")
    for f in f1 + f2 + f3:
        classify(f)
    kinds = {}
    for b in behs + sbehs:
        for s in b["steps"]:
            k = s.get("op")
            if k in ("attach", "sattach") and s.get("res"):
                k += ":" + s["res"]
            if k in ("access", "sec"):
                k += ":" + ("nil" if s.get("res") == "nil" else "some")
            kinds[k] = kinds.get(k, 0) + 1
    for need in ("attach", "attach:err:dup", "access:some", "access:nil", "remove", "destroy", "foreach", "move", "scopy", "sattach"):
        if not kinds.get(need):
            raise Infra("behaviours never exercise %s" % need)
    ctx.add_sample({"kind": "transition-cover behaviour", "steps": behs[len(behs) // 3]["steps"][:10]})
    ctx.add_sample({"kind": "simulated history", "steps": [{k: v for k, v in s.items() if k != "st"} for s in sbehs[0]["steps"][:14]]})
    n = lambda k: s1[k] + s2[k] + s3[k]
    return ctx.finish({
        "states": states, "transitions": transitions,
        "traces_validated_against_impl": n("behaviours") * s1["engines"],
        "transactions_executed": n("transactions") * s1["engines"],
        "evaluations": n("steps") * s1["engines"],
        "distinct_nontrivial": len(triples),
        "rule": "distinct (abstract state, operation label) pairs of the exhaustive configurations plus distinct operation labels of the simulated histories, each executed on both engines",
        "exhaustive": True, "simulated_histories": len(sbehs), "entitled_variant_behaviours": len(ent), "operation_forms": kinds,
    }, assumptions=[
        "resource attachments A, B for one resource type, struct attachment SA for one struct type; tags are constructor arguments",
        "duplicate attach = user error DuplicateAttachmentError (both engines on the unchanged tree)",
        "`base`/`self` are observed through attachment functions returning base.id / base.uuid / base.x and self.tag, and through the default arguments of the attachments' ResourceDestroyed events"])


META = {
    "C02": {
        "level_text": "Exhaustive TLC exploration of bounded configurations of the Resources state machine (A: 3 resources, 1 variable slot, 1 account x 1 path, optional/array/dictionary fields, nesting depth 2, <=2 operations per transaction, any number of transactions, loss-guard failures; B: 2 resources, 2 slots represented as an optional variable and a local-dictionary entry, 2 paths, <=3 operations per transaction, any number of transactions, swaps, double transfers `let a <- b <- c`, loss-guard failures; thorough adds C: 3 resources, 2 slots, 2 paths) with the invariants created = destroyed (+) located, one place per resource, one resource per place, well-formed nesting, exactly one destroy event per destroyed declaring resource, and the action properties 'a uuid never leaves destroyed' and 'only Commit changes committed state'. Every transition of these graphs plus hundreds (quick) / thousands (thorough) of simulated 60-step histories on larger constants (14 resources, 3 slot representations incl. a local array, 2 accounts x 2 paths, 3 array elements, 2 dictionary keys, direct nested-to-nested moves, moves through a function call, put-back into the same place, swaps, double transfers, creation directly into nested places, small and slab-sized payloads) is replayed on the real runtime under interpreter and VM: the description of every slot and storage path is compared after every single operation, loss-guard failures must be ResourceLossError/OverwriteError and leave no write, and after every committed transaction the number of generated uuids, the multiset of ResourceDestroyed events (model id and uuid), the population (id, uuid, location path) read by a fresh script and the resource uuids decoded from the committed ledger are compared with the model.",
        "level_note": "Trusted: TLC, the Go renderer from model labels to Cadence (harness/cmd/res), the repo's test ledger/interface as host. Bounded model: one resource interface with two implementations (one declares ResourceDestroyed, one does not), nesting depth <= 2, <= 3 array elements, 2 dictionary keys; contract fields as resource locations are not modelled; attachments as locations are in C49's model. The property quantifies over successful executions: a transaction the model expects to succeed but the storage layer refuses (one such case found, see known/res.json) is reported separately from duplication/loss.",
        "technique": "TLA+ spec (Resources.tla) model-checked with TLC; spec behaviours (transition cover + simulation) replayed into the real runtime and compared step by step",
        "design_ref": "DESIGN.md section 5 C02", "engine": "E2 replay",
    },
    "C04": {
        "level_text": "Refs.tla extends Resources.tla with reference variables: ephemeral references (to a resource in a variable slot, or nested at any depth below a slot or a storage path) carry a validity flag that every Resources step clears for exactly the references into what the step transferred or destroyed (with everything nested in it); storage references (borrow<&T> or a reference to the root value of a path) resolve (account, path) at every use against the borrowed type. TLC checks on the exhaustive configuration (2 resources, 2 slots, 1 path, optional/array/dictionary fields, 1 reference variable, <=4 operations per transaction, any number of transactions) the invariants 'a usable reference points to a live resource', 'no references outside a transaction' and the action properties 'a surviving reference's chain of containers did not change', 'a step invalidates exactly the references into what it moved', 'invalidation is for ever'. Every transition of that graph plus simulated 60-step histories (14 resources, nesting depth 2, 3 reference variables, 3 borrow types, moves of the referenced resource / of a container of it / swaps / double transfers / destroy / save / load / through a function) is replayed on both engines; every UseRef is a member read through the reference: it must log the predicted id, or fail with InvalidatedResourceReferenceError exactly when the model says invalidated, DereferenceError when the path is empty or holds another type, StoredValueTypeMismatchError on a mistyped borrow.",
        "level_note": "Trusted: TLC, renderer, test host. References live inside one transaction (they cannot be stored). A reference is always bound to a variable before its members are indexed. Attachment references are not in this model. Invalidation of nested values that were never loaded is reached only through histories that re-load from storage between transactions (every transaction starts from a fresh Storage).",
        "technique": "TLA+ spec (Refs.tla over Resources.tla) model-checked with TLC; spec behaviours (transition cover + simulation) replayed into the real runtime, every reference use compared",
        "design_ref": "DESIGN.md section 5 C04", "engine": "E2 replay",
    },
    "C49": {
        "level_text": "Attachments.tla: bases with at most one attachment per type by construction (base -> type -> tag), fresh tag per attach. TLC checks on exhaustive configurations (1 base / 2 attachment types / 3 tags / <=3 operations per transaction incl. entitled access; 2 bases / 2 tags / <=2 operations; struct side: 2 struct variables, 1 stored struct, <=4 operations) that attachments exist only on live bases, every live attachment is a distinct instance, no destroyed instance is attached again, attachments travel (only attach/remove/destroy change them) and removed instances never come back. Every transition plus simulated 60-step histories (8 bases, 3 slots incl. a local array, 2 paths, struct attachments with copies/field writes/save/load) is replayed on both engines: attach (moves the base through the attach expression; a duplicate must fail with DuplicateAttachmentError and leave storage untouched), access `b[A]` on owned values and through borrowed references with `self.tag`, `base.id`, `base.uuid` observed, entitled attachment function through an authorized reference, forEachAttachment (set of types), remove (event, no-op when absent), moves through variables/arrays/storage, destroy of the base (events of each attachment with `base.id` + the base's event); the description of every slot/struct variable/storage path is compared after every step and storage is re-read by a fresh script after every commit. A slice of the histories is additionally replayed on a variant of the contract whose base type declares an entitled member.",
        "level_note": "Trusted: TLC, renderer, test host. One resource base type with two resource attachment types and one struct base type with one struct attachment type; entitlement *mappings* on attachments are not modelled (entitled attachment functions through authorized references are). Known finding on the VM for the entitled-base variant (known/res.json).",
        "technique": "TLA+ spec (Attachments.tla) model-checked with TLC; spec behaviours (transition cover + simulation) replayed into the real runtime and compared step by step",
        "design_ref": "DESIGN.md section 5 C49", "engine": "E2 replay",
    },
    "C23": {
        "level_text": "The histories of Resources.tla (transition cover of the exhaustive configurations + simulated 60-step histories with overwrite by load+save, loads into another account, destruction of stored resources with nested arrays/dictionaries/optionals, removal and insertion of nested values through storage references, double transfers into stored containers, small and slab-sized payloads) are executed on the real runtime under both engines with the runtime's own atree validation OFF (production configuration); at every model Commit a fresh runtime.Storage is built over a read-only view of the committed registers, every slab register is loaded, Storage.CheckHealth (atree.CheckStorageHealth over all slabs + 'every root slab is an account storage map') is run, every stored value of every domain is decoded and walked down to its leaves, and the number of stored root values per account and the set of resource uuids found are compared with the model. Internal errors during these histories are reported too.",
        "level_note": "Slab-level structure is NOT modelled: health is an implementation invariant monitored at every Commit of model-generated histories; the model supplies the histories and the expected population (which catches leaks that the health check alone would call garbage-free). Trusted: TLC, renderer, atree's own health check. harness/health (health.Check(w *host.World) error, health.Inspect) is reusable by other drivers; it was negative-controlled by dropping, orphaning and truncating slab registers.",
        "technique": "TLA+ spec (Resources.tla) histories replayed into the real runtime with the storage-health monitor evaluated at every model Commit",
        "design_ref": "DESIGN.md section 5 C23", "engine": "E2 replay + monitor",
    },
}
