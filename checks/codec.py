"""codec family: C41 JSON-Cadence, C43 JSON-Cadence vs CCF, C42 CCF, C29 argument validation,
C48 events, C44 stored-value encodings.

spec/codec/JsonCdc.tla (+ MC_JsonCdc.tla) defines abstract values/types, the JSON-Cadence document
JsonOf(v), Erase(v), CcfView(v), Common(v) and the round trip as a state machine; TLC checks the
model's own laws and prints the table (v, JsonOf(v), Erase(v), CcfView(v), Common(v)) for a universe of
depth <= 2 that covers every value kind and type kind. harness/cmd/codec builds the real
cadence.Value of every row and compares the real codecs with the table."""
import json, os, collections
from vlib.core import Infra, read_ndjson, write_ndjson

LEVEL = {"C41": "model_checking", "C43": "model_checking", "C42": "model_checking",
         "C29": "model_checking", "C48": "model_checking", "C44": "other"}

JFILES = ["codec/CdcSyntax.tla", "codec/JsonCdc.tla", "codec/MC_JsonCdc.tla"]
INVS = "DecodeIsErase ReEncodeStable EraseIdempotent CommonContent EmitRow"


def _cfg(ctx, name, body):
    p = os.path.join(ctx.work, name)
    with open(p, "w") as fh:
        fh.write(body)
    return p


def universe(ctx, full=None):
    """Run TLC on the JSON-Cadence model; returns (tlc result, rows)."""
    full = (not ctx.quick) if full is None else full
    cfg = _cfg(ctx, "MC_JsonCdc_run.cfg", """SPECIFICATION Spec
CONSTANTS
  PrimNames <- MCPrimNames
  FixUniverse <- MCFixUniverse
  AddrUniverse <- MCAddrUniverse
  Universe <- MCUniverse
  StoredTids <- MCStoredTids
  Seed = %d
  Full = %s
INVARIANTS %s
""" % (ctx.seed, "TRUE" if full else "FALSE", INVS))
    r = ctx.tlc(JFILES + [cfg], "MC_JsonCdc", "MC_JsonCdc_run.cfg", workers=min(8, ctx.cores), timeout=1500, tag="jsoncdc")
    rows = r.json_lines()
    r.storage_only = [x["storageonly"] for x in rows if "storageonly" in x]
    rows = [x for x in rows if "v" in x]
    if len(rows) < 1000:
        raise Infra("TLC printed only %d rows of the value universe" % len(rows))
    rows.sort(key=lambda x: json.dumps(x["v"], sort_keys=True))
    for i, row in enumerate(rows):
        row["id"] = i
        row["jo"] = True
    return r, rows


def run_roundtrip(ctx, binary, rows):
    cf = os.path.join(ctx.work, "rt.cases.ndjson")
    rf = os.path.join(ctx.work, "rt.results.ndjson")
    corpus = os.path.join(ctx.work, "rt.corpus.ndjson")
    write_ndjson(cf, rows)
    ctx.run([binary, "roundtrip", cf, rf, corpus], timeout=1500)
    res = read_ndjson(rf)
    summ = [r for r in res if r.get("summary")]
    if not summ:
        raise Infra("roundtrip driver wrote no summary")
    fails = [r for r in res if not r.get("summary")]
    for f in fails:
        if f.get("harness"):
            raise Infra("harness/model error in round trip: %s" % f.get("msg"))
    if summ[0]["cases"] != len(rows):
        raise Infra("driver processed %d of %d cases" % (summ[0]["cases"], len(rows)))
    return summ[0], fails, corpus


def run_mutate(ctx, binary, corpus, codec, n):
    rf = os.path.join(ctx.work, "mut.%s.ndjson" % codec)
    ctx.run([binary, "mutate", corpus, rf, codec, str(n)], timeout=1500)
    res = read_ndjson(rf)
    summ = [r for r in res if r.get("summary")]
    if not summ:
        raise Infra("mutate driver wrote no summary")
    fails = [r for r in res if not r.get("summary") and not r.get("info")]
    infos = [r for r in res if r.get("info")]
    return summ[0], fails, infos


def sig_of(f):
    s = {"kind": f["kind"], "class": f.get("class", ""), "err": f.get("err", "")}
    if f.get("reason"):
        s["reason"] = f["reason"]
    if f.get("panic"):
        s["panic"] = f["panic"]
    if f.get("op"):
        s["op"] = f["op"]
    return s


def report_all(ctx, fails, prop):
    n = 0
    for f in fails:
        if f.get("prop") != prop:
            continue
        n += 1
        ctx.report(sig_of(f), "%s [%s] %s" % (f["kind"], f.get("class", ""), f["msg"]),
                   {"value": f.get("case"), "hex": f.get("hex"), "kind": f["kind"]})
    return n


def sample_rows(ctx, rows):
    pick = [r for r in rows if r["v"]["k"] in ("dict", "comp")][:2] + [r for r in rows if r["v"]["k"] == "type"][500:501] + rows[-1:]
    for r in pick[:4]:
        ctx.add_sample({"value": r["v"], "JsonOf": r["json"], "Erase": r["er"]})


ASSUME = ["abstract<->cadence.Value bridge of harness/cmd/codec/abs.go (self-checked: project(build(v)) = v for every row)",
          "strings/characters are symbolic atoms substituted on both sides; type-ID strings of function/intersection types ('$tid') are not predicted (C45)",
          "structurally identical types inside one value share one cadence.Type object, as runtime.ExportValue produces them"]


def check_C41(ctx):
    binary = ctx.build("codec")
    r, rows = universe(ctx)
    summ, fails, corpus = run_roundtrip(ctx, binary, rows)
    report_all(ctx, fails, "C41")
    nmut = 40000 if ctx.quick else 600000
    ms, mfails, infos = run_mutate(ctx, binary, corpus, "json", nmut)
    report_all(ctx, mfails, "C41")
    sample_rows(ctx, rows)
    ctx.add_sample({"mutation samples": ms["samples"][:3]})
    return ctx.finish({
        "states": r.distinct, "transitions": r.generated,
        "traces_validated_against_impl": summ["json_roundtrips"],
        "evaluations": summ["cases"] + ms["mutants"],
        "distinct_nontrivial": len(rows),
        "rule": "distinct abstract values of the TLC-enumerated universe (every value kind, every type kind, boundary numbers, nesting depth <= 2), "
                "each taken through encode -> compare with JsonOf -> decode -> compare with Erase -> re-encode on the real codec; "
                "mutation part (exploration): byte-level and JSON-structure mutations of the %d real encodings, decoder must return value or error" % ms["corpus"],
        "exhaustive": True,
        "json_trees_compared_with_JsonOf": summ["json_trees_compared"],
        "embedded_types_compared": summ["embedded_types_compared"],
        "value_kinds": summ["value_kinds"], "type_kinds": summ["type_kinds"],
        "mutants": ms["mutants"], "mutants_accepted": ms["accepted"], "mutants_rejected": ms["rejected"],
        "mutation_distinct_outcomes": ms["distinct_outcomes"],
        "observations_outside_statement": sorted({i["msg"][:160] for i in infos})[:5],
    }, assumptions=ASSUME + ["decoder robustness is exploration: %d seeded mutants, not exhaustive" % ms["mutants"]])


def check_C43(ctx):
    binary = ctx.build("codec")
    r, rows = universe(ctx)
    summ, fails, corpus = run_roundtrip(ctx, binary, rows)
    report_all(ctx, fails, "C43")
    for row in [x for x in rows if x["v"]["k"] in ("cap", "comp")][:3]:
        ctx.add_sample({"value": row["v"], "Common": row["x"]})
    return ctx.finish({
        "states": r.distinct, "transitions": r.generated,
        "traces_validated_against_impl": summ["cross_compared"],
        "evaluations": summ["cases"],
        "distinct_nontrivial": summ["cross_compared"],
        "rule": "distinct abstract values of the TLC-enumerated universe for which both codecs produce and decode an encoding; "
                "both decodings are projected and must equal the model's Common(v) = Erase(CcfView(v)); type IDs compared position-wise",
        "exhaustive": True,
        "not_ccf_encodable_by_design": summ["ccf_refused_attachment"],
        "value_kinds": summ["value_kinds"], "type_kinds": summ["type_kinds"],
    }, assumptions=ASSUME + ["dictionary entries compared as a set (CCF sorts them); some(nil) = nil for nested optionals",
                             "nominal types inside a capability's borrow type are compared nominally (kind, type ID, fields of composites): CCF static types carry no more"])


OFILES = ["codec/ByteOrder.tla", "codec/CcfOrder.tla", "codec/MC_CcfOrder.tla", "codec/Trace_CcfOrder.tla", "codec/Trace_CcfOrder.cfg"]


def check_C42(ctx):
    binary = ctx.build("codec")
    # (1) round trip of the value universe through CCF (default and deterministic/strict modes)
    r, rows = universe(ctx)
    summ, fails, corpus = run_roundtrip(ctx, binary, rows)
    report_all(ctx, fails, "C42")
    # (2) canonical orders: TLC explores the sorting encoder from every permutation and prints the table
    cfg = _cfg(ctx, "MC_CcfOrder_run.cfg", """SPECIFICATION Spec
CONSTANTS
  Items <- MCItems
  MaxN = %d
INVARIANTS OutputSorted PermutationInvariant AcceptIffCanonical WeakIsStrict PrefixInvariant OtherSorted EmitRow
""" % (3 if ctx.quick else 4))
    ro = ctx.tlc(OFILES + [cfg], "MC_CcfOrder", "MC_CcfOrder_run.cfg", workers=min(8, ctx.cores), timeout=1500, tag="ccforder")
    orows = ro.json_lines()
    if len(orows) < 1000:
        raise Infra("TLC printed only %d order rows" % len(orows))
    of = os.path.join(ctx.work, "order.rows.ndjson")
    rf = os.path.join(ctx.work, "order.results.ndjson")
    lf = os.path.join(ctx.work, "order.log.ndjson")
    write_ndjson(of, orows)
    ctx.run([binary, "order", of, rf, lf], timeout=1500)
    res = read_ndjson(rf)
    osumm = [x for x in res if x.get("summary")]
    if not osumm:
        raise Infra("order driver wrote no summary")
    osumm = osumm[0]
    for f in res:
        if f.get("summary"):
            continue
        if f.get("model") or f.get("kind") == "harness":
            raise Infra("order model/harness error: %s %s" % (f.get("kind"), f.get("msg")))
        ctx.report({"kind": f["kind"], "cat": f.get("cat", "")}, "%s [%s] %s" % (f["kind"], f.get("cat"), f["msg"]),
                   {"row": f.get("row")})
    # (3) the recorded orders are judged by TLC; one deliberately unsorted record is the negative control
    log = read_ndjson(lf)
    log.append({"rule": "bytewise", "keys": [[2], [1, 255]], "what": "self-test: deliberately unsorted"})
    log.append({"rule": "lenfirst", "keys": [[97, 97], [98]], "what": "self-test: deliberately unsorted"})
    write_ndjson(lf, log)
    rt = ctx.tlc(OFILES + [lf], "Trace_CcfOrder", "Trace_CcfOrder.cfg", workers=1, timeout=1500, tag="orderjudge")
    bad = rt.json_lines()
    selftest = [b for b in bad if b["what"].startswith("self-test")]
    if len(selftest) != 2:
        raise Infra("the order judge did not flag the deliberately unsorted records (%d flagged)" % len(selftest))
    if rt.distinct != len(log) + 1:
        raise Infra("the order judge visited %d of %d records" % (rt.distinct - 1, len(log)))
    for b in bad:
        if not b["what"].startswith("self-test"):
            ctx.report({"kind": "recorded-order-unsorted", "cat": b["what"].split(" ")[0], "rule": b["rule"]},
                       "deterministic encoding emits %s in unsorted order (%s): %s" % (b["what"], b["rule"], b["keys"]), b)
    # (4) decoder robustness (exploration)
    ms, mfails, infos = run_mutate(ctx, binary, corpus, "ccf", 40000 if ctx.quick else 600000)
    report_all(ctx, mfails, "C42")
    ctx.add_sample({"order row": orows[len(orows) // 2]})
    ctx.add_sample({"order row (dictionary)": [x for x in orows if x["cat"].startswith("dict:")][7]})
    ctx.add_sample({"recorded order": log[5]})
    ctx.add_sample({"round-trip value": rows[len(rows) // 3]["v"], "CcfView": rows[len(rows) // 3]["cc"]})
    ctx.add_sample({"mutation samples": ms["samples"][:2]})
    cats = collections.Counter(x["cat"] for x in orows)
    return ctx.finish({
        "states": ro.distinct + r.distinct + rt.distinct, "transitions": ro.generated + r.generated + rt.generated,
        "traces_validated_against_impl": osumm["rows"] + osumm["logged_orders"] + summ["ccf_roundtrips"],
        "evaluations": osumm["rows"] + summ["cases"] + ms["mutants"] + osumm["random_dicts"],
        "distinct_nontrivial": len(orows) + summ["ccf_roundtrips"],
        "rule": "order part: every permutation of every set of the model (fields, intersection members, entitlement sets, type definitions, "
                "dictionary keys of 6 key kinds), each encoded in deterministic mode (bytes equal across permutations, emitted order = model's canonical order, "
                "key encodings = model's CborKey) and fed re-ordered to the strict decoder (accept iff sorted); round-trip part: distinct values of the "
                "JsonCdc universe decoded to CcfView(v); recorded orders of %d encodings judged by TLC; mutation part is exploration" % osumm["logged_orders"],
        "exhaustive": True,
        "order_rows_by_category": dict(cats),
        "permutation_pairs_compared": osumm["permutation_pairs_compared"], "strict_decodes": osumm["strict_decodes"],
        "reordered_dictionaries": osumm["reordered_dicts"], "messages_with_same_named_types": osumm.get("same_name_messages", 0), "key_encodings_predicted": osumm["key_encodings_predicted"],
        "recorded_orders_judged": len(log), "random_dictionaries": osumm["random_dicts"],
        "ccf_roundtrips": summ["ccf_roundtrips"], "deterministic_strict_roundtrips": summ["det_strict"],
        "not_ccf_encodable_by_design": summ["ccf_refused_attachment"],
        "mutants": ms["mutants"], "mutants_accepted": ms["accepted"], "mutants_rejected": ms["rejected"],
        "mutation_distinct_outcomes": ms["distinct_outcomes"],
        "observations_outside_statement": sorted({i["msg"][:160] for i in infos})[:5],
    }, assumptions=ASSUME + ["'complete type information' = the encoder accepts the value; composites carrying attachments are refused by the CCF encoder by design (AttachmentFieldNotSupportedEncodingError) and are outside the domain",
                             "CCF static types are compared as CcfView: kind, type ID and composite fields (initializers, enum raw type, attachment base type, interface members are not part of a CCF type definition)",
                             "decoder robustness is exploration: %d seeded mutants" % ms["mutants"]])


AFILES = ["codec/CdcSyntax.tla", "codec/ArgValidation.tla", "codec/MC_ArgValidation.tla", "codec/Trace_ArgValidation.tla", "codec/Trace_ArgValidation.cfg"]

# fixed scripts whose RESULT is exported and round-tripped (second sentence of C29); not generated by the model
RETURN_PROBES = [
    "access(all) fun main(): Type { return Type<fun(Int, Int): Void>() }",
    "import C from 0x1\naccess(all) fun main(): AnyStruct { return attach C.A() to C.S(a: 1, b: \"x\") }",
    "access(all) fun main(): Void? { let v: Void? = (); return v }",
    "import C from 0x1\naccess(all) fun main(): Type { return Type<{C.SI}>() }",
    "import C from 0x1\naccess(all) fun main(): [AnyStruct] { return [1, \"a\", C.S(a: 1, b: \"b\"), C.E.y, /storage/p, Type<Int>(), 1.5, 0x1 as Address, {\"a\": [1 as Int8]}, nil, InclusiveRange(1, 10, step: 2), C.N(next: C.N(next: nil, id: 2), id: 1)] }",
    "access(all) fun main(): AnyStruct { return fun(): Int { return 1 } }",
    "access(all) fun main(): Type { return Type<fun(): Int>() }",
    "access(all) fun main(): [Type] { return [Type<Capability<&Int>>(), Type<auth(Mutate) &[Int]>(), Type<&Account>(), Type<[Int; 3]>(), Type<{String: Int?}>()] }",
    "access(all) fun main(): [Int?] { let a: [Int?] = [1, nil]; return a }",
]


def check_C29(ctx):
    binary = ctx.build("codec")
    cfg = _cfg(ctx, "MC_ArgValidation_run.cfg", """SPECIFICATION Spec
CONSTANTS
  ParamTypes <- MCParamTypes
  Witness <- MCWitness
  MaxSteps = %d
INVARIANTS WitnessConforms ConformsUpward SubtypePreorder EmitRow
""" % (1 if ctx.quick else 2))
    r = ctx.tlc(AFILES + [cfg], "MC_ArgValidation", "MC_ArgValidation_run.cfg", workers=min(8, ctx.cores), timeout=1700, tag="argvalidation")
    rows = r.json_lines()
    if len(rows) < 500:
        raise Infra("TLC printed only %d argument rows" % len(rows))
    rows.sort(key=lambda x: (x["src"], x["how"], json.dumps(x["arg"], sort_keys=True)))
    for i, row in enumerate(rows):
        row["id"] = i
    probes = [{"id": 100000 + i, "script": p, "how": "return-probe", "src": "-"} for i, p in enumerate(RETURN_PROBES)]
    rf_rows = os.path.join(ctx.work, "args.rows.ndjson")
    rf = os.path.join(ctx.work, "args.results.ndjson")
    lf = os.path.join(ctx.work, "args.log.ndjson")
    write_ndjson(rf_rows, rows + probes)
    ctx.run([binary, "args", rf_rows, rf, lf], timeout=1700)
    res = read_ndjson(rf)
    summ = [x for x in res if x.get("summary")]
    if not summ:
        raise Infra("args driver wrote no summary")
    summ = summ[0]
    infos = [x for x in res if x.get("info")]
    for f in res:
        if f.get("summary") or f.get("info"):
            continue
        if f["kind"] == "harness":
            raise Infra("args harness/model error: %s (%s / %s)" % (f["msg"], f.get("src"), f.get("how")))
        sig = {"kind": f["kind"], "err": f.get("err", ""), "class": f.get("class", ""), "codec": f.get("codec", ""),
               "engine": f.get("engine", ""), "how": f.get("how", ""), "param": f.get("src", "")}
        if f.get("row", {}).get("script"):
            sig["probe"] = f["row"]["script"]
        ctx.report(sig, "%s: %s" % (f["kind"], f["msg"]), {"row": f.get("row"), "engine": f.get("engine"), "codec": f.get("codec")})
    # run-time types reported by the scripts are judged by TLC (Subtype); two wrong records are the negative control
    log = read_ndjson(lf)
    nreal = len(log)
    P = lambda n: {"k": "prim", "n": n}
    log.append({"id": -1, "src": "Int", "how": "self-test", "engine": "-", "codec": "-", "t": P("Int"), "rt": P("String"), "rtid": "String"})
    log.append({"id": -2, "src": "[Int]", "how": "self-test", "engine": "-", "codec": "-", "t": {"k": "varr", "t": P("Int")},
                "rt": {"k": "varr", "t": P("AnyStruct")}, "rtid": "[AnyStruct]"})
    write_ndjson(lf, log)
    rt = ctx.tlc(AFILES + [lf], "Trace_ArgValidation", "Trace_ArgValidation.cfg", workers=1, timeout=1700, tag="argjudge")
    bad = rt.json_lines()
    if len([b for b in bad if b["how"] == "self-test"]) != 2:
        raise Infra("the run-time type judge did not flag the two deliberately wrong records")
    if rt.distinct != len(log) + 1:
        raise Infra("the run-time type judge visited %d of %d records" % (rt.distinct - 1, len(log)))
    for b in bad:
        if b["how"] != "self-test":
            ctx.report({"kind": "runtime-type-not-subtype", "param": b["src"], "how": b["how"], "engine": b["engine"], "codec": b["codec"]},
                       "script with parameter %s accepted an argument (%s) and saw run-time type %s, not a subtype" % (b["src"], b["how"], b["rtid"]), b)
    hows = collections.Counter(x["how"].split(":")[0] if x["how"] != "correct" else "correct" for x in rows)
    for row in [x for x in rows if x["how"] != "correct"][:: max(1, len(rows) // 4)][:4]:
        ctx.add_sample({"parameter": row["src"], "argument": row["how"], "value": row["arg"], "model_conforms": row["conforms"]})
    ctx.add_sample({"accepted (from the log)": summ.get("samples")})
    return ctx.finish({
        "states": r.distinct + rt.distinct, "transitions": r.generated + rt.generated,
        "traces_validated_against_impl": summ["executions"],
        "evaluations": summ["executions"],
        "distinct_nontrivial": len(rows),
        "rule": "distinct (parameter type, argument) pairs generated by the model's corruption actions from the correct witness of each of %d parameter types; "
                "each encoded with JSON-Cadence and (when expressible) CCF and executed on interpreter and VM" % len({x["src"] for x in rows}),
        "exhaustive": True,
        "parameter_types": len({x["src"] for x in rows}), "argument_variants_by_action": dict(hows),
        "model_conforming_rows": sum(1 for x in rows if x["conforms"]), "model_nonconforming_rows": sum(1 for x in rows if not x["conforms"]),
        "accepted_executions": summ["accepted"], "rejected_executions": summ["rejected"],
        "runtime_types_judged_by_tlc": nreal,
        "returned_values_roundtripped": summ["returns_roundtripped"], "return_probes": summ["return_probes"],
        "conforming_but_rejected (allowed, one-sided)": summ["conforming_rejected"],
        "conforming_but_rejected_examples": sorted({"%s <- %s [%s]: %s" % (i["src"], i["how"], i["codec"], i["class"]) for i in infos if i["kind"] == "conforming-rejected"})[:8],
        "ccf_inexpressible_variants": summ["ccf_inexpressible"],
    }, assumptions=["the program is the contract C of ArgValidation.tla deployed at 0x1; arguments are decoded by the host with encoding/json or encoding/ccf (by message prefix)",
                    "CCF has one definition per type ID: corruptions that give one type ID two shapes are sent as JSON-Cadence only",
                    "a repeated dictionary key and an enum raw value without case are tolerated by the runtime: recorded, not judged",
                    "return-value round trip is checked modulo the information the formats do not carry (Common content of JsonCdc.tla)"])


EFILES = ["codec/CdcSyntax.tla", "codec/Events.tla", "codec/MC_Events.tla"]


def check_C48(ctx):
    binary = ctx.build("codec")
    cfg = _cfg(ctx, "MC_Events_run.cfg", """SPECIFICATION Spec
CONSTANTS
  Configs <- MCConfigs
  Seed = %d
  Full = %s
INVARIANTS ConfigOK PayloadShape AllDelivered EmitRow
""" % (ctx.seed, "FALSE" if ctx.quick else "TRUE"))
    r = ctx.tlc(EFILES + [cfg], "MC_Events", "MC_Events_run.cfg", workers=min(8, ctx.cores), timeout=1700, tag="events")
    rows = r.json_lines()
    if len(rows) < 300:
        raise Infra("TLC printed only %d event configurations" % len(rows))
    rows.sort(key=lambda x: json.dumps([x["site"], x["fields"]], sort_keys=True))
    for i, row in enumerate(rows):
        row["id"] = i
    rf_rows = os.path.join(ctx.work, "events.rows.ndjson")
    rf = os.path.join(ctx.work, "events.results.ndjson")
    write_ndjson(rf_rows, rows)
    ctx.run([binary, "events", rf_rows, rf], timeout=1700)
    res = read_ndjson(rf)
    summ = [x for x in res if x.get("summary")]
    if not summ:
        raise Infra("events driver wrote no summary")
    summ = summ[0]
    for f in res:
        if f.get("summary"):
            continue
        if f["kind"] == "harness":
            raise Infra("events harness/renderer error: %s\n%s" % (f["msg"], f.get("src", "")))
        ctx.report({"kind": f["kind"], "problem": f["problem"], "site": f["site"], "engine": f["engine"], "fty": f.get("fty", ""), "fkind": f.get("fkind", "")},
                   f["msg"], {"program": f.get("src"), "row": f.get("row"), "engine": f["engine"]})
    sites = collections.Counter(x["site"] for x in rows)
    for smp in (summ.get("samples") or [])[:3]:
        ctx.add_sample(smp)
    ctx.add_sample({"configuration": rows[len(rows) // 2]})
    return ctx.finish({
        "states": r.distinct, "transitions": r.generated,
        "traces_validated_against_impl": summ["executions"],
        "evaluations": summ["executions"],
        "distinct_nontrivial": len(rows),
        "rule": "distinct configurations (emit site x ordered field specs x way of writing each default argument) enumerated by TLC; each rendered to a contract + transaction/script, "
                "executed on interpreter and VM; delivered payloads compared with the model's as a bag (type ID, field names in declaration order, declared type IDs, values, dynamic type IDs)",
        "exhaustive": True,
        "configurations_by_site": dict(sites), "events_delivered": summ["events"], "fields_compared": summ["fields_compared"],
    }, assumptions=["the order of the events of ONE destroy statement is not constrained (bag comparison)",
                    "event parameter types are the storable/exportable types the checker admits for events (no AnyStruct, no enums, no capabilities); default destruction events take primitive types only",
                    "host = harness/host World (repo's TestRuntimeInterface); payload = cadence.Event handed to EmitEvent"])


CORPUS = os.path.join(os.path.dirname(os.path.dirname(os.path.abspath(__file__))), "corpus", "stored")


def stored_rows(r, rows):
    out, seen = [], set()
    for x in rows:
        if x["st"]:
            out.append({"v": x["v"], "er": x["er"]})
        if x["v"]["k"] == "type" and x["v"]["t"]:
            k = json.dumps(x["v"]["t"][0], sort_keys=True)
            if k not in seen:
                seen.add(k)
                out.append({"ty": x["v"]["t"][0]})
    for so in (r.storage_only[0] if r.storage_only else []):
        out.append({"so": so})
    return out


def check_C44(ctx):
    """Generator of the golden corpus (run on the PINNED tree only):
         VERIF_STORED_GEN=1 bin/vcheck C44 --tier quick
       writes corpus/stored/golden.ndjson.gz from the union of the quick universes of seeds 1, 2, 3."""
    binary = ctx.build("codec")
    rf_rows = os.path.join(ctx.work, "stored.rows.ndjson")
    if os.environ.get("VERIF_STORED_GEN") == "1":
        allrows, seen = [], set()
        for seed in (1, 2, 3):
            ctx.seed = seed
            r, rows = universe(ctx, full=False)
            for x in stored_rows(r, rows):
                k = json.dumps(x, sort_keys=True)
                if k not in seen:
                    seen.add(k)
                    allrows.append(x)
        write_ndjson(rf_rows, allrows)
        p = ctx.run([binary, "stored", "gen", rf_rows, CORPUS], timeout=3000)
        print(p.stdout.strip())
        raise Infra("golden corpus (re)generated from %s: %d rows; this run is not a verdict" % (os.environ.get("VERIF_REPO", "/repo"), len(allrows)))
    r, rows = universe(ctx)
    srows = stored_rows(r, rows)
    write_ndjson(rf_rows, srows)
    rf = os.path.join(ctx.work, "stored.results.ndjson")
    ctx.run([binary, "stored", "check", rf_rows, CORPUS, rf], timeout=3000)
    res = read_ndjson(rf)
    summ = [x for x in res if x.get("summary")]
    if not summ:
        raise Infra("stored driver wrote no summary")
    summ = summ[0]
    c = summ["counts"]
    if summ["golden_entries"] < 1000:
        raise Infra("golden corpus missing or too small (%d entries) in %s" % (summ["golden_entries"], CORPUS))
    for f in res:
        if f.get("summary"):
            continue
        if f["kind"] == "harness":
            raise Infra("stored harness error: %s" % f["msg"])
        ctx.report({"kind": f["kind"], "track": f["track"], "err": f.get("err", "")}, "%s/%s: %s" % (f["track"], f["kind"], f["msg"]), {"abstract": f.get("abs")})
    checked = c.get("golden_values", 0) + c.get("golden_types", 0) + c.get("golden_direct", 0) + c.get("golden_programs", 0)
    if checked < 500:
        raise Infra("only %d golden entries were exercised" % checked)
    for smp in summ.get("samples") or []:
        ctx.add_sample(smp)
    return ctx.finish({
        "explanation": "TLA+ contributes the value/type universe (JsonCdc.tla / MC_JsonCdc.tla: storable values of depth <= 2, every static type kind, storage-only kinds) and the abstract equality (Erase, nominal types); "
                       "it does not specify the CBOR layout. The check stores every value through the real runtime (registers = encoding), re-reads it with a fresh script, "
                       "encodes/decodes static types and storage-only values directly, and compares with the golden corpus written by the pinned tree: same bytes, same decoded value.",
        "evaluations": c.get("value_roundtrips", 0) + c.get("types", 0) + c.get("direct", 0) + c.get("programs", 0),
        "distinct_nontrivial": c.get("values", 0) - c.get("values_not_importable", 0) - c.get("values_not_passable_as_argument", 0) + c.get("types", 0) + c.get("direct", 0) + c.get("programs", 0),
        "rule": "distinct storable values / static types / storage-only values of the TLC-enumerated universe plus 6 fixed programs (resources, nested resources, resource collections, storage and account capability controllers, published and inbox values)",
        "states": r.distinct, "transitions": r.generated,
        "golden_entries_in_corpus": summ["golden_entries"], "golden_entries_exercised": checked,
        "golden_values": c.get("golden_values", 0), "golden_types": c.get("golden_types", 0), "golden_direct": c.get("golden_direct", 0), "golden_programs": c.get("golden_programs", 0),
        "roundtrip_only (no golden entry: other seed / thorough universe)": c.get("values_without_golden", 0) + c.get("types_without_golden", 0),
        "value_roundtrips": c.get("value_roundtrips", 0), "static_types": c.get("types", 0), "storage_only_values": c.get("direct", 0), "fixed_programs": c.get("programs", 0),
        "golden_values_whose_imported_value_changed (bytes not compared)": c.get("golden_value_changed_upstream", 0),
        "skipped_not_importable (user error)": c.get("values_not_importable", 0),
        "skipped_argument_import_defects (C29)": c.get("values_not_passable_as_argument", 0),
        "skipped_types_without_conversion (function, attachment)": c.get("types_not_convertible", 0),
    }, assumptions=["golden corpus corpus/stored/golden.ndjson.gz was written by the pinned tree with VERIF_STORED_GEN=1 bin/vcheck C44",
                    "values reach storage as transaction arguments wrapped in struct C.H; string text is compared in NFC (Cadence strings are normalised)",
                    "the read-back value must equal exactly what an echo script receives for the same argument, and the model's value modulo optional boxing done by argument import; golden bytes are compared only when golden and current registers hold the same value",
                    "nominal static types are compared by kind and type ID (storage keeps types by name); register bytes are compared exactly",
                    "host = repo's TestLedger; registers of a fresh account after one transaction"])


META = {
    "C41": {
        "level_text": "TLC checks the JSON-Cadence model (JsonOf, Erase, FromJson; invariants: decoding loses exactly Erase, re-encoding is stable, Erase is a projection) on a universe of ~5 000 (quick) / ~23 000 (thorough) values of depth <= 2 covering every value kind, every type kind and the boundary numbers of every numeric type, and prints the table (v, JsonOf(v), Erase(v)); every row is replayed on encoding/json: encoder output = JsonOf(v) as a JSON tree, decoded value = Erase(v), every embedded type equal (structurally, by ID and by Type.Equal), re-encoding byte-identical. Decoder robustness is exploration (tens of thousands of seeded byte and JSON-structure mutants).",
        "level_note": "Bounded universe (depth 2). JsonOf was written from the published format and agrees with the encoder on all rows. The robustness half is random exploration, not model checking.",
        "technique": "TLA+ spec of the format model-checked with TLC; TLC-evaluated table compared with the real encoder/decoder (E4) and the round-trip behaviours replayed (E2); mutation exploration",
        "design_ref": "DESIGN.md section 5 C41/C43", "engine": "E4 table + E2 replay + exploration"},
    "C43": {
        "level_text": "Same model and universe as C41; the model's invariant CommonContent states what both formats carry (Common(v) = Erase(CcfView(v))). For every row both real codecs encode and decode v; both decoded values, projected, must equal Common(v), hence each other, and have equal type IDs wherever the JSON-decoded value has one.",
        "level_note": "Bounded universe (depth 2). Values that one codec cannot decode are reported here as well (the statement needs both decodings).",
        "technique": "TLA+ spec model-checked with TLC; table conformance of both codecs against the same abstract value",
        "design_ref": "DESIGN.md section 5 C41/C43", "engine": "E4 table"},
    "C42": {
        "level_text": "CcfOrder.tla states the two canonical orders of CCF (bytewise on the encoded key for dictionary entries; length-first then bytewise for field names, intersection members, entitlement sets and type definitions) and models the deterministic encoder as a selection sort; TLC explores it from every permutation of every 2..3 (thorough: 2..4) element set and checks sortedness, permutation invariance and 'strict decoder accepts iff canonical'. The table of ~3 000 (thorough ~24 000) permutations is replayed: the real deterministic encoding must be byte-identical across permutations, emit exactly the predicted order (for dictionaries also the predicted CBOR bytes of each key), and the strict decoder must accept a re-ordered encoding iff the model does. Orders extracted from real encodings (including random dictionaries over 16 key types) are judged by TLC (Trace_CcfOrder). Round trip: every value of the JsonCdc universe is CCF-encoded (default and deterministic), decoded (default and strict) and compared with CcfView(v). Decoder robustness is exploration (seeded byte/CBOR-head mutants).",
        "level_note": "Bounded sets (<= 4 elements, names of <= 3 bytes). Re-ordering of type definitions is not attempted (only their emitted order is judged). The robustness half is random exploration.",
        "technique": "TLA+ spec model-checked with TLC; table conformance (E4), replay of permutations (E2), TLC judging recorded orders (E3), mutation exploration",
        "design_ref": "DESIGN.md section 5 C42", "engine": "E4 table + E3 judge + exploration"},
    "C29": {
        "level_text": "ArgValidation.tla defines Importable(T), deep Conforms(v, T) against the declared program, Subtype on the fragment, and an argument generator as a state machine (correct witness, then corruption actions: wrong leaf / sibling numeric type / nil / resource / capability at every position, missing, extra, renamed, re-ordered fields, swapped values, unknown or foreign type ID, wrong composite kind, extra / dropped element, duplicate key, mixed range members). TLC checks the model's laws (witnesses conform, conformance is upward closed along Subtype, Subtype is a preorder) and prints ~1 170 (thorough ~31 000, two corruption steps) (T, argument, predicted verdict) rows over 58 parameter types. Every row is encoded with JSON-Cadence and CCF and run through runtime.ExecuteScript on interpreter and VM: accepted implies the model says importable and conforming; every rejection must be a user error; the run-time type each accepting script reports is judged by TLC with the spec's Subtype; the value handed back by the script is exported and round-tripped through both codecs.",
        "level_note": "One-sided as the property: a conforming argument that is rejected is recorded, not judged. Bounded universe of parameter types (one program). The return-value half additionally uses 9 fixed probe scripts.",
        "technique": "TLA+ spec model-checked with TLC; TLC-enumerated table replayed on the real runtime (E4/E2); TLC judging recorded run-time types (E3)",
        "design_ref": "DESIGN.md section 5 C29", "engine": "E4 table + E3 judge"},
    "C48": {
        "level_text": "Events.tla models event declarations (ordered typed fields) and ten kinds of emit site (emit statement through an imported contract, emit with reference-typed arguments where one reference value occurs in several fields and container elements, event declared by the script, pre-, post- and interface-inherited conditions, default destruction events with literal / self.f / self.s.v default arguments, nested destruction, attachment destruction with base.f defaults, destruction of an array) and the payloads the host must receive; TLC explores delivery in every order and checks that every payload has the declared fields in declaration order and that exactly the expected events are delivered. The ~830 (thorough ~4 200) configurations over 31 field specs (23 plain, 8 reference-typed) are rendered to Cadence programs and executed on interpreter and VM; every payload handed to EmitEvent is compared with the model: type ID, field names and order, declared field types, values, dynamic type of each value.",
        "level_note": "Bounded: events of 1-3 fields over 23 (type, value) specs; the rendering of configurations to source text is trusted Go code. Order among the events of one destroy statement is deliberately not judged.",
        "technique": "TLA+ spec model-checked with TLC; TLC-enumerated configurations with predicted payloads replayed on the real runtime (E2/E4)",
        "design_ref": "DESIGN.md section 5 C48", "engine": "E2 replay"},
    "C44": {
        "level_text": "Round trip and version stability of the storage encoding. The TLA+ model (JsonCdc.tla / MC_JsonCdc.tla) only contributes the universe (storable values of depth <= 2 with boundary numbers, ~1 300 static types of every kind, 12 storage-only values: capability controllers, published and capability values, deprecated links and path capabilities) and the abstract equality; it does not specify the CBOR layout. Every value is stored through the real runtime (account registers = slab encodings, interpreter and VM must write the same bytes), re-read by a fresh script and compared; static types go through StaticTypeToBytes/FromBytes, storage-only values through Storable.Encode/DecodeStorable; 6 fixed programs store resources, nested resources, resource collections and issue/publish capabilities. Stability: a golden corpus written by the pinned tree (corpus/stored/golden.ndjson.gz, 5 432 entries: abstract value + registers/bytes) must be reproduced byte for byte by the current encoder and decode to the recorded value.",
        "level_note": "TLA+ contributes the value universe and the abstract equality only; the verdict is a differential test against bytes recorded from the pinned tree (level 'other'). Values that cannot be passed as arguments (resources, capabilities) are covered by fixed programs only.",
        "technique": "TLC-enumerated universe; encode/decode/re-encode on the real storage codec; golden corpus recorded from the pinned tree replayed into the current tree",
        "design_ref": "DESIGN.md section 5 C44", "engine": "golden corpus replay"},
}
