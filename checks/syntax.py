"""Family "syntax": C38 pretty-print round trip (spec/lang/AstShapes.tla), C39 formatter
(spec/lang/Format.tla), C37 lexer/parser/checker totality and positions (spec/text/Lexer.tla).
Driver: harness/cmd/syntax (sub-commands pp, fmt, lex, lexworker)."""
import json, os, concurrent.futures as cf
from vlib.core import Infra, read_ndjson, write_ndjson

LEVEL = {"C38": "model_checking", "C39": "model_checking", "C37": "exploration"}

# TLC's JVM is started with a parallel collector sized for all cores; on a shared machine that
# multiplies the wall time. Two GC threads are enough for these models.
if "-XX:ParallelGCThreads" not in os.environ.get("JAVA_TOOL_OPTIONS", ""):
    os.environ["JAVA_TOOL_OPTIONS"] = (os.environ.get("JAVA_TOOL_OPTIONS", "") + " -XX:ParallelGCThreads=2 -Xmx4g").strip()

# ----------------------------------------------------------------------------- C38
AST_FILES = ["lang/AstShapes.tla", "lang/MC_AstShapes_expr_q.cfg", "lang/MC_AstShapes_expr_t.cfg",
             "lang/MC_AstShapes_form_q.cfg", "lang/MC_AstShapes_form_t.cfg",
             "lang/MC_AstShapes_full_q.cfg", "lang/MC_AstShapes_full_t.cfg", "lang/MC_AstShapes_deep_t.cfg"]


def enumerate_terms(ctx, families, workers):
    """TLC enumerates the bounded term algebra; returns [(family, TLCResult)]."""
    suffix = "q" if ctx.quick else "t"

    def one(fam):
        return fam, ctx.tlc(AST_FILES, "AstShapes", "MC_AstShapes_%s_%s.cfg" % (fam, suffix), workers=workers,
                            tag="ast-" + fam, timeout=2400)
    if ctx.quick:
        with cf.ThreadPoolExecutor(max_workers=len(families)) as ex:
            return list(ex.map(one, families))
    return [one(f) for f in families]


def check_C38(ctx):
    binary = ctx.build("syntax")
    runs = enumerate_terms(ctx, ["expr", "full", "form"] + ([] if ctx.quick else ["deep"]), workers=2 if ctx.quick else 4)
    outs = [os.path.join(r.dir, "tlc.out") for _, r in runs]
    rf = os.path.join(ctx.work, "pp.results.ndjson")
    ctx.run([binary, "pp", rf] + outs, timeout=3000 if ctx.quick else 12000)
    rows = read_ndjson(rf)
    summ = [r for r in rows if r.get("summary")]
    if not summ:
        raise Infra("pp driver wrote no summary")
    summ = summ[0]
    fails = [r for r in rows if not r.get("summary")]
    bad = [f for f in fails if f["kind"] == "render"]
    if bad:
        raise Infra("renderer failed on %d terms, e.g. %s" % (len(bad), json.dumps(bad[0])[:600]))
    # The property quantifies over programs the parser ACCEPTS. A rendering the parser rejects is outside it; the
    # specification's grammar is meant to produce none, so more than a handful (parser quirks on exotic but valid
    # nestings, e.g. `a < (destroy {b: c})`) means the grammar of AstShapes.tla or the renderer is wrong.
    rejected = [f for f in fails if f["kind"] == "parse1"]
    fails = [f for f in fails if f["kind"] != "parse1"]
    if len(rejected) > max(3, summ["terms"] // 1000):
        raise Infra("%d of %d enumerated programs are rejected by the parser (grammar of AstShapes.tla wrong?), e.g.\n%s"
                    % (len(rejected), summ["terms"], "\n".join("%s | %s | %s" % (f["spine"], f.get("src", "").replace("\n", "\\n")[:120],
                                                              (f.get("err") or "")[:200].replace("\n", " ")) for f in rejected[:8])))
    for f in rejected[:3]:
        ctx.add_sample({"rejected_by_parser_outside_quantifier": f["spine"], "source": f["src"]})
    if summ["terms"] < 1000:
        raise Infra("too few terms enumerated: %d" % summ["terms"])
    for f in fails:
        sig = {"kind": f["kind"], "diff": f.get("diff", ""), "culprit": f.get("culprit", ""), "printer": f.get("printer", "")}
        if f["kind"] == "ast-diff":
            msg = ("program %s [%s]: printed form re-parses to a different AST (%s; class %s; minimal failing form %s)\n"
                   "source : %s\nprinted: %s" % (f["spine"], f["printer"], f.get("detail", ""), f.get("diff"), f.get("culprit"),
                                                f["src"], f.get("printed", "")))
        elif f["kind"] == "reparse-fail":
            msg = ("program %s [%s]: printed form does not parse (minimal failing form %s)\nsource : %s\nprinted: %s\nerror: %s"
                   % (f["spine"], f["printer"], f.get("culprit"), f["src"], f.get("printed", ""), (f.get("err") or "")[:400]))
        else:
            msg = ("program %s [%s]: printer crashed (minimal failing form %s)\nsource : %s\nerror: %s"
                   % (f["spine"], f["printer"], f.get("culprit"), f["src"], (f.get("err") or "")[:400]))
        ctx.report(sig, msg, {"source": f["src"], "printed": f.get("printed"), "printer": f.get("printer"), "term": f["spine"]})
    for s in summ.get("samples", [])[:5]:
        ctx.add_sample({"term": s["spine"], "source": s["src"], "printed": s["printed"]})
    states = sum(r.distinct for _, r in runs)
    return ctx.finish({
        "states": states, "transitions": sum(r.generated for _, r in runs),
        "terms_enumerated_by_tlc": summ["terms"],
        "traces_validated_against_impl": summ["parsed"],
        "evaluations": summ["evaluations"],
        "printers": summ["printers"],
        "distinct_nontrivial": summ["form_pairs"],
        "rule": "distinct (form, child form) adjacencies among the enumerated programs, each rendered, parsed, printed by "
                "every printer variant, re-parsed and compared (AST JSON without positions); forms = signatures of AstShapes.tla",
        "forms": summ["forms"], "ast_node_types_reached": summ["ast_node_types"],
        "binary_precedence_pairs": summ["precedence_pairs"],
        "rejected_by_parser_outside_quantifier": len(rejected),
        "per_family_terms": {fam: r.distinct for fam, r in runs},
        "exhaustive": True,
    }, assumptions=["printers: ast.Prettier (= Program.String, flattened Doc at width 80) and the un-flattened Doc at widths 80 and 24",
                    "AST equality = encoding/json of ast.Program without keys ending in Pos/Position/Range, Comments, DocString",
                    "string templates do not nest in this Cadence version (parser rejects them): excluded by the specification"])


META = {"C38": {
    "level_text": "TLC enumerates the bounded many-sorted term algebra of AstShapes.tla (every syntactic form of the language as a signature with its fully parenthesised concrete syntax; every form in every position of every other form along spines of depth 2-3 below a declaration (3-4 thorough); every binary operator over every pair of depth-1 operator terms, i.e. all precedence/associativity/side combinations; conditional triples; declaration pairs) and checks its sort discipline; every enumerated program is rendered, parsed by the real parser, printed by ast.Prettier and by the un-flattened Doc at two widths, re-parsed, and the position-free AST JSONs are compared. Failures are minimised to the smallest failing form, which is what known findings match on.",
    "level_note": "Oracle is the identity on ASTs. Trusted: TLC, the template renderer (a program the parser rejects is an infrastructure error). Bounded: spines, not all trees; identifiers/literals are representatives.",
    "technique": "TLA+ spec (AstShapes.tla) enumerated by TLC; spec terms replayed through parser -> printer -> parser of the real code and compared",
    "design_ref": "DESIGN.md section 5 C38",
    "engine": "E4 table conformance (enumeration, oracle = identity)",
}}


# ----------------------------------------------------------------------------- C37
import re, shutil, base64
LEX_FILES = ["text/Lexer.tla", "text/MC_Lexer.tla", "text/MC_Lexer_q.cfg", "text/MC_Lexer_t.cfg",
             "text/Trace_Lexer.tla", "text/Trace_Lexer.cfg"]
LEXIN_FILES = ["text/LexerInputs.tla", "text/MC_LexerInputs.tla", "text/MC_LexerInputs_q.cfg", "text/MC_LexerInputs_t.cfg",
               "text/MC_LexerInputs_t5.cfg"]


def validate_lexer_trace(ctx, trace_path, tag, timeout=3000):
    """TLC consumes the trace; returns (n_events, rejected line numbers, {line: deviation name})."""
    n = sum(1 for _ in open(trace_path))
    if n == 0:
        return 0, [], {}
    d = os.path.join(ctx.work, "tv-" + tag)
    os.makedirs(d, exist_ok=True)
    tp = os.path.join(d, "trace.ndjson")
    shutil.copy(trace_path, tp)
    res = ctx.tlc(LEX_FILES + [tp], "Trace_Lexer", "Trace_Lexer.cfg", workers=1, tag=tag, timeout=timeout, count=False)
    if res.distinct != n + 1:
        raise Infra("trace validation %s consumed %d of %d events (trace spec stuck?)\n%s" % (tag, res.distinct - 1, n, res.out[-1500:]))
    rej, dev = set(), {}
    for m in re.finditer(r'<<\s*"REJECT",\s*(\d+)\s*>>', res.out):
        rej.add(int(m.group(1)))
    for m in re.finditer(r'<<\s*"DEV",\s*(\d+),\s*"([^"]+)"\s*>>', res.out):
        dev[int(m.group(1))] = m.group(2)
    return n, sorted(rej), dev


def check_C37(ctx):
    binary = ctx.build("syntax")
    # 1. the position functions: incremental (line, col) = function of the offset, for every tokenisation and history
    r0 = ctx.tlc(LEX_FILES, "MC_Lexer", "MC_Lexer_q.cfg" if ctx.quick else "MC_Lexer_t.cfg", workers=4, tag="mc-lexer", timeout=1500)
    # 2. record lexer / parser / checker behaviour in sub-processes
    # 1b. the model universe of comment / line-break layouts (LexerInputs.tla): every fragment sequence up to a bound
    rin = [ctx.tlc(LEXIN_FILES, "MC_LexerInputs", c, workers=2, tag="lexinputs-" + c[16:-4], timeout=1500)
           for c in (["MC_LexerInputs_q.cfg"] if ctx.quick else ["MC_LexerInputs_t.cfg", "MC_LexerInputs_t5.cfg"])]
    n_small, n_big, chunks, tmo = (1000, 50, 8, 40) if ctx.quick else (8000, 400, 8, 60)
    outdir = os.path.join(ctx.work, "lex")
    ctx.run([binary, "lex", outdir, str(n_small), str(n_big), str(chunks), str(tmo)] + [os.path.join(r.dir, "tlc.out") for r in rin],
            timeout=6000)
    summ = json.load(open(os.path.join(outdir, "summary.json")))
    inputs = {r["id"]: r for r in read_ndjson(os.path.join(outdir, "inputs.ndjson"))}

    def src_of(i):
        return base64.b64decode(inputs[i]["data"])

    def show(i, limit=400):
        s = src_of(i)
        return repr(s[:limit])[1:] + ("... (%d bytes)" % len(s) if len(s) > limit else "")

    # 3. TLC judges every chunk
    def do_chunk(k):
        tp = os.path.join(outdir, "trace-%d.ndjson" % k)
        if not os.path.exists(tp):
            return k, 0, [], {}
        return (k,) + validate_lexer_trace(ctx, tp, "lextrace%d" % k)
    with cf.ThreadPoolExecutor(max_workers=min(chunks, 8)) as ex:
        results = list(ex.map(do_chunk, range(chunks)))
    events_total = accepted = inputs_judged = 0
    outcome_classes = set()
    dev_inputs = {}
    for k, n, rej, dev in results:
        events_total += n
        ip = os.path.join(outdir, "index-%d.ndjson" % k)
        index = read_ndjson(ip) if os.path.exists(ip) else []
        events = read_ndjson(os.path.join(outdir, "trace-%d.ndjson" % k)) if n else []
        owner = {}
        for rec in index:
            for ln in range(rec["first"], rec["last"] + 1):
                owner[ln] = rec
        bad_inputs = set()
        for ln in rej:
            rec = owner[ln]
            bad_inputs.add(rec["id"])
            ev = events[ln - 1]
            ctx.report({"kind": "trace-rejected", "event": ev["ev"], "token": ev.get("t", ""), "phase": ev.get("phase", "")},
                       "input #%d (%s) %s: event %s is not allowed by Trace_Lexer.tla (token cover / position / error position)"
                       % (rec["id"], rec["kind"], show(rec["id"]), json.dumps(ev)[:300]),
                       {"input_b64": inputs[rec["id"]]["data"], "event": ev, "events": events[rec["first"] - 1:rec["last"]][:200]})
        seen = set()
        for ln, name in sorted(dev.items()):
            rec = owner[ln]
            if (rec["id"], name) in seen:
                continue
            seen.add((rec["id"], name))
            dev_inputs.setdefault(name, []).append(rec["id"])
            ev = events[ln - 1]
            ctx.report({"kind": "position-deviation", "dev": name, "event": ev["ev"]},
                       "input #%d (%s) %s: event %s deviates from the position function (named deviation %s)"
                       % (rec["id"], rec["kind"], show(rec["id"]), json.dumps(ev)[:300], name),
                       {"input_b64": inputs[rec["id"]]["data"], "event": ev, "deviation": name})
        # exploration part (Go-side): crashes and internal errors recorded in the trace
        for rec in index:
            inputs_judged += 1
            if rec["id"] not in bad_inputs:
                accepted += 1
            outcome_classes.add((rec["kind"], rec.get("parse", ""), rec.get("check", ""), rec["len"] > 240))
            for ev in events[rec["first"] - 1:rec["last"]]:
                if ev["ev"] != "Diag":
                    continue
                if ev["res"] == "crash":
                    ctx.report({"kind": "crash", "phase": ev["phase"], "where": ev.get("where", ""), "msg": ev.get("msg", "")[:120]},
                               "input #%d (%s) %s: %s panicked: %s" % (rec["id"], rec["kind"], show(rec["id"]), ev["phase"], ev.get("msg", "")),
                               {"input_b64": inputs[rec["id"]]["data"], "phase": ev["phase"]})
                elif ev.get("internal"):
                    ctx.report({"kind": "internal-error", "phase": ev["phase"], "where": ev.get("where", ""), "msg": ev["internal"][:120]},
                               "input #%d (%s) %s: %s reported an internal error: %s (at %s)"
                               % (rec["id"], rec["kind"], show(rec["id"]), ev["phase"], ev["internal"], ev.get("where", "")),
                               {"input_b64": inputs[rec["id"]]["data"], "phase": ev["phase"]})
    # process-level incidents (fatal errors the worker cannot recover from, hangs)
    flaky = 0
    for inc in read_ndjson(os.path.join(outdir, "incidents.ndjson")):
        if inc.get("incident") == "supervisor":
            raise Infra("lexer worker failed outside an input: %s" % json.dumps(inc)[:1500])
        if not inc["reproduced"]:
            flaky += 1
            ctx.log("not reproduced (%s on input #%d, %s): ignored" % (inc["incident"], inc["id"], inc["kind"]))
            if inc["incident"] == "crash":
                raise Infra("worker crash on input #%d not reproduced:\n%s" % (inc["id"], inc["stderr"][:1500]))
            continue
        ctx.report({"kind": inc["incident"], "phase": "process", "where": inc.get("where", ""), "input_kind": inc["kind"]},
                   "input #%d (%s, %d bytes) %s: the process %s (reproduced in a fresh process): %s"
                   % (inc["id"], inc["kind"], inc["len"], show(inc["id"], 120),
                      "died" if inc["incident"] == "crash" else "did not finish within the time limit", inc.get("where", "")),
                   {"input_b64": inc["data"], "stderr": inc["stderr"][:3000]})
    if inputs_judged < summ["inputs"] - 50:
        raise Infra("only %d of %d inputs were recorded" % (inputs_judged, summ["inputs"]))
    # 4. negative control: one corrupted token column must be rejected by TLC, at that event.
    #    Taken from inputs TLC accepted without any deviation (a handful of inputs: a small trace).
    k0 = 0
    ev_all = read_ndjson(os.path.join(outdir, "trace-%d.ndjson" % k0))
    idx0 = read_ndjson(os.path.join(outdir, "index-%d.ndjson" % k0))
    touched = set(results[k0][2]) | set(results[k0][3].keys())
    clean = [r for r in idx0 if r["len"] <= 240 and r["tokens"] >= 6 and not any(ln in touched for ln in range(r["first"], r["last"] + 1))]
    neg_note = "skipped: no input of chunk 0 was accepted without deviation"
    rej_c = []
    if clean:
        ev0, target = [], None
        for r in clean[:5]:
            base = len(ev0)
            part = ev_all[r["first"] - 1:r["last"]]
            if target is None:
                for i, e in enumerate(part):
                    if e["ev"] == "Tok" and e["t"] == "identifier" and i > 2:
                        target = base + i
                        break
            ev0 += part
        if target is not None:
            ev0[target] = dict(ev0[target], c=ev0[target]["c"] + 1)
            cp = os.path.join(ctx.work, "corrupt.ndjson")
            write_ndjson(cp, ev0)
            _, rej_c, _ = validate_lexer_trace(ctx, cp, "lexcorrupt")
            if (target + 1) not in rej_c:
                raise Infra("negative control failed: a corrupted token column (event %d) was not rejected by TLC" % (target + 1))
            neg_note = "token column +1 at event %d of a %d-event trace" % (target + 1, len(ev0))
    ctx.add_sample({"input": show(0), "events": read_ndjson(os.path.join(outdir, "trace-0.ndjson"))[:6]})
    ctx.add_sample({"negative_control": neg_note, "rejected_events": rej_c[:3]})
    ctx.add_sample({"input_kinds": summ["kinds"]})
    return ctx.finish({
        "states": r0.distinct + sum(r.distinct for r in rin), "transitions": r0.generated + sum(r.generated for r in rin),
        "traces_validated_against_impl": accepted,
        "model_layout_inputs": summ["kinds"].get("model", 0) + summ["kinds"].get("model-eof", 0),
        "inputs": summ["inputs"], "inputs_judged_token_by_token": summ["small"], "stress_inputs": summ["big"],
        "events_judged_by_tlc": events_total,
        "evaluations": inputs_judged,
        "distinct_nontrivial": len(outcome_classes),
        "rule": "distinct (generator class, parse outcome, check outcome, size class) combinations among the recorded inputs; "
                "every token and every error position of every small input is judged by TLC against Lexer.tla",
        "deviation_inputs": {k: len(v) for k, v in dev_inputs.items()},
        "unreproduced_timeouts": flaky,
    }, assumptions=["crash/hang freedom is exploration (seeded generator, sub-process supervisor); TLA+ decides token cover and positions",
                    "columns count code points; an ill-formed byte is one unit; newline = LF",
                    "inputs longer than 240 bytes are judged on error offsets only (no token log)"])


META["C37"] = {
    "level_text": "Exploration for totality: a seeded generator (grammar-based programs, byte/token mutations, truncation, token soup, targeted multi-byte / template / unterminated-literal cases, deep nesting, huge literals, invalid UTF-8) feeds the real lexer, parser and checker inside worker sub-processes under a supervisor (a fatal crash or hang is confirmed in a fresh process and reported with the input). The TLA+ part decides positions: Lexer.tla defines line/column as a function of the byte offset and TLC proves, for every byte string up to length 3-4 over a 10-symbol alphabet and every tokenisation and re-lex history, that the incremental walk equals that function; Trace_Lexer.tla then validates every recorded token (contiguous cover in order, start and end line/column, stop at the first error token, EOF at the end) and every parser/checker error position of every small input, in process histories of hundreds of Lex calls on the pooled lexer. A corrupted token column is injected in every run and must be rejected.",
    "level_note": "Crash/hang freedom is exploration only. Trusted: TLC, the event logger. Named deviations of the trace specification (DevErrMultiByte, DevMultiByteEnd, DevZeroLen, DevUnterminatedComment, DevErrInline) classify the known position defects; anything they do not explain is a violation.",
    "technique": "TLA+ spec (Lexer.tla) model-checked with TLC; trace validation of token streams and error positions recorded from the real lexer/parser/checker (Trace_Lexer.tla); seeded fuzzing in sub-processes for totality",
    "design_ref": "DESIGN.md section 5 C37",
    "engine": "E3 trace validation + exploration",
}


# ----------------------------------------------------------------------------- C39
FMT_FILES = ["lang/AstShapes.tla", "lang/FormatRel.tla", "lang/Format.tla", "lang/MC_Format.tla",
             "lang/MC_Format_q.cfg", "lang/MC_Format_t.cfg", "lang/Trace_Format.tla", "lang/Trace_Format.cfg"]


def check_C39(ctx):
    binary = ctx.build("syntax")
    # 1. TLC enumerates the comment-placement cases of the model
    r0 = ctx.tlc(FMT_FILES, "MC_Format", "MC_Format_q.cfg" if ctx.quick else "MC_Format_t.cfg", workers=4, tag="fmt-cases", timeout=3000)
    # 2. the real formatter on every rendered case; observations recorded
    of = os.path.join(ctx.work, "obs.ndjson")
    df = os.path.join(ctx.work, "details.ndjson")
    ctx.run([binary, "fmt", of, df, os.path.join(r0.dir, "tlc.out")], timeout=6000)
    rows = read_ndjson(df)
    summ = [r for r in rows if r.get("summary")]
    if not summ:
        raise Infra("fmt driver wrote no summary")
    summ = summ[0]
    det = [r for r in rows if not r.get("summary")]
    if summ["observations"] < 1000 or summ["observations"] != len(det):
        raise Infra("too few observations: %s" % json.dumps({k: v for k, v in summ.items() if k != "samples"}))
    # 3. TLC judges every observation with the relation of FormatRel.tla (chunks in parallel)
    nchunks = 4 if ctx.quick else 8
    obs = []
    with open(of) as fh:
        obs = [ln for ln in fh if ln.strip()]
    per = (len(obs) + nchunks - 1) // nchunks

    def judge(k):
        part = obs[k * per:(k + 1) * per]
        if not part:
            return k, []
        d = os.path.join(ctx.work, "judge-%d" % k)
        os.makedirs(d, exist_ok=True)
        with open(os.path.join(d, "obs.ndjson"), "w") as fh:
            fh.writelines(part)
        res = ctx.tlc(FMT_FILES + [os.path.join(d, "obs.ndjson")], "Trace_Format", "Trace_Format.cfg", workers=1,
                      tag="fmt-judge%d" % k, timeout=3000, count=False)
        if res.distinct != len(part) + 1:
            raise Infra("judge %d consumed %d of %d observations\n%s" % (k, res.distinct - 1, len(part), res.out[-1500:]))
        bad = {}
        # TLC wraps long tuples over several lines (`<< "BAD",\n 17,\n {...},\n {...} >>`): parse the whole output
        for m in re.finditer(r'<<\s*"BAD",\s*(\d+),\s*\{(.*?)\},\s*\{(.*?)\}\s*>>', res.out, re.S):
            reasons = [x.strip().strip('"') for x in m.group(2).split(",") if x.strip()]
            lost = [x.strip().strip('"') for x in m.group(3).split(",") if x.strip()]
            bad[k * per + int(m.group(1))] = (reasons, lost)
        if res.out.count('"BAD"') != len(set(re.findall(r'"BAD",\s*(\d+),', res.out))) and not bad:
            raise Infra("judge %d: BAD lines present but not parsed" % k)
        return k, bad
    with cf.ThreadPoolExecutor(max_workers=min(nchunks, 8)) as ex:
        judged = list(ex.map(judge, range(nchunks)))
    nbad = 0
    for k, bad in judged:
        for i, (reasons, lost) in sorted(bad.items()):
            d = det[i - 1]
            if d["id"] != i:
                raise Infra("observation / detail files out of step at %d" % i)
            nbad += 1
            poss = d["pos"].split(" & ")
            run = bool(d.get("seps"))
            lostpos = d["pos"] if run and lost else \
                " & ".join(poss[int(t[1:]) - 1] for t in sorted(lost) if t[1:].isdigit() and int(t[1:]) <= len(poss))
            for r in reasons:
                sig = {"reason": r, "form": d["form"], "parent": d["parent"], "pos": d["pos"], "lostpos": lostpos,
                       "kinds": d["kinds"], "layout": d["layout"], "opt": d["opt"], "comments": d.get("comments", len(poss)),
                       "run": d.get("seps", "")}
                tail = {"ast-changed": "AST difference: " + d.get("astdiff", ""),
                        "output-does-not-parse": "parse error: " + d.get("astdiff", ""),
                        "comment-lost": "lost: %s (at %s)" % (",".join(lost), lostpos),
                        "second-pass-error": "second pass: " + d.get("err2msg", ""),
                        "not-idempotent": "second pass output:\n" + d.get("out2", "")}.get(r, "")
                ctx.report(sig, "formatter, form %s in %s, comment(s) %s at %s, layout %s, options #%d: %s\ninput:\n%s\noutput:\n%s\n%s"
                           % (d["form"], d["parent"], d["kinds"], d["pos"], d["layout"], d["opt"], r, d["src"], d.get("out", ""), tail),
                           {"source": d["src"], "options_id": d["opt"], "output": d.get("out"), "reason": r})
    for s in summ.get("samples", [])[:4]:
        ctx.add_sample({"form": s["form"], "position": s["pos"], "kinds": s["kinds"], "layout": s["layout"], "options": s["opt"],
                        "input": s["src"], "output": s.get("out", "")})
    return ctx.finish({
        "states": r0.distinct, "transitions": r0.generated,
        "cases_enumerated_by_tlc": summ["cases"],
        "traces_validated_against_impl": summ["observations"],
        "evaluations": summ["observations"],
        "observations_judged_by_tlc": len(obs),
        "not_conforming": nbad,
        "formatter_errors_allowed_outcome": summ["format_errors"],
        "skipped": {"form_has_no_such_gap": summ["no_such_gap"], "input_rejected_by_parser": summ["input_rejected_by_parser"],
                    "inserted_text_not_a_comment": summ["inserted_text_is_not_a_comment"]},
        "distinct_nontrivial": summ["distinct_positions"],
        "rule": "distinct (form, neighbouring tokens of the gap) syntactic positions at which a comment was placed, formatted twice "
                "and judged; forms = signatures of AstShapes.tla",
        "forms": summ["forms"], "option_combinations": summ["options"],
        "exhaustive": True,
    }, assumptions=["comments of a source = line-comment tokens and (nested) block-comment token runs of the real lexer",
                    "AST equality as in C38, import declarations compared as a sorted list",
                    "a case whose rendered input the parser rejects is outside the property's quantifier (counted, not judged)"])


META["C39"] = {
    "level_text": "TLC enumerates the comment-placement model of Format.tla: every syntactic form of the AstShapes algebra (in the canonical context of its sort; thorough: also inside every slot of every other form) x every gap between the tokens of its concrete syntax x comment kind (block, line, doc-line, doc-block; unique token per comment) x layout (inline, own line, blank line before/after, semicolon before/after) x formatter option combination (4 quick, all 72 thorough), and pairs of gaps. The driver renders each case, runs the real formatter twice and records an observation (error, output parses, AST equal up to import order, comment lists of input and output from the real token stream, second-pass result); TLC then judges every observation with the relation Conforms of FormatRel.tla (error allowed; otherwise same AST, equal comment multisets with unchanged texts, fixed point) and names the reason of each non-conforming one.",
    "level_note": "Trusted: TLC, the renderer (inputs the parser rejects are counted and skipped), the lexer for comment extraction (C37). Bounded: one or two comments per program, representative identifiers.",
    "technique": "TLA+ spec (Format.tla / FormatRel.tla) enumerated and evaluated by TLC; spec cases replayed through the real formatter, observations judged by TLC (Trace_Format.tla)",
    "design_ref": "DESIGN.md section 5 C39",
    "engine": "E4 enumeration + E3 relational trace validation",
}
