"""C15, C16, C21 - fixed-point arithmetic, numeric conversions, InclusiveRange
(spec/num/FixedPoint*.tla, Convert*.tla, RangeIter*.tla on Bignum.tla; harness/cmd/numfix).

C21  spec/num/RangeIter.tla is a state machine (constructor, iterator, denotation) model-checked by TLC:
     exhaustively for a 16-value signed and unsigned type (safety + termination) and for Int8 / UInt8 / Word8 over
     boundary-biased start/end/step sets; the terminal states are printed as the TABLE (constructor verdict, step,
     denoted sequence, member set) which the driver compares with the real runtime through scripts on interpreter
     and VM (for-in result list, contains(x) for all 256 values). Wider integer types: relational trace validation
     (RangeIterJudge.tla on exact integers).
C15  FixedPointOperands.tla defines the boundary-biased operand sets, the driver executes + - * / % multiplyDivide
     (value methods and scripts on both engines) and FixedPointJudge.tla judges every recorded event.
C16  ConvertSources.tla defines the sources at and around every target type's bounds, the driver converts through
     the conversion functions in scripts (both engines, every rounding rule where the function takes one) and
     ConvertJudge.tla judges every event.
Known defects are NAMED DEVIATIONS of the specifications: a rejected observation is a KNOWN finding only when the
deviant formula predicts the observed outcome exactly.
"""
import json, os, random
from concurrent.futures import ThreadPoolExecutor
from vlib.core import Infra, read_ndjson, write_ndjson

LEVEL = {"C15": "exploration", "C16": "exploration", "C21": "model_checking"}

BIG = ["num/Bignum.tla", "num/ConvertTypes.tla"]


def _env():
    """JVM settings for this family's TLC runs (see checks/num.py: TLC caches the parsed trace on the main
    thread and needs a deep stack for that; many JVMs run side by side, hence few GC threads each)."""
    os.environ.setdefault("JDK_JAVA_OPTIONS", "-Xss256m")
    if "ParallelGCThreads" not in os.environ.get("JAVA_TOOL_OPTIONS", ""):
        os.environ["JAVA_TOOL_OPTIONS"] = (os.environ.get("JAVA_TOOL_OPTIONS", "") + " -XX:ParallelGCThreads=2 -Xmx5g").strip()


def zval(z):
    x = 0
    for i, l in enumerate(z["m"]):
        x += l << (15 * i)
    return -x if z["n"] else x


def par_tlc(ctx, jobs):
    """Run TLC jobs concurrently. jobs: dict(files, module, cfg, tag, timeout, workers)."""
    def one(j):
        return ctx.tlc(j["files"], j["module"], j["cfg"], workers=j.get("workers", 1), tag=j["tag"],
                       timeout=j.get("timeout", 1500), count=False)
    slots = max(1, ctx.cores // max(1, max(j.get("workers", 1) for j in jobs)))
    with ThreadPoolExecutor(max_workers=slots) as ex:
        futs = [ex.submit(one, j) for j in jobs]
        res = [f.result() for f in futs]      # re-raises Infra
    for r in res:
        ctx.tlc_states += r.distinct
        ctx.tlc_transitions += r.generated
    return res


def types_job():
    return {"files": BIG + ["num/ConvertTypesEmit.tla", "num/ConvertTypesEmit.cfg"], "module": "ConvertTypesEmit",
            "cfg": "ConvertTypesEmit.cfg", "tag": "types", "timeout": 600}


def check_sema(ctx, binary, types_res):
    """The spec's type table (names, signedness, bounds, scale, rounding rules) against sema's declarations."""
    tl = types_res.json_lines()
    if len(tl) < 1:
        raise Infra("ConvertTypesEmit printed nothing")
    spec = tl[0]
    sp = os.path.join(ctx.work, "sema.json")
    ctx.run([binary, "sema", sp])
    sj = json.load(open(sp))
    sema = {t["name"]: t for t in sj["types"]}
    if set(sema) != set(spec["types"]):
        ctx.report({"kind": "type-table", "what": "names"},
                   "sema declares the concrete numeric types %s, the specification %s" % (sorted(sema), sorted(spec["types"])))
    for n, o in spec["types"].items():
        s = sema.get(n)
        if s is None:
            continue
        smin = zval(s["min"]) if s["min"] else None
        smax = zval(s["max"]) if s["max"] else None
        pmin = zval(o["min"]) if o["hasmin"] else None
        pmax = zval(o["max"]) if o["hasmax"] else None
        if (smin, smax, s["scale"], s["signed"], s["integer"]) != (pmin, pmax, o["scale"], o["signed"], o["scale"] == 0):
            ctx.report({"kind": "type-table", "type": n, "what": "range"},
                       "type %s: sema declares [%s, %s] scale %s signed %s; the specification says [%s, %s] scale %s signed %s" % (
                           n, smin, smax, s["scale"], s["signed"], pmin, pmax, o["scale"], o["signed"]))
    if sorted(sj["rounding_rules"]) != sorted(spec["rules"]):
        ctx.report({"kind": "type-table", "what": "rounding-rules"},
                   "sema declares the rounding rules %s, the specification %s" % (sj["rounding_rules"], spec["rules"]))
    return sema, spec, sj["rounding_rules"]


def judge_chunks(ctx, events, module_files, module, cfgname, tagp, controls, per_chunk=400, max_chunk=20000):
    """Split the events over one TLC per core (each single-threaded); returns the printed verdict records.
    controls: corrupted copies of real events (k <= 0) that TLC must reject."""
    rnd = random.Random(ctx.seed)
    evs = list(events)
    rnd.shuffle(evs)
    evs = controls + evs
    n = max(1, min(ctx.cores, (len(evs) + per_chunk - 1) // per_chunk), (len(evs) + max_chunk - 1) // max_chunk)
    jobs = []
    for c in range(n):
        part = evs[c::n]
        d = os.path.join(ctx.work, "%s-chunk%02d" % (tagp, c))
        os.makedirs(d, exist_ok=True)
        tp = os.path.join(d, "trace.ndjson")
        write_ndjson(tp, part)
        jobs.append({"files": module_files + [tp], "module": module, "cfg": cfgname, "tag": "%s-%02d" % (tagp, c),
                     "timeout": 2400, "n": len(part)})
    res = par_tlc(ctx, jobs)
    verdicts, judged = [], 0
    for j, r in zip(jobs, res):
        if r.distinct != j["n"] + 1:
            raise Infra("TLC judged %d of %d events in %s" % (r.distinct - 1, j["n"], j["tag"]))
        judged += j["n"]
        verdicts += r.json_lines()
    rejected = {v["k"] for v in verdicts if v["v"] == "bad"}
    for c in controls:
        if c["k"] not in rejected:
            raise Infra("negative control: TLC accepted a corrupted event: %s" % json.dumps(c)[:600])
    verdicts = [v for v in verdicts if v["k"] > 0]
    return verdicts, judged - len(controls), n


def split_out(ctx, path, what):
    out = read_ndjson(path)
    summ = [o for o in out if o.get("summary")]
    if not summ:
        raise Infra("numfix %s wrote no summary" % what)
    return summ[0], [o for o in out if not o.get("summary")]


# ================================================================================================ C21
R8 = {"Int8": ("int8", "signed"), "UInt8": ("uint8", "unsigned"), "Word8": ("word8", "word")}
RFILES = ["num/RangeIter.tla", "num/RangeIterMC.tla"]
WIDE_INT = ["Int16", "Int32", "Int64", "Int128", "Int256", "Int", "UInt16", "UInt32", "UInt64", "UInt128", "UInt256", "UInt",
            "Word16", "Word32", "Word64", "Word128", "Word256"]


def typeclass(t):
    return "word" if t.startswith("Word") else ("unsigned" if t.startswith("U") else "signed")


def range_jobs(ctx):
    tier = "quick" if ctx.quick else "thorough"
    w = max(1, min(4, ctx.cores // 5))
    jobs = []
    for nm in ("int4", "uint4"):
        cfg = "RangeIter_%s.cfg" % nm
        jobs.append({"files": RFILES + ["num/" + cfg], "module": "RangeIterMC", "cfg": cfg, "tag": "mc-" + nm, "timeout": 1500, "workers": 1})
    for t, (nm, _) in R8.items():
        cfg = "RangeIter_%s_%s.cfg" % (nm, tier)
        jobs.append({"files": RFILES + ["num/" + cfg], "module": "RangeIterMC", "cfg": cfg, "tag": "mc-" + nm, "timeout": 2400,
                     "workers": w, "t": t})
    return jobs


def row_desc(r):
    return "InclusiveRange<%s>(%d, %d%s)" % (r["t"], r["s"], r["e"], ", step: %d" % r["p"] if r["h"] else "")


def classify_table_mismatch(row, m):
    """The named deviation that predicts exactly this observation, or "none"."""
    if m["kind"] == "iter":
        if row["devIter"] == "DevEagerNext" and m["got"] in ("overflow", "underflow"):
            return "DevEagerNext"
        if row["devIter"] == "DevEagerNextWraps" and m["got"] in ("ok", "runaway"):
            if m.get("gotseq") == row["devSeq"] and (m["got"] == "runaway") == (len(row["devSeq"]) >= 301):
                return "DevEagerNextWraps"
    if m["kind"] == "contains":
        if m["got"] in ("overflow", "underflow") and m["x"] in row["devFail"]:
            return "DevContainsDiff"
        if m["got"] == "true" and m["expect"] == "false" and m["x"] == row["e"] and row["devEnd"]:
            return "DevContainsEnd"
    return "none"


def run_range_table(ctx, binary, jobs, results, sema):
    rows = []
    for j, r in zip(jobs, results):
        if "t" not in j:
            continue
        rs = r.json_lines()
        if not rs:
            raise Infra("RangeIter %s printed no rows" % j["tag"])
        s = sema[j["t"]]
        for x in rs:
            if (x["lo"], x["hi"]) != (zval(s["min"]), zval(s["max"])):
                ctx.report({"kind": "type-table", "type": j["t"], "what": "range"},
                           "RangeIter instance for %s uses [%d, %d], sema declares [%d, %d]" % (j["t"], x["lo"], x["hi"], zval(s["min"]), zval(s["max"])))
            x["t"] = j["t"]
            x["id"] = len(rows) + 1
            rows.append(x)
    # negative controls: copies of real rows with (a) one element of the sequence changed, (b) one member removed,
    # (c) the constructor verdict flipped; the driver must report each of them on both engines
    src = next(r for r in rows if r["ok"] and len(r["seq"]) >= 3 and r["devIter"] == "none" and not r["devFail"] and not r["devEnd"])
    c1 = json.loads(json.dumps(src)); c1["seq"][1] += 1
    c2 = json.loads(json.dumps(src)); c2["mem"].remove(src["seq"][2])
    c3 = json.loads(json.dumps(src)); c3["ok"] = False
    ctls = []
    for c, kind in ((c1, "iter"), (c2, "contains"), (c3, "ctor")):
        c["ctl"] = True
        c["id"] = -(len(ctls) + 1)
        ctls.append((c, kind))
    rp = os.path.join(ctx.work, "range.rows.ndjson")
    op = os.path.join(ctx.work, "range.table.out.ndjson")
    write_ndjson(rp, rows + [c for c, _ in ctls])
    ctx.run([binary, "rangetable", rp, op], timeout=3000)
    summ, mism = split_out(ctx, op, "rangetable")
    for c, kind in ctls:
        hits = [m for m in mism if m["id"] == c["id"] and m["kind"] == kind]
        if len(hits) != 2:
            raise Infra("negative control: corrupted table row (%s) was reported %d times, expected 2 (interpreter, VM)" % (kind, len(hits)))
    byid = {r["id"]: r for r in rows}
    for m in mism:
        if m.get("ctl"):
            continue
        if "Checker" in m["got"] or "Pars" in m["got"]:
            raise Infra("generated script rejected by the checker: %s" % m)
        row = byid[m["id"]]
        dev = classify_table_mismatch(row, m)
        sig = {"kind": "range-table", "what": m["kind"], "type": m["t"], "typeclass": typeclass(m["t"]), "dev": dev, "via": m["via"]}
        msg = "%s  %s: spec=%s  impl(%s)=%s" % (row_desc(row), m["kind"] + ("(%d)" % m["x"] if m["kind"] == "contains" else ""),
                                               m["expect"], m["via"], m["got"])
        if m["kind"] == "iter" and m["got"] in ("ok", "runaway"):
            msg += " %s" % (m.get("gotseq") or [])[:12]
        ctx.report(sig, msg + "   [deviation %s]" % dev, {"row": row, "mismatch": m})
    ok_rows = [r for r in rows if r["ok"]]
    nontrivial = {(r["t"], r["s"], r["e"], r["h"], r["p"]) for r in ok_rows if len(r["seq"]) >= 2}
    sample = next((r for r in ok_rows if r["t"] == "Int8" and r["h"] and 3 <= len(r["seq"]) <= 8 and r["devEnd"]), ok_rows[len(ok_rows) // 2])
    ctx.add_sample({"kind": "table row printed by TLC from the RangeIter state machine, compared with the for-in result list and contains(x) for all 256 x on interpreter and VM",
                    "range": row_desc(sample), "sequence": sample["seq"], "members": len(sample["mem"]),
                    "deviations_predicted": {"iter": sample["devIter"], "contains_fails_for": len(sample["devFail"]), "contains_end_nonmember": sample["devEnd"]}})
    return summ, rows, len(nontrivial), len(ok_rows)


def range_controls(events):
    src = next((e for e in events if e["ctor"] == "ok" and e["iter"] == "ok" and len(e["seq"]) >= 3 and len(e["cs"]) >= 4
                and not e["t"].startswith("Word")), None)
    if src is None:
        raise Infra("no range event suitable for the negative control")
    c1 = json.loads(json.dumps(src)); c1["k"] = 0
    c1["seq"][1] = c1["seq"][2]                        # one yielded element changed
    c2 = json.loads(json.dumps(src)); c2["k"] = -1
    c2["seq"] = c2["seq"][:-1]                         # the loop stops one element early
    c3 = json.loads(json.dumps(src)); c3["k"] = -2
    j = next(i for i, c in enumerate(c3["cs"]) if c["out"] == "ok" and not zval(c["x"]) == zval(src["end"]))
    c3["cs"][j]["r"] = not c3["cs"][j]["r"]            # one contains answer flipped
    return [c1, c2, c3]


def range_event_desc(e):
    s = "%s  ctor=%s" % (e["expr"], e["ctor"])
    if e["ctor"] == "ok":
        s += " step=%d  for-in -> %s %s (%d elements; the range has %d members)" % (
            zval(e["step"]), e["iter"], [zval(x) for x in e["seq"][:8]], len(e["seq"]), e["n"])
    return s + "   observed via " + "+".join(e["via"])


def run_range_trace(ctx, binary):
    tp = os.path.join(ctx.work, "range.types.json")
    json.dump(WIDE_INT, open(tp, "w"))
    op = os.path.join(ctx.work, "range.trace.ndjson")
    per = 70 if ctx.quick else 400
    ctx.run([binary, "rangetrace", tp, op, str(per)], timeout=3000)
    summ, events = split_out(ctx, op, "rangetrace")
    if not events:
        raise Infra("rangetrace produced no events")
    for e in events:
        outs = [e["ctor"], e["iter"]] + [c["out"] for c in e["cs"]]
        if any(("Checker" in o or "Pars" in o) for o in outs):
            raise Infra("generated script rejected by the checker: %s" % json.dumps(e)[:800])
    files = BIG + ["num/RangeIterJudge.tla", "num/RangeIterJudge.cfg"]
    verdicts, judged, nchunks = judge_chunks(ctx, events, files, "RangeIterJudge", "RangeIterJudge.cfg", "rjudge", range_controls(events),
                                             per_chunk=300)
    byk = {e["k"]: e for e in events}
    for v in verdicts:
        ev = byk[v["k"]]
        if v["v"] == "malformed":
            raise Infra("range event malformed for the specification (bad witness or operand out of range): %s" % json.dumps(ev)[:800])
        for p in v["ps"]:
            sig = {"kind": "range-trace", "what": p["what"], "type": ev["t"], "typeclass": typeclass(ev["t"]), "dev": p["dev"]}
            msg = "rejected by RangeIterJudge: %s" % range_event_desc(ev)
            if p["what"] == "contains":
                x = zval(p["x"])
                got = next(c for c in ev["cs"] if zval(c["x"]) == x)
                msg += "   contains(%d) -> %s; the specification says %s" % (x, got["out"] if got["out"] != "ok" else str(got["r"]).lower(), p["exp"])
            else:
                msg += "   %s: the specification expects %s" % (p["what"], p["exp"])
            ctx.report(sig, msg + "   [deviation %s]" % p["dev"], ev)
    distinct = {(e["t"], zval(e["start"]), zval(e["end"]), e["has"], zval(e["arg"])) for e in events if e["ctor"] == "ok" and e["n"] >= 2}
    for e in (events[len(events) // 3], events[-2]):
        ctx.add_sample({"kind": "range event judged by TLC (RangeIterJudge)", "event": range_event_desc(e), "contains_observations": len(e["cs"])})
    return summ, events, len(distinct), judged, nchunks


def check_C21(ctx):
    _env()
    binary = ctx.build("numfix")
    jobs = [types_job()] + range_jobs(ctx)
    res = par_tlc(ctx, jobs)
    sema, spec, _ = check_sema(ctx, binary, res[0])
    mc = {j["tag"]: r for j, r in zip(jobs, res)}
    tsum, rows, t_nontrivial, t_ok = run_range_table(ctx, binary, jobs[1:], res[1:], sema)
    ctx.log("8-bit table: %d rows (%d constructed), %d loops, %d contains evaluations, %d scripts" % (
        tsum["rows"], t_ok, tsum["iterations"], tsum["contains_evals"], tsum["scripts"]))
    wsum, events, w_nontrivial, judged, nchunks = run_range_trace(ctx, binary)
    ctx.log("wide types: %d ranges, %d events judged in %d TLC chunks" % (wsum["cases"], judged, nchunks))
    model_states = sum(r.distinct for t, r in mc.items() if t.startswith("mc-"))
    model_trans = sum(r.generated for t, r in mc.items() if t.startswith("mc-"))
    return ctx.finish({
        "states": model_states, "transitions": model_trans,
        "traces_validated_against_impl": 2 * (len(rows)) + judged,
        "evaluations": tsum["iterations"] + tsum["contains_evals"] + tsum["ctor_rejections"] + wsum["iterations"] + wsum["contains_evals"],
        "distinct_nontrivial": t_nontrivial + w_nontrivial,
        "rule": "distinct constructed ranges (type, start, end, step) with at least two members: the 8-bit table rows printed by TLC "
                "(each compared on both engines: loop result and contains on all 256 values) plus the wide-type ranges judged by TLC",
        "exhaustive": True,
        "model_instances": {t: {"distinct_states": r.distinct, "transitions": r.generated} for t, r in mc.items() if t.startswith("mc-")},
        "table_rows": len(rows), "table_rows_constructed": t_ok, "table_loops_run": tsum["iterations"],
        "table_contains_evaluations": tsum["contains_evals"], "table_contains_not_evaluated_predicted_failures": tsum["contains_skipped"],
        "table_constructor_rejections_observed": tsum["ctor_rejections"],
        "scripts_executed": tsum["scripts"] + wsum["scripts"],
        "wide_ranges": wsum["cases"], "wide_events_judged_by_tlc": judged, "wide_events_per_type": wsum["per_type"], "tlc_judge_chunks": nchunks,
    }, assumptions=[
        "TLC and the CommunityModules Json module are trusted; the Go driver only renders scripts, executes them and records",
        "4-bit-like instances are exhaustive over start/end/step; the 8-bit instances use boundary-biased argument sets (RangeIterMC) "
        "and all 256 needles; wider types are sampled near the bounds (seeded) with at most 40 members per range",
        "a for-in loop that yields more than 300 elements of an 8-bit type (or 8 more than the range has members) is recorded as runaway",
        "needles for which a named deviation predicts a failing contains() are sampled (6 per row quick, 24 thorough) because each needs its own script",
    ])


# ================================================================================================ C15
FIXED = ["Fix64", "UFix64", "Fix128", "UFix128"]
FXBASE = BIG + ["num/FixedPoint.tla"]


def write_cfg(ctx, name, text):
    p = os.path.join(ctx.work, name)
    with open(p, "w") as fh:
        fh.write(text)
    return p


def laws_job(ctx):
    cfg = "FixedPointLaws_%s.cfg" % ("quick" if ctx.quick else "thorough")
    return {"files": BIG + ["num/FixedPointLaws.tla", "num/" + cfg], "module": "FixedPointLaws", "cfg": cfg, "tag": "laws", "timeout": 1500}


def check_laws(res):
    if not any("FixedPointLaws checked" in ln for ln in res.lines):
        raise Infra("FixedPointLaws did not evaluate its assumptions")


def scaled(t_scale, x):
    if t_scale == 0:
        return str(x)
    s = str(abs(x)).rjust(t_scale + 1, "0")
    return ("-" if x < 0 else "") + s[:-t_scale] + "." + s[-t_scale:]


def fx_desc(e, scale):
    s = "%s  ->  %s" % (e["expr"], e["out"])
    if e["out"] == "ok":
        s += " " + scaled(scale, zval(e["r"]))
    return s + "   observed via " + "+".join(e["via"])


def fx_controls(events):
    """Corrupted copies of real events: one result limb changed, ok -> error, error -> ok, remainder changed."""
    def pick(pred, what):
        e = next((e for e in events if pred(e)), None)
        if e is None:
            raise Infra("no event suitable for the negative control (%s)" % what)
        return json.loads(json.dumps(e))
    big = lambda e: e["out"] == "ok" and e["r"]["m"] and e["r"]["m"][0] >= 2
    c1 = pick(lambda e: e["op"] == "mul" and big(e), "mul"); c1["k"] = 0; c1["r"]["m"][0] ^= 1
    c2 = pick(lambda e: e["op"] == "div" and big(e), "div"); c2["k"] = -1; c2["out"] = "overflow"; c2["r"] = {"n": False, "m": []}
    c3 = pick(lambda e: e["op"] == "muldiv" and e["out"] in ("overflow", "underflow"), "muldiv range error"); c3["k"] = -2
    c3["out"] = "ok"; c3["r"] = c3["a"]
    c4 = pick(lambda e: e["op"] == "mod" and big(e), "mod"); c4["k"] = -3; c4["r"]["m"][0] ^= 1
    c5 = pick(lambda e: e["op"] == "muldiv" and e["rule"] == "nearestHalfEven" and big(e), "muldiv half-even"); c5["k"] = -4
    c5["r"]["m"][0] ^= 1
    return [c1, c2, c3, c4, c5]


def check_C15(ctx):
    _env()
    binary = ctx.build("numfix")
    sel = ", ".join('"%s"' % t for t in FIXED)
    ocfg = write_cfg(ctx, "FixedPointOperands.cfg",
                     "SPECIFICATION Spec\nCONSTANTS Sel = {%s}\n Dense = %s\nINVARIANT Emit\n" % (sel, "FALSE" if ctx.quick else "TRUE"))
    jobs = [types_job(), laws_job(ctx),
            {"files": FXBASE + ["num/FixedPointOperands.tla", ocfg], "module": "FixedPointOperands", "cfg": os.path.basename(ocfg),
             "tag": "operands", "timeout": 1500}]
    res = par_tlc(ctx, jobs)
    sema, spec, rules = check_sema(ctx, binary, res[0])
    check_laws(res[1])
    for t in FIXED:
        if sema[t]["muldiv_params"] != ["factor", "divisor", "rounding"]:
            raise Infra("sema declares %s.multiplyDivide%s; the driver renders (factor, divisor, rounding:)" % (t, sema[t]["muldiv_params"]))
    ops = res[2].json_lines()
    if len(ops) != len(FIXED):
        raise Infra("FixedPointOperands printed %d types, expected %d" % (len(ops), len(FIXED)))
    opath = os.path.join(ctx.work, "fx.operands.ndjson")
    write_ndjson(opath, ops)
    tpath = os.path.join(ctx.work, "fx.trace.ndjson")
    pairs, triples = (700, 220) if ctx.quick else (3000, 1200)
    ctx.run([binary, "fx", opath, tpath, str(pairs), str(triples)], timeout=3000)
    summ, events = split_out(ctx, tpath, "fx")
    if not events:
        raise Infra("fx produced no events")
    for e in events:
        if e["out"].startswith("other:") and ("Checker" in e["out"] or "Pars" in e["out"]):
            raise Infra("generated script rejected by the checker: %s" % e["out"])
    files = FXBASE + ["num/FixedPointJudge.tla", "num/FixedPointJudge.cfg"]
    verdicts, judged, nchunks = judge_chunks(ctx, events, files, "FixedPointJudge", "FixedPointJudge.cfg", "fxjudge", fx_controls(events))
    byk = {e["k"]: e for e in events}
    scale = {t: spec["types"][t]["scale"] for t in FIXED}
    for v in verdicts:
        ev = byk[v["k"]]
        if v["v"] == "malformed":
            raise Infra("fixed-point event malformed for the specification (bad witness or operand out of range): %s" % json.dumps(ev)[:700])
        x = v["exp"]
        exp = x["out"] + (" " + scaled(scale[ev["t"]], zval(x["r"])) if x["out"].startswith("ok") else "")
        sig = {"kind": "fx", "type": ev["t"], "op": ev["op"], "rule": ev["rule"] or "none", "class": v["cls"], "dev": v["dev"],
               "out": ev["out"].split(" ")[0], "via": "+".join(ev["via"])}
        ctx.report(sig, "rejected by FixedPointJudge (%s, deviation %s): %s   SPEC EXPECTS %s" % (v["cls"], v["dev"], fx_desc(ev, scale[ev["t"]]), exp), ev)
    distinct, errs, classes = set(), 0, {}
    for e in events:
        a, b, c = zval(e["a"]), zval(e["b"]), zval(e["c"])
        if e["out"] != "ok":
            errs += 1
        if a != 0 and b != 0:
            distinct.add((e["t"], e["op"], e["rule"], a, b, c))
    for e in (events[len(events) // 7], events[len(events) // 2], events[-3]):
        ctx.add_sample({"kind": "fixed-point event judged by TLC", "event": fx_desc(e, scale[e["t"]])})
    ctx.log("fixed point: %d cases, %d events judged in %d TLC chunks, %d error outcomes" % (summ["cases"], judged, nchunks, errs))
    return ctx.finish({
        "evaluations": summ["observations"],
        "distinct_nontrivial": len(distinct),
        "rule": "distinct (type, operation, rounding rule, a, b, c) cases with non-zero a and b (spec boundary sets, range-straddling and "
                "sub-unit pairs, tie triples, seeded random); each executed through the value method and through scripts on interpreter and VM, "
                "every distinct observation judged by TLC",
        "exhaustive": False,
        "cases": summ["cases"], "events_judged_by_tlc": judged, "error_outcomes": errs, "scripts_executed": summ["scripts"],
        "tlc_judge_chunks": nchunks, "events_per_type_op": summ["per_type_op"],
        "operand_sets": {o["t"]: {"vals": len(o["vals"]), "core": len(o["core"]), "pairs": len(o["pairs"]), "triples": len(o["triples"])} for o in ops},
    }, assumptions=[
        "TLC and the CommunityModules Json module are trusted; the Go driver only executes and records; its witnesses (exact rounded "
        "results computed with math/big) are accepted by the specification only when they satisfy the uniquely solvable rounding relation "
        "(uniqueness checked by TLC in FixedPointLaws)",
        "operands are sampled (spec-defined boundary sets + seeded random), not exhaustive",
        "overflow vs. underflow is not distinguished (the property allows either); saturating operations belong to C13",
    ])


# ================================================================================================ C16
CVBASE = BIG + ["num/Convert.tla"]


def cv_desc(e, scale):
    s = "%s  ->  %s" % (e["expr"], e["out"])
    if e["out"] == "ok":
        s += " " + scaled(scale[e["u"]], zval(e["r"]))
    return s + "   observed via " + "+".join(e["via"])


def cv_controls(events):
    def pick(pred, what):
        e = next((e for e in events if pred(e)), None)
        if e is None:
            raise Infra("no event suitable for the negative control (%s)" % what)
        return json.loads(json.dumps(e))
    big = lambda e: e["out"] == "ok" and e["r"]["m"] and e["r"]["m"][0] >= 2
    c1 = pick(lambda e: big(e) and e["s"] == "Fix64" and e["u"] == "Int32", "Fix64->Int32"); c1["k"] = 0; c1["r"]["m"][0] ^= 1
    c2 = pick(lambda e: big(e) and e["u"] == "Word8" and e["s"] == "Int16", "Int16->Word8"); c2["k"] = -1; c2["out"] = "overflow"
    c2["r"] = {"n": False, "m": []}
    c3 = pick(lambda e: e["out"] in ("overflow", "underflow") and e["u"] == "UInt8" and e["s"] == "Int", "Int->UInt8 range error"); c3["k"] = -2
    c3["out"] = "ok"; c3["r"] = {"n": False, "m": [255]}
    c4 = pick(lambda e: big(e) and e["rule"] == "nearestHalfEven" and e["s"] == "Fix128", "Fix128->Fix64 half-even"); c4["k"] = -3
    c4["r"]["m"][0] ^= 1
    return [c1, c2, c3, c4]


def check_C16(ctx):
    _env()
    binary = ctx.build("numfix")
    # one ConvertSources run per group of source types (parallel)
    tjob = types_job()
    r0 = par_tlc(ctx, [tjob])[0]
    sema, spec, rules = check_sema(ctx, binary, r0)
    names = sorted(spec["types"])
    groups = [names[i::6] for i in range(6)]
    jobs = []
    for gi, g in enumerate(groups):
        cfg = write_cfg(ctx, "ConvertSources_%d.cfg" % gi,
                        "SPECIFICATION Spec\nCONSTANTS Sel = {%s}\n Dense = %s\nINVARIANT Emit\n" % (
                            ", ".join('"%s"' % t for t in g), "FALSE" if ctx.quick else "TRUE"))
        jobs.append({"files": CVBASE + ["num/ConvertSources.tla", cfg], "module": "ConvertSources", "cfg": os.path.basename(cfg),
                     "tag": "sources-%d" % gi, "timeout": 1500})
    res = par_tlc(ctx, jobs)
    srcs = [x for r in res for x in r.json_lines()]
    if sorted(x["s"] for x in srcs) != names:
        raise Infra("ConvertSources printed %d source types, expected %d" % (len(srcs), len(names)))
    # which conversion functions take a rounding argument is read from sema, not assumed
    rounding_targets = sorted(t for t in names if "rounding" in sema[t]["conv_params"])
    for t in names:
        if sema[t]["conv_params"] not in (["value"], ["value", "rounding"]):
            raise Infra("sema declares the conversion function %s%s; the driver renders (value) / (value, rounding:)" % (t, sema[t]["conv_params"]))
    spath = os.path.join(ctx.work, "cv.sources.ndjson")
    write_ndjson(spath, srcs)
    tpath = os.path.join(ctx.work, "cv.trace.ndjson")
    nrand = 6 if ctx.quick else 60
    ctx.run([binary, "cv", spath, tpath, str(nrand)], timeout=3000)
    summ, events = split_out(ctx, tpath, "cv")
    if summ["pairs_with_events"] != len(names) ** 2:
        raise Infra("only %d of %d (source, target) pairs were exercised" % (summ["pairs_with_events"], len(names) ** 2))
    for e in events:
        if e["out"].startswith("other:") and ("Checker" in e["out"] or "Pars" in e["out"]):
            raise Infra("generated script rejected by the checker: %s" % e["out"])
    files = CVBASE + ["num/ConvertJudge.tla", "num/ConvertJudge.cfg"]
    verdicts, judged, nchunks = judge_chunks(ctx, events, files, "ConvertJudge", "ConvertJudge.cfg", "cvjudge", cv_controls(events))
    byk = {e["k"]: e for e in events}
    scale = {t: spec["types"][t]["scale"] for t in names}
    for v in verdicts:
        ev = byk[v["k"]]
        if v["v"] == "malformed":
            raise Infra("conversion event malformed for the specification (bad witness or source out of range): %s" % json.dumps(ev)[:700])
        x = v["exp"]
        exp = x["out"] + (" " + scaled(scale[ev["u"]], zval(x["r"])) if x["out"] == "ok" else "")
        sig = {"kind": "convert", "source": ev["s"], "target": ev["u"], "source_kind": v["sk"], "target_kind": v["uk"],
               "rule": "given" if ev["rule"] else "none", "class": v["cls"], "dev": v["dev"], "out": ev["out"].split(" ")[0]}
        ctx.report(sig, "rejected by ConvertJudge (%s, deviation %s): %s   SPEC EXPECTS %s" % (v["cls"], v["dev"], cv_desc(ev, scale), exp), ev)
    distinct, errs = set(), 0
    for e in events:
        if e["out"] != "ok":
            errs += 1
        if zval(e["a"]) != 0:
            distinct.add((e["s"], e["u"], e["rule"], zval(e["a"])))
    for e in (events[len(events) // 9], events[len(events) // 2], events[-5]):
        ctx.add_sample({"kind": "conversion event judged by TLC", "event": cv_desc(e, scale)})
    ctx.log("conversions: %d cases over %d pairs, %d events judged in %d TLC chunks, %d error outcomes" % (
        summ["cases"], summ["pairs"], judged, nchunks, errs))
    return ctx.finish({
        "evaluations": summ["observations"],
        "distinct_nontrivial": len(distinct),
        "rule": "distinct (source type, target type, rounding rule, non-zero source value) conversions: sources at and around every target "
                "type's bounds (ConvertSources.tla) plus seeded random ones, each executed through the conversion function in scripts on "
                "interpreter and VM, every distinct observation judged by TLC",
        "exhaustive": False,
        "numeric_types": len(names), "pairs_exercised": summ["pairs_with_events"], "min_events_per_pair": summ["min_events_per_pair"],
        "max_events_per_pair": summ["max_events_per_pair"], "cases": summ["cases"], "events_judged_by_tlc": judged, "error_outcomes": errs,
        "conversion_functions_with_rounding_argument": rounding_targets, "rounding_rules": rules,
        "scripts_executed": summ["scripts"], "tlc_judge_chunks": nchunks,
    }, assumptions=[
        "sema declares 24 concrete numeric types with conversion functions (the property statement counts 27); all 24 x 24 pairs are exercised",
        "TLC and the CommunityModules Json module are trusted; the Go driver only renders scripts, executes and records; its witnesses are "
        "accepted by the specification only when they satisfy the uniquely solvable rounding relation",
        "sources are sampled (spec-defined sets around every target bound + seeded random), not exhaustive",
        "overflow vs. underflow is not distinguished (the property allows either)",
    ])


# ================================================================================================ replay
def _replay_judge(ctx, files, module, cfg, tp):
    r = ctx.tlc(files + [tp], module, cfg, workers=1, tag="replay")
    return {v["k"]: v for v in r.json_lines()}


def replay_C15(ctx, obj):
    """bin/vcheck C15 --replay f: re-execute the recorded case and let TLC judge it again."""
    _env()
    binary = ctx.build("numfix")
    ev = obj["replay"]
    tp = os.path.join(ctx.work, "trace.ndjson")
    ctx.run([binary, "fxone", ev["t"], ev["op"], ev["rule"] or "-", str(zval(ev["a"])), str(zval(ev["b"])), str(zval(ev["c"])), tp])
    events = read_ndjson(tp)
    bad = _replay_judge(ctx, FXBASE + ["num/FixedPointJudge.tla", "num/FixedPointJudge.cfg"], "FixedPointJudge", "FixedPointJudge.cfg", tp)
    scale = 24 if "128" in ev["t"] else 8
    rc = 0
    for e in events:
        v = bad.get(e["k"])
        print("REPLAY %s: %s" % ("REJECTED by the specification (%s, deviation %s)" % (v["cls"], v["dev"]) if v else "accepted", fx_desc(e, scale)))
        rc = rc or (1 if v else 0)
    return rc


def replay_C16(ctx, obj):
    _env()
    binary = ctx.build("numfix")
    ev = obj["replay"]
    tp = os.path.join(ctx.work, "trace.ndjson")
    ctx.run([binary, "cvone", ev["s"], ev["u"], ev["rule"] or "-", str(zval(ev["a"])), tp])
    events = read_ndjson(tp)
    bad = _replay_judge(ctx, CVBASE + ["num/ConvertJudge.tla", "num/ConvertJudge.cfg"], "ConvertJudge", "ConvertJudge.cfg", tp)
    scale = {t: (24 if "128" in t else 8) if "Fix" in t else 0 for t in (ev["s"], ev["u"])}
    rc = 0
    for e in events:
        v = bad.get(e["k"])
        print("REPLAY %s: %s" % ("REJECTED by the specification (%s, deviation %s)" % (v["cls"], v["dev"]) if v else "accepted", cv_desc(e, scale)))
        rc = rc or (1 if v else 0)
    return rc


def replay_C21(ctx, obj):
    _env()
    binary = ctx.build("numfix")
    rp = obj["replay"]
    rc = 0
    if obj.get("sig", {}).get("kind") == "range-table":
        row = rp["row"]
        inp, outp = os.path.join(ctx.work, "row.ndjson"), os.path.join(ctx.work, "row.out.ndjson")
        write_ndjson(inp, [row])
        ctx.run([binary, "rangetable", inp, outp], env={"VERIF_TIER": "thorough"})
        _, mism = split_out(ctx, outp, "rangetable")
        print("REPLAY %s: spec row: constructed=%s sequence=%s members=%d" % (row_desc(row), row["ok"], row["seq"], len(row["mem"])))
        for m in mism:
            print("REPLAY   MISMATCH %s%s via %s: spec=%s impl=%s   [deviation %s]" % (
                m["kind"], "(%d)" % m["x"] if m["kind"] == "contains" else "", m["via"], m["expect"][:200], m["got"], classify_table_mismatch(row, m)))
            rc = 1
        if not mism:
            print("REPLAY   no disagreement")
        return rc
    ev = rp
    tp = os.path.join(ctx.work, "trace.ndjson")
    ctx.run([binary, "rangeone", ev["t"], str(zval(ev["start"])), str(zval(ev["end"])), "1" if ev["has"] else "0", str(zval(ev["arg"])), tp])
    events = read_ndjson(tp)
    bad = _replay_judge(ctx, BIG + ["num/RangeIterJudge.tla", "num/RangeIterJudge.cfg"], "RangeIterJudge", "RangeIterJudge.cfg", tp)
    for e in events:
        v = bad.get(e["k"])
        print("REPLAY %s: %s" % ("REJECTED by the specification %s" % [(p["what"], p["dev"]) for p in v["ps"]] if v else "accepted", range_event_desc(e)))
        rc = rc or (1 if v else 0)
    return rc


META = {
    "C15": {
        "level_text": "For Fix64, UFix64, Fix128 and UFix128: + - * / % and multiplyDivide (without a rule and with each of the four rounding rules) are executed on spec-defined boundary operands (0, +-1 unit, +-1.0, 0.5, min, max, pairs whose product or quotient straddles the range or is below one unit, tie and near-tie triples) plus seeded random operands, through the interpreter's value methods and through scripts on interpreter and VM; every distinct observation is judged by TLC against the relational specification on exact integers (truncation / rounding as inequalities between products, failure iff the exact rounded result is outside [min,max], division by zero, remainder by decomposition).",
        "level_note": "Sampled operands, not exhaustive. One known defect (128-bit multiplyDivide, external long-division routine) is matched as a named deviation. Trusted: TLC, the driver's operand construction and limb encoding; witnesses are checked by the specification (unique solution, FixedPointLaws).",
        "technique": "TLA+ specification (spec/num: Bignum, ConvertTypes, FixedPoint, FixedPointOperands, FixedPointJudge, FixedPointLaws) checked with TLC; relational trace validation of recorded operations (E3)",
        "design_ref": "DESIGN.md section 5 C15, Appendix A.7", "engine": "E3 relational trace",
    },
    "C16": {
        "level_text": "All 24 x 24 (source type, target type) pairs of the concrete numeric types: sources at and around every target type's bounds (bound +- 1 unit, +- one and half a target unit, +- 1.0 / 0.5, Word moduli), general values (0, +-1.0, +-0.5, ties to even, min, max) and seeded random values are converted through the conversion functions in scripts on interpreter and VM - without a rounding argument and, where sema declares one (Fix64, UFix64), with each rounding rule; every distinct observation is judged by TLC: same value if representable, truncation toward zero or rounding by the rule stated as inequalities, Word targets reduce the integer part modulo 2^n, otherwise overflow/underflow.",
        "level_note": "Sampled sources, not exhaustive. Three known defects (all with Fix128/UFix128 sources) are matched as exact deviant formulas of the specification.",
        "technique": "TLA+ specification (spec/num: Bignum, ConvertTypes, Convert, ConvertSources, ConvertJudge) checked with TLC; relational trace validation of recorded conversions (E3)",
        "design_ref": "DESIGN.md section 5 C16, section 7 #8b #8c", "engine": "E3 relational trace",
    },
    "C21": {
        "level_text": "The InclusiveRange constructor/iterator/denotation state machine (RangeIter.tla) is model-checked by TLC: exhaustively over every start, end and step of a 16-value signed and unsigned type (invariants: yields exactly the denoted arithmetic sequence, never needs a value outside the type, denotation by sequence and by membership agree; termination under weak fairness) and for Int8, UInt8, Word8 over boundary-biased argument sets. Every terminal state of the 8-bit instances is a table row that is compared with the real runtime on interpreter and VM: constructor outcome, step field, the list a for-in loop yields, and contains(x) for all 256 values. For Int16..Int256, UInt16..UInt256, Int, UInt, Word16..Word256 ranges anchored at min/max/0/+-1 with dividing and non-dividing steps are executed the same way and every recorded observation is judged by TLC on exact integers.",
        "level_note": "8-bit argument sets are boundary-biased, not all 2^24 triples; wide types are sampled with short sequences. Four known defects are matched as named deviations of the specification (exact prediction required).",
        "technique": "TLA+ state machine (RangeIter.tla) model-checked with TLC; its terminal states are the table compared with the implementation (E4); wide types by relational trace validation (E3, RangeIterJudge.tla on Bignum)",
        "design_ref": "DESIGN.md section 5 C21, section 7 #2 #3", "engine": "E1 model checking + E4 table + E3 relational trace",
    },
}
