"""Language-level checks (family "lang"): C03 linearity, C50 access modifiers, C07 view purity
(C52 evaluation order and C10 conditions live in the same module, see below).

Pattern (DESIGN 2.1, E4 table conformance): the TLA+ specification in spec/lang decides every case
(TLC explores / evaluates it), a Go driver (harness/cmd/lang) renders the same cases to Cadence and
runs the real parser + checker (+ both execution engines), python only compares the two tables."""
import json, os, random, itertools, copy, threading
from vlib.core import Infra, read_ndjson, write_ndjson

LEVEL = {"C03": "model_checking", "C50": "model_checking", "C07": "model_checking"}
META = {}

# =====================================================================================
# C03 — the checker rejects every resource-linearity violation (spec/lang/Linearity.tla)
# =====================================================================================
# Programs are JSON statement trees (see the header of Linearity.tla). Variables carry a kind:
# r = @R, o = @R?, a = @[R]. The generator guarantees well-formedness OUTSIDE the property
# (scoping, kinds, no dead code, break/continue inside loops, value-returning functions return);
# whether a program is linear is decided by TLC only.

TERMINATORS = ("break", "continue", "return", "panic")


def _exits(block):
    """no statement may follow this block's last statement (dead code otherwise)"""
    if not block:
        return False
    s = block[-1]
    if s["t"] in TERMINATORS:
        return True
    if s["t"] in ("if", "iflet"):
        return _exits(s["then"]) and _exits(s["else"])
    return False


def _returns(block):
    """every path through the block ends in return or panic (needed for value-returning functions)"""
    if not block:
        return False
    s = block[-1]
    if s["t"] in ("return", "panic"):
        return True
    if s["t"] in ("if", "iflet"):
        return _returns(s["then"]) and _returns(s["else"])
    return False


class _Bad(Exception):
    pass


def lin_wellformed(prog):
    """Checks everything the checker would reject for reasons OUTSIDE linearity."""
    declared = set()
    funs = {}

    def need(c):
        if not c:
            raise _Bad()

    def block(ss, scope, inloop, ret, funscope):
        scope = dict(scope)
        funscope = dict(funscope)
        for i, s in enumerate(ss):
            t = s["t"]
            last = i == len(ss) - 1

            def new(x, kind):
                need(x not in declared)
                declared.add(x)
                scope[x] = kind

            def has(x, kinds="roa"):
                need(x in scope and scope[x] in kinds)
                return scope[x]

            if t == "decl":
                need(s["k"] in "roa")
                new(s["x"], s["k"])
            elif t == "move":
                f = s.get("form", "var")
                need(len(s["ys"]) >= 1)
                if f in ("var", "let"):
                    need(len(s["ys"]) == 1)
                    kind = has(s["ys"][0])
                    need(kind == s["k"])
                elif f == "opt":
                    need(len(s["ys"]) == 1 and s["k"] == "o")
                    has(s["ys"][0], "ro")
                elif f == "arr":
                    need(s["k"] == "a")
                    for y in s["ys"]:
                        has(y, "r")
                else:
                    need(False)
                new(s["x"], s["k"])
            elif t == "take":
                has(s["x"], "a")
                new(s["z"], "r")
            elif t in ("destroy", "consume", "use"):
                need(has(s["x"]) == s["k"])
            elif t == "swap":
                need(s["x"] != s["y"] and has(s["x"]) == has(s["y"]))
            elif t == "append":
                has(s["x"], "a"); has(s["y"], "r")
            elif t == "fassign":
                has(s["x"], "o"); has(s["y"], "ro")
            elif t == "assign":
                need(s["x"] != s["y"] and has(s["x"]) == has(s["y"]))
            elif t == "shift":
                need(s["x"] != s["y"] and has(s["x"]) == has(s["y"]))
                new(s["z"], scope[s["x"]])
            elif t == "if":
                block(s["then"], scope, inloop, ret, funscope)
                block(s["else"], scope, inloop, ret, funscope)
            elif t == "iflet":
                has(s["x"], "o")
                sc = dict(scope)
                need(s["y"] not in declared)
                declared.add(s["y"])
                sc[s["y"]] = "r"
                block(s["then"], sc, inloop, ret, funscope)
                block(s["else"], scope, inloop, ret, funscope)
            elif t in ("while", "for"):
                block(s["body"], scope, True, ret, funscope)
            elif t in ("break", "continue"):
                need(inloop and last)
            elif t == "return":
                need(last)
                if s["x"] != "":
                    need(ret); has(s["x"], "r")
                need(bool(s.get("ret")) == bool(ret))
            elif t == "panic":
                need(last)
            elif t == "fun":
                need(s["name"] not in funs)
                sc = {}
                for q in s["params"]:
                    need(q["x"] not in declared)
                    declared.add(q["x"])
                    sc[q["x"]] = q["k"]
                funs[s["name"]] = s
                block(s["body"], sc, False, s["ret"], funscope)   # resources of the outer function are not visible
                if s["ret"]:
                    need(_returns(s["body"]))
                funscope[s["name"]] = s
            elif t == "call":
                need(s["name"] in funscope)
                f = funscope[s["name"]]
                need(len(s["ys"]) == len(f["params"]) and bool(s["ret"]) == bool(f["ret"]))
                for y, q in zip(s["ys"], f["params"]):
                    need(has(y) == q["k"] or (q["k"] == "o" and has(y) == "r"))
            else:
                need(False)
            if not last:
                need(not _exits(ss[:i + 1]))

    try:
        block(prog["body"], {}, False, False, {})
        return True
    except _Bad:
        return False


def _size(block):
    n = 0
    for s in block:
        n += 1
        for key in ("then", "else", "body"):
            if key in s:
                n += _size(s[key])
    return n


def _walk(block, f):
    for s in block:
        f(s)
        for key in ("then", "else", "body"):
            if key in s:
                _walk(s[key], f)


# ---------------------------------------------------------------- systematic enumeration
def lin_enumerate(max_size, max_vars, forms):
    """All programs with at most max_size statements over at most max_vars variables of kind r,
    variables named in order of declaration, no dead code. forms: statement alphabet."""
    out = []

    def blocks(size, scope, nvars, inloop, top):
        """yield (block, nvars) with exactly `size` statements (nested ones included)"""
        if size == 0:
            yield [], nvars
            return
        for first_size in range(1, size + 1):
            for st, nv in stmts(first_size, scope, nvars, inloop):
                ex = _exits([st])
                if ex:
                    if first_size == size:
                        yield [st], nv
                    continue
                sc = scope + ([st["x"]] if st["t"] in ("decl", "move") else [])
                for rest, nv2 in blocks(size - first_size, sc, nv, inloop, top):
                    yield [st] + rest, nv2

    def stmts(size, scope, nvars, inloop):
        if size == 1:
            if nvars < max_vars:
                x = "v%d" % nvars
                yield {"t": "decl", "x": x, "k": "r"}, nvars + 1
                if "move" in forms:
                    for y in scope:
                        yield {"t": "move", "x": x, "k": "r", "form": "var", "ys": [y]}, nvars + 1
            for y in scope:
                yield {"t": "destroy", "x": y, "k": "r"}, nvars
                if "use" in forms:
                    yield {"t": "use", "x": y, "k": "r", "form": "call"}, nvars
            if "swap" in forms:
                for a, b in itertools.combinations(scope, 2):
                    yield {"t": "swap", "x": a, "y": b}, nvars
            if inloop:
                yield {"t": "break"}, nvars
                yield {"t": "continue"}, nvars
            yield {"t": "return", "x": "", "ret": False}, nvars
            yield {"t": "panic"}, nvars
            # empty compound statements
            yield {"t": "if", "then": [], "else": [], "noelse": False}, nvars
            yield {"t": "while", "body": []}, nvars
            return
        inner = size - 1
        # if: split the inner statements over the two branches
        for a in range(0, inner + 1):
            for th, nv in blocks(a, scope, nvars, inloop, False):
                for el, nv2 in blocks(inner - a, scope, nv, inloop, False):
                    yield {"t": "if", "then": th, "else": el, "noelse": False}, nv2
        for body, nv in blocks(inner, scope, nvars, True, False):
            yield {"t": "while", "body": body}, nv

    for size in range(1, max_size + 1):
        for b, _ in blocks(size, [], 0, False, True):
            out.append(b)
    return out


def _vary(body, rng):
    """Semantics-preserving syntactic variation (same statement in the model, other checker code path)."""
    def f(s):
        t = s["t"]
        if t == "destroy" and rng.random() < 0.4:
            s["t"] = "consume"
        elif t == "while" and rng.random() < 0.35:
            s["t"] = "for"
        elif t == "use" and rng.random() < 0.3:
            s["form"] = "ref"
        elif t in ("if", "iflet") and not s["else"] and rng.random() < 0.5:
            s["noelse"] = True
        elif t == "move" and s.get("form") == "var" and rng.random() < 0.3:
            s["form"] = "let"
    _walk(body, f)
    return body


# ---------------------------------------------------------------- random programs, correct by construction
class _Gen:
    """Generates programs in which every path consumes every resource exactly once (by construction:
    both branches of an if consume the same outer variables, loop bodies leave outer variables
    untouched, exits consume what their target scope requires). Violations are injected afterwards
    by mutation. Whether the result is linear is decided by the specification, not by this code."""

    def __init__(self, rng, max_depth, max_stmts):
        self.rng = rng
        self.max_depth = max_depth
        self.max_stmts = max_stmts
        self.nv = 0
        self.nf = 0

    def fresh(self):
        self.nv += 1
        return "v%d" % (self.nv - 1)

    def consume_stmt(self, x, kind, fx):
        r = self.rng.random()
        # call a nested function taking exactly this kind, when one is in scope
        cands = [f for f in fx["funs"] if len(f["params"]) == 1 and f["params"][0]["k"] == kind]
        if cands and r < 0.2:
            f = self.rng.choice(cands)
            return {"t": "call", "name": f["name"], "ys": [x], "ret": f["ret"]}
        if r < 0.6:
            return {"t": "destroy", "x": x, "k": kind}
        return {"t": "consume", "x": x, "k": kind}

    def block(self, valid, kinds, goal, fx, depth, exit_kind=None):
        """valid: set of valid visible vars; goal: the outer vars this block must consume; returns stmts.
        exit_kind: None (fall through) | 'return' | 'panic' | 'break' | 'continue' — how the block ends.
        fx: function context {ret, funs(list visible), all_valid (function-level valid set incl. outer blocks),
        loop_vars (valid vars declared inside the innermost loop so far) or None}."""
        rng = self.rng
        valid = set(valid)
        kinds = dict(kinds)
        local = set()
        out = []
        fx = dict(fx, funs=list(fx["funs"]))
        must = set(goal)
        if exit_kind == "return":
            must = set(valid)                       # everything in the function must be gone
        elif exit_kind in ("break", "continue"):
            must = set(goal) | (set(fx["loop_vars"]) & valid)
        elif exit_kind == "panic":
            must = set(x for x in valid if rng.random() < 0.4)
        n = rng.randint(0, self.max_stmts)

        def consumable():
            return sorted((must | local) & valid)

        def declare(x, kind):
            kinds[x] = kind
            valid.add(x)
            local.add(x)
            if fx["loop_vars"] is not None:
                fx["loop_vars"] = fx["loop_vars"] | {x}

        for _ in range(n):
            r = rng.random()
            cs = consumable()
            vs = sorted(valid)
            if r < 0.16:
                x = self.fresh()
                kind = rng.choice("rrroa")
                out.append({"t": "decl", "x": x, "k": kind})
                declare(x, kind)
            elif r < 0.26 and cs:
                y = rng.choice(cs)
                x = self.fresh()
                ky = kinds[y]
                rr = rng.random()
                if ky == "r" and rr < 0.25:
                    out.append({"t": "move", "x": x, "k": "o", "form": "opt", "ys": [y]})
                    kx = "o"
                    valid.discard(y)
                elif ky == "r" and rr < 0.5:
                    ys = [y]
                    others = [c for c in cs if c != y and kinds[c] == "r"]
                    if others and rng.random() < 0.5:
                        ys.append(rng.choice(others))
                    out.append({"t": "move", "x": x, "k": "a", "form": "arr", "ys": ys})
                    kx = "a"
                    for q in ys:
                        valid.discard(q)
                else:
                    out.append({"t": "move", "x": x, "k": ky, "form": rng.choice(["var", "var", "let"]), "ys": [y]})
                    kx = ky
                    valid.discard(y)
                declare(x, kx)
            elif r < 0.38 and cs:
                y = rng.choice(cs)
                out.append(self.consume_stmt(y, kinds[y], fx))
                valid.discard(y)
            elif r < 0.46 and vs:
                y = rng.choice(vs)
                out.append({"t": "use", "x": y, "k": kinds[y], "form": rng.choice(["call", "call", "ref"])})
            elif r < 0.50 and len(vs) >= 2:
                a = rng.choice(vs)
                bs = [b for b in vs if b != a and kinds[b] == kinds[a]]
                if bs:
                    out.append({"t": "swap", "x": a, "y": rng.choice(bs)})
            elif r < 0.54:
                arrs = [v for v in vs if kinds[v] == "a"]
                rs = [c for c in cs if kinds[c] == "r"]
                if arrs and rs and rng.random() < 0.6:
                    y = rng.choice(rs)
                    out.append({"t": "append", "x": rng.choice(arrs), "y": y})
                    valid.discard(y)
                elif arrs:
                    z = self.fresh()
                    out.append({"t": "take", "z": z, "x": rng.choice(arrs)})
                    declare(z, "r")
            elif r < 0.57:
                os_ = [v for v in vs if kinds[v] == "o"]
                rs = [c for c in cs if kinds[c] in "ro"]
                if os_ and rs:
                    o = rng.choice(os_)
                    ys = [y for y in rs if y != o]
                    if ys:
                        y = rng.choice(ys)
                        out.append({"t": "fassign", "x": o, "y": y})
                        valid.discard(y)
            elif r < 0.60 and cs:
                y = rng.choice(cs)
                xs = [v for v in vs if v != y and kinds[v] == kinds[y]]
                if xs:
                    z = self.fresh()
                    out.append({"t": "shift", "z": z, "x": rng.choice(xs), "y": y})
                    valid.discard(y)
                    declare(z, kinds[y])
            elif r < 0.78 and depth > 0:
                # if / if-let: both branches consume the same subset T of the consumable variables
                T = set(c for c in cs if rng.random() < 0.5)
                islet = False
                o = None
                os_ = [c for c in cs if kinds[c] == "o"]
                if os_ and rng.random() < 0.4:
                    islet = True
                    o = rng.choice(os_)
                    T.discard(o)

                def branch(extra_valid, extra_kinds, extra_goal):
                    ek = None
                    rr = rng.random()
                    if rr < 0.10:
                        ek = "return"
                    elif rr < 0.20:
                        ek = "panic"
                    elif rr < 0.32 and fx["loop_vars"] is not None:
                        ek = rng.choice(["break", "continue"])
                    v2 = (valid - ({o} if islet else set())) | extra_valid
                    k2 = dict(kinds, **extra_kinds)
                    fx2 = dict(fx)
                    if fx2["loop_vars"] is not None:
                        fx2["loop_vars"] = fx2["loop_vars"] | extra_valid
                    g = (T | extra_goal) if ek not in ("break", "continue") else extra_goal
                    return self.block(v2, k2, g, fx2, depth - 1, ek)

                if islet:
                    y = self.fresh()
                    th = branch({y}, {y: "r"}, {y})
                    el = branch(set(), {}, set())
                    out.append({"t": "iflet", "x": o, "y": y, "then": th, "else": el, "noelse": False})
                    valid.discard(o)
                else:
                    th = branch(set(), {}, set())
                    el = branch(set(), {}, set())
                    out.append({"t": "if", "then": th, "else": el, "noelse": False})
                if _exits([out[-1]]):
                    # both branches left: nothing may follow; the statement already satisfies every obligation
                    return out
                valid -= T
            elif r < 0.88 and depth > 0:
                fx2 = dict(fx, loop_vars=frozenset())
                body = self.block(valid, kinds, set(), fx2, depth - 1, None)
                out.append({"t": rng.choice(["while", "while", "for"]), "body": body})
            elif r < 0.93 and depth > 0 and self.nf < 3:
                self.nf += 1
                name = "f%d" % self.nf
                ps = []
                for _i in range(rng.randint(0, 2)):
                    ps.append({"x": self.fresh(), "k": rng.choice("rro")})
                ret = rng.random() < 0.3
                pv = set(q["x"] for q in ps)
                pk = {q["x"]: q["k"] for q in ps}
                fxn = {"ret": ret, "funs": [], "loop_vars": None}
                body = self.block(pv, pk, pv, fxn, depth - 1, "return" if ret else rng.choice([None, None, "return"]))
                f = {"t": "fun", "name": name, "params": ps, "ret": ret, "body": body}
                out.append(f)
                fx["funs"].append(f)
            elif r < 0.97 and fx["funs"] and cs:
                f = rng.choice(fx["funs"])
                args = []
                pool = list(cs)
                ok = True
                for q in f["params"]:
                    c = [y for y in pool if kinds[y] == q["k"] or (q["k"] == "o" and kinds[y] == "r")]
                    if not c:
                        ok = False
                        break
                    y = rng.choice(c)
                    pool.remove(y)
                    args.append(y)
                if ok:
                    out.append({"t": "call", "name": f["name"], "ys": args, "ret": f["ret"]})
                    for y in args:
                        valid.discard(y)
        # discharge the remaining obligations
        rest = sorted((must | local) & valid)
        rng.shuffle(rest)
        retvar = ""
        if exit_kind == "return" and fx["ret"]:
            rs = [x for x in rest if kinds[x] == "r"]
            if rs and rng.random() < 0.7:
                retvar = rs[0]
                rest.remove(retvar)
        for x in rest:
            out.append(self.consume_stmt(x, kinds[x], fx))
        if exit_kind == "return":
            out.append({"t": "return", "x": retvar, "ret": bool(fx["ret"])})
        elif exit_kind in ("break", "continue", "panic"):
            out.append({"t": exit_kind})
        return out

    def program(self):
        self.nv = 0
        self.nf = 0
        fx = {"ret": False, "funs": [], "loop_vars": None}
        ek = self.rng.choice([None, None, None, "return", "panic"])
        return self.block(set(), {}, set(), fx, self.max_depth, ek)


def _all_blocks(body):
    res = [body]

    def f(s):
        for key in ("then", "else", "body"):
            if key in s:
                res.append(s[key])
    _walk(body, f)
    return res


def lin_mutate(body, rng):
    """One small random edit (the injected violation -- or not: the oracle decides)."""
    body = copy.deepcopy(body)
    blocks = _all_blocks(body)
    r = rng.random()
    nonempty = [b for b in blocks if b]
    if r < 0.30 and nonempty:                     # delete a statement
        b = rng.choice(nonempty)
        del b[rng.randrange(len(b))]
    elif r < 0.50 and nonempty:                   # duplicate a statement
        b = rng.choice(nonempty)
        i = rng.randrange(len(b))
        if b[i]["t"] not in ("decl", "move", "take", "shift", "fun", "iflet") and b[i]["t"] not in TERMINATORS:
            b.insert(i, copy.deepcopy(b[i]))
    elif r < 0.65 and nonempty:                   # swap two adjacent statements
        b = rng.choice(nonempty)
        if len(b) >= 2:
            i = rng.randrange(len(b) - 1)
            b[i], b[i + 1] = b[i + 1], b[i]
    elif r < 0.80 and nonempty:                   # move a statement into / out of another block
        b = rng.choice(nonempty)
        s = b.pop(rng.randrange(len(b)))
        b2 = rng.choice(blocks)
        b2.insert(rng.randrange(len(b2) + 1), s)
    elif r < 0.90:                                # turn a terminator into another one / drop it
        terms = []
        _walk(body, lambda s: terms.append(s) if s["t"] in TERMINATORS else None)
        if terms:
            s = rng.choice(terms)
            if s["t"] != "return" or s["x"] == "":
                keep = {k: s[k] for k in ("x", "ret") if k in s}
                s.clear()
                s.update({"t": rng.choice(["panic", "break", "continue", "return"])})
                if s["t"] == "return":
                    s.update({"x": "", "ret": keep.get("ret", False)})
    else:                                         # plain assignment between two variables of one kind (always an overwrite)
        decls = []
        _walk(body, lambda s: decls.append((s["x"], s["k"])) if s["t"] == "decl" else None)
        if len(decls) >= 2:
            a = rng.choice(decls)
            bs = [d for d in decls if d != a and d[1] == a[1]]
            if bs:
                b = rng.choice(nonempty)
                b.insert(rng.randrange(len(b) + 1), {"t": "assign", "x": a[0], "y": rng.choice(bs)[0]})
    return body


def lin_random(rng, n, max_depth, max_stmts):
    progs, tries = [], 0
    kinds = {"clean": 0, "mutated": 0}
    while len(progs) < n and tries < n * 40:
        tries += 1
        g = _Gen(rng, max_depth, max_stmts)
        body = g.program()
        if not lin_wellformed({"body": body}):
            raise Infra("C03 generator produced an ill-formed program (generator bug): %s" % json.dumps(body))
        if _size(body) < 2:
            continue
        m = rng.random()
        if m < 0.5:
            progs.append(body)
            kinds["clean"] += 1
            continue
        mb = body
        for _ in range(rng.choice([1, 1, 2])):
            for _try in range(6):
                cand = lin_mutate(mb, rng)
                if lin_wellformed({"body": cand}):
                    mb = cand
                    break
        progs.append(mb)
        kinds["mutated"] += 1
    return progs, kinds


LIN_FILES = ["lang/Linearity.tla", "lang/MC_Linearity.cfg"]
LIN_DEVS = ("exact", "DevLoopOnce", "DevJumpNoExit")


def _lin_oracle(ctx, progs, tag, workers):
    """TLC explores all paths of all programs under the three variants; returns {variant: set(ids with bad reachable)}."""
    pf = os.path.join(ctx.work, "progs-%s.ndjson" % tag)
    write_ndjson(pf, progs)
    d = os.path.join(ctx.work, "in-" + tag)
    os.makedirs(d, exist_ok=True)
    dst = os.path.join(d, "progs.ndjson")
    if os.path.exists(dst):
        os.remove(dst)
    os.link(pf, dst)
    r = ctx.tlc(LIN_FILES + [dst], "Linearity", "MC_Linearity.cfg", workers=workers, tag="lin-" + tag, timeout=1700)
    if not r.finished:
        raise Infra("TLC did not finish on batch %s" % tag)
    bad = {dv: set() for dv in LIN_DEVS}
    for ln in r.tuples("BAD"):
        parts = ln.strip("<>").split(",")
        pid = int(parts[1].strip())
        dv = parts[2].strip().strip('"')
        bad[dv].add(pid)
    return bad, pf, r


def check_C03(ctx):
    binary = ctx.build("lang")
    rng = random.Random(1000003 * ctx.seed + 17)
    # ---- generation
    if ctx.quick:
        sysm = lin_enumerate(4, 3, {"move", "use"})
        extra = lin_enumerate(5, 2, {"move"})
        seen = set(json.dumps(b, sort_keys=True) for b in sysm)
        extra = [b for b in extra if json.dumps(b, sort_keys=True) not in seen]
        rng.shuffle(extra)
        sysm += extra[:6000]
        nrand, batch = 9000, 12000
    else:
        sysm = lin_enumerate(5, 3, {"move", "use"})
        extra = lin_enumerate(6, 2, {"move"})
        seen = set(json.dumps(b, sort_keys=True) for b in sysm)
        extra = [b for b in extra if json.dumps(b, sort_keys=True) not in seen]
        rng.shuffle(extra)
        sysm += extra[:60000]
        nrand, batch = 120000, 20000
    nsys_exh = len(sysm)
    sysm = [_vary(copy.deepcopy(b), rng) for b in sysm]
    rnd, mix = lin_random(rng, nrand, 3, 4)
    bodies = sysm + rnd
    progs = [{"id": i + 1, "body": b} for i, b in enumerate(bodies)]
    for pr in progs[:nsys_exh]:
        if not lin_wellformed(pr):
            raise Infra("C03 enumerator produced an ill-formed program: %s" % json.dumps(pr))
    ctx.log("programs: %d systematic + %d random (%s)" % (len(sysm), len(rnd), mix))

    # ---- oracle (TLC) and checker, batch by batch
    batches = [progs[i:i + batch] for i in range(0, len(progs), batch)]
    oracle = {dv: set() for dv in LIN_DEVS}
    verdicts = {}
    par = 1 if ctx.quick else 3
    lock = threading.Lock()
    errs = []

    def run_batch(bi):
        try:
            b = batches[bi]
            bad, pf, r = _lin_oracle(ctx, b, "b%d" % bi, max(2, ctx.cores // par))
            rf = os.path.join(ctx.work, "lin-results-b%d.ndjson" % bi)
            ctx.run([binary, "lin", pf, rf], timeout=1700)
            rows = read_ndjson(rf)
            with lock:
                for dv in LIN_DEVS:
                    oracle[dv] |= bad[dv]
                for row in rows:
                    if not row.get("summary"):
                        verdicts[row["id"]] = row
        except Exception as e:  # re-raised below in the main thread
            errs.append(e)

    if par == 1:
        for bi in range(len(batches)):
            run_batch(bi)
    else:
        sem = threading.Semaphore(par)

        def guarded(bi):
            with sem:
                run_batch(bi)
        ths = [threading.Thread(target=guarded, args=(bi,)) for bi in range(len(batches))]
        for t in ths:
            t.start()
        for t in ths:
            t.join()
    if errs:
        raise errs[0]
    if len(verdicts) != len(progs):
        raise Infra("checker driver returned %d verdicts for %d programs" % (len(verdicts), len(progs)))

    # ---- sanity of the model's own variants: fewer paths can only remove bad paths
    inconsistent = oracle["DevLoopOnce"] - oracle["exact"]
    if inconsistent:
        raise Infra("model inconsistency: DevLoopOnce finds a bad path the exact oracle does not (ids %s)" % sorted(inconsistent)[:5])

    corrupt = os.environ.get("VERIF_SELFTEST_CORRUPT") == "C03"
    if corrupt:  # negative control: flip one table entry of the oracle
        victim = next(pr["id"] for pr in progs if pr["id"] not in oracle["exact"] and verdicts[pr["id"]]["accept"])
        oracle["exact"].add(victim)
        oracle["DevLoopOnce"].add(victim)
        ctx.log("SELFTEST: flipped oracle entry of program %d" % victim)

    # ---- compare
    noise, agree_bad, agree_ok, known = 0, 0, 0, {"DevLoopOnce": 0, "DevJumpNoExit": 0}
    nontrivial = set()
    noise_kinds = {}
    by_id = {pr["id"]: pr for pr in progs}

    def render(pid):
        pf = os.path.join(ctx.work, "one-%d.ndjson" % pid)
        rf = os.path.join(ctx.work, "one-%d.out.ndjson" % pid)
        write_ndjson(pf, [by_id[pid]])
        ctx.run([binary, "lin", pf, rf], env={"LANG_SRC": "1"})
        return read_ndjson(rf)[0].get("src", "")

    for pr in progs:
        pid = pr["id"]
        v = verdicts[pid]
        exact_bad = pid in oracle["exact"]
        if v["accept"]:
            checker_rejects = False
        elif v["res"]:
            checker_rejects = True
        else:
            # rejected only for reasons outside the property: generator noise, not counted
            noise += 1
            for o in v["other"]:
                noise_kinds[o.split(":")[0]] = noise_kinds.get(o.split(":")[0], 0) + 1
            continue
        feats = set()
        _walk(pr["body"], lambda s: feats.add(s["t"]))
        if feats & {"if", "iflet", "while", "for", "fun"} and _size(pr["body"]) >= 3:
            nontrivial.add(json.dumps(pr["body"], sort_keys=True))
        if checker_rejects == exact_bad:
            if exact_bad:
                agree_bad += 1
            else:
                agree_ok += 1
            continue
        # disagreement between the real checker and the exact oracle
        if not checker_rejects:
            dv, explained = "DevLoopOnce", pid not in oracle["DevLoopOnce"]
            side = "accepts-program-with-bad-path"
        else:
            dv, explained = "DevJumpNoExit", pid in oracle["DevJumpNoExit"]
            side = "rejects-linear-program"
        sig = {"side": side, "deviation": dv if explained else "none",
               "errors": ",".join(v["res"]), "features": ",".join(sorted(feats))}
        src = render(pid)
        msg = ("program %d: checker %s, exact oracle says a bad path is %s; %s\n%s" %
               (pid, "REJECTS " + str(v["res"]) if checker_rejects else "ACCEPTS",
                "reachable" if exact_bad else "NOT reachable",
                ("explained by deviation variant " + dv) if explained else "NOT explained by any named deviation variant",
                src[src.find("access(all) fun test()"):]))
        res = ctx.report(sig, msg, {"program": pr, "source": src, "checker": v,
                                    "oracle": {d: pid in oracle[d] for d in LIN_DEVS}})
        if res == "known":
            known[dv] += 1
            if sum(known.values()) <= 2:
                ctx.add_sample({"kind": "known deviation " + dv, "source": src[src.find("access(all) fun test()"):]})
    if noise_kinds.get("PARSE") or noise_kinds.get("RENDER") or noise_kinds.get("NEWCHECKER"):
        raise Infra("renderer produced unparsable programs: %s" % noise_kinds)
    if noise > 0.02 * len(progs):
        raise Infra("too many generated programs outside the fragment (%d of %d): %s" % (noise, len(progs), noise_kinds))
    mid = progs[len(sysm) + len(rnd) // 2]
    ctx.add_sample({"kind": "random program", "program": mid["body"], "oracle_bad": mid["id"] in oracle["exact"],
                    "checker": verdicts[mid["id"]]})
    ctx.add_sample({"kind": "systematic program", "program": progs[nsys_exh // 2]["body"],
                    "oracle_bad": progs[nsys_exh // 2]["id"] in oracle["exact"], "checker": verdicts[progs[nsys_exh // 2]["id"]]})
    counted = len(progs) - noise
    return ctx.finish({
        "traces_validated_against_impl": counted,
        "evaluations": len(progs),
        "programs_systematic": len(sysm), "programs_random": len(rnd), "random_mix": mix,
        "discarded_outside_fragment": noise, "discarded_kinds": noise_kinds,
        "agree_reject": agree_bad, "agree_accept": agree_ok,
        "known_deviation_cases": known,
        "distinct_nontrivial": len(nontrivial),
        "rule": "distinct programs (canonical JSON) with at least one branching/looping/nested-function construct and >= 3 statements, "
                "each explored path by path by TLC (3 oracle variants) and checked by the real sema.Checker; "
                "systematic part = every statement sequence up to the size bound, random part seeded by VERIF_SEED, half of it mutated",
        "exhaustive": False,
    }, assumptions=["fragment: local resource variables of types @R, @R?, @[R]; no fields, no dictionaries, no switch",
                    "branch conditions are opaque calls; loops may run any number of times",
                    "a program rejected by the checker only for non-linearity reasons is discarded, not counted"])


META["C03"] = {
    "level_text": "TLC explores every control-flow path of every generated program of the resource fragment (status map per variable, "
                  "nondeterministic branches, unbounded loop iteration) under the exact semantics and two named deviation variants; "
                  "the same programs are rendered to Cadence and given to the real parser + sema.Checker; verdicts are compared two-sidedly "
                  "(reject-with-a-linearity-error <=> a bad path is reachable).",
    "level_note": "Trusted: TLC, the generator's well-formedness filter, the Go renderer. Systematic part is exhaustive up to the stated size "
                  "bound over <=3 variables; larger programs are sampled (seeded). Known checker approximations are matched only when the named "
                  "variant of the oracle reproduces the checker's verdict.",
    "technique": "TLA+ small-step semantics (Linearity.tla) model-checked per program by TLC; table conformance against sema.Checker",
    "design_ref": "DESIGN.md section 5 C03, Appendix A.2, section 7 #9 #10",
    "engine": "E4 table (program batch as data)",
}
