"""Language-level checks (family "lang"): C03 resource linearity, C50 access modifiers, C52 evaluation order,
C10 pre-/post-conditions, C07 view purity.

Pattern (DESIGN 2.1, E4 table conformance): the TLA+ specification in spec/lang decides every case
(TLC explores / evaluates it), a Go driver (harness/cmd/lang) renders the same cases to Cadence and
runs the real parser + checker (+ both execution engines), python only compares the two tables."""
import json, os, random, re, itertools, copy, threading
from vlib.core import Infra, read_ndjson, write_ndjson

LEVEL = {"C03": "model_checking", "C50": "model_checking", "C52": "model_checking", "C10": "model_checking",
         "C07": "model_checking"}
META = {}

# =====================================================================================
# C03 — the checker rejects every resource-linearity violation (spec/lang/Linearity.tla)
# =====================================================================================
# Programs are JSON statement trees (see the header of Linearity.tla). Variables carry a kind:
# r = @R, o = @R?, a = @[R]. The generator guarantees well-formedness OUTSIDE the property
# (scoping, kinds, no dead code, break/continue inside loops, value-returning functions return);
# whether a program is linear is decided by TLC only.

TERMINATORS = ("break", "continue", "return", "panic")
# renderings of a move inside a conditionally evaluated operand / argument list (same statement in the model)
LIN_CMOVE_FORMS = ["and", "or", "coal", "cond", "optmove", "optcall", "optarr", "optcond"]


def _exits(block):
    """no statement may follow this block's last statement (dead code otherwise)"""
    if not block:
        return False
    s = block[-1]
    if s["t"] in TERMINATORS:
        return True
    if s["t"] in ("if", "iflet"):
        return _exits(s["then"]) and _exits(s["else"])
    return False


def _returns(block):
    """every path through the block ends in return or panic (needed for value-returning functions)"""
    if not block:
        return False
    s = block[-1]
    if s["t"] in ("return", "panic"):
        return True
    if s["t"] in ("if", "iflet"):
        return _returns(s["then"]) and _returns(s["else"])
    return False


class _Bad(Exception):
    pass


def lin_wellformed(prog):
    """Checks everything the checker would reject for reasons OUTSIDE linearity."""
    declared = set()
    funs = {}
    consts = set()     # function parameters and if-let bindings cannot be assigned (swap, shift target, force-assign)

    def need(c):
        if not c:
            raise _Bad()

    def block(ss, scope, inloop, ret, funscope):
        scope = dict(scope)
        funscope = dict(funscope)
        for i, s in enumerate(ss):
            t = s["t"]
            last = i == len(ss) - 1

            def new(x, kind):
                need(x not in declared)
                declared.add(x)
                scope[x] = kind

            def has(x, kinds="roa"):
                need(x in scope and scope[x] in kinds)
                return scope[x]

            if t == "decl":
                need(s["k"] in "roa")
                new(s["x"], s["k"])
            elif t == "move":
                f = s.get("form", "var")
                need(len(s["ys"]) >= 1)
                if f in ("var", "let"):
                    need(len(s["ys"]) == 1)
                    kind = has(s["ys"][0])
                    need(kind == s["k"])
                elif f == "opt":
                    need(len(s["ys"]) == 1 and s["k"] == "o")
                    has(s["ys"][0], "ro")
                elif f == "arr":
                    need(s["k"] == "a")
                    for y in s["ys"]:
                        has(y, "r")
                else:
                    need(False)
                new(s["x"], s["k"])
            elif t == "take":
                has(s["x"], "a")
                new(s["z"], "r")
            elif t in ("destroy", "consume", "use", "cmove"):
                need(has(s["x"]) == s["k"])
            elif t == "swap":
                need(s["x"] != s["y"] and has(s["x"]) == has(s["y"]))
                need(s["x"] not in consts and s["y"] not in consts)
            elif t == "append":
                has(s["x"], "a"); has(s["y"], "r")
            elif t == "fassign":
                has(s["x"], "o"); has(s["y"], "ro")
                need(s["x"] not in consts)
            elif t == "assign":
                need(s["x"] != s["y"] and has(s["x"]) == has(s["y"]))
            elif t == "shift":
                need(s["x"] != s["y"] and has(s["x"]) == has(s["y"]))
                need(s["x"] not in consts)
                new(s["z"], scope[s["x"]])
            elif t == "if":
                block(s["then"], scope, inloop, ret, funscope)
                block(s["else"], scope, inloop, ret, funscope)
            elif t == "iflet":
                has(s["x"], "o")
                sc = dict(scope)
                need(s["y"] not in declared)
                declared.add(s["y"])
                consts.add(s["y"])
                sc[s["y"]] = "r"
                block(s["then"], sc, inloop, ret, funscope)
                block(s["else"], scope, inloop, ret, funscope)
            elif t in ("while", "for"):
                block(s["body"], scope, True, ret, funscope)
            elif t in ("break", "continue"):
                need(inloop and last)
            elif t == "return":
                need(last)
                if s["x"] != "":
                    need(ret); has(s["x"], "r")
                need(bool(s.get("ret")) == bool(ret))
            elif t == "panic":
                need(last)
            elif t == "fun":
                need(s["name"] not in funs)
                sc = {}
                for q in s["params"]:
                    need(q["x"] not in declared)
                    declared.add(q["x"])
                    consts.add(q["x"])
                    sc[q["x"]] = q["k"]
                funs[s["name"]] = s
                block(s["body"], sc, False, s["ret"], funscope)   # resources of the outer function are not visible
                if s["ret"]:
                    need(_returns(s["body"]))
                funscope[s["name"]] = s
            elif t == "call":
                need(s["name"] in funscope)
                f = funscope[s["name"]]
                need(len(s["ys"]) == len(f["params"]) and bool(s["ret"]) == bool(f["ret"]))
                for y, q in zip(s["ys"], f["params"]):
                    need(has(y) == q["k"] or (q["k"] == "o" and has(y) == "r"))
            else:
                need(False)
            if not last:
                need(not _exits(ss[:i + 1]))

    try:
        block(prog["body"], {}, False, False, {})
        return True
    except _Bad:
        return False


def _size(block):
    n = 0
    for s in block:
        n += 1
        for key in ("then", "else", "body"):
            if key in s:
                n += _size(s[key])
    return n


def _walk(block, f):
    for s in block:
        f(s)
        for key in ("then", "else", "body"):
            if key in s:
                _walk(s[key], f)


# ---------------------------------------------------------------- systematic enumeration
def lin_enumerate(max_size, max_vars, forms):
    """All programs with at most max_size statements over at most max_vars variables of kind r,
    variables named in order of declaration, no dead code. forms: statement alphabet."""
    out = []

    def blocks(size, scope, nvars, inloop, top):
        """yield (block, nvars) with exactly `size` statements (nested ones included)"""
        if size == 0:
            yield [], nvars
            return
        for first_size in range(1, size + 1):
            for st, nv in stmts(first_size, scope, nvars, inloop):
                ex = _exits([st])
                if ex:
                    if first_size == size:
                        yield [st], nv
                    continue
                sc = scope + ([st["x"]] if st["t"] in ("decl", "move") else [])
                for rest, nv2 in blocks(size - first_size, sc, nv, inloop, top):
                    yield [st] + rest, nv2

    def stmts(size, scope, nvars, inloop):
        if size == 1:
            if nvars < max_vars:
                x = "v%d" % nvars
                yield {"t": "decl", "x": x, "k": "r"}, nvars + 1
                if "move" in forms:
                    for y in scope:
                        yield {"t": "move", "x": x, "k": "r", "form": "var", "ys": [y]}, nvars + 1
            for y in scope:
                yield {"t": "destroy", "x": y, "k": "r"}, nvars
                if "use" in forms:
                    yield {"t": "use", "x": y, "k": "r", "form": "call"}, nvars
                if "cmove" in forms:
                    yield {"t": "cmove", "x": y, "k": "r", "form": "and"}, nvars
            if "swap" in forms:
                for a, b in itertools.combinations(scope, 2):
                    yield {"t": "swap", "x": a, "y": b}, nvars
            if inloop:
                yield {"t": "break"}, nvars
                yield {"t": "continue"}, nvars
            yield {"t": "return", "x": "", "ret": False}, nvars
            yield {"t": "panic"}, nvars
            # empty compound statements
            yield {"t": "if", "then": [], "else": [], "noelse": False}, nvars
            yield {"t": "while", "body": []}, nvars
            return
        inner = size - 1
        # if: split the inner statements over the two branches
        for a in range(0, inner + 1):
            for th, nv in blocks(a, scope, nvars, inloop, False):
                for el, nv2 in blocks(inner - a, scope, nv, inloop, False):
                    yield {"t": "if", "then": th, "else": el, "noelse": False}, nv2
        for body, nv in blocks(inner, scope, nvars, True, False):
            yield {"t": "while", "body": body}, nv

    for size in range(1, max_size + 1):
        for b, _ in blocks(size, [], 0, False, True):
            out.append(b)
    return out


def lin_family_loopjump():
    """Exhaustive family: a resource declared INSIDE a loop body, an if / else-if / if-let one of whose branches
    jumps (break / continue) with the resource alive or consumed, and the consumption after the if.
    loop kind x resource kind x jump kind x jumping branch x consumed-before-jump x else rendering x consumption form.
    (5-7 statements: beyond the size bound of the plain enumeration, but a path shape the checker handles with
    dedicated bookkeeping: jump offsets merged at the if/else join.)"""
    out = []
    for loop in ("while", "for"):
        for kind in "roa":
            for jump in ("break", "continue"):
                for pre in (False, True):
                    jb = ([{"t": "destroy", "x": "v0", "k": kind}] if pre else []) + [{"t": jump}]
                    for shape in ("then", "else", "elseif-then", "elseif-else", "iflet-then", "iflet-else"):
                        for noelse in ((False, True) if shape == "then" else (False,)):
                            for after in ("destroy", "consume", "move", "use-destroy", "none",
                                          "cmove-and", "cmove-or", "cmove-coal", "cmove-cond", "cmove-optmove", "cmove-optcall",
                                          "cmove-optarr", "cmove-optcond", "cmove-destroy"):
                                body = [{"t": "decl", "x": "v0", "k": kind}]
                                if shape == "then":
                                    body.append({"t": "if", "then": jb, "else": [], "noelse": noelse})
                                elif shape == "else":
                                    body.append({"t": "if", "then": [], "else": jb, "noelse": False})
                                elif shape == "elseif-then":
                                    body.append({"t": "if", "then": [], "noelse": False,
                                                 "else": [{"t": "if", "then": jb, "else": [], "noelse": False}]})
                                elif shape == "elseif-else":
                                    body.append({"t": "if", "then": [], "noelse": False,
                                                 "else": [{"t": "if", "then": [], "else": jb, "noelse": False}]})
                                else:
                                    body.append({"t": "decl", "x": "v1", "k": "o"})
                                    bound = [{"t": "destroy", "x": "v2", "k": "r"}]
                                    if shape == "iflet-then":
                                        body.append({"t": "iflet", "x": "v1", "y": "v2", "then": bound + jb, "else": [], "noelse": False})
                                    else:
                                        body.append({"t": "iflet", "x": "v1", "y": "v2", "then": bound, "else": jb, "noelse": False})
                                if after == "destroy":
                                    body.append({"t": "destroy", "x": "v0", "k": kind})
                                elif after == "consume":
                                    body.append({"t": "consume", "x": "v0", "k": kind})
                                elif after == "move":
                                    body += [{"t": "move", "x": "v9", "k": kind, "form": "var", "ys": ["v0"]},
                                             {"t": "destroy", "x": "v9", "k": kind}]
                                elif after == "use-destroy":
                                    body += [{"t": "use", "x": "v0", "k": kind, "form": "call"},
                                             {"t": "destroy", "x": "v0", "k": kind}]
                                elif after == "cmove-destroy":
                                    body += [{"t": "cmove", "x": "v0", "k": kind, "form": "and"},
                                             {"t": "destroy", "x": "v0", "k": kind}]
                                elif after.startswith("cmove-"):
                                    body.append({"t": "cmove", "x": "v0", "k": kind, "form": after[6:]})
                                out.append(copy.deepcopy([{"t": loop, "body": body}]))
    return out


def lin_family_loopbody():
    """Exhaustive family: a resource declared BEFORE a loop is invalidated inside the loop body, a conditional
    break / continue follows the invalidation, and the body definitely ends in return / panic; after the loop the
    resource is used, destroyed or left alone. Body prefixes: every sequence of length <= 3 over {invalidate,
    if c {break}, if c {continue}} with exactly one invalidation and a jump after it; invalidation by destroy /
    function argument / append into an array; while and for-in; nesting depth 1, and depth 2 (the body sits in an
    inner loop of an outer loop, optionally followed by `if c {break}` in the outer body)."""
    out = []
    jb = lambda t: {"t": "if", "then": [{"t": t}], "else": [], "noelse": True}
    prefixes = []
    for n in (2, 3):
        for seq in itertools.product(("inv", "break", "continue"), repeat=n):
            if seq.count("inv") == 1 and any(x != "inv" for x in seq[seq.index("inv") + 1:]):
                prefixes.append(seq)
    for loop in ("while", "for"):
        for inv in ("destroy", "consume", "append"):
            arr = inv == "append"
            for seq in prefixes:
                for ender in ("return", "panic"):
                    body = []
                    for x in seq:
                        if x != "inv":
                            body.append(jb(x))
                        elif inv == "append":
                            body.append({"t": "append", "x": "a1", "y": "v0"})
                        else:
                            body.append({"t": inv, "x": "v0", "k": "r"})
                    if ender == "return":
                        if arr:
                            body.append({"t": "destroy", "x": "a1", "k": "a"})
                        body.append({"t": "return", "x": "", "ret": False})
                    else:
                        body.append({"t": "panic"})
                    for depth, tail in ((1, None), (2, False), (2, True)):
                        for after in ("use", "destroy", "none"):
                            b = copy.deepcopy(body)
                            lp = {"t": loop, "body": b}
                            if depth == 2:
                                lp = {"t": loop, "body": [lp] + ([jb("break")] if tail else [])}
                            prog = [{"t": "decl", "x": "v0", "k": "r"}]
                            if arr:
                                prog.append({"t": "decl", "x": "a1", "k": "a"})
                            prog.append(lp)
                            if after == "use":
                                prog.append({"t": "use", "x": "v0", "k": "r", "form": "call"})
                            elif after == "destroy":
                                prog.append({"t": "destroy", "x": "v0", "k": "r"})
                            if arr:
                                prog.append({"t": "destroy", "x": "a1", "k": "a"})
                            out.append(prog)
    return out


def _vary(body, rng):
    """Semantics-preserving syntactic variation (same statement in the model, other checker code path)."""
    def f(s):
        t = s["t"]
        if t == "destroy" and rng.random() < 0.4:
            s["t"] = "consume"
        elif t == "while" and rng.random() < 0.35:
            s["t"] = "for"
        elif t == "use" and rng.random() < 0.3:
            s["form"] = "ref"
        elif t == "cmove":
            s["form"] = rng.choice(LIN_CMOVE_FORMS)
        elif t in ("if", "iflet") and not s["else"] and rng.random() < 0.5:
            s["noelse"] = True
        elif t == "move" and s.get("form") == "var" and rng.random() < 0.3:
            s["form"] = "let"
    _walk(body, f)
    return body


def _fix_lets(body):
    """`let x <- y` must not be followed by an assignment to x (swap, shift, force-assign): that would be a
    constant-assignment error, which is outside the property; such declarations are rendered with var."""
    assigned = set()

    def f(s):
        if s["t"] in ("swap",):
            assigned.update((s["x"], s["y"]))
        elif s["t"] in ("shift", "fassign", "assign"):
            assigned.add(s["x"])
    _walk(body, f)

    def g(s):
        if s["t"] == "move" and s.get("form") == "let" and s["x"] in assigned:
            s["form"] = "var"
    _walk(body, g)
    return body


# ---------------------------------------------------------------- random programs, correct by construction
class _Gen:
    """Generates programs in which every path consumes every resource exactly once (by construction:
    both branches of an if consume the same outer variables, loop bodies leave outer variables
    untouched, exits consume what their target scope requires). Violations are injected afterwards
    by mutation. Whether the result is linear is decided by the specification, not by this code."""

    def __init__(self, rng, max_depth, max_stmts):
        self.rng = rng
        self.max_depth = max_depth
        self.max_stmts = max_stmts
        self.nv = 0
        self.nf = 0
        self.consts = set()

    def fresh(self):
        self.nv += 1
        return "v%d" % (self.nv - 1)

    def consume_stmt(self, x, kind, fx):
        r = self.rng.random()
        # call a nested function taking exactly this kind, when one is in scope
        cands = [f for f in fx["funs"] if len(f["params"]) == 1 and f["params"][0]["k"] == kind]
        if cands and r < 0.2:
            f = self.rng.choice(cands)
            return {"t": "call", "name": f["name"], "ys": [x], "ret": f["ret"]}
        if r < 0.6:
            return {"t": "destroy", "x": x, "k": kind}
        return {"t": "consume", "x": x, "k": kind}

    def block(self, valid, kinds, goal, fx, depth, exit_kind=None):
        """valid: set of valid visible vars; goal: the outer vars this block must consume; returns stmts.
        exit_kind: None (fall through) | 'return' | 'panic' | 'break' | 'continue' — how the block ends.
        fx: function context {ret, funs(list visible), all_valid (function-level valid set incl. outer blocks),
        loop_vars (valid vars declared inside the innermost loop so far) or None}."""
        rng = self.rng
        valid = set(valid)
        kinds = dict(kinds)
        local = set()
        out = []
        fx = dict(fx, funs=list(fx["funs"]))
        must = set(goal)
        if exit_kind == "return":
            must = set(valid)                       # everything in the function must be gone
        elif exit_kind in ("break", "continue"):
            must = set(goal) | (set(fx["loop_vars"]) & valid)
        elif exit_kind == "panic":
            must = set(x for x in sorted(valid) if rng.random() < 0.4)
        n = rng.randint(0, self.max_stmts)

        def consumable():
            return sorted((must | local) & valid)

        def declare(x, kind):
            kinds[x] = kind
            valid.add(x)
            local.add(x)
            if fx["loop_vars"] is not None:
                fx["loop_vars"] = fx["loop_vars"] | {x}

        for _ in range(n):
            r = rng.random()
            cs = consumable()
            vs = sorted(valid)
            if r < 0.16:
                x = self.fresh()
                kind = rng.choice("rrroa")
                out.append({"t": "decl", "x": x, "k": kind})
                declare(x, kind)
            elif r < 0.26 and cs:
                y = rng.choice(cs)
                x = self.fresh()
                ky = kinds[y]
                rr = rng.random()
                if ky == "r" and rr < 0.25:
                    out.append({"t": "move", "x": x, "k": "o", "form": "opt", "ys": [y]})
                    kx = "o"
                    valid.discard(y)
                elif ky == "r" and rr < 0.5:
                    ys = [y]
                    others = [c for c in cs if c != y and kinds[c] == "r"]
                    if others and rng.random() < 0.5:
                        ys.append(rng.choice(others))
                    out.append({"t": "move", "x": x, "k": "a", "form": "arr", "ys": ys})
                    kx = "a"
                    for q in ys:
                        valid.discard(q)
                else:
                    out.append({"t": "move", "x": x, "k": ky, "form": rng.choice(["var", "var", "let"]), "ys": [y]})
                    kx = ky
                    valid.discard(y)
                declare(x, kx)
            elif r < 0.38 and cs:
                y = rng.choice(cs)
                out.append(self.consume_stmt(y, kinds[y], fx))
                valid.discard(y)
            elif r < 0.46 and vs:
                y = rng.choice(vs)
                out.append({"t": "use", "x": y, "k": kinds[y], "form": rng.choice(["call", "call", "ref"])})
            elif r < 0.50 and len(vs) >= 2:
                a = rng.choice(vs)
                bs = [b for b in vs if b != a and kinds[b] == kinds[a] and b not in self.consts]
                if bs and a not in self.consts:
                    out.append({"t": "swap", "x": a, "y": rng.choice(bs)})
            elif r < 0.54:
                arrs = [v for v in vs if kinds[v] == "a"]
                rs = [c for c in cs if kinds[c] == "r"]
                if arrs and rs and rng.random() < 0.6:
                    y = rng.choice(rs)
                    out.append({"t": "append", "x": rng.choice(arrs), "y": y})
                    valid.discard(y)
                elif arrs:
                    z = self.fresh()
                    out.append({"t": "take", "z": z, "x": rng.choice(arrs)})
                    declare(z, "r")
            elif r < 0.57:
                os_ = [v for v in vs if kinds[v] == "o" and v not in self.consts]
                rs = [c for c in cs if kinds[c] in "ro"]
                if os_ and rs:
                    o = rng.choice(os_)
                    ys = [y for y in rs if y != o]
                    if ys:
                        y = rng.choice(ys)
                        out.append({"t": "fassign", "x": o, "y": y})
                        valid.discard(y)
            elif r < 0.60 and cs:
                y = rng.choice(cs)
                xs = [v for v in vs if v != y and kinds[v] == kinds[y] and v not in self.consts]
                if xs:
                    z = self.fresh()
                    out.append({"t": "shift", "z": z, "x": rng.choice(xs), "y": y})
                    valid.discard(y)
                    declare(z, kinds[y])
            elif r < 0.78 and depth > 0:
                # if / if-let: both branches consume the same subset T of the consumable variables
                T = set(c for c in cs if rng.random() < 0.5)
                islet = False
                o = None
                os_ = [c for c in cs if kinds[c] == "o"]
                if os_ and rng.random() < 0.4:
                    islet = True
                    o = rng.choice(os_)
                    T.discard(o)

                def branch(extra_valid, extra_kinds, extra_goal):
                    ek = None
                    rr = rng.random()
                    if rr < 0.10:
                        ek = "return"
                    elif rr < 0.20:
                        ek = "panic"
                    elif rr < 0.32 and fx["loop_vars"] is not None:
                        ek = rng.choice(["break", "continue"])
                    v2 = (valid - ({o} if islet else set())) | extra_valid
                    k2 = dict(kinds, **extra_kinds)
                    fx2 = dict(fx)
                    if fx2["loop_vars"] is not None:
                        fx2["loop_vars"] = fx2["loop_vars"] | extra_valid
                    g = (T | extra_goal) if ek not in ("break", "continue") else extra_goal
                    return self.block(v2, k2, g, fx2, depth - 1, ek)

                if islet:
                    y = self.fresh()
                    self.consts.add(y)
                    th = branch({y}, {y: "r"}, {y})
                    el = branch(set(), {}, set())
                    out.append({"t": "iflet", "x": o, "y": y, "then": th, "else": el, "noelse": False})
                    valid.discard(o)
                else:
                    th = branch(set(), {}, set())
                    el = branch(set(), {}, set())
                    out.append({"t": "if", "then": th, "else": el, "noelse": False})
                if _exits([out[-1]]):
                    # both branches left: nothing may follow; the statement already satisfies every obligation
                    return out
                valid -= T
            elif r < 0.88 and depth > 0:
                fx2 = dict(fx, loop_vars=frozenset())
                body = self.block(valid, kinds, set(), fx2, depth - 1, None)
                out.append({"t": rng.choice(["while", "while", "for"]), "body": body})
            elif r < 0.93 and depth > 0 and self.nf < 3:
                self.nf += 1
                name = "f%d" % self.nf
                ps = []
                for _i in range(rng.randint(0, 2)):
                    ps.append({"x": self.fresh(), "k": rng.choice("rro")})
                ret = rng.random() < 0.3
                pv = set(q["x"] for q in ps)
                self.consts |= pv
                pk = {q["x"]: q["k"] for q in ps}
                fxn = {"ret": ret, "funs": [], "loop_vars": None}
                body = self.block(pv, pk, pv, fxn, depth - 1, "return" if ret else rng.choice([None, None, "return"]))
                f = {"t": "fun", "name": name, "params": ps, "ret": ret, "body": body}
                out.append(f)
                fx["funs"].append(f)
            elif r < 0.97 and fx["funs"] and cs:
                f = rng.choice(fx["funs"])
                args = []
                pool = list(cs)
                ok = True
                for q in f["params"]:
                    c = [y for y in pool if kinds[y] == q["k"] or (q["k"] == "o" and kinds[y] == "r")]
                    if not c:
                        ok = False
                        break
                    y = rng.choice(c)
                    pool.remove(y)
                    args.append(y)
                if ok:
                    out.append({"t": "call", "name": f["name"], "ys": args, "ret": f["ret"]})
                    for y in args:
                        valid.discard(y)
        # discharge the remaining obligations
        rest = sorted((must | local) & valid)
        rng.shuffle(rest)
        retvar = ""
        if exit_kind == "return" and fx["ret"]:
            rs = [x for x in rest if kinds[x] == "r"]
            if rs and rng.random() < 0.7:
                retvar = rs[0]
                rest.remove(retvar)
        for x in rest:
            out.append(self.consume_stmt(x, kinds[x], fx))
        if exit_kind == "return":
            out.append({"t": "return", "x": retvar, "ret": bool(fx["ret"])})
        elif exit_kind in ("break", "continue", "panic"):
            out.append({"t": exit_kind})
        return out

    def program(self):
        self.nv = 0
        self.nf = 0
        self.consts = set()
        fx = {"ret": False, "funs": [], "loop_vars": None}
        ek = self.rng.choice([None, None, None, "return", "panic"])
        return self.block(set(), {}, set(), fx, self.max_depth, ek)


def _all_blocks(body):
    res = [body]

    def f(s):
        for key in ("then", "else", "body"):
            if key in s:
                res.append(s[key])
    _walk(body, f)
    return res


def lin_mutate(body, rng):
    """One small random edit (the injected violation -- or not: the oracle decides)."""
    body = copy.deepcopy(body)
    blocks = _all_blocks(body)
    r = rng.random()
    nonempty = [b for b in blocks if b]
    if r < 0.30 and nonempty:                     # delete a statement
        b = rng.choice(nonempty)
        del b[rng.randrange(len(b))]
    elif r < 0.50 and nonempty:                   # duplicate a statement
        b = rng.choice(nonempty)
        i = rng.randrange(len(b))
        if b[i]["t"] not in ("decl", "move", "take", "shift", "fun", "iflet") and b[i]["t"] not in TERMINATORS:
            b.insert(i, copy.deepcopy(b[i]))
    elif r < 0.65 and nonempty:                   # swap two adjacent statements
        b = rng.choice(nonempty)
        if len(b) >= 2:
            i = rng.randrange(len(b) - 1)
            b[i], b[i + 1] = b[i + 1], b[i]
    elif r < 0.80 and nonempty:                   # move a statement into / out of another block
        b = rng.choice(nonempty)
        s = b.pop(rng.randrange(len(b)))
        b2 = rng.choice(blocks)
        b2.insert(rng.randrange(len(b2) + 1), s)
    elif r < 0.90:                                # turn a terminator into another one / drop it
        terms = []
        _walk(body, lambda s: terms.append(s) if s["t"] in TERMINATORS else None)
        if terms:
            s = rng.choice(terms)
            if s["t"] != "return" or s["x"] == "":
                keep = {k: s[k] for k in ("x", "ret") if k in s}
                s.clear()
                s.update({"t": rng.choice(["panic", "break", "continue", "return"])})
                if s["t"] == "return":
                    s.update({"x": "", "ret": keep.get("ret", False)})
    elif r < 0.95:                                # replace a consumption by a move inside a conditionally evaluated operand
        cons = []
        _walk(body, lambda s: cons.append(s) if s["t"] in ("destroy", "consume") else None)
        if cons:
            s = rng.choice(cons)
            s["t"] = "cmove"
            s["form"] = rng.choice(LIN_CMOVE_FORMS)
    else:                                         # plain assignment between two variables of one kind (always an overwrite)
        decls = []
        _walk(body, lambda s: decls.append((s["x"], s["k"])) if s["t"] == "decl" else None)
        if len(decls) >= 2:
            a = rng.choice(decls)
            bs = [d for d in decls if d != a and d[1] == a[1]]
            if bs:
                b = rng.choice(nonempty)
                b.insert(rng.randrange(len(b) + 1), {"t": "assign", "x": a[0], "y": rng.choice(bs)[0]})
    return body


def lin_random(rng, n, max_depth, max_stmts):
    progs, tries = [], 0
    kinds = {"clean": 0, "mutated": 0}
    while len(progs) < n and tries < n * 40:
        tries += 1
        g = _Gen(rng, max_depth, max_stmts)
        body = g.program()
        if not lin_wellformed({"body": body}):
            raise Infra("C03 generator produced an ill-formed program (generator bug): %s" % json.dumps(body))
        if _size(body) < 2:
            continue
        m = rng.random()
        if m < 0.5:
            progs.append(body)
            kinds["clean"] += 1
            continue
        mb = body
        for _ in range(rng.choice([1, 1, 2])):
            for _try in range(6):
                cand = lin_mutate(mb, rng)
                if lin_wellformed({"body": cand}):
                    mb = cand
                    break
        progs.append(mb)
        kinds["mutated"] += 1
    return progs, kinds


def lin_flatten(body):
    """Tree -> numbered blocks (block 1 = function body) for the specification; only the fields it reads."""
    blocks = []

    def add(ss):
        idx = len(blocks)
        blocks.append(None)
        out = []
        for s in ss:
            f = {"t": s["t"]}
            for key in ("x", "y", "z", "ys"):
                if key in s:
                    f[key] = s[key]
            if s["t"] == "fun":
                f["params"] = [{"x": q["x"]} for q in s["params"]]
            for key in ("then", "else", "body"):
                if key in s:
                    f[key] = add(s[key])
            out.append(f)
        blocks[idx] = out
        return idx + 1
    add(body)
    return blocks


LIN_FILES = ["lang/Linearity.tla", "lang/MC_Linearity.cfg", "lang/MC_Linearity_dev.cfg", "lang/MC_Linearity_acc.cfg", "lang/MC_Linearity_rej.cfg"]
LIN_ACCEPT_DEVS = ("DevLoopOnce", "DevForceAssignInvalid", "DevReturnAfterJump")
_BAD_RE = re.compile(r'<<"BAD", (\d+), \{(.*)\}>>')


def _lin_oracle(ctx, progs, tag, workers, cfg="MC_Linearity.cfg"):
    """TLC explores all paths of all programs; returns {variant label: set(ids with a bad path reachable)}.
    variant label: 'exact' or the '+'-joined sorted deviation names."""
    d = os.path.join(ctx.work, "in-" + tag)
    os.makedirs(d, exist_ok=True)
    dst = os.path.join(d, "progs.ndjson")
    write_ndjson(dst, [{"id": pr["id"], "blocks": lin_flatten(pr["body"])} for pr in progs])
    r = ctx.tlc(LIN_FILES + [dst], "Linearity", cfg, workers=workers, tag="lin-" + tag, timeout=1700)
    if not r.finished:
        raise Infra("TLC did not finish on batch %s" % tag)
    bad = {}
    for ln in r.lines:
        m = _BAD_RE.match(ln)
        if m:
            names = sorted(x.strip().strip('"') for x in m.group(2).split(",") if x.strip())
            bad.setdefault("+".join(names) or "exact", set()).add(int(m.group(1)))
    return bad, r


def _lin_checker(ctx, binary, progs, tag, src=False):
    pf = os.path.join(ctx.work, "progs-%s.ndjson" % tag)
    rf = os.path.join(ctx.work, "lin-results-%s.ndjson" % tag)
    write_ndjson(pf, progs)
    ctx.run([binary, "lin", pf, rf], timeout=1700, env={"LANG_SRC": "1"} if src else None)
    return {row["id"]: row for row in read_ndjson(rf) if not row.get("summary")}


def check_C03(ctx):
    binary = ctx.build("lang")
    rng = random.Random(1000003 * ctx.seed + 17)
    # ---- generation
    if ctx.quick:
        sysm = lin_enumerate(4, 3, {"move", "use", "cmove"})
        extra = lin_enumerate(5, 2, {"move"})
        nextra, nrand, batch = 3000, 6000, 8000
    else:
        sysm = lin_enumerate(5, 3, {"move", "use", "cmove"})
        extra = lin_enumerate(6, 2, {"move"})
        nextra, nrand, batch = 40000, 90000, 20000
    nsys_exh = len(sysm)
    family = lin_family_loopjump() + lin_family_loopbody()
    seen = set(json.dumps(b, sort_keys=True) for b in sysm)
    extra = [b for b in extra if json.dumps(b, sort_keys=True) not in seen]
    rng.shuffle(extra)
    sysm += extra[:nextra]
    sysm = [_vary(copy.deepcopy(b), rng) for b in sysm] + family      # the family is rendered exactly as enumerated
    rnd, mix = lin_random(rng, nrand, 3, 4)
    bodies = [_fix_lets(b) for b in sysm + rnd]
    progs = [{"id": i + 1, "body": b} for i, b in enumerate(bodies)]
    for pr in progs[:len(sysm)]:
        if not lin_wellformed(pr):
            raise Infra("C03 enumerator produced an ill-formed program: %s" % json.dumps(pr))
    ctx.log("programs: %d systematic (%d = every program up to the exhaustive bound, %d = loop-jump and loop-body families) + %d random (%s)"
            % (len(sysm), nsys_exh, len(family), len(rnd), mix))

    # ---- pass 1: exact oracle (TLC) and real checker on every program, batch by batch
    batches = [progs[i:i + batch] for i in range(0, len(progs), batch)]
    exact_bad = set()
    verdicts = {}
    par = 2 if ctx.quick else 4
    lock = threading.Lock()
    errs = []

    def run_batch(bi):
        try:
            bad, r = _lin_oracle(ctx, batches[bi], "b%d" % bi, max(2, ctx.cores // par))
            rows = _lin_checker(ctx, binary, batches[bi], "b%d" % bi)
            with lock:
                exact_bad.update(bad.get("exact", set()))
                verdicts.update(rows)
        except Exception as e:  # re-raised below in the main thread
            errs.append(e)

    sem = threading.Semaphore(par)

    def guarded(bi):
        with sem:
            run_batch(bi)
    ths = [threading.Thread(target=guarded, args=(bi,)) for bi in range(len(batches))]
    for t in ths:
        t.start()
    for t in ths:
        t.join()
    if errs:
        raise errs[0]
    if len(verdicts) != len(progs):
        raise Infra("checker driver returned %d verdicts for %d programs" % (len(verdicts), len(progs)))

    if os.environ.get("VERIF_SELFTEST_CORRUPT") == "C03":  # negative control: flip one entry of the checker's table
        def plain(pr):
            ts = set()
            _walk(pr["body"], lambda s: ts.add(s["t"]))
            return not (ts & set(TERMINATORS)) and _size(pr["body"]) >= 3
        victim = next(pr["id"] for pr in progs if pr["id"] not in exact_bad and verdicts[pr["id"]]["accept"] and plain(pr))
        verdicts[victim] = dict(verdicts[victim], accept=False, res=["ResourceLossError"])
        ctx.log("SELFTEST: flipped the recorded checker verdict of program %d to 'rejects'" % victim)

    # ---- compare
    noise, agree_bad, agree_ok = 0, 0, 0
    nontrivial = set()
    noise_kinds = {}
    disagree = []
    for pr in progs:
        pid = pr["id"]
        v = verdicts[pid]
        if v["accept"]:
            checker_rejects = False
        elif v.get("res"):
            checker_rejects = True
        else:
            # rejected only for reasons outside the property: generator noise, not counted
            noise += 1
            for o in (v.get("other") or ["?"]):
                noise_kinds[o.split(":")[0]] = noise_kinds.get(o.split(":")[0], 0) + 1
            continue
        feats = set()
        _walk(pr["body"], lambda s: feats.add(s["t"]))
        if feats & {"if", "iflet", "while", "for", "fun"} and _size(pr["body"]) >= 3:
            nontrivial.add(json.dumps(pr["body"], sort_keys=True))
        if checker_rejects == (pid in exact_bad):
            if checker_rejects:
                agree_bad += 1
            else:
                agree_ok += 1
        else:
            disagree.append((pr, checker_rejects, feats))
    if noise_kinds.get("PARSE") or noise_kinds.get("RENDER") or noise_kinds.get("NEWCHECKER"):
        raise Infra("renderer produced unparsable programs: %s" % noise_kinds)
    if noise > 0.02 * len(progs):
        raise Infra("too many generated programs outside the fragment (%d of %d): %s" % (noise, len(progs), noise_kinds))

    # ---- pass 2: the named deviation variants, only on the programs where checker and exact oracle disagree
    known = {}
    if disagree:
        dprogs = [pr for pr, _, _ in disagree]
        # accept-side disagreements get the accept-side variants, reject-side ones DevJumpNoExit (each with the exact variant again)
        vbad = {}
        for side, cfg in ((False, "MC_Linearity_acc.cfg"), (True, "MC_Linearity_rej.cfg")):
            part = [pr for pr, rej, _ in disagree if rej == side]
            if part:
                vb1, _ = _lin_oracle(ctx, part, "dev-rej" if side else "dev-acc", ctx.cores, cfg=cfg)
                for lab, ids in vb1.items():
                    vbad.setdefault(lab, set()).update(ids)
        srcs = _lin_checker(ctx, binary, dprogs, "dev", src=True)
        vb = lambda label, pid: pid in vbad.get(label, set())
        for pr, _, _ in disagree:   # the exact variant is part of the second run: same verdict as in pass 1
            if vb("exact", pr["id"]) != (pr["id"] in exact_bad):
                raise Infra("exact oracle not reproducible for program %d" % pr["id"])
        # sanity of the model: a variant that only removes paths cannot add a bad path
        for pr, rej, _ in disagree:
            if not rej and vb("DevLoopOnce", pr["id"]) and not vb("exact", pr["id"]):
                raise Infra("model inconsistency: DevLoopOnce finds a bad path the exact oracle does not (program %d)" % pr["id"])
        subsets = []
        for n in (1, 2, 3):
            subsets += ["+".join(sorted(c)) for c in itertools.combinations(LIN_ACCEPT_DEVS, n)]
        for pr, checker_rejects, feats in disagree:
            pid = pr["id"]
            v = verdicts[pid]
            if not checker_rejects:
                side = "accepts-program-with-bad-path"
                expl = next((lab for lab in subsets if not vb(lab, pid)), None)
            else:
                side = "rejects-linear-program"
                expl = "DevJumpNoExit" if vb("DevJumpNoExit", pid) else None
            src = srcs[pid].get("src", "")
            fsrc = src[src.find("access(all) fun test()"):]
            sig = {"side": side, "deviation": expl or "none", "errors": ",".join(v.get("res") or []),
                   "features": ",".join(sorted(feats))}
            msg = ("program %d: checker %s, exact oracle says a bad path is %s; %s\n%s" %
                   (pid, "REJECTS " + str(v.get("res")) if checker_rejects else "ACCEPTS",
                    "NOT reachable" if checker_rejects else "reachable",
                    ("reproduced by the oracle variant " + expl) if expl else "NOT reproduced by any named deviation variant",
                    fsrc))
            res = ctx.report(sig, msg, {"program": pr, "source": src, "checker": v,
                                        "bad_under": sorted(lab for lab in vbad if pid in vbad[lab])})
            if res == "known":
                known[expl] = known.get(expl, 0) + 1
                if known[expl] == 1:
                    ctx.add_sample({"kind": "known deviation " + expl, "side": side, "source": fsrc}, limit=8)
    mid = progs[len(sysm) + len(rnd) // 2]
    ctx.add_sample({"kind": "random program", "program": mid["body"], "oracle_bad": mid["id"] in exact_bad,
                    "checker": verdicts[mid["id"]]}, limit=8)
    sm = progs[nsys_exh // 2]
    ctx.add_sample({"kind": "systematic program", "program": sm["body"], "oracle_bad": sm["id"] in exact_bad,
                    "checker": verdicts[sm["id"]]}, limit=8)
    counted = len(progs) - noise
    return ctx.finish({
        "traces_validated_against_impl": counted,
        "evaluations": len(progs),
        "programs_systematic": len(sysm), "programs_systematic_exhaustive_part": nsys_exh,
        "programs_loop_jump_family": len(family),
        "programs_random": len(rnd), "random_mix": mix,
        "discarded_outside_fragment": noise, "discarded_kinds": noise_kinds,
        "agree_reject": agree_bad, "agree_accept": agree_ok, "disagreements": len(disagree),
        "known_deviation_cases": known,
        "distinct_nontrivial": len(nontrivial),
        "rule": "distinct programs (canonical JSON) with at least one branching/looping/nested-function construct and >= 3 statements, "
                "each explored path by path by TLC (exact oracle; deviation variants on disagreements) and checked by the real sema.Checker; "
                "systematic part = every statement sequence up to the size bound, random part seeded by VERIF_SEED, half of it mutated",
        "exhaustive": False,
    }, assumptions=["fragment: local resource variables of types @R, @R?, @[R]; no fields, no dictionaries, no switch",
                    "branch conditions are opaque calls; loops may run any number of times",
                    "a program rejected by the checker only for non-linearity reasons is discarded, not counted"])


META["C03"] = {
    "level_text": "TLC explores every control-flow path of every generated program of the resource fragment (status map per variable, "
                  "nondeterministic branches, unbounded loop iteration) under the exact semantics and two named deviation variants; "
                  "the same programs are rendered to Cadence and given to the real parser + sema.Checker; verdicts are compared two-sidedly "
                  "(reject-with-a-linearity-error <=> a bad path is reachable).",
    "level_note": "Trusted: TLC, the generator's well-formedness filter, the Go renderer. Systematic part is exhaustive up to the stated size "
                  "bound over <=3 variables; larger programs are sampled (seeded). Known checker approximations are matched only when the named "
                  "variant of the oracle reproduces the checker's verdict.",
    "technique": "TLA+ small-step semantics (Linearity.tla) model-checked per program by TLC; table conformance against sema.Checker",
    "design_ref": "DESIGN.md section 5 C03, Appendix A.2, section 7 #9 #10",
    "engine": "E4 table (program batch as data)",
}


# =====================================================================================
# C50 — access modifiers and constant fields (spec/lang/Access.tla)
# =====================================================================================
ACC_FILES = ["lang/Access.tla", "lang/MC_Access_quick.cfg"]


def check_C50(ctx):
    binary = ctx.build("lang")
    r = ctx.tlc(ACC_FILES, "Access", "MC_Access_quick.cfg", workers=1, timeout=600)
    rows = list({json.dumps(x, sort_keys=True): x for x in r.json_lines()}.values())
    if len(rows) < 1000:
        raise Infra("Access.tla printed only %d table rows" % len(rows))
    rows.sort(key=lambda x: json.dumps(x, sort_keys=True))
    for i, x in enumerate(rows):
        x["id"] = i + 1
    if os.environ.get("VERIF_SELFTEST_CORRUPT") == "C50":   # negative control: flip one table entry
        rows[len(rows) // 3]["permitted"] = not rows[len(rows) // 3]["permitted"]
        ctx.log("SELFTEST: flipped table entry %s" % rows[len(rows) // 3])
    cf = os.path.join(ctx.work, "acc-cases.ndjson")
    rf = os.path.join(ctx.work, "acc-results.ndjson")
    write_ndjson(cf, rows)
    ctx.run([binary, "acc", cf, rf, "src"], timeout=1500)
    res = {x["id"]: x for x in read_ndjson(rf) if not x.get("summary")}
    if len(res) != len(rows):
        raise Infra("driver returned %d results for %d cases" % (len(res), len(rows)))
    for x in rows:                      # initializer shapes: `bad` plays the role of "not permitted"
        if x["kind"] == "initshape":
            x["permitted"] = not x["bad"]
    # an initializer-shape program rejected with FieldReinitializationError may carry follow-up errors (resource loss ...)
    harness = [(x, res[x["id"]]) for x in rows if res[x["id"]].get("other")
               and not (x["kind"] == "initshape" and res[x["id"]].get("access"))]
    if harness:
        x, v = harness[0]
        raise Infra("C50 renderer: %d case(s) rejected for reasons outside the property, e.g. %s -> %s\n%s"
                    % (len(harness), {k: x[k] for k in x if k != "id"}, v["other"], v.get("src", "")[-3000:]))
    n_perm = n_deny = 0
    classes = set()
    shape_stats = {"rows": 0, "accepted_good": 0, "rejected_bad": 0, "over_rejections": 0, "runs_failed": 0}
    for x in rows:
        v = res[x["id"]]
        if x["permitted"]:
            n_perm += 1
        else:
            n_deny += 1
        if x["kind"] == "access":
            classes.add((x["site"], x["cont"], x["mod"], x["mkind"], x["op"], x["via"] in ("self", "o", "oo", "name")))
        elif x["kind"] == "inh":
            classes.add(("inherited", x["where"], x["mod"], x["mkind"], x["site"]))
        elif x["kind"] == "initshape":
            classes.add(("initshape", x["first"], x["jump"], x["second"], x["fkind"]))
        if x["kind"] == "initshape":
            two = sorted(e for e, n in (v.get("writes") or {}).items() if n >= 2)
            shape_stats["rows"] += 1
            shape_stats["runs_failed"] += len(v.get("runerr") or {})
            if not v["accept"] and not x["bad"]:
                shape_stats["over_rejections"] += 1        # rejected although no path assigns twice: not a C50 violation
                continue
            if not v["accept"]:
                shape_stats["rejected_bad"] += 1
                continue
            if not x["bad"] and not two:
                shape_stats["accepted_good"] += 1
                continue
            # accepted although some path assigns the let field twice (or a second write was observed at run time)
            dev = ("DevMaybeInitialisedNotTracked" if x["first"] in ("ifthen", "elseonly", "switch") else
                   "DevInitLoopBodyOnce" if x["first"] == "while" else "none")
            sig = {"kind": "initshape", "first": x["first"], "jump": x["jump"], "second": x["second"], "fkind": x["fkind"],
                   "checker": "accepts", "deviation": dev, "observed": "two-writes:" + ",".join(two) if two else "none",
                   "model_bad": x["bad"]}
            ctx.report(sig, "initializer shape %s: a path assigns the let field twice (model bad=%s), checker ACCEPTS; "
                            "writes observed in one construction: %s\n%s" % ({k: x[k] for k in ("first", "jump", "second", "fkind")},
                            x["bad"], v.get("writes"), v.get("src", "")[-1200:]), {"case": x, "checker": v})
            continue
        if v["accept"] == x["permitted"]:
            continue
        sig = {k: x[k] for k in x if k not in ("id",)}
        sig["checker"] = "accepts" if v["accept"] else "rejects"
        ctx.report(sig, "access case %s: model says %s, checker %s %s\n%s" %
                   ({k: x[k] for k in x if k not in ("id", "permitted")},
                    "PERMITTED" if x["permitted"] else "NOT permitted",
                    "ACCEPTS" if v["accept"] else "REJECTS", v.get("access") or "", v.get("src", "")[-2500:]),
                   {"case": x, "checker": v})
    for x in (rows[7], rows[len(rows) // 2], rows[-3]):
        ctx.add_sample({"case": {k: x[k] for k in x if k != "id"}, "checker_accepts": res[x["id"]]["accept"],
                        "program_tail": res[x["id"]].get("src", "")[-600:]})
    return ctx.finish({
        "traces_validated_against_impl": len(rows),
        "evaluations": len(rows),
        "permitted_rows": n_perm, "denied_rows": n_deny, "initializer_shapes": shape_stats,
        "distinct_nontrivial": len(classes),
        "rule": "rows of the table enumerated by TLC from Access.tla (site x container x composite kind x modifier x member kind x path x operation, "
                "plus the initializer family); distinct = (site, container, modifier, member kind, operation, owned-vs-reference path) classes; "
                "every row is rendered as contracts on 2 accounts (+ script/transaction) and checked by the real checker through the runtime",
        "exhaustive": True,
    }, assumptions=["members are Int fields / nullary functions; composite S is a struct or a resource nested in contract A",
                    "entitlement modifiers: access(E), access(E, F), access(E | F); references: unauthorized, auth(E), auth(F), auth(E, F), optional",
                    "a checker rejection with any error other than an access / constant-field error is a harness error (exit 2)"])


META["C50"] = {
    "level_text": "TLC enumerates the complete table of the lexical access model Access.tla (10 access sites x contract/composite members x 7 modifiers "
                  "x var/let/function x 8 access paths x read/call/assign, struct and resource, plus the initializer family) and checks the model's "
                  "laws (modifier chain, authorization monotonicity); every row is rendered to contracts deployed on two accounts, scripts and "
                  "transactions and the real checker's accept/reject is compared with Permitted.",
    "level_note": "Trusted: TLC, the Go renderer, the repo's test ledger. The table is finite and enumerated completely; member types are Int / nullary functions.",
    "technique": "TLA+ scope model (Access.tla) evaluated by TLC; table conformance against the checker run through the real runtime",
    "design_ref": "DESIGN.md section 5 C50",
    "engine": "E4 table",
}


# =====================================================================================
# C52 — evaluation order and short-circuiting (spec/lang/EvalOrder.tla)
# =====================================================================================
LEVEL["C52"] = "model_checking"
EO_FILES = ["lang/EvalOrder.tla", "lang/MC_EvalOrder.tla"]
EO_ERR_CLASS = {"div0": "user:DivisionByZeroError", "force-nil": "user:ForceNilError",
                "index": "user:ArrayIndexOutOfBoundsError", "force-cast": "user:ForceCastTypeMismatchError"}


def _eo_tables(ctx, nchunks):
    """TLC enumerates / samples the terms, evaluates each with the specification's big-step evaluator,
    checks the model's own laws and prints the table; chunks run as parallel TLC processes."""
    base = open(os.path.join(os.path.dirname(os.path.dirname(os.path.abspath(__file__))), "spec", "lang",
                             "MC_EvalOrder_quick.cfg" if ctx.quick else "MC_EvalOrder_thorough.cfg")).read()
    out, errs, lock = [], [], threading.Lock()

    def one(ch):
        try:
            cfg = os.path.join(ctx.work, "MC_EvalOrder_c%d.cfg" % ch)
            with open(cfg, "w") as fh:
                fh.write(base.replace("Chunk = 0", "Chunk = %d" % ch).replace("NChunks = 1", "NChunks = %d" % nchunks))
            r = ctx.tlc(EO_FILES + [cfg], "MC_EvalOrder", os.path.basename(cfg), workers=1, tag="eo-c%d" % ch,
                        timeout=2400, extra=["-seed", str(ctx.seed)])
            rows = r.json_lines()
            with lock:
                out.extend(rows)
        except Exception as e:
            errs.append(e)
    ths = [threading.Thread(target=one, args=(ch,)) for ch in range(nchunks)]
    for t in ths:
        t.start()
    for t in ths:
        t.join()
    if errs:
        raise errs[0]
    return out


def _eo_forms(t, acc):
    acc.add(t["o"])
    for c in t["a"]:
        _eo_forms(c, acc)
    return acc


def check_C52(ctx):
    binary = ctx.build("langeo")
    nchunks = 2 if ctx.quick else 12
    rows = _eo_tables(ctx, nchunks)
    # distinct cases (sampled terms may repeat across chunks); ids are per chunk-universe, renumber
    uniq = {}
    for x in rows:
        uniq.setdefault(json.dumps(x["term"], sort_keys=True), x)
    cases = list(uniq.values())
    cases.sort(key=lambda x: json.dumps(x["term"], sort_keys=True))
    for i, x in enumerate(cases):
        x["id"] = i + 1
    if len(cases) < 20000:
        raise Infra("EvalOrder.tla produced only %d cases" % len(cases))
    if os.environ.get("VERIF_SELFTEST_CORRUPT") == "C52":   # negative control: corrupt one expected log
        v = next(x for x in cases if len(x["log"]) >= 3)
        v["log"][0], v["log"][1] = v["log"][1], v["log"][0]
        ctx.log("SELFTEST: swapped two entries of the expected log of case %d" % v["id"])
    cf = os.path.join(ctx.work, "eo-cases.ndjson")
    rf = os.path.join(ctx.work, "eo-results.ndjson")
    write_ndjson(cf, cases)
    ctx.run([binary, cf, rf], timeout=2400)
    res = {x["id"]: x for x in read_ndjson(rf) if not x.get("summary")}
    if len(res) != len(cases):
        raise Infra("langeo returned %d results for %d cases" % (len(res), len(cases)))
    nontrivial = 0
    forms_seen = set()
    lazy = {"and", "or", "coal", "coalO", "condB", "condI", "condO", "ocall"}
    nviol = 0
    for x in cases:
        r = res[x["id"]]
        if r.get("harness"):
            raise Infra("C52 renderer failed on case %d: %s" % (x["id"], r["harness"]))
        forms = _eo_forms(x["term"], set())
        forms_seen |= forms
        if len(x["log"]) >= 2 or (forms & lazy) or x["fails"]:
            nontrivial += 1
        for run in r["runs"]:
            cls = run["class"]
            if cls.startswith("user:") and cls not in EO_ERR_CLASS.values():
                # a checker / type error in the rendering: not evidence about evaluation order
                raise Infra("C52 renderer: case %d rejected with %s: %s\n%s" % (x["id"], cls, run.get("err"), r["expr"]))
            kind = None
            logs = run.get("logs") or []
            if run.get("badlog") or logs != x["log"]:
                kind = "log-mismatch"
            elif (cls == "ok") != (not x["fails"]):
                kind = "abort-mismatch"
            elif x["fails"] and cls != EO_ERR_CLASS.get(x["err"]):
                kind = "abort-kind-mismatch"
            elif not x["fails"]:
                want = x["val"]
                if x["ty"] == "D" or x["term"]["o"] == "asgDict":
                    want = sorted(want, key=str)
                if run.get("value") != want:
                    kind = "value-mismatch"
            if kind is None:
                continue
            nviol += 1
            if nviol > 300:
                continue
            sig = {"form": x["term"]["o"], "engine": run["engine"], "kind": kind, "forms": ",".join(sorted(forms))}
            ctx.report(sig, "case %d on %s: %s\n  %s\n  expected log %s value %s %s\n  observed log %s class %s value %s" %
                       (x["id"], run["engine"], kind, r["expr"], x["log"], x["val"],
                        ("abort " + x["err"]) if x["fails"] else "", logs, cls, run.get("value")),
                       {"case": x, "rendered": r["expr"], "run": run})
    for x in (cases[len(cases) // 7], cases[len(cases) // 2], cases[-5]):
        ctx.add_sample({"rendered": res[x["id"]]["expr"], "expected_log": x["log"], "expected_value": x["val"],
                        "aborts": x["err"] if x["fails"] else None})
    return ctx.finish({
        "traces_validated_against_impl": len(cases) * 2,
        "evaluations": len(cases) * 2,
        "cases": len(cases), "table_rows_printed": len(rows), "forms_covered": sorted(forms_seen),
        "distinct_nontrivial": nontrivial,
        "rule": "distinct numbered terms (operator/statement form x shape x truth/nil valuation of the leaves) whose expected log has >= 2 entries, "
                "or that contain a lazy form (&& || ?? ?: ?.), or that abort; each executed on interpreter and VM; compared: log sequence, "
                "abort / abort kind, value",
        "exhaustive": bool(ctx.quick),
    }, assumptions=["leaf side effects are log calls of functions b/h/n/arr/dct/mk/mko; method and function bodies log a marker",
                    "depth <= 2 terms are enumerated exhaustively over the inner alphabet of the cfg, depth-3 terms are sampled with VERIF_SEED",
                    "static `as` casts are inserted by the renderer around ?: and ?? results to pin their static type"])


META["C52"] = {
    "level_text": "TLC builds every expression / statement term to depth 2 (plus seeded samples of depth 3) over 40 operator, literal, access, cast, "
                  "call, assignment and swap forms with every truth/nil valuation of the logging leaves, evaluates each with the specification's "
                  "big-step evaluator (value, log, abort) and checks the evaluator's own laws (exactly once, left to right, short-circuit laws, body "
                  "after arguments); every term is rendered as a script and run on interpreter and VM; ProgramLog sequence, abort kind and value must "
                  "equal the model's.",
    "level_note": "Trusted: TLC, the Go renderer. Exhaustive to depth 2 over the cfg's alphabet; depth 3 sampled. Resource moves and string templates are not covered.",
    "technique": "TLA+ big-step evaluator (EvalOrder.tla) evaluated by TLC over an enumerated term universe; table conformance on both engines",
    "design_ref": "DESIGN.md section 5 C52",
    "engine": "E4 table",
}


# =====================================================================================
# C10 — pre- and post-conditions are always enforced (spec/lang/Conditions.tla)
# =====================================================================================
LEVEL["C10"] = "model_checking"
COND_FILES = ["lang/Conditions.tla", "lang/MC_Conditions.tla"]


def _cond_name(s, ni):
    return "C" if s == ni + 1 else "I%d" % s


def _cond_expected(x):
    """the specification's observables (pairs) as the strings the rendered program produces"""
    ni, e = x["ni"], x["exp"]
    ev = ["%s.%s" % (_cond_name(s, ni), tag) for s, tag in e["events"]]
    logs = []
    for tag, v in e["logs"]:
        logs.append("%s:%s" % (tag, _cond_name(v, ni) if tag in ("body", "gbody") else v))
    msg = "%s:%s" % (e["msg"][0], _cond_name(e["msg"][1], ni)) if e["msg"] else ""
    return ev, logs, msg


def _cond_table(ctx):
    base = open(os.path.join(os.path.dirname(os.path.dirname(os.path.abspath(__file__))), "spec", "lang",
                             "MC_Conditions_quick.cfg" if ctx.quick else "MC_Conditions_thorough.cfg")).read()
    cfg = os.path.join(ctx.work, "MC_Conditions_run.cfg")
    with open(cfg, "w") as fh:
        fh.write(base.replace("Seed = 1", "Seed = %d" % ctx.seed))
    r = ctx.tlc(COND_FILES + [cfg], "MC_Conditions", "MC_Conditions_run.cfg", workers=ctx.cores, timeout=2400)
    return r.json_lines(), r


def check_C10(ctx):
    binary = ctx.build("langcond")
    rows, r = _cond_table(ctx)
    uniq = {}
    for x in rows:
        uniq.setdefault(json.dumps(x, sort_keys=True), x)
    cases = sorted(uniq.values(), key=lambda x: json.dumps(x, sort_keys=True))
    for i, x in enumerate(cases):
        x["id"] = i + 1
    if len(cases) < 3000:
        raise Infra("Conditions.tla produced only %d configurations" % len(cases))
    if os.environ.get("VERIF_SELFTEST_CORRUPT") == "C10":    # negative control: flip one expected outcome
        v = next(x for x in cases if not x["exp"]["ok"] and x["exp"]["kind"] == "pre")
        v["exp"] = dict(v["exp"], ok=True, kind="", msg=[])
        ctx.log("SELFTEST: flipped expected outcome of configuration %d to ok" % v["id"])
    cf = os.path.join(ctx.work, "cond-cases.ndjson")
    rf = os.path.join(ctx.work, "cond-results.ndjson")
    write_ndjson(cf, cases)
    ctx.run([binary, cf, rf], timeout=2400, env={"LANGCOND_SRC": "1"} if len(cases) < 30000 else None)
    res = {}
    for row in read_ndjson(rf):
        if not row.get("summary"):
            res.setdefault(row["id"], []).append(row)
    if len(res) != len(cases):
        raise Infra("langcond returned results for %d of %d configurations" % (len(res), len(cases)))
    nontrivial, ninh_fail, nviol = set(), 0, 0
    shape_cov = {}     # parameter shape -> {"pre": n, "post": n}: configurations with an INHERITED pre / post block
    for x in cases:
        ev, logs, msg = _cond_expected(x)
        e = x["exp"]
        cov = shape_cov.setdefault(x["ps"], {"pre": 0, "post": 0, "default_impl": 0, "own_impl": 0})
        inh = [x["sites"][i][0] for i in range(x["ni"]) if x["rel"][i] in ("direct", "indirect")]
        cov["pre"] += any(k & 4 for k in inh)
        cov["post"] += any(k & 2 for k in inh)
        cov["own_impl" if x["impl"] == x["ni"] + 1 else "default_impl"] += 1
        shape = json.dumps([x["par"], x["conf"], [s[0] for s in x["sites"]], x["nest"], x["via"], x["ps"]])
        if x["ninh"] >= 1:
            nontrivial.add(json.dumps([shape, sorted(map(str, [s[1:] for s in x["sites"]]))]))
            if not e["ok"]:
                ninh_fail += 1
        for run in res[x["id"]]:
            if run.get("harness"):
                raise Infra("C10: the checker rejects generated configuration %d (well-formedness predicate of the spec is wrong "
                            "or renderer error): %s\n%s" % (x["id"], run.get("err", "")[:600], run.get("src", "")))
            cls = run["class"]
            kind = None
            if e["ok"]:
                if cls != "ok":
                    kind = "spurious-failure" if cls == "user:ConditionError" else "other-error"
                elif run.get("value") != str(e["ret"]):
                    kind = "wrong-result-value"
            else:
                if cls == "ok":
                    kind = "missed-%s-condition" % e["kind"]
                elif cls != "user:ConditionError":
                    kind = "other-error"
                elif run.get("ckind") != e["kind"] + "-condition" or run.get("msg") != msg:
                    kind = "wrong-condition-reported"
            if kind is None and run["events"] != ev:
                kind = "event-sequence"
            if kind is None and run["logs"] != logs:
                kind = "body-or-log-sequence"
            if kind is None:
                continue
            nviol += 1
            if nviol > 300:
                continue
            failing_site = e["msg"][1] if e["msg"] else 0
            sig = {"engine": run["engine"], "kind": kind,
                   "site": (x["rel"][failing_site - 1] if failing_site else "none"),
                   "impl": "own" if x["impl"] == x["ni"] + 1 else "default", "nest": x["nest"], "via": "iface" if x["via"] else "concrete",
                   "params": x["ps"], "class": cls}
            ctx.report(sig, "configuration %d on %s: %s\n  expected: ok=%s kind=%s msg=%s events=%s logs=%s ret=%s\n  observed: class=%s kind=%s msg=%s events=%s logs=%s value=%s\n%s"
                       % (x["id"], run["engine"], kind, e["ok"], e["kind"], msg, ev, logs, e["ret"],
                          cls, run.get("ckind"), run.get("msg"), run["events"], run["logs"], run.get("value"), run.get("src", "")),
                       {"case": x, "run": {k: run[k] for k in run if k != "src"}, "source": run.get("src")})
    for shp in ("none", "res1", "int_res", "res_int_res", "optres"):
        c = shape_cov.get(shp, {})
        if not (c.get("pre") and c.get("post") and c.get("default_impl") and c.get("own_impl")):
            raise Infra("C10: parameter shape %s is not covered with inherited pre, inherited post, default and own implementation: %s" % (shp, c))
    for x in (cases[len(cases) // 5], cases[len(cases) // 2], cases[-7]):
        ev, logs, msg = _cond_expected(x)
        ctx.add_sample({"params": x["ps"], "interfaces": x["par"], "C_conforms_to": x["conf"], "sites[kind,pre,post,D,R,gpre,gpost,E]": x["sites"],
                        "d": x["d"], "r": x["r"], "nest": x["nest"], "via": x["via"],
                        "expected": {"ok": x["exp"]["ok"], "failing": msg, "events": ev, "logs": logs}})
    return ctx.finish({
        "states": r.distinct, "transitions": r.generated,
        "traces_validated_against_impl": len(cases) * 2,
        "evaluations": len(cases) * 2, "configurations": len(cases),
        "configurations_failing_with_inherited_condition": ninh_fail,
        "parameter_shape_coverage": shape_cov,
        "distinct_nontrivial": len(nontrivial),
        "rule": "distinct configurations (interface DAG, conformance list, per-site function shape, truth values of all tests, d/D, r/R) in which "
                "at least one interface the concrete type conforms to contributes a condition block; each run on interpreter and VM; compared: "
                "ok / condition error with kind and message, emitted condition events in order, which body ran, counter, returned value",
        "exhaustive": bool(ctx.quick),
    }, assumptions=["struct interfaces and a struct implementation; conditions read a flag array, a counter reference (before) and result",
                    "parameter shape of f (no extra / resource first / resource after Int / two resources around an Int / optional resource) is drawn per "
                    "configuration by the hash; bodies destroy the resources; any outcome other than ok / ConditionError (e.g. an internal error) is a violation",
                    "thorough tier samples configurations by a hash of (VERIF_SEED, configuration)"])


META["C10"] = {
    "level_text": "TLC enumerates interface DAGs (<=2 quick / 3 thorough interfaces, every conformance order, diamonds), per-site function shapes "
                  "(absent / pre / post / both / default body / override), which tests are false, body increment vs before-constant, return value vs "
                  "result-constant, nested conditioned calls and calls through interface types; the specification computes success, failing condition, "
                  "event sequence and logs and checks its own laws (judgement = all conditions hold, monotonicity, body iff pre); every configuration "
                  "is rendered as a script and run on interpreter and VM.",
    "level_note": "Trusted: TLC, the Go renderer. Quick is exhaustive for 2 interfaces with <=1 false test; thorough samples 3 interfaces / 2 false tests by seed.",
    "technique": "TLA+ specification of condition inheritance and order (Conditions.tla) enumerated by TLC; table conformance on both engines",
    "design_ref": "DESIGN.md section 5 C10",
    "engine": "E4 table",
}


# =====================================================================================
# C07 — view functions have no observable side effects (spec/lang/Purity.tla)
# =====================================================================================
PUR_FILES = ["lang/Purity.tla", "lang/MC_Purity.cfg", "lang/MC_Purity_thorough.cfg"]


def check_C07(ctx):
    binary = ctx.build("lang")
    r = ctx.tlc(PUR_FILES, "Purity", "MC_Purity.cfg" if ctx.quick else "MC_Purity_thorough.cfg", workers=1, timeout=1200)
    rows = list({json.dumps(x, sort_keys=True): x for x in r.json_lines()}.values())
    rows.sort(key=lambda x: json.dumps(x, sort_keys=True))
    if len(rows) < 1000:
        raise Infra("Purity.tla printed only %d rows" % len(rows))
    for i, x in enumerate(rows):
        x["id"] = i + 1
    cf = os.path.join(ctx.work, "pur-cases.ndjson")
    rf = os.path.join(ctx.work, "pur-results.ndjson")
    write_ndjson(cf, rows)
    ctx.run([binary, "pur", cf, rf, "src"], timeout=2400)
    res = {x["id"]: x for x in read_ndjson(rf) if not x.get("summary")}
    if len(res) != len(rows):
        raise Infra("driver returned %d results for %d cases" % (len(res), len(rows)))
    corrupt = os.environ.get("VERIF_SELFTEST_CORRUPT") == "C07"
    n_rej = n_acc = n_exec = 0
    accepted_classes, blind = set(), []
    for x in rows:
        v = res[x["id"]]
        path = x["path"] if isinstance(x["path"], str) else "+".join(x["path"])
        if v.get("fixture"):
            raise Infra("C07 fixture/renderer problem for case %s: %s\n%s" % ({k: x[k] for k in x if k != "id"}, v["fixture"], v.get("body")))
        if not v["accepted"]:
            if v.get("other"):
                # rejected (also) for a reason outside purity: the rendered program is outside the fragment
                raise Infra("C07 renderer: case %s rejected with non-purity errors %s\n%s" %
                            ({k: x[k] for k in x if k != "id"}, v["other"], v.get("body")))
            n_rej += 1
            continue
        n_acc += 1
        accepted_classes.add((x["op"], x["root"], path, x["site"]))
        seen_any = False
        for run in v["runs"]:
            n_exec += 1
            if run["class"] != "ok":
                raise Infra("C07: accepted case %s fails at run time on %s (renderer must produce runnable programs): %s\n%s"
                            % ({k: x[k] for k in x if k != "id"}, run["engine"], run.get("err"), v.get("body")))
            if corrupt and x["op"] == "length" and x["root"] == "refparam" and path == "direct" and x["site"] == "body":
                run = dict(run, after=run["after"] + "!")      # negative control: corrupt one recorded snapshot
            obs = []
            if run["before"] != run["after"]:
                obs.append("value-changed")
            if run["writes"] > 0:
                obs.append("register-writes")
            if run.get("events"):
                obs.append("event")
            if not obs:
                continue
            seen_any = True
            sig = {"op": "emit-statement" if x["op"] == "emitStatement" else x["op"], "root": x["root"], "path": path,
                   "site": x["site"], "engine": run["engine"], "observed": ",".join(obs), "model_effect": x["effect"]}
            ctx.report(sig, "view context accepted by the checker has an observable effect on %s: %s\n  case %s\n  before %s\n  after  %s\n  events %s writes %d\n%s"
                       % (run["engine"], obs, {k: x[k] for k in x if k != "id"}, run["before"], run["after"], run.get("events"),
                          run["writes"], v.get("body")),
                       {"case": x, "run": run, "source": v.get("src")})
        if x["effect"] != "none" and not seen_any:
            blind.append(x)
    if blind:
        x = blind[0]
        raise Infra("C07 blind spot: %d accepted case(s) for which the model predicts an effect but none was observed "
                    "(snapshot misses it, or the model is wrong), e.g. %s\n%s" % (len(blind), {k: x[k] for k in x if k != "id"}, res[x["id"]].get("body")))
    shown = [x for x in rows if res[x["id"]]["accepted"]]
    rej = [x for x in rows if not res[x["id"]]["accepted"]]
    for x in (shown[len(shown) // 3], rej[len(rej) // 2], rej[-9]):
        ctx.add_sample({"case": {k: x[k] for k in x if k != "id"}, "view_context": res[x["id"]]["body"],
                        "checker": "accepts" if res[x["id"]]["accepted"] else "rejects (PurityError)"})
    return ctx.finish({
        "traces_validated_against_impl": n_exec,
        "evaluations": len(rows), "rejected_by_checker": n_rej, "accepted_by_checker": n_acc, "executions": n_exec,
        "distinct_nontrivial": len(accepted_classes),
        "rule": "rows of the table enumerated by TLC from Purity.tla (operation x root x path x site with the model's effect class); every row is "
                "rendered as a view function / view method / condition in a contract and deployed (real checker); distinct_nontrivial = accepted "
                "(operation, root, path, site) classes, each executed on interpreter and VM with value snapshots before/after, host register "
                "writes and host events observed",
        "exhaustive": True,
    }, assumptions=["observation: string snapshots of every pre-existing struct/array/dictionary/contract field, ledger writes of the calling transaction, emitted events",
                    "a case rejected with any non-purity error, or accepted but failing at run time, is a harness error (exit 2)",
                    "an accepted case whose model effect is not 'none' but shows nothing is reported as a blind spot (exit 2), never silently passed"])


META["C07"] = {
    "level_text": "TLC enumerates the table of Purity.tla: 40 operations (assignments, index/member writes, every mutating and non-mutating array/dictionary "
                  "built-in, impure/entitled/view calls, swaps, emit, log, storage and capability calls) x 10 roots (reference parameter, contract field, "
                  "self, by-value parameter, local, references to those, account) x 10 access paths (direct, optional chaining, force unwrap, optional "
                  "binding, wrapper field, array of references, closure, view closure, dereferenced copy, bound function) x site (view function/method "
                  "body, pre-, post-condition) with the model's effect class and its laws; each row is compiled by the real checker; every accepted row "
                  "is executed on both engines under observation (snapshots, register writes, events); accepted + observed effect = violation. "
                  "A second family covers moves INTO a target: the second value transfer `let old <- TARGET <- v` and the resource swap on self "
                  "field / self array element / self dictionary entry / owned parameter field / local variable / contract field / field of a "
                  "contract-held resource, in a view method and in a view initializer, plus struct-typed swaps (own field, field through a "
                  "reference inside its composite, contract field, local, captured variable of the enclosing view function).",
    "level_note": "Trusted: TLC, the Go renderer, the snapshot function. Nesting depth: quick = one path element, thorough = two. Statements "
                  "(declarations, swaps) cannot appear in pre-/post-conditions, so those sites only carry expression operations.",
    "technique": "TLA+ effect model (Purity.tla) enumerated by TLC; checker verdict + observed execution on both engines",
    "design_ref": "DESIGN.md section 5 C07, section 7 #8a",
    "engine": "E4 table + execution",
}
