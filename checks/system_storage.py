"""C22 — account storage as a typed path-indexed map (spec/system/Storage.tla).
spec -> impl: TLC enumerates the state graph of the bounded model (transition dump) and
samples deep histories (simulation); every behaviour is replayed on the real runtime
(interpreter and VM) by harness/cmd/storage and compared step by step."""
import json, os
from vlib.core import Infra, read_ndjson, write_ndjson
from vlib.graph import Graph, key

LEVEL = {"C22": "model_checking"}
FILES = ["system/Storage.tla", "system/MC_Storage.tla", "system/Sim_Storage.tla",
         "system/MC_Storage_quick.cfg", "system/MC_Storage_sim.cfg", "system/MC_Storage_thorough.cfg"]


def dedupe_sim(hists, depth):
    """TLC evaluates the printing invariant on every candidate successor: keep one per trace."""
    seen, out = set(), []
    for h in hists:
        k = json.dumps(h[:depth - 1], sort_keys=True)
        if k in seen:
            continue
        seen.add(k)
        out.append(h)
    return out


def run_replay(ctx, binary, behs, tag, classify):
    bf = os.path.join(ctx.work, tag + ".behaviours.ndjson")
    rf = os.path.join(ctx.work, tag + ".results.ndjson")
    write_ndjson(bf, behs)
    ctx.run([binary, bf, rf], timeout=3000)
    rows = read_ndjson(rf)
    summary = [r for r in rows if r.get("summary")]
    if not summary:
        raise Infra("driver wrote no summary (%s)" % tag)
    fails = [r for r in rows if not r.get("summary")]
    for f in fails:
        if f.get("harness"):
            raise Infra("harness/renderer error in %s: %s\n%s" % (tag, f.get("msg"), f.get("src", "")))
    for f in fails:
        classify(f)
    return summary[0], fails


def check_C22(ctx):
    binary = ctx.build("storage")
    cfg = "MC_Storage_quick.cfg" if ctx.quick else "MC_Storage_thorough.cfg"
    r = ctx.tlc(FILES, "MC_Storage", cfg, workers=1, timeout=1500)
    edges = r.json_lines()
    if not edges:
        raise Infra("no transitions dumped")
    g = Graph(edges)
    init = key(edges[0]["s"])
    is_final = lambda s: json.loads(s)["phase"] == "idle"
    paths = g.transition_cover(init, is_final)
    behs = []
    triples = set()
    for n, path in enumerate(paths):
        steps = []
        for i in path:
            ks, a, kt, t = g.edges[i]
            st = dict(a)
            if t["phase"] == "idle" and a.get("op") not in ("begin", "init"):
                st["com"] = t["com"]
            steps.append(st)
            triples.add((ks, json.dumps(a, sort_keys=True)))
        behs.append({"id": n, "steps": steps})
    ctx.log("graph: %d states, %d transitions -> %d behaviours" % (len(g.states), len(g.edges), len(behs)))

    def classify(f):
        ctx.report({"kind": f["kind"], "engine": f["engine"]},
                   "behaviour %d (%s) step %d: %s" % (f["id"], f["engine"], f["step"], f["msg"]),
                   {"behaviour": f.get("beh"), "source": f.get("src"), "engine": f["engine"]})

    s1, fails1 = run_replay(ctx, binary, behs, "cover", classify)
    ctx.add_sample({"kind": "transition-cover behaviour", "steps": behs[len(behs) // 2]["steps"][:12]})

    nsim = 300 if ctx.quick else 6000
    depth = 60
    rs = ctx.tlc(FILES, "Sim_Storage", "MC_Storage_sim.cfg", simulate=nsim, depth=depth + 1, tag="sim", timeout=1500, count=False)
    hists = dedupe_sim(rs.json_lines(), depth)
    sbehs = [{"id": 100000 + i, "steps": h} for i, h in enumerate(hists)]
    if len(sbehs) < nsim // 3:
        raise Infra("simulation produced too few behaviours: %d" % len(sbehs))
    s2, fails2 = run_replay(ctx, binary, sbehs, "sim", classify)
    ctx.add_sample({"kind": "simulated history (2 accounts, 3 paths)", "steps": sbehs[0]["steps"][:14]})
    for b in sbehs:
        for st in b["steps"]:
            triples.add(("sim", json.dumps({k: v for k, v in st.items() if k != "com"}, sort_keys=True)))
    return ctx.finish({
        "states": r.distinct, "transitions": len(g.edges),
        "traces_validated_against_impl": (s1["behaviours"] + s2["behaviours"]) * s1["engines"],
        "transactions_executed": (s1["transactions"] + s2["transactions"]) * s1["engines"],
        "distinct_nontrivial": len(triples),
        "evaluations": (s1["steps"] + s2["steps"]) * s1["engines"],
        "rule": "distinct (abstract state, call, predicted result) triples of the bounded model, each exercised on the real runtime; simulated histories add distinct labelled calls on 2 accounts x 3 paths",
        "exhaustive": True,
        "simulated_histories": len(sbehs),
    }, assumptions=["host = repo's TestRuntimeInterface/TestLedger with code rollback on failed transactions",
                    "value universe of the model: S, S2, Int, R, R2; type arguments incl. interfaces and Any*"])

META = {"C22": {
    "level_text": "Exhaustive TLC exploration of the bounded Storage state machine (1-2 accounts x 2 paths x 3 values x 6 type arguments, <=2 calls per transaction, <=2 transactions) with its invariants; every transition of that graph plus hundreds of simulated 60-step histories (2 accounts x 3 paths, 5 value types, 9 type arguments, move between accounts) is replayed on the real runtime under interpreter and VM, comparing every call result, the failure kind, and the committed storage re-read by a fresh script after every transaction.",
    "level_note": "Trusted: TLC, the Go renderer of model steps to Cadence, the repo's test ledger/interface as host. Bounded model: behaviour beyond 3 paths / the model's value universe is not explored.",
    "technique": "TLA+ spec (Storage.tla) model-checked with TLC; spec behaviours (transition cover + simulation) replayed into the real runtime and compared step by step",
    "design_ref": "DESIGN.md section 5 C22",
    "engine": "E2 replay",
}}
