"""Family "vals": C20 (arrays / dictionaries = list / finite-map models), C05 (copy semantics of
non-resource values), C51 (internal ordered collections = their models).

All three have the same shape: a TLA+ specification (spec/system/Containers.tla,
spec/system/Values.tla, spec/coll/*.tla) is model-checked by TLC; its behaviours -- a cover of
every transition of the bounded state graph plus simulated deep histories -- are replayed on
the real code by harness/cmd/vals and compared after every step."""
import json, os, concurrent.futures as cf
from vlib.core import Infra, read_ndjson, write_ndjson
from vlib.graph import Graph, key

LEVEL = {"C20": "model_checking", "C05": "model_checking", "C51": "model_checking"}


# ------------------------------------------------------------------------------- shared helpers
def _java_opts():
    # several TLC instances run side by side on a shared machine: keep each JVM small
    if "ParallelGCThreads" not in os.environ.get("JAVA_TOOL_OPTIONS", ""):
        os.environ["JAVA_TOOL_OPTIONS"] = (os.environ.get("JAVA_TOOL_OPTIONS", "") + " -XX:ParallelGCThreads=2 -Xmx3g").strip()


def _parallel(thunks, width=4):
    """Run thunks (TLC jobs) side by side; re-raise the first failure."""
    with cf.ThreadPoolExecutor(max_workers=width) as ex:
        futs = [ex.submit(t) for t in thunks]
        return [f.result() for f in futs]


def _unique_hists(res, length):
    """Histories printed by a simulation run; TLC evaluates the printing invariant more than once per trace."""
    seen, out = set(), []
    for ln in res.lines:
        if ln.startswith('"') and ln.endswith('"') and ln not in seen:
            seen.add(ln)
            try:
                h = json.loads(json.loads(ln))
            except Exception:
                continue
            # (at the depth bound TLC also evaluates the invariant on one more successor: longer copy, dropped)
            if isinstance(h, list) and len(h) == length:
                out.append(h)
    return out


def _replay(ctx, binary, sub, behs, tag, classify, env=None, timeout=3000):
    bf = os.path.join(ctx.work, tag + ".behaviours.ndjson")
    rf = os.path.join(ctx.work, tag + ".results.ndjson")
    write_ndjson(bf, behs)
    e = {"VALS_WORKERS": str(max(2, min(12, ctx.cores - 2)))}
    e.update(env or {})
    ctx.run([binary, sub, bf, rf], timeout=timeout, env=e)
    rows = read_ndjson(rf)
    summary = [r for r in rows if r.get("summary")]
    if not summary:
        raise Infra("driver wrote no summary (%s)" % tag)
    fails = [r for r in rows if not r.get("summary")]
    for f in fails:
        if f.get("harness"):
            raise Infra("harness/renderer error in %s (%s): %s\n%s" % (tag, f.get("kind"), f.get("msg"), (f.get("src") or "")[:3000]))
    for f in fails:
        classify(f)
    ctx.log("%s: %s" % (tag, {k: v for k, v in summary[0].items() if k != "summary"}))
    return summary[0], fails


def _tour_cover(g, init, is_final, max_len=120):
    """Behaviours (edge-index paths from init) that together take every reachable transition: a greedy
    tour -- from the current state walk to the nearest transition not taken yet, take it, go on; after
    max_len steps close the behaviour at a final state and start again from the initial state."""
    import collections
    reach = set()
    for s in g.bfs(init):
        reach.update(g.out[s])
    todo = set(reach)
    cache, paths = {}, []

    def nearest(s):
        for i in g.out[s]:
            if i in todo:
                return [i]
        seen = {s: []}
        q = collections.deque([s])
        while q:
            u = q.popleft()
            for i in g.out[u]:
                t = g.edges[i][2]
                if i in todo:
                    return seen[u] + [i]
                if t not in seen:
                    seen[t] = seen[u] + [i]
                    q.append(t)
        return None

    while todo:
        cur, path = init, []
        while len(path) < max_len:
            seg = nearest(cur)
            if seg is None:
                break
            for i in seg:
                todo.discard(i)
            path += seg
            cur = g.edges[seg[-1]][2]
        if not path:
            break
        tail = g.complete(cur, is_final, cache) if is_final else []
        if tail is None:
            raise Infra("no way to a final state from a covered state")
        for i in tail:
            todo.discard(i)
        paths.append(path + tail)
    if todo:
        raise Infra("transition cover incomplete: %d transitions left" % len(todo))
    return paths, len(reach)


def _cover(ctx, files, module, cfg, tag, is_final, max_len=120):
    """TLC transition dump of one bounded configuration -> behaviours covering every transition."""
    r = ctx.tlc(files, module, cfg, workers=1, timeout=1500, tag=tag)
    edges = r.json_lines()
    if not edges:
        raise Infra("no transitions dumped (%s)" % tag)
    g = Graph(edges)
    init = key(edges[0]["s"])
    paths, nreach = _tour_cover(g, init, is_final, max_len)
    if nreach != len(g.edges):
        raise Infra("%s: %d dumped transitions are unreachable from the initial state" % (tag, len(g.edges) - nreach))
    return r, g, paths


# ------------------------------------------------------------------------------------------ C20
C20_FILES = ["system/Containers.tla", "system/MC_Containers.tla", "system/Sim_Containers.tla",
             "system/Cover_Containers_arr.cfg", "system/Cover_Containers_mem.cfg", "system/Cover_Containers_dict.cfg",
             "system/Cover_Containers_carr.cfg", "system/Cover_Containers_arr4.cfg", "system/Cover_Containers_mem3.cfg",
             "system/Sim_Containers.cfg"]
C20_COVERS = {"arr": (2, 2), "mem": (2, 2), "dict": (2, 2), "carr": (2, 2), "arr4": (2, 2), "mem3": (2, 2)}   # cfg -> (CN, NV)
C20_QUICK_COVERS = ["arr", "mem", "dict", "carr"]
C20_THOROUGH_COVERS = ["arr4", "mem3", "dict", "carr"]
C20_SIM_CN, C20_SIM_NV, C20_SIM_DEPTH = 3, 5, 300
# element / key representations (refinement parameter of the harness): Int / Int keys; 300-byte String / 300-character
# String keys; nested [Int]; Int under short and under 300-character String keys; nested dictionaries {String: Int} with
# short / 300-character keys inside and outside
# bigI / bigU: Int / UInt elements, keys and values too large to be stored inline (1 << 8000); medI: a 1000-bit Int
# (inline); i256: Int256 (always inline)
C20_REFS = ["int", "str", "nest", "sk", "lk", "dnS", "dnL", "bigI", "bigU", "medI", "i256"]


def _c20_cover_behaviours(ctx, name, base_id):
    cn, nv = C20_COVERS[name]
    is_final = lambda s: json.loads(s)["phase"] == "idle"
    r, g, paths = _cover(ctx, C20_FILES, "MC_Containers", "Cover_Containers_%s.cfg" % name, "cover-" + name, is_final)
    behs, triples = [], set()
    for n, path in enumerate(paths):
        steps = []
        for i in path:
            ks, a, kt, t = g.edges[i]
            st = dict(a)
            if t["phase"] == "idle" and a.get("op") not in ("begin", "init"):
                st["com"] = t["com"]
            steps.append(st)
            triples.add((ks, json.dumps(a, sort_keys=True)))
        behs.append({"id": base_id + n, "cn": cn, "nv": nv, "steps": steps})
    ctx.log("cover %s: %d states, %d transitions -> %d behaviours" % (name, len(g.states), len(g.edges), len(behs)))
    return r, g, behs, triples


def check_C20(ctx):
    _java_opts()
    binary = ctx.build("vals")
    nsim = 98 if ctx.quick else 350
    chunks = 4 if ctx.quick else 12
    per = (nsim + chunks - 1) // chunks

    def sim_job(k):
        # distinct seeds per chunk: the seed handed to TLC is ctx.seed; vary through the tag-specific depth-neutral option
        return lambda: ctx.tlc(C20_FILES, "Sim_Containers", "Sim_Containers.cfg", simulate=per, depth=C20_SIM_DEPTH + 1,
                               tag="sim%d" % k, timeout=2400, count=False, extra=["-aril", str(1000 * ctx.seed + k)])

    cover_names = C20_QUICK_COVERS if ctx.quick else C20_THOROUGH_COVERS
    jobs = [(lambda nm=nm, i=i: _c20_cover_behaviours(ctx, nm, 100000 * (i + 1))) for i, nm in enumerate(cover_names)]
    jobs += [sim_job(k) for k in range(chunks)]
    results = _parallel(jobs, width=4 if ctx.quick else 6)
    covers, sims = results[:len(cover_names)], results[len(cover_names):]

    def classify(f):
        ctx.report(f.get("sig") or {"kind": f["kind"]},
                   "behaviour %d (%s, elements as %s) step %d: %s" % (f["id"], f.get("engine"), f.get("ref"), f["step"], f["msg"]),
                   {"behaviour": f.get("beh"), "source": f.get("src"), "engine": f.get("engine"), "refinement": f.get("ref")})

    triples, cover_behs, states, transitions = set(), [], 0, 0
    for r, g, behs, tr in covers:
        cover_behs += behs
        triples |= tr
        states += len(g.states)
        transitions += len(g.edges)
    refs = C20_REFS
    if ctx.quick:
        # every transition under both engines; the element / key representation rotates over the behaviours
        cparts = {r: [b for i, b in enumerate(cover_behs) if refs[i % len(refs)] == r] for r in refs}
    else:
        cparts = {r: cover_behs for r in refs}
    csum = []
    for r in refs:
        sm, _ = _replay(ctx, binary, "c20", cparts[r], "cover-" + r, classify, env={"VALS_REFS": r})
        csum.append(sm)
    s1 = {k: sum(x[k] for x in csum) for k in ("replays", "transactions", "steps")}
    s1["engines"], s1["refinements"] = csum[0]["engines"], 1
    ctx.add_sample({"kind": "transition-cover behaviour (array in storage)", "steps": cover_behs[len(cover_behs) // 5]["steps"][:9]})

    sim_behs = []
    for r in sims:
        for h in _unique_hists(r, C20_SIM_DEPTH):
            sim_behs.append({"id": 900000 + len(sim_behs), "cn": C20_SIM_CN, "nv": C20_SIM_NV, "deep": True, "steps": h})
    if len(sim_behs) < nsim // 2:
        raise Infra("simulation produced too few behaviours: %d of %d" % (len(sim_behs), nsim))
    ops = {}
    maxlen = 0
    for b in sim_behs:
        for st in b["steps"]:
            ops[st["op"]] = ops.get(st["op"], 0) + 1
            triples.add(("sim", json.dumps({k: v for k, v in st.items() if k != "com"}, sort_keys=True)))
            if "com" in st:
                maxlen = max(maxlen, len(st["com"]["s"]), len(st["com"]["d"]))
    need = {"append", "appendAll", "insert", "remove", "removeFirst", "removeLast", "get", "set", "slice", "reverse", "concat",
            "filter", "map", "contains", "firstIndex", "toConst", "ctoVar", "dinsert", "dremove", "dget", "dset", "dkeys",
            "dvalues", "dcontainsKey", "dforEachKey", "diterate", "iterate", "bulk", "dbulk", "amove", "dmove", "commit", "abort"}
    if need - set(ops):
        raise Infra("simulated histories never exercised: %s" % sorted(need - set(ops)))
    # refinements are distributed over the deep histories (every history under both engines)
    summ = []
    parts = {r: [b for i, b in enumerate(sim_behs) if refs[i % len(refs)] == r] for r in refs}
    if not ctx.quick:
        parts = {r: sim_behs for r in refs}      # thorough: every history under every refinement
    for r in refs:
        s, _ = _replay(ctx, binary, "c20", parts[r], "sim-" + r, classify, env={"VALS_REFS": r})
        summ.append(s)
    h0 = sim_behs[0]["steps"]
    ctx.add_sample({"kind": "simulated deep history (first steps)", "steps": [{k: v for k, v in st.items() if k != "com"} for st in h0[:12]]})
    big = [st for b in sim_behs[:40] for st in b["steps"] if st["op"] in ("bulk", "dbulk")]
    if big:
        ctx.add_sample({"kind": "bulk fill across slab thresholds", "step": big[0]})
    return ctx.finish({
        "states": states, "transitions": transitions,
        "traces_validated_against_impl": s1["replays"] + sum(s["replays"] for s in summ),
        "transactions_executed": s1["transactions"] * s1["engines"] + sum(s["transactions"] * s["engines"] for s in summ),
        "evaluations": s1["steps"] * s1["engines"] + sum(s["steps"] * s["engines"] for s in summ),
        "distinct_nontrivial": len(triples),
        "rule": "distinct (abstract state, call with arguments) pairs of the four bounded configurations plus distinct labelled calls (operation, arguments, predicted result) of the simulated histories; each executed on the real runtime",
        "exhaustive": True,
        "exhaustive_scope": "the four bounded configurations are enumerated completely and every one of their transitions is replayed; the simulated deep histories are samples",
        "cover_behaviours": len(cover_behs), "simulated_histories": len(sim_behs),
        "largest_container_in_simulation": maxlen,
        "operations_in_simulation": ops,
    }, assumptions=["host = repo's TestRuntimeInterface/TestLedger (harness/host), atree validation on",
                    "model elements are small integers rendered as Int / 300-byte String / nested [Int] / nested {String: Int}; dictionary keys as Int / short String / 300-character String (refinement parameters of the harness)",
                    "dictionary iteration order is not promised: keys/values/iteration are compared as sets / bags"])


def c20_histories_with_health(ctx, nsim=None):
    """For C23 (storage health): a modest set of Containers.tla behaviours -- the transition cover of the stored
    dictionary and of the stored array, plus simulated deep histories -- replayed with VERIF_HEALTH=1: the runtime's
    own atree validation is off and harness/health.Check runs on the committed ledger after EVERY committed
    transaction.  Representations: short and 300-character string keys (flat dictionary, and dictionaries nested in
    the array / dictionary / constant-sized array), 300-byte string elements.  Both engines, both access modes
    (borrowed reference, load-modify-save), removals of containing elements, moves to a second account and back.
    Returns (n_histories, n_commits_checked, failures) with failures = [{"sig":..., "msg":..., "replay":...}]."""
    _java_opts()
    binary = ctx.build("vals")
    nsim = nsim or (28 if ctx.quick else 140)
    jobs = [lambda: _c20_cover_behaviours(ctx, "dict", 100000), lambda: _c20_cover_behaviours(ctx, "arr", 200000),
            lambda: ctx.tlc(C20_FILES, "Sim_Containers", "Sim_Containers.cfg", simulate=nsim, depth=C20_SIM_DEPTH + 1,
                            tag="health-sim", timeout=2400, count=False, extra=["-aril", str(7000 * ctx.seed)])]
    (r1, g1, dict_behs, _), (r2, g2, arr_behs, _), sim = _parallel(jobs, width=3)
    sim_behs = [{"id": 900000 + i, "cn": C20_SIM_CN, "nv": C20_SIM_NV, "deep": True, "steps": h}
                for i, h in enumerate(_unique_hists(sim, C20_SIM_DEPTH))]
    if len(sim_behs) < nsim // 2:
        raise Infra("simulation produced too few behaviours: %d of %d" % (len(sim_behs), nsim))
    failures = []

    def classify(f):
        failures.append({"sig": f.get("sig") or {"kind": f["kind"]},
                         "msg": "behaviour %d (%s, representation %s) step %d: %s" % (f["id"], f.get("engine"), f.get("ref"), f["step"], f["msg"]),
                         "replay": {"behaviour": f.get("beh"), "source": f.get("src"), "engine": f.get("engine"), "refinement": f.get("ref")}})

    key_refs = ["sk", "lk", "dnS", "dnL", "str", "bigI"]
    n_hist, n_commits = 0, 0
    cover = dict_behs + arr_behs
    for k, r in enumerate(key_refs):
        part = [b for i, b in enumerate(cover) if i % len(key_refs) == k] if ctx.quick else cover
        part = part + [b for i, b in enumerate(sim_behs) if ctx.quick is False or i % len(key_refs) == k]
        sm, _ = _replay(ctx, binary, "c20", part, "health-" + r, classify, env={"VALS_REFS": r, "VERIF_HEALTH": "1"})
        n_hist += sm["replays"]
        n_commits += sm.get("health_checks", 0)
    return n_hist, n_commits, failures


# ------------------------------------------------------------------------------------------ C05
C05_FILES = ["system/Values.tla", "system/MC_Values.tla", "system/Sim_Values.tla",
             "system/Cover_Values_tx.cfg", "system/Cover_Values_st.cfg", "system/Cover_Values_tmp.cfg", "system/Sim_Values.cfg"]
C05_SIM_DEPTH = 120


def _c05_cover_behaviours(ctx, name, base_id):
    is_final = lambda s: json.loads(s)["phase"] == "idle"
    r, g, paths = _cover(ctx, C05_FILES, "MC_Values", "Cover_Values_%s.cfg" % name, "cover-" + name, is_final, max_len=90)
    behs, triples = [], set()
    for n, path in enumerate(paths):
        steps = [g.edges[i][1] for i in path]
        for i in path:
            ks, a, kt, t = g.edges[i]
            triples.add((ks, json.dumps({k: v for k, v in a.items() if k != "obs"}, sort_keys=True)))
        behs.append({"id": base_id + n, "steps": steps})
    ctx.log("cover %s: %d states, %d transitions -> %d behaviours" % (name, len(g.states), len(g.edges), len(behs)))
    return r, g, behs, triples


def check_C05(ctx):
    _java_opts()
    binary = ctx.build("vals")
    nsim = 64 if ctx.quick else 600
    chunks = 4 if ctx.quick else 16
    per = (nsim + chunks - 1) // chunks

    def sim_job(k):
        return lambda: ctx.tlc(C05_FILES, "Sim_Values", "Sim_Values.cfg", simulate=per, depth=C05_SIM_DEPTH + 1,
                               tag="sim%d" % k, timeout=2400, count=False, extra=["-aril", str(1000 * ctx.seed + k)])

    covers = ["tx", "st", "tmp"]
    jobs = [(lambda nm=nm, i=i: _c05_cover_behaviours(ctx, nm, 100000 * (i + 1))) for i, nm in enumerate(covers)]
    jobs += [sim_job(k) for k in range(chunks)]
    results = _parallel(jobs, width=max(2, min(6, ctx.cores // 2)))
    cres, sims = results[:len(covers)], results[len(covers):]

    def classify(f):
        ctx.report(f.get("sig") or {"kind": f["kind"]},
                   "behaviour %d (%s, payload as %s) step %d: %s" % (f["id"], f.get("engine"), f.get("ref"), f["step"], f["msg"]),
                   {"behaviour": f.get("beh"), "source": f.get("src"), "engine": f.get("engine"), "refinement": f.get("ref")})

    triples, cover_behs, states, transitions = set(), [], 0, 0
    for r, g, behs, tr in cres:
        cover_behs += behs
        triples |= tr
        states += len(g.states)
        transitions += len(g.edges)
    prefs = ["int", "str", "big"]      # 8-byte Int, 300-byte String, non-inlinable Int (1 << 8000)
    if ctx.quick:
        # every transition under both engines; the payload representation alternates over the behaviours
        cparts = {r: [b for i, b in enumerate(cover_behs) if prefs[i % len(prefs)] == r] for r in prefs}
    else:
        cparts = {r: cover_behs for r in prefs}
    csum = [_replay(ctx, binary, "c05", cparts[r], "cover-" + r, classify, env={"VALS_REFS": r})[0] for r in prefs]
    s1 = {k: sum(x[k] for x in csum) for k in ("replays", "transactions", "steps")}
    s1["engines"], s1["refinements"] = csum[0]["engines"], 1
    ctx.add_sample({"kind": "transition-cover behaviour", "steps": [{k: v for k, v in st.items() if k != "obs"} for st in cover_behs[len(cover_behs) // 3]["steps"][:10]]})

    sim_behs = []
    for r in sims:
        for h in _unique_hists(r, C05_SIM_DEPTH):
            sim_behs.append({"id": 900000 + len(sim_behs), "steps": h})
    if len(sim_behs) < nsim // 2:
        raise Infra("simulation produced too few behaviours: %d of %d" % (len(sim_behs), nsim))
    ops = {}
    for b in sim_behs:
        for st in b["steps"]:
            lab = {k: v for k, v in st.items() if k != "obs"}
            ops[st["op"]] = ops.get(st["op"], 0) + 1
            triples.add(("sim", json.dumps(lab, sort_keys=True), json.dumps(st.get("obs"), sort_keys=True)))
    need = {"newO", "newI", "assignO", "idO", "argMutO", "readI", "writeI", "appendA", "popA", "delD", "setP", "setX", "push",
            "save", "load", "copySt", "refO", "borrow", "refI", "tempMut", "commit", "abort"}
    if need - set(ops):
        raise Infra("simulated histories never exercised: %s" % sorted(need - set(ops)))
    via_ref = sum(1 for b in sim_behs for st in b["steps"] if st.get("root") in ("r", "q") and st["op"] in ("setP", "setX", "push", "writeI", "appendA", "delD"))
    s2, _ = _replay(ctx, binary, "c05", sim_behs, "sim", classify, env={"VALS_REFS": ",".join(prefs)})
    s2 = dict(s2, transactions=s2["transactions"] * s2["refinements"], steps=s2["steps"] * s2["refinements"])
    h0 = sim_behs[0]["steps"]
    ctx.add_sample({"kind": "simulated history (first steps, observations omitted)", "steps": [{k: v for k, v in st.items() if k != "obs"} for st in h0[:12]]})
    ctx.add_sample({"kind": "a predicted observation", "step": h0[min(8, len(h0) - 1)]})
    return ctx.finish({
        "states": states, "transitions": transitions,
        "traces_validated_against_impl": s1["replays"] + s2["replays"],
        "transactions_executed": (s1["transactions"] + s2["transactions"]) * s1["engines"] * s1["refinements"],
        "evaluations": (s1["steps"] + s2["steps"]) * s1["engines"] * s1["refinements"],
        "distinct_nontrivial": len(triples),
        "rule": "distinct (abstract state, step) pairs of the three bounded configurations plus distinct (step, predicted deep observation) pairs of the simulated histories; after each of them every variable, both references and every storage path are compared deeply",
        "exhaustive": True,
        "exhaustive_scope": "the three bounded configurations are enumerated completely and every one of their transitions is replayed; the simulated histories are samples",
        "cover_behaviours": len(cover_behs), "simulated_histories": len(sim_behs),
        "mutations_through_references_in_simulation": via_ref,
        "mutations_of_unbound_temporaries": {"cover": sum(1 for b in cover_behs for st in b["steps"] if st["op"] == "tempMut"),
                                             "simulation": ops.get("tempMut", 0)},
        "operations_in_simulation": ops,
    }, assumptions=["host = repo's TestRuntimeInterface/TestLedger (harness/host), atree validation on",
                    "value universe: struct Outer {p, i: Inner, a: [Inner], d: {String: Inner}}, struct Inner {x, xs: [payload]}; payload as Int or as 300-byte String",
                    "references whose target is no longer reachable from a variable or from storage are not used (dangling references are outside the property)"])


# ------------------------------------------------------------------------------------------ C51
C51_STRUCTS = {
    # kind: (module, cover cfg quick, cover cfg thorough, sim cfg, sim depth, variants)
    "omap": ("MC_OrderedMap", "Cover_OrderedMap.cfg", "Cover_OrderedMap4.cfg", "Sim_OrderedMap.cfg", 3000, ["zero", "new"]),
    "pset": ("PersistentSet", "Cover_PersistentSet2.cfg", "Cover_PersistentSet.cfg", "Sim_PersistentSet.cfg", 1500, [""]),
    "bimap": ("BiMap", "Cover_BiMap.cfg", "Cover_BiMap.cfg", "Sim_BiMap.cfg", 3000, [""]),
    "itree": ("IntervalTree", "Cover_IntervalTree.cfg", "Cover_IntervalTree3.cfg", "Sim_IntervalTree.cfg", 1500, [""]),
}
C51_FILES = ["coll/OrderedMap.tla", "coll/MC_OrderedMap.tla", "coll/MC_Coll.tla", "coll/PersistentSet.tla", "coll/BiMap.tla",
             "coll/IntervalTree.tla", "coll/Cover_OrderedMap.cfg", "coll/Cover_OrderedMap4.cfg", "coll/Sim_OrderedMap.cfg",
             "coll/Cover_PersistentSet.cfg", "coll/Cover_PersistentSet2.cfg", "coll/Sim_PersistentSet.cfg", "coll/Cover_BiMap.cfg", "coll/Sim_BiMap.cfg",
             "coll/Cover_IntervalTree.cfg", "coll/Cover_IntervalTree3.cfg", "coll/Sim_IntervalTree.cfg"]


def check_C51(ctx):
    _java_opts()
    binary = ctx.build("vals")
    nsim = 6 if ctx.quick else 60          # histories per structure (1 500 - 3 000 calls each)

    def cover_job(kind):
        module, cq, ct, _, _, variants = C51_STRUCTS[kind]
        def run():
            r, g, paths = _cover(ctx, C51_FILES, module, cq if ctx.quick else ct, "cover-" + kind, None, max_len=400)
            behs = []
            for path in paths:
                steps = [g.edges[i][1] for i in path]
                for v in variants:
                    behs.append({"kind": kind, "variant": v, "steps": steps})
            tr = set((g.edges[i][0], json.dumps({k: v for k, v in g.edges[i][1].items() if k != "st"}, sort_keys=True)) for i in range(len(g.edges)))
            ctx.log("cover %s: %d states, %d transitions -> %d behaviours" % (kind, len(g.states), len(g.edges), len(behs)))
            return kind, g, behs, tr
        return run

    def sim_job(kind):
        module, _, _, cfg, depth, variants = C51_STRUCTS[kind]
        def run():
            r = ctx.tlc(C51_FILES, module, cfg, simulate=nsim, depth=depth + 1, tag="sim-" + kind, timeout=2400, count=False)
            behs = []
            for h in _unique_hists(r, depth):
                for v in variants:
                    behs.append({"kind": kind, "variant": v, "steps": h})
            return kind, behs
        return run

    results = _parallel([cover_job(k) for k in C51_STRUCTS] + [sim_job(k) for k in C51_STRUCTS], width=4 if ctx.quick else 8)
    covers, sims = results[:len(C51_STRUCTS)], results[len(C51_STRUCTS):]

    def classify(f):
        ctx.report(f.get("sig") or {"kind": f["kind"]}, "behaviour %d step %d: %s" % (f["id"], f["step"], f["msg"]), {"behaviour": f.get("beh")})

    triples, cover_behs, states, transitions, per = set(), [], 0, 0, {}
    for kind, g, behs, tr in covers:
        cover_behs += behs
        triples |= set((kind,) + t for t in tr)
        states += len(g.states)
        transitions += len(g.edges)
        per[kind] = {"cover_states": len(g.states), "cover_transitions": len(g.edges)}
    for i, b in enumerate(cover_behs):
        b["id"] = 100000 + i
    s1, _ = _replay(ctx, binary, "c51", cover_behs, "cover", classify)
    sim_behs = []
    for kind, behs in sims:
        if len(behs) < max(1, nsim // 2):
            raise Infra("simulation of %s produced too few histories: %d" % (kind, len(behs)))
        sim_behs += behs
        per[kind]["simulated_histories"] = len(behs)
        per[kind]["calls_per_history"] = len(behs[0]["steps"])
        ops = {}
        for b in behs:
            for st in b["steps"]:
                ops[st["op"]] = ops.get(st["op"], 0) + 1
                triples.add((kind, "sim", json.dumps(st, sort_keys=True)))
        per[kind]["operations"] = ops
    for i, b in enumerate(sim_behs):
        b["id"] = 900000 + i
    s2, _ = _replay(ctx, binary, "c51", sim_behs, "sim", classify)
    for kind, g, behs, tr in covers:
        ctx.add_sample({"kind": "transition-cover behaviour of " + kind, "steps": behs[len(behs) // 2]["steps"][:6]}, limit=8)
    ctx.add_sample({"kind": "simulated history of the ordered map (first calls)", "steps": [b for b in sim_behs if b["kind"] == "omap"][0]["steps"][:8]}, limit=8)
    return ctx.finish({
        "states": states, "transitions": transitions,
        "traces_validated_against_impl": s1["replays"] + s2["replays"],
        "evaluations": s1["steps"] + s2["steps"],
        "distinct_nontrivial": len(triples),
        "rule": "distinct (abstract state, call) pairs of the four bounded models plus distinct (call, predicted result, predicted contents) labels of the simulated histories; result and full contents / iteration order compared after each",
        "exhaustive": True,
        "exhaustive_scope": "the bounded models are enumerated completely and every one of their transitions is replayed; the simulated histories are samples",
        "per_structure": per,
    }, assumptions=["ordered map is exercised both as the zero value (as most of the code base uses it) and built with New",
                    "interval tree positions are integers; where the code may return any of several entries the model gives the allowed set"])


META = {
    "C51": {
        "level_text": "Exhaustive TLC exploration of bounded models of the four collections (ordered map: <=3-4 keys; persistent ordered set: 3 sets in any parent relation over 2 items; bimap: 4x4; interval tree: 3 points, <=2-3 entries) with their invariants and action properties (Set keeps the position, Delete keeps the order, views only grow, a child never changes its parent, Put adds exactly one entry, injectivity); every transition of those graphs and simulated histories of 1 500-3 000 calls over 16 keys are replayed by direct Go calls on common/orderedmap, common/persistent, common/intervalst and common/bimap; after every call the result and the complete contents (forward and backward iteration order, every set's view, all pairs in both directions, the bag of values) are compared.",
        "level_note": "Trusted: TLC and the Go driver. Where the code may choose among entries (interval tree Get / Search) the model gives the allowed set and membership is checked.",
        "technique": "TLA+ specs (spec/coll) model-checked with TLC; spec behaviours (transition cover + simulation) replayed by direct Go calls and compared after every call",
        "design_ref": "DESIGN.md section 5 C51",
        "engine": "E2 replay",
    },
    "C05": {
        "level_text": "Exhaustive TLC exploration of three bounded configurations of Values.tla (a heap of struct / array / dictionary nodes with explicit deep copies; 2 Outer + 1 Inner variable, 2 steps per transaction; and 1 variable + 1 storage path over 2 transactions; and the same with mutations of unbound temporaries -- storage copy, returned values, getter results, dereferences -- directly and through a reference to the temporary, at depth 1-3) with the invariants NoSharing (no two roots reach a common node, every node has one parent), NoGarbage, RefsAreLive, Shapes and the action property that a mutation changes the value of at most one root; every transition of those graphs and simulated 120-step histories (3 Outer + 2 Inner variables, 2 storage paths, references to variables, to nested members and to stored values, nesting struct > array/dictionary > struct > array) are replayed on the real runtime under interpreter and VM with 8-byte and 300-byte payloads; after every step the deep value of every variable, of what both references show and of every storage path is compared with the model, and after every transaction the stored values are re-read from the ledger.",
        "level_note": "Trusted: TLC, the Go renderer, the repo's test ledger as host. Bounded: array lengths <= 3, two dictionary keys; dangling references are not exercised.",
        "technique": "TLA+ spec (Values.tla) model-checked with TLC; spec behaviours (transition cover + simulation) replayed into the real runtime and compared step by step",
        "design_ref": "DESIGN.md section 5 C05",
        "engine": "E2 replay",
    },
    "C20": {
        "level_text": "Exhaustive TLC exploration of four bounded configurations of Containers.tla (stored array of <=4 elements over 2 values; in-memory array/dictionary with up to 3 calls per transaction; stored dictionary with <=3 keys; constant-sized array) with the model's invariants and action properties; every transition of those graphs, in both access modes (borrowed reference / load-modify-save), is replayed on the real runtime under interpreter and VM with elements represented as Int, 300-byte String, nested array and nested dictionary and keys as Int, short and 300-character strings, comparing every call's result, index-error aborts, and the full stored contents re-read by a fresh script after every transaction. Simulated deep histories (300 steps, bulk fills of 40-450 elements/keys crossing atree slab thresholds, aborts, reloads) are replayed the same way.",
        "level_note": "Trusted: TLC, the Go renderer of model steps to Cadence, the repo's test ledger as host. Bounded: lengths <= 700, element values are small integers under three representations; dictionary order is compared as a set because the property promises none.",
        "technique": "TLA+ spec (Containers.tla) model-checked with TLC; spec behaviours (transition cover + simulation) replayed into the real runtime and compared step by step",
        "design_ref": "DESIGN.md section 5 C20",
        "engine": "E2 replay",
    },
}
