"""C33 (outcome determinism) and C31 (metering determinism), spec/system/Determinism.tla.
Observations (key, digest) are recorded from the real runtime in several fresh processes with
different CPU configurations (C33) or after model-generated process histories vs. alone in a
fresh process (C31); TLC validates that all observations form a function of the key."""
import json, os, subprocess, hashlib
from vlib.core import Infra, read_ndjson, write_ndjson
from checks.system_storage import FILES as STORAGE_FILES, dedupe_sim

LEVEL = {"C33": "model_checking", "C31": "model_checking"}
DFILES = ["system/Determinism.tla", "system/MC_Determinism.tla", "system/MC_Determinism.cfg",
          "system/Trace_Determinism.tla", "system/Trace_Determinism.cfg"]


def validate_observations(ctx, obs, nparts):
    """partition by key, one TLC per partition; returns list of rejected observations"""
    import concurrent.futures as cf
    parts = [[] for _ in range(nparts)]
    for o in obs:
        h = int(hashlib.md5(o["k"].encode()).hexdigest(), 16) % nparts
        parts[h].append(o)

    def one(i):
        if not parts[i]:
            return []
        d = os.path.join(ctx.work, "obs%d" % i)
        os.makedirs(d, exist_ok=True)
        write_ndjson(os.path.join(d, "trace.ndjson"), [{"k": o["k"], "d": o["d"]} for o in parts[i]])
        res = ctx.tlc(DFILES + [os.path.join(d, "trace.ndjson")], "Trace_Determinism", "Trace_Determinism.cfg",
                      workers=1, tag="obs%d" % i, count=False, timeout=1500)
        if res.distinct != len(parts[i]) + 1:
            raise Infra("observation trace not fully consumed")
        import re
        rej = []
        for ln in res.lines:
            m = re.match(r'^<<"REJECT", (\d+)>>', ln)
            if m:
                rej.append(parts[i][int(m.group(1)) - 1])
        return rej
    with cf.ThreadPoolExecutor(max_workers=min(nparts, 8)) as ex:
        out = []
        for r in ex.map(one, range(nparts)):
            out += r
    return out


def first_of(obs, k):
    for o in obs:
        if o["k"] == k:
            return o
    return None


def check_C33(ctx):
    binary = ctx.build("determ")
    r0 = ctx.tlc(DFILES, "MC_Determinism", "MC_Determinism.cfg")
    nsim = 60 if ctx.quick else 1500
    rs = ctx.tlc(STORAGE_FILES, "Sim_Storage", "MC_Storage_sim.cfg", simulate=nsim, depth=61, tag="sim", count=False)
    hists = dedupe_sim(rs.json_lines(), 60)
    behs = [{"id": i, "steps": h} for i, h in enumerate(hists)]
    bf = os.path.join(ctx.work, "behaviours.ndjson")
    write_ndjson(bf, behs)
    ncpu = os.cpu_count() or 1
    configs = [("gomaxprocs1", {"GOMAXPROCS": "1"}, None), ("default", {}, None),
               ("gomaxprocs2", {"GOMAXPROCS": "2"}, None), ("taskset1", {}, "0")]
    if ncpu >= 4:
        configs.append(("taskset4", {}, "0-3"))
    if not ctx.quick:
        configs += [("gomaxprocs16", {"GOMAXPROCS": "16"}, None), ("repeat", {}, None)]
    obs = []
    for label, env, cpus in configs:
        of = os.path.join(ctx.work, "obs-%s.ndjson" % label)
        cmd = [binary, "outputs", bf, of, label]
        if cpus is not None:
            cmd = ["taskset", "-c", cpus] + cmd
        ctx.run(cmd, env=env, timeout=3000)
        rows = read_ndjson(of)
        obs += [r for r in rows if not r.get("summary")]
    rej = validate_observations(ctx, obs, 4 if ctx.quick else 12)
    for o in rej:
        ref = first_of(obs, o["k"])
        ctx.report({"kind": "output-differs", "key_class": o["k"].split(".")[0][:4]},
                   "execution %s produced different host-visible output in run '%s' than in run '%s'\n--- %s\n%s\n--- %s\n%s"
                   % (o["k"], o["run"], ref["run"], ref["run"], ref.get("detail", ""), o["run"], o.get("detail", "")),
                   {"key": o["k"], "runs": [ref, o]})
    keys = set(o["k"] for o in obs)
    ctx.add_sample({"observation": obs[0]})
    ctx.add_sample({"run_configurations": [c[0] for c in configs]})
    return ctx.finish({
        "states": r0.distinct, "transitions": r0.generated,
        "traces_validated_against_impl": len(configs),
        "evaluations": len(obs), "distinct_nontrivial": len(keys),
        "rule": "distinct executed (history, transaction/projection script, engine) keys, each observed once per run configuration; digest covers result, error text, events, logs, ordered register writes with values",
        "observations": len(obs),
    }, assumptions=["Go map iteration order is randomised per run by the Go runtime", "CPU counts varied with GOMAXPROCS and taskset"])


def check_C31(ctx):
    binary = ctx.build("determ")
    r0 = ctx.tlc(DFILES, "MC_Determinism", "MC_Determinism.cfg")
    nprog = int(ctx.run([binary, "corpus-size"]).stdout.strip())
    nh = 40 if ctx.quick else 400
    rh = ctx.tlc(["system/MeterHist.tla", "system/MeterHist.cfg"], "MeterHist", "MeterHist.cfg", simulate=nh, depth=8,
                 tag="hist", count=False)
    hists = []
    seen = set()
    for h in rh.json_lines():
        k = json.dumps(h)
        if k not in seen:
            seen.add(k)
            hists.append(h)
    if len(hists) < nh // 4:
        raise Infra("too few histories from TLC: %d" % len(hists))
    obs = []
    # each program alone in a fresh process
    for p in range(1, nprog + 1):
        hf = os.path.join(ctx.work, "alone%d.ndjson" % p)
        write_ndjson(hf, [[p]])
        of = os.path.join(ctx.work, "alone%d.obs" % p)
        ctx.run([binary, "meter", hf, of, "fresh-process-%d" % p])
        obs += [r for r in read_ndjson(of) if not r.get("summary")]
    # shared processes: a few processes, each running many histories back to back
    nproc = 4
    for i in range(nproc):
        hf = os.path.join(ctx.work, "shared%d.ndjson" % i)
        write_ndjson(hf, hists[i::nproc])
        of = os.path.join(ctx.work, "shared%d.obs" % i)
        ctx.run([binary, "meter", hf, of, "shared-process-%d" % i], env={"GOMAXPROCS": str([1, 2, 4, 16][i])}, timeout=3000)
        obs += [r for r in read_ndjson(of) if not r.get("summary")]
    rej = validate_observations(ctx, obs, 4)
    for o in rej:
        ref = first_of(obs, o["k"])
        ctx.report({"kind": "metering-differs", "program": o["k"]},
                   "program %s metered differently in '%s' (%s) than in '%s' (%s)" % (o["k"], o["run"], o.get("detail"), ref["run"], ref.get("detail")),
                   {"key": o["k"], "runs": [ref, o]})
    ctx.add_sample({"history": hists[0], "observation": obs[0]})
    return ctx.finish({
        "states": r0.distinct, "transitions": r0.generated,
        "traces_validated_against_impl": len(hists) + nprog,
        "evaluations": len(obs), "distinct_nontrivial": len(set(o["k"] for o in obs)),
        "rule": "distinct (program, engine) keys; each observed alone in a fresh process and at every occurrence in TLC-generated process histories of length 6 (shared processes with GOMAXPROCS 1/2/4/16); digest = exact sequence of (kind, amount) computation and memory meter calls plus outcome class",
        "histories": len(hists), "programs": nprog,
    }, assumptions=["each run uses a fresh world (same state); process-level caches are what varies"])


META = {
 "C33": {"level_text": "Model-generated storage histories (Storage.tla simulation, all three engines) plus bulk multi-slab, multi-account programs are executed in several fresh processes under different GOMAXPROCS / CPU-affinity configurations; one digest per executed transaction or script covers result, error text, events, logs and the ordered register writes with their values; TLC validates that the observations of all runs form a function of the execution key (Determinism.tla).",
         "level_note": "Trusted: TLC, digest construction. Schedules are sampled (a handful of CPU configurations), not enumerated; Go map order varies per process by the Go runtime's randomisation.",
         "technique": "TLA+ spec Determinism.tla; observations recorded from repeated real runs validated by TLC (trace validation)", "design_ref": "DESIGN.md section 5 C33", "engine": "E3 trace validation"},
 "C31": {"level_text": "TLC generates process histories (sequences of corpus programs); the harness runs each program alone in a fresh process and at each occurrence inside shared processes (warm caches, different GOMAXPROCS), each time on the same fresh state, recording the exact (kind, amount) sequences of the computation and memory gauges; TLC validates that the digests are a function of (program, engine).",
         "level_note": "Trusted: TLC, gauge recording. Corpus of ~30 programs (integer cache boundaries, every numeric family, strings, containers, types, casts, resources, storage, capabilities, failing programs).",
         "technique": "TLA+ specs MeterHist.tla (history generation) and Determinism.tla; metering observations validated by TLC", "design_ref": "DESIGN.md section 5 C31", "engine": "E3 trace validation"},
}
