"""C28 — host failures are never swallowed (spec/system/HostFaults.tla).
Fault enumeration: for every corpus program, every (callback kind, call index) crash point and both
failure modes (error return / panic) the real runtime is re-run with that host call failing; every
faulty execution's trace (host calls, hook events, outcome incl. whether the returned error carries
the injected failure and whether a panic escaped) is validated by TLC against the specification."""
import json, os
from vlib.core import Infra, read_ndjson
from vlib import tracecheck

LEVEL = {"C28": "fault_enumeration"}
FILES = ["system/Ledger.tla", "system/HostFaults.tla", "system/MC_HostFaults.tla", "system/MC_HostFaults.cfg",
         "system/Trace_HostFaults.tla", "system/Trace_HostFaults.cfg"]


def classify(e, ev):
    """semantic signature of a rejected faulty execution"""
    f = e["faults"].strip()
    cb = f.split("#")[0] if f else ""
    return {"program": e["program"], "callback": cb, "faults": f, "outcome": e["class"].split(":")[0],
            "rejected_event": ev["ev"]}


def check_C28(ctx):
    binary = ctx.build("faults")
    r0 = ctx.tlc(FILES, "MC_HostFaults", "MC_HostFaults.cfg")
    tr = os.path.join(ctx.work, "trace.ndjson")
    ix = os.path.join(ctx.work, "index.ndjson")
    # model-generated programs: transactions of Storage.tla simulations join the hand-written corpus
    from checks.system_storage import FILES as STORAGE_FILES, dedupe_sim
    from vlib.core import write_ndjson
    rs = ctx.tlc(STORAGE_FILES, "Sim_Storage", "MC_Storage_sim.cfg", simulate=40 if ctx.quick else 400, depth=61, tag="sim", count=False)
    behs = [{"id": i, "steps": h} for i, h in enumerate(dedupe_sim(rs.json_lines(), 60))]
    bf = os.path.join(ctx.work, "behaviours.ndjson")
    write_ndjson(bf, behs)
    ctx.run([binary, tr, ix, bf], timeout=3000)
    index = read_ndjson(ix)
    events = read_ndjson(tr)
    summ = [r for r in index if r.get("summary")][0]
    execs = [r for r in index if not r.get("summary")]
    nchunks = 4 if ctx.quick else 12
    import concurrent.futures as cf
    chunks = [execs[i::nchunks] for i in range(nchunks)]
    with cf.ThreadPoolExecutor(max_workers=min(nchunks, 6)) as ex:
        rej = list(ex.map(lambda ci: tracecheck.validate(ctx, FILES, "Trace_HostFaults", "Trace_HostFaults.cfg",
                                                         events, chunks[ci], "c%d" % ci), range(nchunks)))
    nrej = 0
    for chunk_rej in rej:
        for e, k, ev in chunk_rej:
            nrej += 1
            sig = classify(e, ev)
            why = "reported success" if ev["ev"] == "End" and ev.get("ok") else \
                  ("panic escaped" if ev.get("crash") else
                   ("error does not carry the host failure" if ev["ev"] == "End" else "continued with %s after the failure" % ev["ev"]))
            ctx.report(sig, "program %s on %s with injected host failure [%s]: %s (outcome %s); event #%d %s rejected by HostFaults.tla\n%s"
                       % (e["program"], e["engine"], e["faults"].strip(), why, e["class"], k + 1, json.dumps(ev), e["err"][:300]),
                       {"program": e["program"], "source": e["src"], "engine": e["engine"], "faults": e["faults"],
                        "events": events[e["first"] - 1:e["last"]]})
    kinds = sorted(set(e["faults"].split("#")[0] for e in execs if e["faults"].strip()))
    ctx.add_sample({"program": execs[1]["program"], "fault": execs[1]["faults"], "outcome": execs[1]["class"],
                    "trace": events[execs[1]["first"] - 1:execs[1]["last"]][:20]})
    ctx.add_sample({"callback_kinds_faulted": kinds})
    return ctx.finish({
        "evaluations": summ["executions"],
        "distinct_nontrivial": summ["crash_points"],
        "rule": "distinct (program, callback kind, call index) crash points, each run with an error-return and a panic variant; every faulty trace judged by TLC against HostFaults.tla",
        "states": r0.distinct, "transitions": r0.generated,
        "traces_validated_against_impl": summ["executions"] - nrej,
        "programs": summ["programs"], "callback_kinds": len(kinds), "events_judged_by_tlc": summ["events"],
    }, assumptions=["corpus of %d programs (23 hand-written + transactions of Storage.tla simulations with their history as setup) covering storage, events, uuid, randomness, block info, hashing, keys, contracts (add/update/tryUpdate/remove/import), capabilities, inbox, account creation" % summ["programs"],
                    "tryUpdate window delimited by log markers in the corpus program"])


META = {"C28": {
    "level_text": "Every (callback kind, call index) crash point of a corpus of programs is enumerated with error-return and panic variants (thorough: also sampled pairs of failures, all three engines); each faulty execution is recorded as a host-call trace and validated by TLC against HostFaults.tla (after an unexcused host failure: no further register write, no success, the returned error carries the failure, no escaped panic; PubKeyInvalid and TryUpdateFailed are the named exceptions). The fault protocol model itself is model-checked.",
    "level_note": "Trusted: TLC, the tracing/fault-injecting host wrapper, hook call sites. Crash points are those reached by the corpus programs; quick tier caps indices per callback kind at first 6 + last 4.",
    "technique": "fault enumeration over host callbacks; traces of faulty executions validated by TLC against the TLA+ spec HostFaults.tla",
    "design_ref": "DESIGN.md section 5 C28",
    "engine": "E3 trace validation",
}}
