"""C24 — failed transactions and all scripts write no ledger registers (spec/system/Ledger.tla).
impl -> spec: the real runtime executes model-generated storage histories (Storage.tla simulation),
a seeded fraction turned into failure injectors and scripts; the host-call trace of every execution,
merged with the runtime's ExecEnd/CommitBegin/CommitEnd hook events, is validated by TLC against the
Ledger specification (writes only inside the commit phase of a transaction whose code succeeded;
a failed execution issued no write; scripts never write)."""
import json, os, re, shutil
from vlib.core import Infra, read_ndjson, write_ndjson
from vlib import tracecheck
from checks.system_storage import FILES as STORAGE_FILES, dedupe_sim

LEVEL = {"C24": "model_checking"}
LFILES = ["system/Ledger.tla", "system/MC_Ledger.tla", "system/MC_Ledger.cfg",
          "system/Trace_Ledger.tla", "system/Trace_Ledger.cfg"]


def check_C24(ctx):
    binary = ctx.build("ledger")
    # 1. the design: exhaustive check of the Ledger protocol model
    r0 = ctx.tlc(LFILES, "MC_Ledger", "MC_Ledger.cfg", coverage=False)
    # 2. histories from the Storage specification
    nsim = 150 if ctx.quick else 2500
    depth = 60
    rs = ctx.tlc(STORAGE_FILES, "Sim_Storage", "MC_Storage_sim.cfg", simulate=nsim, depth=depth + 1, tag="sim", count=False)
    hists = dedupe_sim(rs.json_lines(), depth)
    behs = [{"id": i, "steps": h} for i, h in enumerate(hists)]
    if len(behs) < nsim // 3:
        raise Infra("too few simulated histories: %d" % len(behs))
    bf = os.path.join(ctx.work, "behaviours.ndjson")
    write_ndjson(bf, behs)
    # 3. record traces from the real runtime (chunked so TLC validates in parallel)
    nchunks = 4 if ctx.quick else 16
    chunks = [behs[i::nchunks] for i in range(nchunks)]
    total_exec = total_events = 0
    variants = {}
    accepted = 0
    import concurrent.futures as cf

    def do_chunk(ci):
        cb = os.path.join(ctx.work, "b%d.ndjson" % ci)
        tr = os.path.join(ctx.work, "trace%d.ndjson" % ci)
        ix = os.path.join(ctx.work, "index%d.ndjson" % ci)
        write_ndjson(cb, chunks[ci])
        ctx.run([binary, cb, tr, ix], timeout=3000)
        index = read_ndjson(ix)
        events = read_ndjson(tr)
        execs = [r for r in index if not r.get("summary")]
        rejected = tracecheck.validate(ctx, LFILES, "Trace_Ledger", "Trace_Ledger.cfg", events, execs, "trace%d" % ci)
        return ci, rejected, index, events

    with cf.ThreadPoolExecutor(max_workers=min(nchunks, 8)) as ex:
        results = list(ex.map(do_chunk, range(nchunks)))
    for ci, rejected, index, events in results:
        summ = [r for r in index if r.get("summary")][0]
        execs = [r for r in index if not r.get("summary")]
        total_exec += summ["executions"]
        total_events += summ["events"]
        for e in execs:
            k = (e["kind"], e["variant"], e["class"].split(":")[0])
            variants[k] = variants.get(k, 0) + 1
        accepted += len(execs) - len(rejected)
        for e, k, ev in rejected:
            evs = events[e["first"] - 1:e["last"]]
            ctx.report({"kind": "trace-rejected", "variant": e["variant"], "exec_kind": e["kind"], "class": e["class"],
                        "writes": e["writes"] > 0, "rejected_event": ev["ev"]},
                       "execution (%s, variant %s, engine %s, outcome %s) is not a behaviour of Ledger.tla: event #%d %s rejected; "
                       "register writes issued: %d" % (e["kind"], e["variant"], e["engine"], e["class"], k + 1,
                                                       json.dumps(ev), e["writes"]),
                       {"source": e["src"], "engine": e["engine"], "variant": e["variant"], "events": evs})
    if execs:
        ctx.add_sample({"execution": {k: v for k, v in execs[0].items() if k != "src"}, "source": execs[0]["src"][:600]})
        ctx.add_sample({"trace_head": read_ndjson(os.path.join(ctx.work, "trace0.ndjson"))[:25]})
    return ctx.finish({
        "states": r0.distinct, "transitions": r0.generated,
        "traces_validated_against_impl": accepted,
        "executions_recorded": total_exec, "events_judged_by_tlc": total_events,
        "evaluations": total_exec,
        "distinct_nontrivial": len(variants),
        "rule": "distinct (execution kind, injected failure variant, outcome class) combinations among recorded executions; each execution's full host-call trace is judged by TLC",
        "variant_histogram": {"%s/%s/%s" % k: v for k, v in sorted(variants.items())},
    }, assumptions=["register write = host SetValue; AllocateSlabIndex and contract-code updates are separate host channels (logged, modelled, not counted)",
                    "hook events ExecEnd/CommitBegin/CommitEnd come from guarded one-line hooks in /repo/runtime (build tag verif)"])


META = {"C24": {
    "level_text": "The Ledger protocol model (phases running/ended/committing, writes enabled only in the commit phase of a successful transaction, failed executions and scripts with zero writes) is checked exhaustively by TLC; then thousands of real executions (model-generated storage histories; injected panic / assertion / pre- and post-condition / syntax / type error / computation- and memory-limit failures at varying depths; scripts mutating storage through authorized accounts; interpreter, VM, VM+peephole) are recorded as host-call traces merged with the runtime's linearization-point hook events and each trace is validated by TLC against the specification.",
    "level_note": "Trusted: TLC, the tracing host wrapper, three add-only hook call sites in /repo/runtime. Register write = SetValue. Coverage of failure points is what the injector variants reach, not every instruction boundary.",
    "technique": "TLA+ spec (Ledger.tla) model-checked with TLC; trace validation of host-call traces recorded from the real runtime (Trace_Ledger.tla)",
    "design_ref": "DESIGN.md section 5 C24",
    "engine": "E3 trace validation",
}}
