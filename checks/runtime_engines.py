"""C34 (VM == interpreter == VM+peephole) and C01 (no internal errors for accepted programs).
Both are riders on the model-generated behaviours of the other specifications: the donor checks are
run with execution recording switched on (host.World writes every executed transaction/script with
its world history), then harness/cmd/diff replays every distinct recorded history from scratch on the
three engines, compares everything host-visible step by step (C34) and classifies every outcome (C01)."""
import json, os, subprocess, sys, time
from vlib.core import Infra, VERIF, read_ndjson

LEVEL = {"C34": "model_checking", "C01": "model_checking"}
# donors: checks whose drivers execute model-generated programs through host.World
QUICK_DONORS = ["C22", "C10", "C02", "C25", "C49", "C20"]
ALL_DONORS = ["C22", "C02", "C04", "C05", "C20", "C25", "C26", "C27", "C49", "C10", "C52", "C07", "C09", "C48", "C29", "C18", "C19", "C21"]


def enabled():
    try:
        return set(open(os.path.join(VERIF, "enabled.txt")).read().split())
    except FileNotFoundError:
        return set()


def run_donors(ctx, donors, tier):
    import concurrent.futures as cf
    recdir = os.path.join(ctx.work, "rec")
    evdir = os.path.join(ctx.work, "donor-evidence")
    os.makedirs(recdir, exist_ok=True)
    stats = {}

    def one(d):
        env = dict(os.environ)
        env.update({"VERIF_RECORD_DIR": os.path.join(recdir, d), "VERIF_WORK_SUFFIX": "-donor-of-" + ctx.pid,
                    "VERIF_EVIDENCE_DIR": evdir, "VERIF_SEED": str(ctx.seed), "VERIF_CORES": "4",
                    "VERIF_RECORD_EVERY": "16" if ctx.quick else "3"})
        t = time.time()
        p = subprocess.run([os.path.join(VERIF, "bin", "vcheck"), d, "--tier", tier], env=env, stdout=subprocess.PIPE,
                           stderr=subprocess.STDOUT, text=True, cwd=VERIF)
        return d, p.returncode, time.time() - t, p.stdout[-1500:]
    with cf.ThreadPoolExecutor(max_workers=6) as ex:
        for d, rc, wall, tail in ex.map(one, donors):
            stats[d] = {"rc": rc, "wall_s": round(wall, 1)}
            ctx.log("donor %s rc=%d %.0fs" % (d, rc, wall))
            if rc == 2:
                raise Infra("donor check %s failed with an infrastructure error:\n%s" % (d, tail))
    return recdir, stats


def run_diff(ctx, donors, tier):
    binary = ctx.build("diff")
    recdir, stats = run_donors(ctx, donors, tier)
    rows, summ = [], {"recorded_histories": 0, "distinct_histories": 0, "steps": 0, "diffs": 0, "internal": 0}
    for d in donors:
        dd = os.path.join(recdir, d)
        if not os.path.isdir(dd):
            continue
        rf = os.path.join(ctx.work, "diff-%s.ndjson" % d)
        ctx.run([binary, dd, rf], timeout=3400)
        rs = read_ndjson(rf)
        for r in rs:
            if r.get("summary"):
                for k in summ:
                    summ[k] += r[k]
                stats[d].update({"histories": r["distinct_histories"], "steps": r["steps"]})
            else:
                r["donor"] = d
                rows.append(r)
    if summ["distinct_histories"] == 0:
        raise Infra("no histories recorded by the donors %s" % donors)
    return rows, summ, stats


def donors_for(ctx):
    en = enabled()
    cand = QUICK_DONORS if ctx.quick else ALL_DONORS
    if os.environ.get("VERIF_DONORS"):       # development aid: restrict the donors
        cand = os.environ["VERIF_DONORS"].split(",")
    ds = [d for d in cand if d in en]
    if not ds:
        raise Infra("no donor checks enabled")
    return ds


def run_peephole_shapes(ctx):
    """PeepholeShapes.tla: control-flow shapes over the leaf forms the peephole pass rewrites, rendered as
    closures and as global functions, run on the three engines and compared with the specified value."""
    binary = ctx.build("peep")
    r = ctx.tlc(["lang/PeepholeShapes.tla", "lang/PeepholeShapes.cfg"], "PeepholeShapes", "PeepholeShapes.cfg", workers=1, tag="peepshapes")
    js = r.json_lines()
    if not js:
        raise Infra("PeepholeShapes printed no table")
    sf = os.path.join(ctx.work, "peepshapes.json")
    json.dump(js[0], open(sf, "w"))
    rf = os.path.join(ctx.work, "peep.results.ndjson")
    ctx.run([binary, sf, rf], timeout=3000)
    rows = read_ndjson(rf)
    summ = [x for x in rows if x.get("summary")][0]
    return [x for x in rows if not x.get("summary")], summ


def check_C34(ctx):
    pfails, psumm = run_peephole_shapes(ctx)
    for f in pfails:
        ctx.report({"kind": "shape-value", "ctl": f["shape"]["ctl"], "engine": f["engine"], "form": f["form"]},
                   "control-flow shape %s rendered as %s returns %s on %s (outcome %s); PeepholeShapes.tla gives %s\n%s"
                   % (json.dumps({k: v for k, v in f["shape"].items() if k != "val"}), f["form"], f["got"], f["engine"], f["class"], f["want"], f["err"][:300]),
                   {"shape": f["shape"], "form": f["form"], "engine": f["engine"], "source": f["src"]})
    ctx.add_sample({"peephole_shapes": psumm})
    donors = donors_for(ctx)
    rows, summ, stats = run_diff(ctx, donors, "quick")
    summ["steps"] += psumm["runs"] // 3
    summ["distinct_histories"] += psumm["shapes"] * 2
    for r in rows:
        if r["kind"] != "engine-diff":
            continue
        ctx.report({"kind": "engine-diff", "field": r["field"], "engine": r["engine"], "donor": r["donor"]},
                   "history %s (from %s behaviours) step %d: %s differs between interpreter and %s\n  interpreter: %s\n  %s: %s\n  program: %s"
                   % (r["hist"], r["donor"], r["step"], r["field"], r["engine"], r["a"][:400], r["engine"], r["b"][:400], r["src"][:600]),
                   {"prefix": r.get("prefix"), "source": r["src"], "engine": r["engine"], "field": r["field"]})
    ctx.add_sample({"donor_stats": stats})
    return ctx.finish({
        "evaluations": summ["steps"] * 3, "distinct_nontrivial": summ["distinct_histories"],
        "rule": "distinct recorded world histories (sequences of transactions/scripts rendered from TLC behaviours of the donor specifications), each replayed on interpreter, VM and VM+peephole; compared per step: outcome class/error type, value, logs, events, ordered register writes, committed ledger",
        "traces_validated_against_impl": summ["distinct_histories"], "programs": summ["steps"],
        "states": max(1, summ["distinct_histories"]), "transitions": max(1, summ["steps"]),
        "donors": donors,
    }, assumptions=["programs are those the donor specifications generate; executions depending on gauges, fault plans or scripted randomness are not replayed",
                    "states/transitions in this evidence are replayed histories/steps; the donors' own evidence files hold their TLC state counts"])


def check_C01(ctx):
    donors = donors_for(ctx)
    rows, summ, stats = run_diff(ctx, donors, "quick")
    for r in rows:
        if r["kind"] != "internal":
            continue
        ctx.report({"kind": "internal-error", "engine": r["engine"], "donor": r["donor"], "class": r["a"],
                    "detail": r.get("detail", "")},
                   "checker-accepted program failed with %s on %s (history %s from %s behaviours, step %d)\n  %s\n  program: %s"
                   % (r["a"], r["engine"], r["hist"], r["donor"], r["step"], r["b"][:500], r["src"][:600]),
                   {"prefix": r.get("prefix"), "source": r["src"], "engine": r["engine"]})
    ctx.add_sample({"donor_stats": stats})
    return ctx.finish({
        "evaluations": summ["steps"] * 3, "distinct_nontrivial": summ["distinct_histories"],
        "rule": "distinct recorded world histories from the donor specifications' behaviours; every step executed on three engines and its outcome classified (ok / user / external / internal / crash)",
        "traces_validated_against_impl": summ["distinct_histories"], "programs": summ["steps"],
        "states": max(1, summ["distinct_histories"]), "transitions": max(1, summ["steps"]),
        "donors": donors,
    }, assumptions=["programs are those expressible by the donor models' actions, not arbitrary Cadence"])


META = {
 "C34": {"level_text": "Every world history executed by the donor checks (behaviours generated by TLC from the Storage, Resources, Caps, Containers, Conditions, EvalOrder, Attachments, Contracts ... specifications and already compared with those models on interpreter and VM) is recorded and replayed from scratch on interpreter, VM and VM+peephole; after every step the result value, outcome class/error type, logs, events, ordered register writes and the committed ledger are compared across the three engines.",
         "level_note": "Differential: agreement of three engines on model-generated programs, with the donor specifications as common reference. Peephole switch via a guarded hook. Not arbitrary Cadence programs.",
         "technique": "TLC-generated behaviours of the TLA+ system specifications replayed on three engines, cross-engine comparison of all host-visible output", "design_ref": "DESIGN.md section 5 C34", "engine": "E2 replay"},
 "C01": {"level_text": "Cross-cutting monitor over all model-generated programs: every transaction/script the donor specifications' behaviours render (all checker-accepted by construction; failing ones are predicted user errors) is executed on three engines and its outcome classified; an internal error, an unclassified error or an escaped Go panic is a violation.",
         "level_note": "Programs are those expressible by the donor models' actions; a dedicated typed-heap generator model (Interact.tla) is future work.",
         "technique": "TLC-generated behaviours of the TLA+ system specifications replayed into the runtime; error-class monitor", "design_ref": "DESIGN.md section 5 C01", "engine": "E2 replay"},
}
