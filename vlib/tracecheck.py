"""Stateful trace validation helper: a trace file is a concatenation of executions
(index entries with 1-based [first,last] event ranges). The trace specification consumes one
event per step; an event it cannot consume is reported with a `<<"REJECT", l>>` line, the rest
of that execution is skipped and validation resumes at the next Begin -- so one TLC run
validates every execution of the chunk and reports every rejected one."""
import os, re
from vlib.core import Infra, read_ndjson, write_ndjson


def validate(ctx, files, module, cfg, events, execs, tag, timeout=1500):
    """returns list of (exec, offset_in_exec, event) rejected by TLC"""
    d = os.path.join(ctx.work, "tv-%s" % tag)
    os.makedirs(d, exist_ok=True)
    flat, owner = [], []
    for e in execs:
        for j in range(e["first"] - 1, e["last"]):
            flat.append(events[j])
            owner.append((e, j - (e["first"] - 1)))
    if not flat:
        return []
    write_ndjson(os.path.join(d, "trace.ndjson"), flat)
    res = ctx.tlc(files + [os.path.join(d, "trace.ndjson")], module, cfg, workers=1,
                  tag=tag, timeout=timeout, count=False)
    if res.distinct != len(flat) + 1:
        raise Infra("trace validation %s consumed %d of %d events (trace spec stuck?)\n%s"
                    % (tag, res.distinct - 1, len(flat), res.out[-1500:]))
    rejected = []
    for ln in res.lines:
        m = re.match(r'^<<"REJECT", (\d+)>>', ln)
        if m:
            pos = int(m.group(1))
            e, k = owner[pos - 1]
            rejected.append((e, k, flat[pos - 1]))
    return rejected
