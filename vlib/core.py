"""Shared plumbing for every check: build the Go harness from /repo's working tree,
run TLC on a specification, collect violations, filter them through
known_findings.json, write the evidence file, and set the exit code.

Exit codes: 0 = property held on everything explored (KNOWN-FINDING lines allowed),
1 = at least one VIOLATION line printed, 2 = infrastructure failure (never a verdict).
"""
import json, os, re, shutil, subprocess, sys, time, hashlib, glob

VERIF = os.path.dirname(os.path.dirname(os.path.abspath(__file__)))
REPO = os.environ.get("VERIF_REPO", "/repo")
SPEC = os.path.join(VERIF, "spec")
HARNESS = os.path.join(VERIF, "harness")


class Infra(Exception):
    """Anything that is not evidence about the code: exit 2."""


def goenv():
    e = dict(os.environ)
    e["GOFLAGS"] = "-mod=mod"
    e["GOPROXY"] = "off"
    e.pop("GOTOOLCHAIN", None)
    e.pop("GOSUMDB", None)
    e.setdefault("GOCACHE", os.path.expanduser("~/.cache/go-build"))
    return e


class TLCResult:
    def __init__(self, out, rc):
        self.out = out
        self.rc = rc
        self.lines = out.splitlines()
        m = re.search(r"(\d+) states generated, (\d+) distinct states found", out)
        self.generated = int(m.group(1)) if m else 0
        self.distinct = int(m.group(2)) if m else 0
        if not m:
            m2 = re.search(r"(\d+) states checked", out)
            if m2:
                self.generated = int(m2.group(1))
                self.distinct = self.generated
        self.violated = ("is violated" in out) or ("Error: Invariant" in out) or ("Error: Action property" in out) \
            or ("Temporal properties were violated" in out)
        self.error = ("Error:" in out) and not self.violated
        self.finished = ("Model checking completed" in out) or ("Finished in" in out) or ("Finished computing" in out)

    def json_lines(self, double=True):
        """Lines printed by PrintT(ToJson(x)): TLC prints them as a quoted TLA+ string."""
        res = []
        for ln in self.lines:
            if ln.startswith('"') and ln.endswith('"'):
                try:
                    s = json.loads(ln)
                except Exception:
                    # TLA+ string escaping is JSON-compatible for what ToJson emits, except it may not escape
                    s = ln[1:-1].replace('\\"', '"').replace("\\\\", "\\")
                try:
                    res.append(json.loads(s) if double else s)
                except Exception:
                    pass
        return res

    def tuples(self, tag):
        """PrintT(<<"TAG", a, b>>) lines -> list of raw strings after the tag."""
        res = []
        pre = '<<"%s"' % tag
        for ln in self.lines:
            if ln.startswith(pre):
                res.append(ln)
        return res


class Ctx:
    def __init__(self, pid, tier, seed, level):
        self.pid = pid
        self.tier = tier
        self.seed = seed
        self.level = level
        self.t0 = time.time()
        # a check that runs other checks as donors (C34, C01) gives them a private work/evidence area
        self.work = os.path.join(VERIF, ".work", pid + os.environ.get("VERIF_WORK_SUFFIX", ""))
        shutil.rmtree(self.work, ignore_errors=True)
        os.makedirs(self.work, exist_ok=True)
        self.replay_dir = os.path.join(VERIF, ".work", "replay" + os.environ.get("VERIF_WORK_SUFFIX", ""))
        os.makedirs(self.replay_dir, exist_ok=True)
        self.violations = []   # (sig, msg, replay)
        self.known_hits = {}   # finding id -> count
        self.cov = {"samples": []}
        self.assumptions = []
        self.tlc_states = 0
        self.tlc_transitions = 0
        self.tlc_runs = []
        self._known = None
        self.cores = int(os.environ.get("VERIF_CORES", os.cpu_count() or 4))

    @property
    def quick(self):
        return self.tier == "quick"

    def log(self, *a):
        print("[%s %6.1fs]" % (self.pid, time.time() - self.t0), *a, flush=True)

    # ---------------------------------------------------------------- building
    def build(self, name, race=False):
        """go build the harness command cmd/<name> against /repo's working tree (tag verif)."""
        out = os.path.join(self.work, "bin", name + ("-race" if race else ""))
        os.makedirs(os.path.dirname(out), exist_ok=True)
        gosum_src = os.path.join(REPO, "go.sum")
        cmd = ["go", "build", "-tags", "verif"]
        if os.path.realpath(REPO) == "/repo":
            gosum_dst = os.path.join(HARNESS, "go.sum")
            try:
                if open(gosum_src).read() != open(gosum_dst).read():
                    shutil.copy(gosum_src, gosum_dst)
            except FileNotFoundError:
                shutil.copy(gosum_src, gosum_dst)
        else:
            # scratch copy of the repository (mutation self-tests): alternate go.mod with another replace
            alt = os.path.join(self.work, "go.alt.mod")
            mod = open(os.path.join(HARNESS, "go.mod")).read().replace("=> /repo", "=> " + os.path.realpath(REPO))
            open(alt, "w").write(mod)
            shutil.copy(gosum_src, os.path.join(self.work, "go.alt.sum"))
            cmd += ["-modfile=" + alt]
        if race:
            cmd.append("-race")
        cmd += ["-o", out, "./cmd/" + name]
        t = time.time()
        p = subprocess.run(cmd, cwd=HARNESS, env=goenv(), stdout=subprocess.PIPE, stderr=subprocess.STDOUT, text=True)
        if p.returncode != 0:
            raise Infra("harness build failed (%s):\n%s" % (name, p.stdout[-4000:]))
        self.log("built %s in %.1fs" % (name, time.time() - t))
        return out

    def run(self, cmd, inp=None, timeout=3600, env=None, cwd=None, ok_codes=(0,)):
        e = dict(os.environ)
        e["VERIF_SEED"] = str(self.seed)
        e["VERIF_TIER"] = self.tier
        if env:
            e.update(env)
        try:
            p = subprocess.run(cmd, input=inp, stdout=subprocess.PIPE, stderr=subprocess.PIPE, text=True,
                               timeout=timeout, env=e, cwd=cwd or self.work)
        except subprocess.TimeoutExpired:
            raise Infra("timeout running %s" % (cmd[:3],))
        if p.returncode not in ok_codes:
            raise Infra("command %s failed rc=%d\nstdout: %s\nstderr: %s" % (cmd[:4], p.returncode, p.stdout[-3000:], p.stderr[-3000:]))
        return p

    # --------------------------------------------------------------------- TLC
    def tlc(self, files, module, cfg, workers=None, simulate=None, depth=None, timeout=900,
            extra=None, deadlock=False, coverage=False, tag=None, heap=None, expect_violation=False, dfs=False,
            count=True):
        """Run TLC in a scratch copy. files: list of paths (relative to spec/ or absolute) copied
        next to each other. cfg: name of a cfg file among them. simulate: number of behaviours."""
        tag = tag or module
        d = os.path.join(self.work, "tlc-" + tag)
        shutil.rmtree(d, ignore_errors=True)
        os.makedirs(d)
        for f in files:
            src = f if os.path.isabs(f) else os.path.join(SPEC, f)
            shutil.copy(src, d)
        meta = os.path.join(d, "meta")
        cmd = ["timeout", str(timeout), "tlc", "-metadir", meta, "-config", cfg]
        if simulate:
            cmd += ["-workers", "1", "-simulate", "num=%d" % simulate, "-depth", str(depth or 30), "-seed", str(self.seed)]
        else:
            cmd += ["-workers", str(workers or "auto")]
        if not deadlock:
            cmd += ["-deadlock"]
        if coverage:
            cmd += ["-coverage", "1"]
        if extra:
            cmd += extra
        cmd += [module]
        e = dict(os.environ)
        jto = e.get("JAVA_TOOL_OPTIONS", "")
        os.makedirs(os.path.join(d, "jtmp"), exist_ok=True)
        opts = ["-Xss256m", "-Djava.io.tmpdir=" + os.path.join(d, "jtmp")]
        if dfs:
            opts.append("-Dtlc2.tool.queue.IStateQueue=StateDeque")
        e["JAVA_TOOL_OPTIONS"] = (jto + " " + " ".join(opts)).strip()
        # TLC pre-computes constant definitions on the JVM main thread: give it a deep stack too
        e.setdefault("JDK_JAVA_OPTIONS", "-Xss512m")
        t = time.time()
        p = subprocess.run(cmd, cwd=d, stdout=subprocess.PIPE, stderr=subprocess.STDOUT, text=True, env=e)
        res = TLCResult(p.stdout, p.returncode)
        res.wall = time.time() - t
        res.dir = d
        with open(os.path.join(d, "tlc.out"), "w") as fh:
            fh.write(p.stdout)
        if p.returncode == 124:
            raise Infra("TLC timeout (%s, %ds)" % (tag, timeout))
        if res.violated and not expect_violation:
            raise Infra("TLC reports a property violation ON THE MODEL %s (spec/design error, not a code verdict):\n%s"
                        % (tag, tail(p.stdout, 60)))
        if (res.error or p.returncode not in (0, 12, 13)) and not res.violated:
            raise Infra("TLC failed (%s rc=%d):\n%s" % (tag, p.returncode, tail(p.stdout, 60)))
        if count:
            self.tlc_states += res.distinct
            self.tlc_transitions += res.generated
        self.tlc_runs.append({"module": tag, "generated": res.generated, "distinct": res.distinct,
                              "wall_s": round(res.wall, 1), "mode": "simulate" if simulate else "bfs"})
        self.log("TLC %s: %d generated, %d distinct, %.1fs" % (tag, res.generated, res.distinct, res.wall))
        shutil.rmtree(meta, ignore_errors=True)
        shutil.rmtree(os.path.join(d, "jtmp"), ignore_errors=True)
        return res

    # -------------------------------------------------------------- violations
    def known_findings(self):
        if self._known is None:
            ks = []
            # the per-family files are the working copies (bin/mergeknown folds them into
            # known_findings.json): they take precedence over a possibly stale merged entry
            paths = sorted(glob.glob(os.path.join(VERIF, "known", "*.json"))) + [os.path.join(VERIF, "known_findings.json")]
            seen = set()
            for pth in paths:
                try:
                    for k in json.load(open(pth))["findings"]:
                        if k.get("property") == self.pid and k.get("id") not in seen:
                            seen.add(k.get("id"))
                            ks.append(k)
                except FileNotFoundError:
                    pass
            self._known = ks
        return self._known

    def report(self, sig, msg, replay=None):
        """sig: dict describing the failing case semantically (used for known-finding matching).
        A violation matching a 'known' entry prints KNOWN-FINDING; otherwise VIOLATION."""
        for k in self.known_findings():
            if k.get("status") != "known":
                continue
            if match_sig(k.get("match", {}), sig):
                kid = k["id"]
                self.known_hits[kid] = self.known_hits.get(kid, 0) + 1
                return "known"
        self.violations.append((sig, msg, replay))
        return "violation"

    def add_sample(self, s, limit=6):
        if len(self.cov["samples"]) < limit:
            self.cov["samples"].append(s)

    # ---------------------------------------------------------------- finishing
    def finish(self, coverage, assumptions=None):
        cov = dict(self.cov)
        cov.update(coverage)
        if self.tlc_states:
            cov.setdefault("states", self.tlc_states)
            cov.setdefault("transitions", self.tlc_transitions)
        cov["tlc_runs"] = self.tlc_runs
        if not cov.get("samples"):
            cov["samples"] = ["(none recorded)"]
        cov["known_findings_hit"] = self.known_hits
        ev = {
            "property_id": self.pid, "tier": self.tier, "seed": self.seed, "level": self.level,
            "coverage": cov, "assumptions": (assumptions or []) + self.assumptions,
            "wall_s": round(time.time() - self.t0, 2), "violations": len(self.violations),
        }
        evdir = os.environ.get("VERIF_EVIDENCE_DIR") or os.path.join(VERIF, "evidence")
        os.makedirs(evdir, exist_ok=True)
        with open(os.path.join(evdir, self.pid + ".json"), "w") as fh:
            json.dump(ev, fh, indent=1, default=str)
        for k in self.known_findings():
            if k.get("status") == "known" and self.known_hits.get(k["id"]):
                print("KNOWN-FINDING: property=%s %s [%s, %d case(s) this run]" % (self.pid, k["what"], k["id"], self.known_hits[k["id"]]))
        shown = 0
        for i, (sig, msg, replay) in enumerate(self.violations[:200]):
            path = os.path.join(self.replay_dir, "%s-%s-%d.json" % (self.pid, self.tier, i))
            with open(path, "w") as fh:
                json.dump({"property": self.pid, "sig": sig, "msg": msg, "replay": replay, "seed": self.seed, "tier": self.tier},
                          fh, indent=1, default=str)
            if shown < 5:
                print("VIOLATION property=%s replay=%s" % (self.pid, path))
                print("  " + msg.replace("\n", "\n  ")[:1500])
                shown += 1
        if len(self.violations) > shown:
            print("(%d more violations written to %s)" % (len(self.violations) - shown, self.replay_dir))
        self.log("done: %d violation(s), %d known-finding hit(s), wall %.1fs" %
                 (len(self.violations), sum(self.known_hits.values()), time.time() - self.t0))
        return 1 if self.violations else 0


def match_sig(m, sig):
    for k, v in m.items():
        if k not in sig:
            return False
        sv = sig[k]
        if isinstance(v, dict) and "re" in v:
            if not re.search(v["re"], str(sv)):
                return False
        elif isinstance(v, dict) and "in" in v:
            if sv not in v["in"]:
                return False
        elif sv != v:
            return False
    return True


def tail(s, n):
    return "\n".join(s.splitlines()[-n:])


def read_ndjson(path):
    res = []
    with open(path) as fh:
        for ln in fh:
            ln = ln.strip()
            if ln:
                res.append(json.loads(ln))
    return res


def write_ndjson(path, rows):
    with open(path, "w") as fh:
        for r in rows:
            fh.write(json.dumps(r, separators=(",", ":")) + "\n")
