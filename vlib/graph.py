"""Rebuild the labelled transition graph TLC printed through an ACTION_CONSTRAINT
(`Emit == PrintT(ToJson([s |-> .., t |-> .., a |-> ..]))`) and derive behaviours
(paths from the initial state) that cover every transition or every state."""
import json, collections


def key(s):
    return json.dumps(s, sort_keys=True, separators=(",", ":"))


class Graph:
    def __init__(self, edges):
        # edges: list of {"s":state,"t":state,"a":label}
        self.edges = []
        seen = set()
        for e in edges:
            ks, kt, ka = key(e["s"]), key(e["t"]), key(e["a"])
            k = (ks, ka, kt)
            if k in seen:
                continue
            seen.add(k)
            self.edges.append((ks, e["a"], kt, e["t"]))
        self.out = collections.defaultdict(list)
        for i, (ks, a, kt, t) in enumerate(self.edges):
            self.out[ks].append(i)
        self.states = set([e[0] for e in self.edges]) | set([e[2] for e in self.edges])

    def bfs(self, init):
        dist = {init: []}
        q = collections.deque([init])
        while q:
            s = q.popleft()
            for i in self.out[s]:
                t = self.edges[i][2]
                if t not in dist:
                    dist[t] = dist[s] + [i]
                    q.append(t)
        return dist

    def complete(self, s, is_final, cache):
        """shortest edge list from s to a state satisfying is_final"""
        if s in cache:
            return cache[s]
        seen = {s: []}
        q = collections.deque([s])
        res = None
        while q:
            u = q.popleft()
            if is_final(u):
                res = seen[u]
                break
            for i in self.out[u]:
                t = self.edges[i][2]
                if t not in seen:
                    seen[t] = seen[u] + [i]
                    q.append(t)
        cache[s] = res
        return res

    def transition_cover(self, init, is_final=None, greedy=True):
        """A list of edge-index paths from init covering every reachable edge; each path is
        extended to a final state when is_final is given. Greedy: a path keeps walking through
        uncovered edges before closing, so behaviours are longer and fewer."""
        dist = self.bfs(init)
        covered = set()
        paths = []
        cache = {}
        order = sorted(range(len(self.edges)), key=lambda i: len(dist.get(self.edges[i][0], [])) if self.edges[i][0] in dist else 1 << 30)
        for i in order:
            if i in covered:
                continue
            s = self.edges[i][0]
            if s not in dist:
                continue
            path = dist[s] + [i]
            covered.add(i)
            cur = self.edges[i][2]
            if greedy:
                steps = 0
                while steps < 40:
                    nxt = [j for j in self.out[cur] if j not in covered]
                    if not nxt:
                        break
                    j = nxt[0]
                    covered.add(j)
                    path.append(j)
                    cur = self.edges[j][2]
                    steps += 1
            if is_final is not None:
                tailp = self.complete(cur, is_final, cache)
                if tailp is None:
                    continue
                path = path + tailp
            for j in path:
                covered.add(j)
            paths.append(path)
        return paths

    def state_cover(self, init, is_final=None):
        dist = self.bfs(init)
        cache = {}
        paths = []
        # keep only maximal paths: a state whose path is a prefix of another's is covered by it
        used_as_prefix = set()
        items = sorted(dist.items(), key=lambda kv: -len(kv[1]))
        covered = set()
        for s, p in items:
            if s in covered:
                continue
            path = list(p)
            cur = init
            covered.add(init)
            for j in path:
                cur = self.edges[j][2]
                covered.add(cur)
            if is_final is not None:
                tp = self.complete(cur, is_final, cache)
                if tp is None:
                    continue
                path += tp
            paths.append(path)
        return paths

    def labels(self, path):
        return [self.edges[i][1] for i in path]

    def states_along(self, path):
        return [self.edges[i][3] for i in path]
