// Package health is the C23 monitor: "committed storage is always healthy".
//
// It is evaluated on the ledger of a host.World between executions (i.e. on committed state):
// a *fresh* runtime.Storage is built over a read-only view of the registers, every slab
// register is loaded and decoded, the account storage maps of every account that owns a
// register are loaded, runtime.Storage.CheckHealth is run (atree.CheckStorageHealth over all
// slabs: every slab reachable from exactly one root, no slab with two parents; plus the
// reconciliation "every root slab is an account storage map"), and every stored value of
// every domain is decoded and walked down to its leaves. The walk also returns the population
// of resource-kinded composites (uuid, type, location) so that a model can compare it.
//
// Slab-level structure is not modelled by any specification; this is an implementation
// invariant monitored on model-generated histories.
package health

import (
	"fmt"
	"sort"
	"strings"

	"github.com/onflow/atree"

	"github.com/onflow/cadence/common"
	"github.com/onflow/cadence/interpreter"
	"github.com/onflow/cadence/runtime"

	"verifharness/host"
)

// Resource is one resource-kinded composite found in committed storage.
type Resource struct {
	UUID    uint64
	TypeID  string
	Account string // hex address
	Domain  string
	Key     string // storage-map key (path identifier)
	Depth   int    // 0 = root value of a path
}

type Report struct {
	Slabs     int            // slab registers loaded
	Registers int            // non-empty registers
	Roots     map[string]int // "<account hex>/<domain>" -> number of root values
	Values    int            // values visited (all nesting levels)
	Resources []Resource
}

// RootCount returns the number of root values of an account in a domain ("storage", "public", ...).
func (r *Report) RootCount(addr common.Address, domain string) int {
	return r.Roots[addr.Hex()+"/"+domain]
}

// Error kinds, for semantic signatures.
type Error struct {
	Kind string // "slab-decode" | "health" | "value-decode" | "ledger-write" | "slab-missing"
	Msg  string
}

func (e *Error) Error() string { return e.Kind + ": " + e.Msg }

// Check runs the monitor and returns nil iff the committed storage of w is healthy.
func Check(w *host.World) error {
	_, err := Inspect(w)
	return err
}

// Inspect runs the monitor and also returns what was found.
func Inspect(w *host.World) (*Report, error) {
	return InspectRegisters(w.Ledger.StoredValues)
}

type roLedger struct {
	regs   map[string][]byte
	writes int
}

func regKey(owner, key []byte) string { return string(owner) + "|" + string(key) }

func (l *roLedger) GetValue(owner, key []byte) ([]byte, error) {
	return l.regs[regKey(owner, key)], nil
}
func (l *roLedger) SetValue(owner, key, value []byte) error {
	l.writes++
	return fmt.Errorf("health check must not write (register %x|%q)", owner, key)
}
func (l *roLedger) ValueExists(owner, key []byte) (bool, error) {
	return len(l.regs[regKey(owner, key)]) > 0, nil
}
func (l *roLedger) AllocateSlabIndex(owner []byte) (atree.SlabIndex, error) {
	l.writes++
	return atree.SlabIndex{}, fmt.Errorf("health check must not allocate slab indices")
}

// InspectRegisters runs the monitor over a register map keyed "<8-byte owner>|<key>"
// (the layout of the repository's TestLedger).
func InspectRegisters(regs map[string][]byte) (rep *Report, err error) {
	rep = &Report{Roots: map[string]int{}}
	phase := "init"
	defer func() {
		if r := recover(); r != nil {
			kind := "value-decode"
			switch phase {
			case "slabs":
				kind = "slab-decode"
			case "health":
				kind = "health"
			}
			err = &Error{Kind: kind, Msg: fmt.Sprintf("panic during %s: %v", phase, r)}
		}
	}()

	ledger := &roLedger{regs: regs}
	storage := runtime.NewStorage(ledger, nil, nil, runtime.StorageConfig{})
	inter, ierr := interpreter.NewInterpreter(nil, common.ScriptLocation{0xfe}, &interpreter.Config{Storage: storage})
	if ierr != nil {
		return rep, &Error{Kind: "init", Msg: ierr.Error()}
	}

	// 1. load every slab register
	phase = "slabs"
	keys := make([]string, 0, len(regs))
	for k := range regs {
		keys = append(keys, k)
	}
	sort.Strings(keys)
	owners := map[common.Address]bool{}
	for _, k := range keys {
		v := regs[k]
		if len(v) == 0 || len(k) < 9 {
			continue
		}
		rep.Registers++
		var owner common.Address
		copy(owner[:], k[:8])
		owners[owner] = true
		rk := k[9:]
		if len(rk) == 9 && rk[0] == '$' {
			var idx atree.SlabIndex
			copy(idx[:], rk[1:])
			id := atree.NewSlabID(atree.Address(owner), idx)
			slab, found, rerr := storage.Retrieve(id)
			if rerr != nil {
				return rep, &Error{Kind: "slab-decode", Msg: fmt.Sprintf("slab %s: %v", id, rerr)}
			}
			if !found || slab == nil {
				return rep, &Error{Kind: "slab-missing", Msg: fmt.Sprintf("slab %s not retrievable", id)}
			}
			rep.Slabs++
		}
	}

	// 2. load the account storage map of every account owning registers
	phase = "accounts"
	ownerList := make([]common.Address, 0, len(owners))
	for o := range owners {
		ownerList = append(ownerList, o)
	}
	sort.Slice(ownerList, func(i, j int) bool { return string(ownerList[i][:]) < string(ownerList[j][:]) })
	type dm struct {
		addr   common.Address
		domain common.StorageDomain
		m      *interpreter.DomainStorageMap
	}
	var maps []dm
	for _, o := range ownerList {
		for _, d := range common.AllStorageDomains {
			m := storage.GetDomainStorageMap(inter, o, d, false)
			if m != nil {
				maps = append(maps, dm{o, d, m})
			}
		}
	}

	// 3. slab-level health + root reconciliation
	phase = "health"
	if herr := storage.CheckHealth(); herr != nil {
		return rep, &Error{Kind: "health", Msg: herr.Error()}
	}

	// 4. decode every stored value down to the leaves
	phase = "values"
	for _, e := range maps {
		it := e.m.Iterator()
		n := 0
		for {
			k, v := it.Next(nil)
			if k == nil {
				break
			}
			n++
			key := fmt.Sprint(k)
			if sk, ok := k.(interpreter.StringAtreeValue); ok {
				key = string(sk)
			}
			depth := -1
			var stack []bool
			interpreter.WalkValue(inter, walker{f: func(val interpreter.Value, enter bool) {
				if !enter {
					if stack[len(stack)-1] {
						depth--
					}
					stack = stack[:len(stack)-1]
					return
				}
				rep.Values++
				isRes := false
				if c, ok := val.(*interpreter.CompositeValue); ok && c.Kind == common.CompositeKindResource {
					isRes = true
					depth++
					var uuid uint64
					if u, ok := c.GetField(inter, "uuid").(interpreter.UInt64Value); ok {
						uuid = uint64(u)
					}
					rep.Resources = append(rep.Resources, Resource{
						UUID: uuid, TypeID: string(c.TypeID()), Account: e.addr.Hex(),
						Domain: e.domain.Identifier(), Key: key, Depth: depth,
					})
				} else if c, ok := val.(*interpreter.CompositeValue); ok && c.Kind == common.CompositeKindAttachment {
					// attachments are composites stored in hidden fields of their base
					if u, ok := c.GetField(inter, "uuid").(interpreter.UInt64Value); ok {
						rep.Resources = append(rep.Resources, Resource{
							UUID: uint64(u), TypeID: string(c.TypeID()), Account: e.addr.Hex(),
							Domain: e.domain.Identifier(), Key: key, Depth: depth + 1,
						})
					}
				}
				stack = append(stack, isRes)
			}}, v)
		}
		if uint64(n) != e.m.Count() {
			return rep, &Error{Kind: "health", Msg: fmt.Sprintf("domain storage map %s/%s: Count()=%d but %d entries iterated",
				e.addr.Hex(), e.domain.Identifier(), e.m.Count(), n)}
		}
		rep.Roots[e.addr.Hex()+"/"+e.domain.Identifier()] = n
	}
	if ledger.writes != 0 {
		return rep, &Error{Kind: "ledger-write", Msg: "reading committed storage attempted to write registers"}
	}
	return rep, nil
}

type walker struct {
	f func(v interpreter.Value, enter bool)
}

func (w walker) WalkValue(_ interpreter.ValueWalkContext, v interpreter.Value) interpreter.ValueWalker {
	if v == nil {
		w.f(nil, false)
		return nil
	}
	w.f(v, true)
	return w
}

// Describe is a short one-line summary for logs.
func (r *Report) Describe() string {
	var ks []string
	for k, n := range r.Roots {
		ks = append(ks, fmt.Sprintf("%s=%d", k, n))
	}
	sort.Strings(ks)
	return fmt.Sprintf("slabs=%d values=%d resources=%d roots{%s}", r.Slabs, r.Values, len(r.Resources), strings.Join(ks, ","))
}
