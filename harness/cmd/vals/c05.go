package main

import "verifharness/util"

func mainC05(in, out string) { util.Die("c05 not built yet") }
