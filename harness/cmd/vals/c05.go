package main

// C05: behaviours of spec/system/Values.tla replayed on the real runtime.
//
// A behaviour is {"id":n,"steps":[label...]}; every label of a step inside a transaction carries
// "obs": the deep value the specification predicts for every local variable, for what the two
// references show, and for every storage path (in-transaction view).  The rendered transaction
// logs the same after every step (a contract function walks the values through references and
// renders them to a canonical string).  After every transaction a script re-reads the stored
// values from the ledger (copy<T>) and compares them with the predicted committed values.
// Refinements of the payload: "int" (Int), "str" (300-byte String).

import (
	"encoding/json"
	"fmt"
	"sort"
	"strconv"
	"strings"
	"sync/atomic"

	"github.com/onflow/cadence"
	"github.com/onflow/cadence/common"

	"verifharness/host"
	"verifharness/util"
)

type vSel struct {
	F   string `json:"f"`
	J   int    `json:"j"`
	Key string `json:"key"`
}

type vInner struct {
	X  int   `json:"x"`
	Xs []int `json:"xs"`
}

type vEntry struct {
	Key string `json:"key"`
	V   vInner `json:"v"`
}

type vOuter struct {
	P int      `json:"p"`
	I vInner   `json:"i"`
	A []vInner `json:"a"`
	D []vEntry `json:"d"`
}

// omap is a TLA+ function with a string domain as printed by ToJson: an object, or [] when the domain is empty.
type omap[T any] map[string][]T

func (m *omap[T]) UnmarshalJSON(b []byte) error {
	if strings.TrimSpace(string(b)) == "[]" {
		*m = omap[T]{}
		return nil
	}
	var x map[string][]T
	if err := json.Unmarshal(b, &x); err != nil {
		return err
	}
	*m = x
	return nil
}

type vObs struct {
	O  omap[vOuter] `json:"o"`
	I  omap[vInner] `json:"i"`
	St omap[vOuter] `json:"st"`
	R  []vOuter     `json:"r"`
	Q  []vInner     `json:"q"`
}

type vStep struct {
	Op    string `json:"op"`
	V     string `json:"v"`
	Src   string `json:"src"`
	Root  string `json:"root"`
	Path  string `json:"path"`
	Key   string `json:"key"`
	K     int    `json:"k"`
	Sel   *vSel  `json:"sel"`
	Loc   *vSel  `json:"loc"`
	Form  string `json:"form"`
	Mut   string `json:"mut"`
	Via   string `json:"via"`
	DropR bool   `json:"dropr"`
	DropQ bool   `json:"dropq"`
	Obs   *vObs  `json:"obs"`
}

type vBeh struct {
	ID    int     `json:"id"`
	Steps []vStep `json:"steps"`
}

func c05Contract(ref string) string {
	P, encdec, init := "Int", `
  access(all) view fun enc(_ k: Int): Int { return k }
  access(all) view fun dec(_ e: Int): Int { return e }`, ""
	if ref == "big" {
		// an arbitrary-precision Int too large to be stored inline: xs: [Int] holds slab references
		encdec = `
  access(all) let big: Int
  access(all) view fun enc(_ k: Int): Int { return self.big + k }
  access(all) view fun dec(_ e: Int): Int { return e - self.big }`
		init = "self.big = 1 << 8000"
	}
	if ref == "str" {
		P = "String"
		encdec = `
  access(all) let pad: String
  access(all) let tab: {String: Int}
  access(all) view fun enc(_ k: Int): String { return (10000 + k).toString().concat(self.pad) }
  access(all) view fun dec(_ e: String): Int { return self.tab[e] ?? -999 }`
		init = "self.pad = \"" + strings.Repeat("x", 295) + "\"; self.tab = {}; var k = 0; while k <= 12 { self.tab[self.enc(k)] = k; k = k + 1 }"
	}
	s := `access(all) contract T {` + encdec + `
  access(all) struct Inner {
    access(all) var x: P
    access(all) var xs: [P]
    init(_ k: Int) { self.x = T.enc(k); self.xs = [T.enc(k)] }
    access(all) fun setX(_ k: Int) { self.x = T.enc(k) }
    access(all) fun push(_ k: Int) { self.xs.append(T.enc(k)) }
    access(all) fun clone(): Inner { return self }
  }
  access(all) struct Outer {
    access(all) var p: P
    access(all) var i: Inner
    access(all) var a: [Inner]
    access(all) var d: {String: Inner}
    init(_ k: Int) { self.p = T.enc(k); self.i = Inner(k); self.a = [Inner(k)]; self.d = {"a": Inner(k)} }
    access(all) fun setP(_ k: Int) { self.p = T.enc(k) }
    access(all) fun setI(_ v: Inner) { self.i = v }
    access(all) fun setA(_ j: Int, _ v: Inner) { self.a[j] = v }
    access(all) fun putD(_ key: String, _ v: Inner) { self.d[key] = v }
    access(all) fun addA(_ v: Inner) { self.a.append(v) }
    access(all) fun popA(): Inner { return self.a.removeLast() }
    access(all) fun delD(_ key: String) { self.d.remove(key: key) }
    access(all) fun clone(): Outer { return self }
    access(all) fun getI(): Inner { return self.i }
    access(all) fun getA(): [Inner] { return self.a }
    access(all) fun getD(): {String: Inner} { return self.d }
  }
  access(all) fun id(_ o: Outer): Outer { return o }
  // the callee mutates the copy it received
  access(all) fun mutArg(_ o: Outer) {
    o.setP(99); o.i.setX(98); o.i.push(97); o.putD("z", Inner(96)); o.addA(Inner(95))
    if o.a.length > 0 { o.a[0].setX(94) }
  }
  access(all) fun showI(_ r: &Inner): String {
    var s = "I(".concat(self.dec(r.x).toString()).concat(";")
    for e in r.xs { s = s.concat(self.dec(e).toString()).concat(",") }
    return s.concat(")")
  }
  access(all) fun showO(_ r: &Outer): String {
    var s = "O(".concat(self.dec(r.p).toString()).concat(";").concat(self.showI(r.i)).concat(";[")
    var j = 0
    while j < r.a.length { s = s.concat(self.showI(r.a[j])).concat(","); j = j + 1 }
    s = s.concat("];{")
    for key in ["a", "b", "z"] {
      if let e = r.d[key] { s = s.concat(key).concat(":").concat(self.showI(e)).concat(",") }
    }
    if r.d.length > 3 { s = s.concat("?") }
    return s.concat("})")
  }
  access(all) fun obs(_ os: [&Outer], _ iss: [&Inner], _ r: &Outer?, _ q: &Inner?, _ st: [&Outer?]): String {
    var s = ""
    for o in os { s = s.concat(self.showO(o)).concat("|") }
    for i in iss { s = s.concat(self.showI(i)).concat("|") }
    if let x = r { s = s.concat(self.showO(x)).concat("|") } else { s = s.concat("-|") }
    if let x = q { s = s.concat(self.showI(x)).concat("|") } else { s = s.concat("-|") }
    for o in st { if let x = o { s = s.concat(self.showO(x)).concat("|") } else { s = s.concat("-|") } }
    return s
  }
  init() { ` + init + ` }
}`
	s = strings.ReplaceAll(s, ": P\n", ": "+P+"\n")
	s = strings.ReplaceAll(s, "[P]", "["+P+"]")
	return s
}

func showInner(v vInner) string {
	var sb strings.Builder
	fmt.Fprintf(&sb, "I(%d;", v.X)
	for _, x := range v.Xs {
		fmt.Fprintf(&sb, "%d,", x)
	}
	sb.WriteString(")")
	return sb.String()
}

func showOuter(v vOuter) string {
	var sb strings.Builder
	fmt.Fprintf(&sb, "O(%d;%s;[", v.P, showInner(v.I))
	for _, e := range v.A {
		sb.WriteString(showInner(e) + ",")
	}
	sb.WriteString("];{")
	ds := append([]vEntry(nil), v.D...)
	sort.Slice(ds, func(i, j int) bool { return ds[i].Key < ds[j].Key })
	for _, e := range ds {
		sb.WriteString(e.Key + ":" + showInner(e.V) + ",")
	}
	sb.WriteString("})")
	return sb.String()
}

type c05names struct{ os, is, ps []string }

func namesOf(o *vObs) c05names {
	var n c05names
	for k := range o.O {
		n.os = append(n.os, k)
	}
	for k := range o.I {
		n.is = append(n.is, k)
	}
	for k := range o.St {
		n.ps = append(n.ps, k)
	}
	sort.Strings(n.os)
	sort.Strings(n.is)
	sort.Strings(n.ps)
	return n
}

func expectObs(n c05names, o *vObs) string {
	var sb strings.Builder
	for _, v := range n.os {
		if len(o.O[v]) == 0 {
			sb.WriteString("-|")
		} else {
			sb.WriteString(showOuter(o.O[v][0]) + "|")
		}
	}
	for _, v := range n.is {
		if len(o.I[v]) == 0 {
			sb.WriteString("-|")
		} else {
			sb.WriteString(showInner(o.I[v][0]) + "|")
		}
	}
	if len(o.R) == 0 {
		sb.WriteString("-|")
	} else {
		sb.WriteString(showOuter(o.R[0]) + "|")
	}
	if len(o.Q) == 0 {
		sb.WriteString("-|")
	} else {
		sb.WriteString(showInner(o.Q[0]) + "|")
	}
	for _, p := range n.ps {
		if len(o.St[p]) == 0 {
			sb.WriteString("-|")
		} else {
			sb.WriteString(showOuter(o.St[p][0]) + "|")
		}
	}
	return sb.String()
}

func obsStmt(n c05names) string {
	var os, is, ps []string
	for _, v := range n.os {
		os = append(os, fmt.Sprintf("&%s as &T.Outer", v))
	}
	for _, v := range n.is {
		is = append(is, fmt.Sprintf("&%s as &T.Inner", v))
	}
	for _, p := range n.ps {
		ps = append(ps, fmt.Sprintf("acct.storage.borrow<&T.Outer>(from: /storage/%s)", p))
	}
	return fmt.Sprintf("log(T.obs([%s] as [&T.Outer], [%s] as [&T.Inner], r, q, [%s] as [&T.Outer?]))", strings.Join(os, ", "), strings.Join(is, ", "), strings.Join(ps, ", "))
}

func oRoot(name string) string {
	if name == "r" {
		return "r!"
	}
	return name
}

func selSuffix(s *vSel) string {
	switch s.F {
	case "i":
		return ".i"
	case "a":
		return fmt.Sprintf(".a[%d]", s.J)
	case "d":
		return fmt.Sprintf(".d[%q]!", s.Key)
	}
	return ""
}

// innerPlace is an expression designating the Inner at a location, usable as the receiver of a method call.
func innerPlace(root string, s *vSel) string {
	if s == nil || s.F == "-" {
		if root == "q" {
			return "q!"
		}
		return root
	}
	return oRoot(root) + selSuffix(s)
}

// innerValue is an expression yielding (a copy of) the Inner at a location.
func innerValue(root string, s *vSel) string {
	if root == "q" || root == "r" {
		return innerPlace(root, s) + ".clone()"
	}
	return innerPlace(root, s)
}

func outerValue(name string) string {
	if name == "r" {
		return "r!.clone()"
	}
	return name
}

// tempMut: mutate the value of a transfer expression that is not bound to anything, directly or
// through a reference taken to the temporary.
func c05RenderTemp(s vStep, P string) string {
	var expr, typ, auth string
	switch s.Form {
	case "copySt":
		expr, typ = fmt.Sprintf("acct.storage.copy<T.Outer>(from: /storage/%s)!", s.Path), "T.Outer"
	case "ret":
		typ = "T.Outer"
		if s.Root == "r" {
			expr = "r!.clone()"
		} else {
			expr = fmt.Sprintf("T.id(%s)", s.Root)
		}
	case "getI":
		expr, typ = oRoot(s.Root)+".getI()", "T.Inner"
	case "getA":
		expr, typ, auth = oRoot(s.Root)+".getA()", "[T.Inner]", "auth(Mutate) "
	case "getD":
		expr, typ, auth = oRoot(s.Root)+".getD()", "{String: T.Inner}", "auth(Mutate) "
	case "derefXs":
		typ, auth = "["+P+"]", "auth(Mutate) "
		if s.Root == "r" || s.Root == "q" {
			// a member read through a reference already is a reference
			expr = fmt.Sprintf("*(%s.xs)", innerPlace(s.Root, s.Loc))
		} else {
			expr = fmt.Sprintf("*(&%s.xs as &[%s])", innerPlace(s.Root, s.Loc), P)
		}
	default:
		panic("tempMut: unknown form " + s.Form)
	}
	if s.Via == "ref" {
		expr = fmt.Sprintf("(&%s as %s&%s)", expr, auth, typ)
	} else {
		expr = "(" + expr + ")"
	}
	if s.Sel != nil && s.Sel.F != "-" {
		switch s.Form {
		case "getA":
			expr += fmt.Sprintf("[%d]", s.Sel.J)
		case "getD":
			expr += fmt.Sprintf("[%q]!", s.Sel.Key)
		default:
			expr += selSuffix(s.Sel)
		}
	}
	switch s.Mut {
	case "setP":
		return fmt.Sprintf("%s.setP(%d)", expr, s.K)
	case "setX":
		return fmt.Sprintf("%s.setX(%d)", expr, s.K)
	case "push":
		if s.Form == "derefXs" {
			return fmt.Sprintf("%s.append(T.enc(%d))", expr, s.K)
		}
		return fmt.Sprintf("%s.push(%d)", expr, s.K)
	case "pop":
		return expr + ".removeLast()"
	case "del":
		return fmt.Sprintf("%s.remove(key: %q)", expr, s.Key)
	}
	panic("tempMut: unknown mutation " + s.Mut)
}

func c05RenderOp(s vStep, P string) string {
	switch s.Op {
	case "tempMut":
		return c05RenderTemp(s, P)
	case "newO":
		return fmt.Sprintf("%s = T.Outer(%d)", s.V, s.K)
	case "newI":
		return fmt.Sprintf("%s = T.Inner(%d)", s.V, s.K)
	case "assignO":
		return fmt.Sprintf("%s = %s", s.V, outerValue(s.Src))
	case "idO":
		return fmt.Sprintf("%s = T.id(%s)", s.V, outerValue(s.Src))
	case "argMutO":
		return fmt.Sprintf("T.mutArg(%s)", outerValue(s.Src))
	case "readI":
		return fmt.Sprintf("%s = %s", s.V, innerValue(s.Root, s.Sel))
	case "writeI":
		src := innerValue(s.Src, nil)
		switch s.Sel.F {
		case "i":
			return fmt.Sprintf("%s.setI(%s)", oRoot(s.Root), src)
		case "a":
			return fmt.Sprintf("%s.setA(%d, %s)", oRoot(s.Root), s.Sel.J, src)
		default:
			return fmt.Sprintf("%s.putD(%q, %s)", oRoot(s.Root), s.Sel.Key, src)
		}
	case "appendA":
		return fmt.Sprintf("%s.addA(%s)", oRoot(s.Root), innerValue(s.Src, nil))
	case "popA":
		return fmt.Sprintf("%s = %s.popA()", s.V, oRoot(s.Root))
	case "delD":
		return fmt.Sprintf("%s.delD(%q)", oRoot(s.Root), s.Key)
	case "setP":
		return fmt.Sprintf("%s.setP(%d)", oRoot(s.Root), s.K)
	case "setX":
		return fmt.Sprintf("%s.setX(%d)", innerPlace(s.Root, s.Sel), s.K)
	case "push":
		return fmt.Sprintf("%s.push(%d)", innerPlace(s.Root, s.Sel), s.K)
	case "save":
		return fmt.Sprintf("acct.storage.save(%s, to: /storage/%s)", s.V, s.Path)
	case "load":
		return fmt.Sprintf("%s = acct.storage.load<T.Outer>(from: /storage/%s)!", s.V, s.Path)
	case "copySt":
		return fmt.Sprintf("%s = acct.storage.copy<T.Outer>(from: /storage/%s)!", s.V, s.Path)
	case "refO":
		return fmt.Sprintf("r = &%s as &T.Outer", s.V)
	case "borrow":
		return fmt.Sprintf("r = acct.storage.borrow<&T.Outer>(from: /storage/%s)", s.Path)
	case "refI":
		if s.Root == "r" {
			switch s.Sel.F {
			case "i":
				return "q = r!.i"
			case "a":
				return fmt.Sprintf("q = r!.a[%d]", s.Sel.J)
			default:
				return fmt.Sprintf("q = r!.d[%q]", s.Sel.Key)
			}
		}
		if s.Sel.F == "d" {
			return fmt.Sprintf("q = &%s.d[%q] as &T.Inner?", s.Root, s.Sel.Key)
		}
		return fmt.Sprintf("q = &%s as &T.Inner", innerPlace(s.Root, s.Sel))
	case "abort":
		return "panic(\"abort\")"
	}
	panic("c05RenderOp: unknown op " + s.Op)
}

func c05RenderTx(n c05names, steps []vStep, P string) string {
	var sb strings.Builder
	sb.WriteString("import T from 0x1\ntransaction {\n  prepare(acct: auth(Storage) &Account) {\n")
	for _, v := range n.os {
		fmt.Fprintf(&sb, "    var %s = T.Outer(0)\n", v)
	}
	for _, v := range n.is {
		fmt.Fprintf(&sb, "    var %s = T.Inner(0)\n", v)
	}
	sb.WriteString("    var r: &T.Outer? = nil\n    var q: &T.Inner? = nil\n")
	obs := obsStmt(n)
	for _, s := range steps {
		switch s.Op {
		case "begin":
			sb.WriteString("    " + obs + "\n")
		case "commit":
		case "abort":
			sb.WriteString("    panic(\"abort\")\n")
		default:
			sb.WriteString("    " + c05RenderOp(s, P))
			if s.DropR {
				sb.WriteString("; r = nil")
			}
			if s.DropQ {
				sb.WriteString("; q = nil")
			}
			sb.WriteString("\n    " + obs + "\n")
		}
	}
	sb.WriteString("  }\n}\n")
	return sb.String()
}

func c05Projection(n c05names) string {
	var sb strings.Builder
	sb.WriteString("import T from 0x1\naccess(all) fun main(): [String] {\n  let acct = getAuthAccount<auth(Storage) &Account>(0x2)\n  let out: [String] = []\n")
	for _, p := range n.ps {
		fmt.Fprintf(&sb, "  if let v = acct.storage.copy<T.Outer>(from: /storage/%s) { out.append(T.showO(&v as &T.Outer)) } else { out.append(\"-\") }\n", p)
	}
	sb.WriteString("  return out\n}\n")
	return sb.String()
}

func c05Replay(b *vBeh, ref, engine string) *Fail {
	useVM := engine == "vm"
	mk := func(kind string, step int, s *vStep, msg, src string) *Fail {
		f := &Fail{ID: b.ID, Engine: engine, Ref: ref, Kind: kind, Step: step, Msg: msg, Src: src, Beh: b,
			Sig: map[string]any{"kind": kind, "engine": engine, "refinement": ref}}
		if s != nil {
			f.Op = s.Op
			f.Sig["op"] = s.Op
			if s.Root != "" {
				f.Sig["root"] = s.Root
			}
			if s.Sel != nil {
				f.Sig["sel"] = s.Sel.F
			}
			if s.Op == "tempMut" {
				f.Sig["form"], f.Sig["mut"], f.Sig["via"] = s.Form, s.Mut, s.Via
			}
		}
		return f
	}
	harness := func(f *Fail) *Fail { f.Harness = true; return f }
	w := host.NewWorld()
	if err := w.Deploy(host.Addr(1), "T", c05Contract(ref)); err != nil {
		return harness(mk("deploy", 0, nil, err.Error(), c05Contract(ref)))
	}
	signers := []common.Address{host.Addr(2)}
	var names c05names
	haveNames := false
	var cur []vStep
	var curIdx []int
	for si := range b.Steps {
		s := b.Steps[si]
		if s.Op == "init" || s.Op == "end" {
			continue
		}
		if s.Obs == nil {
			return harness(mk("noobs", si, &s, "step carries no predicted observation", ""))
		}
		if !haveNames {
			names = namesOf(s.Obs)
			haveNames = true
		}
		if s.Op == "begin" {
			cur, curIdx = nil, nil
		}
		cur = append(cur, s)
		curIdx = append(curIdx, si)
		if s.Op != "commit" && s.Op != "abort" {
			continue
		}
		P := "Int"
		if ref == "str" {
			P = "String"
		}
		src := c05RenderTx(names, cur, P)
		res := w.Tx(src, signers, useVM)
		if host.IsInternal(res.Class) {
			return mk("internal", si, &s, res.Class+": "+res.Err.Error(), src)
		}
		if isCheckerError(res.Err) {
			return harness(mk("render", si, &s, res.Err.Error(), src))
		}
		// one observation per step (begin included), commit/abort excluded
		nobs := len(cur) - 1
		for i := 0; i < nobs && i < len(res.Logs); i++ {
			want := expectObs(names, cur[i].Obs)
			if res.Logs[i] != want {
				st := cur[i]
				return mk("observation", curIdx[i], &st, fmt.Sprintf("after step %d of the transaction (%s): values of [%s | %s | r | q | %s]\n  model:   %s\n  runtime: %s",
					i, describe(st), strings.Join(names.os, ","), strings.Join(names.is, ","), strings.Join(names.ps, ","), want, res.Logs[i]), src)
			}
		}
		wantErr := s.Op == "abort"
		if (res.Err != nil) != wantErr {
			var st *vStep
			if len(res.Logs) < len(cur) {
				st = &cur[len(res.Logs)]
			}
			return mk("outcome", si, st, fmt.Sprintf("transaction outcome: model predicts failure=%v, runtime returned %v after %d observations", wantErr, res.Err, len(res.Logs)), src)
		}
		if wantErr && res.Class != "user:PanicError" {
			return mk("errkind", si, &s, "model predicts the explicit abort, runtime failed with "+res.Class+": "+res.Err.Error(), src)
		}
		if len(res.Logs) != nobs {
			return mk("obs-count", si, &s, fmt.Sprintf("model predicts %d observations, runtime logged %d", nobs, len(res.Logs)), src)
		}
		// stored values after the transaction, re-read from the ledger
		pr := w.Script(c05Projection(names), useVM)
		if pr.Err != nil {
			if host.IsInternal(pr.Class) {
				return mk("internal", si, &s, "projection: "+pr.Class+": "+pr.Err.Error(), src)
			}
			if isCheckerError(pr.Err) {
				return harness(mk("render", si, &s, pr.Err.Error(), c05Projection(names)))
			}
			return mk("projection", si, &s, "reading the stored values failed: "+pr.Err.Error(), src)
		}
		arr, ok := pr.Value.(cadence.Array)
		if !ok || len(arr.Values) != len(names.ps) {
			return harness(mk("projection-shape", si, &s, "unexpected projection result", ""))
		}
		for i, p := range names.ps {
			want := "-"
			if len(s.Obs.St[p]) > 0 {
				want = showOuter(s.Obs.St[p][0])
			}
			got := string(arr.Values[i].(cadence.String))
			if got != want {
				return mk("state", si, &s, fmt.Sprintf("stored value at /storage/%s after the transaction (%s): model=%s runtime=%s", p, s.Op, want, got), src)
			}
		}
	}
	return nil
}

func describe(s vStep) string {
	b, _ := json.Marshal(map[string]any{"op": s.Op, "v": s.V, "src": s.Src, "root": s.Root, "sel": s.Sel, "k": s.K, "path": s.Path, "key": s.Key,
		"form": s.Form, "mut": s.Mut, "via": s.Via, "loc": s.Loc})
	return string(b)
}

func mainC05(in, outPath string) {
	var behs []*vBeh
	err := util.ReadLines(in, func(line []byte) error {
		var b vBeh
		if err := json.Unmarshal(line, &b); err != nil {
			return err
		}
		behs = append(behs, &b)
		return nil
	})
	if err != nil {
		util.Die("reading behaviours: %v", err)
	}
	engines := envList("VALS_ENGINES", []string{"interp", "vm"})
	refs := envList("VALS_REFS", []string{"int", "str"})
	out := util.NewOut(outPath)
	defer out.Close()
	type job struct {
		b        *vBeh
		ref, eng string
	}
	var jobs []job
	for _, b := range behs {
		for _, r := range refs {
			for _, e := range engines {
				jobs = append(jobs, job{b, r, e})
			}
		}
	}
	var nfail, ntx, nsteps int64
	util.Parallel(len(jobs), workers(), func(i int) {
		j := jobs[i]
		if f := c05Replay(j.b, j.ref, j.eng); f != nil {
			atomic.AddInt64(&nfail, 1)
			out.Write(f)
		}
		for _, s := range j.b.Steps {
			if s.Op == "begin" {
				atomic.AddInt64(&ntx, 1)
			}
		}
		atomic.AddInt64(&nsteps, int64(len(j.b.Steps)))
	})
	out.Write(map[string]any{"summary": true, "behaviours": len(behs), "replays": len(jobs), "engines": len(engines), "refinements": len(refs),
		"transactions": ntx, "steps": nsteps, "failures": nfail})
	_ = strconv.Itoa
}
