package main

import "verifharness/util"

func mainC51(in, out string) { util.Die("c51 not built yet") }
