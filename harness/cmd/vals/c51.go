package main

// C51: behaviours of spec/coll/{OrderedMap,PersistentSet,IntervalTree,BiMap}.tla replayed by direct
// Go calls on common/orderedmap, common/persistent, common/intervalst, common/bimap.
//
// A behaviour is {"id":n,"kind":"omap|pset|itree|bimap","variant":"...","steps":[label...]}; a label
// carries the call, the predicted result `res` and (`st`) the predicted observable contents after
// the call.  After every call the result and the full contents / iteration order are compared.

import (
	"encoding/json"
	"fmt"
	"sort"
	"strings"
	"sync/atomic"

	"github.com/onflow/cadence/common/bimap"
	"github.com/onflow/cadence/common/intervalst"
	"github.com/onflow/cadence/common/orderedmap"
	"github.com/onflow/cadence/common/persistent"

	"verifharness/util"
)

type kBeh struct {
	ID      int               `json:"id"`
	Kind    string            `json:"kind"`
	Variant string            `json:"variant"`
	Steps   []json.RawMessage `json:"steps"`
}

// soft collects result mismatches of read-only calls: the replay goes on after them (so that one
// deviation does not hide the rest of the behaviour); at most 3 per behaviour are kept.
type soft struct{ fails []*kFail }

func (s *soft) add(f *kFail) {
	if len(s.fails) < 3 {
		s.fails = append(s.fails, f)
	}
}

type kFail struct {
	step int
	op   string
	sig  map[string]any
	msg  string
	harn bool
}

func fail(step int, op string, sig map[string]any, format string, a ...any) *kFail {
	if sig == nil {
		sig = map[string]any{}
	}
	sig["op"] = op
	return &kFail{step: step, op: op, sig: sig, msg: fmt.Sprintf(format, a...)}
}

func optStr(xs []int) string {
	if len(xs) == 0 {
		return "absent"
	}
	return fmt.Sprint(xs[0])
}

func optOf(v int, ok bool) string {
	if !ok {
		return "absent"
	}
	return fmt.Sprint(v)
}

// ------------------------------------------------------------------ ordered map

type omStep struct {
	Op  string          `json:"op"`
	K   int             `json:"k"`
	V   int             `json:"v"`
	P   string          `json:"p"`
	O   [][2]int        `json:"o"`
	Res json.RawMessage `json:"res"`
	St  [][2]int        `json:"st"`
}

type OM = orderedmap.OrderedMap[int, int]

func omPred(p string) func(int) bool {
	switch p {
	case "even":
		return func(k int) bool { return k%2 == 0 }
	case "lt3":
		return func(k int) bool { return k < 3 }
	}
	return func(k int) bool { return k > 100 }
}

func omOther(o [][2]int, variant string) *OM {
	var m *OM
	if variant == "new" {
		m = orderedmap.New[OM](4)
	} else {
		m = &OM{}
	}
	for _, p := range o {
		m.Set(p[0], p[1])
	}
	return m
}

func omContents(m *OM) string {
	var sb strings.Builder
	m.Foreach(func(k, v int) { fmt.Fprintf(&sb, "%d=%d,", k, v) })
	return sb.String()
}

func pairsStr(ps [][2]int) string {
	var sb strings.Builder
	for _, p := range ps {
		fmt.Fprintf(&sb, "%d=%d,", p[0], p[1])
	}
	return sb.String()
}

func replayOM(b *kBeh, sf *soft) *kFail {
	var m *OM
	if b.Variant == "new" {
		m = orderedmap.New[OM](0)
	} else {
		m = &OM{} // the zero value is used all over the code base
	}
	written := b.Variant == "new" // false: still the zero value, nothing was ever stored in it
	for si, raw := range b.Steps {
		var s omStep
		if err := json.Unmarshal(raw, &s); err != nil {
			return &kFail{step: si, harn: true, msg: "bad label: " + err.Error()}
		}
		sig := map[string]any{"structure": "orderedmap", "construction": b.Variant, "empty": m.Len() == 0, "neverWritten": !written}
		var got, want string
		switch s.Op {
		case "init":
			continue
		case "set", "delete", "get":
			var r []int
			json.Unmarshal(s.Res, &r)
			want = optStr(r)
			switch s.Op {
			case "set":
				got = optOf(m.Set(s.K, s.V))
			case "delete":
				got = optOf(m.Delete(s.K))
			default:
				got = optOf(m.Get(s.K))
				if p := m.GetPair(s.K); (p != nil) != (want != "absent") || (p != nil && (p.Key != s.K || fmt.Sprint(p.Value) != want)) {
					got += " (GetPair disagrees)"
				}
			}
		case "contains", "forAllKeys", "forAnyKey", "disjoint":
			var r bool
			json.Unmarshal(s.Res, &r)
			want = fmt.Sprint(r)
			switch s.Op {
			case "contains":
				got = fmt.Sprint(m.Contains(s.K))
			case "forAllKeys":
				got = fmt.Sprint(m.ForAllKeys(omPred(s.P)))
			case "forAnyKey":
				got = fmt.Sprint(m.ForAnyKey(omPred(s.P)))
			default:
				got = fmt.Sprint(m.KeySetIsDisjointFrom(omOther(s.O, b.Variant)))
			}
		case "len":
			var r int
			json.Unmarshal(s.Res, &r)
			want, got = fmt.Sprint(r), fmt.Sprint(m.Len())
		case "clear":
			m.Clear()
		case "oldest", "newest":
			var r []int
			json.Unmarshal(s.Res, &r)
			want = optStr(r)
			p := m.Oldest()
			if s.Op == "newest" {
				p = m.Newest()
			}
			if p == nil {
				got = "absent"
			} else {
				got = fmt.Sprint(p.Key)
			}
		case "neighbours":
			var r struct {
				Prev []int `json:"prev"`
				Next []int `json:"next"`
			}
			json.Unmarshal(s.Res, &r)
			want = optStr(r.Prev) + "/" + optStr(r.Next)
			p := m.GetPair(s.K)
			if p == nil {
				got = "no pair"
			} else {
				pr, nx := "absent", "absent"
				if q := p.Prev(); q != nil {
					pr = fmt.Sprint(q.Key)
				}
				if q := p.Next(); q != nil {
					nx = fmt.Sprint(q.Key)
				}
				got = pr + "/" + nx
			}
		case "foreach":
			var r [][2]int
			json.Unmarshal(s.Res, &r)
			want = pairsStr(r)
			var sb strings.Builder
			n := 0
			m.ForeachWithIndex(func(i, k, v int) {
				if i != n {
					sb.WriteString("!")
				}
				n++
				fmt.Fprintf(&sb, "%d=%d,", k, v)
			})
			got = sb.String()
			var sb2 strings.Builder
			_ = m.ForeachWithError(func(k, v int) error { fmt.Fprintf(&sb2, "%d=%d,", k, v); return nil })
			if sb2.String() != got {
				got += " (ForeachWithError: " + sb2.String() + ")"
			}
		case "setAll":
			m.SetAll(omOther(s.O, b.Variant))
		case "intersection":
			m = orderedmap.KeySetIntersection(m, omOther(s.O, b.Variant))
		case "union":
			m = orderedmap.KeySetUnion(m, omOther(s.O, b.Variant))
		default:
			return &kFail{step: si, harn: true, msg: "unknown op " + s.Op}
		}
		if got != want {
			f := fail(si, s.Op, sig, "orderedmap (%s) %s(k=%d,v=%d,p=%s,o=%v): model predicts %s, code returned %s", b.Variant, s.Op, s.K, s.V, s.P, s.O, want, got)
			if s.Op == "set" || s.Op == "delete" {
				return f
			}
			sf.add(f)
		}
		switch s.Op {
		case "set", "intersection", "union":
			written = true
		case "setAll":
			written = written || len(s.O) > 0
		}
		// contents: forward iteration, backward iteration, length
		wantSt := pairsStr(s.St)
		if g := omContents(m); g != wantSt {
			return fail(si, s.Op, sig, "orderedmap (%s) after %s(k=%d,v=%d,o=%v): iteration order model=%s code=%s", b.Variant, s.Op, s.K, s.V, s.O, wantSt, g)
		}
		var back [][2]int
		for p := m.Newest(); p != nil; p = p.Prev() {
			back = append(back, [2]int{p.Key, p.Value})
			if len(back) > len(s.St)+2 {
				break
			}
		}
		for i, j := 0, len(back)-1; i < j; i, j = i+1, j-1 {
			back[i], back[j] = back[j], back[i]
		}
		if g := pairsStr(back); g != wantSt {
			return fail(si, s.Op, sig, "orderedmap (%s) after %s(k=%d): backward iteration model=%s code=%s", b.Variant, s.Op, s.K, wantSt, g)
		}
		if m.Len() != len(s.St) {
			return fail(si, s.Op, sig, "orderedmap (%s) after %s(k=%d): Len model=%d code=%d", b.Variant, s.Op, s.K, len(s.St), m.Len())
		}
	}
	return nil
}

// ------------------------------------------------------------------ persistent ordered set

type psStep struct {
	Op  string          `json:"op"`
	S   int             `json:"s"`
	A   int             `json:"a"`
	B   int             `json:"b"`
	X   int             `json:"x"`
	Res json.RawMessage `json:"res"`
	St  [][]int         `json:"st"`
}

func psShow(s *persistent.OrderedSet[int]) []int {
	out := []int{}
	_ = s.ForEach(func(x int) error { out = append(out, x); return nil })
	return out
}

func replayPS(b *kBeh) *kFail {
	var sets []*persistent.OrderedSet[int]
	for si, raw := range b.Steps {
		var s psStep
		if err := json.Unmarshal(raw, &s); err != nil {
			return &kFail{step: si, harn: true, msg: "bad label: " + err.Error()}
		}
		sig := map[string]any{"structure": "persistent.OrderedSet"}
		var got, want string
		switch s.Op {
		case "init":
			continue
		case "new":
			sets = append(sets, persistent.NewOrderedSet[int](nil))
		case "clone":
			sets = append(sets, sets[s.S-1].Clone())
		case "add":
			sets[s.S-1].Add(s.X)
		case "contains", "isEmpty":
			var r bool
			json.Unmarshal(s.Res, &r)
			want = fmt.Sprint(r)
			if s.Op == "contains" {
				got = fmt.Sprint(sets[s.S-1].Contains(s.X))
			} else {
				got = fmt.Sprint(sets[s.S-1].IsEmpty())
			}
		case "forEach":
			var r []int
			json.Unmarshal(s.Res, &r)
			want, got = fmt.Sprint(r), fmt.Sprint(psShow(sets[s.S-1]))
			if len(r) == 0 {
				want = "[]"
			}
		case "addIntersection":
			sets[s.S-1].AddIntersection(sets[s.A-1], sets[s.B-1])
		default:
			return &kFail{step: si, harn: true, msg: "unknown op " + s.Op}
		}
		if got != want {
			return fail(si, s.Op, sig, "persistent set %s(set=%d,x=%d): model predicts %s, code returned %s", s.Op, s.S, s.X, want, got)
		}
		if len(s.St) != len(sets) {
			return &kFail{step: si, harn: true, msg: fmt.Sprintf("model has %d sets, harness %d", len(s.St), len(sets))}
		}
		for i, w := range s.St {
			g := psShow(sets[i])
			if len(w) == 0 {
				w = []int{}
			}
			if fmt.Sprint(g) != fmt.Sprint(w) {
				return fail(si, s.Op, sig, "persistent set after %s(set=%d,a=%d,b=%d,x=%d): set %d shows model=%v code=%v", s.Op, s.S, s.A, s.B, s.X, i+1, w, g)
			}
			if sets[i].IsEmpty() != (len(w) == 0) {
				return fail(si, s.Op, sig, "persistent set after %s: IsEmpty of set %d is %v, model shows %v", s.Op, i+1, sets[i].IsEmpty(), w)
			}
		}
	}
	return nil
}

// ------------------------------------------------------------------ bimap

type bmStep struct {
	Op  string          `json:"op"`
	K   int             `json:"k"`
	V   int             `json:"v"`
	Res json.RawMessage `json:"res"`
	St  [][2]int        `json:"st"`
}

func replayBM(b *kBeh) *kFail {
	m := bimap.NewBiMap[int, int]()
	for si, raw := range b.Steps {
		var s bmStep
		if err := json.Unmarshal(raw, &s); err != nil {
			return &kFail{step: si, harn: true, msg: "bad label: " + err.Error()}
		}
		sig := map[string]any{"structure": "bimap"}
		var got, want string
		switch s.Op {
		case "init":
			continue
		case "insert":
			m.Insert(s.K, s.V)
		case "delete":
			m.Delete(s.K)
		case "deleteInverse":
			m.DeleteInverse(s.V)
		case "exists", "existsInverse":
			var r bool
			json.Unmarshal(s.Res, &r)
			want = fmt.Sprint(r)
			if s.Op == "exists" {
				got = fmt.Sprint(m.Exists(s.K))
			} else {
				got = fmt.Sprint(m.ExistsInverse(s.V))
			}
		case "get", "getInverse":
			var r []int
			json.Unmarshal(s.Res, &r)
			want = optStr(r)
			if s.Op == "get" {
				got = optOf(m.Get(s.K))
			} else {
				got = optOf(m.GetInverse(s.V))
			}
		case "size":
			var r int
			json.Unmarshal(s.Res, &r)
			want, got = fmt.Sprint(r), fmt.Sprint(m.Size())
		default:
			return &kFail{step: si, harn: true, msg: "unknown op " + s.Op}
		}
		if got != want {
			return fail(si, s.Op, sig, "bimap %s(k=%d,v=%d): model predicts %s, code returned %s", s.Op, s.K, s.V, want, got)
		}
		// contents: probe every key and value of a universe that contains the model's
		if m.Size() != len(s.St) {
			return fail(si, s.Op, sig, "bimap after %s(k=%d,v=%d): Size model=%d code=%d", s.Op, s.K, s.V, len(s.St), m.Size())
		}
		fw := map[int]int{}
		bw := map[int]int{}
		for _, p := range s.St {
			fw[p[0]] = p[1]
			bw[p[1]] = p[0]
		}
		for x := 0; x <= 17; x++ {
			v, ok := m.Get(x)
			wv, wok := fw[x]
			if ok != wok || (ok && v != wv) {
				return fail(si, s.Op, sig, "bimap after %s(k=%d,v=%d): Get(%d) model=%s code=%s", s.Op, s.K, s.V, x, optOf(wv, wok), optOf(v, ok))
			}
			k, ok := m.GetInverse(x)
			wk, wok := bw[x]
			if ok != wok || (ok && k != wk) {
				return fail(si, s.Op, sig, "bimap after %s(k=%d,v=%d): GetInverse(%d) model=%s code=%s", s.Op, s.K, s.V, x, optOf(wk, wok), optOf(k, ok))
			}
		}
	}
	return nil
}

// ------------------------------------------------------------------ interval tree

type pos int

func (p pos) String() string { return fmt.Sprint(int(p)) }
func (p pos) Compare(o intervalst.Position) int {
	if _, ok := o.(intervalst.MinPosition); ok {
		return 1
	}
	q := o.(pos)
	switch {
	case p < q:
		return -1
	case p > q:
		return 1
	}
	return 0
}

type itEntryCount struct {
	E [3]int
	N int
}

func (e *itEntryCount) UnmarshalJSON(b []byte) error {
	var raw []json.RawMessage
	if err := json.Unmarshal(b, &raw); err != nil || len(raw) != 2 {
		return fmt.Errorf("bad bag entry %s", b)
	}
	if err := json.Unmarshal(raw[0], &e.E); err != nil {
		return err
	}
	return json.Unmarshal(raw[1], &e.N)
}

type itStep struct {
	Op  string          `json:"op"`
	Lo  int             `json:"lo"`
	Hi  int             `json:"hi"`
	V   int             `json:"v"`
	P   int             `json:"p"`
	Res json.RawMessage `json:"res"`
	St  *[]itEntryCount `json:"st"`
}

func bagStrings(bag []itEntryCount) []string {
	var out []string
	for _, e := range bag {
		for i := 0; i < e.N; i++ {
			out = append(out, fmt.Sprintf("[%d,%d]=%d", e.E[0], e.E[1], e.E[2]))
		}
	}
	sort.Strings(out)
	return out
}

func replayIT(b *kBeh) *kFail {
	t := &intervalst.IntervalST[int]{}
	for si, raw := range b.Steps {
		var s itStep
		if err := json.Unmarshal(raw, &s); err != nil {
			return &kFail{step: si, harn: true, msg: "bad label: " + err.Error()}
		}
		sig := map[string]any{"structure": "intervalst"}
		switch s.Op {
		case "init":
			continue
		case "put":
			t.Put(intervalst.NewInterval(pos(s.Lo), pos(s.Hi)), s.V)
		case "get":
			var r struct {
				Present bool  `json:"present"`
				Allowed []int `json:"allowed"`
			}
			json.Unmarshal(s.Res, &r)
			v, ok := t.Get(intervalst.NewInterval(pos(s.Lo), pos(s.Hi)))
			in := false
			for _, a := range r.Allowed {
				in = in || a == v
			}
			if ok != r.Present || (ok && !in) || t.Contains(intervalst.NewInterval(pos(s.Lo), pos(s.Hi))) != r.Present {
				return fail(si, s.Op, sig, "interval tree Get([%d,%d]): model predicts present=%v with a value in %v, code returned (%d,%v)", s.Lo, s.Hi, r.Present, r.Allowed, v, ok)
			}
		case "search", "searchInterval":
			var r struct {
				Present bool     `json:"present"`
				Allowed [][3]int `json:"allowed"`
			}
			json.Unmarshal(s.Res, &r)
			var iv *intervalst.Interval
			var v int
			var ok bool
			if s.Op == "search" {
				iv, v, ok = t.Search(pos(s.P))
			} else {
				iv, v, ok = t.SearchInterval(intervalst.NewInterval(pos(s.Lo), pos(s.Hi)))
			}
			in := false
			if ok && iv != nil {
				for _, a := range r.Allowed {
					in = in || (a[0] == int(iv.Min.(pos)) && a[1] == int(iv.Max.(pos)) && a[2] == v)
				}
			}
			if ok != r.Present || (ok && !in) {
				return fail(si, s.Op, sig, "interval tree %s(p=%d,[%d,%d]): model predicts present=%v with an entry in %v, code returned (%v,%d,%v)", s.Op, s.P, s.Lo, s.Hi, r.Present, r.Allowed, iv, v, ok)
			}
		case "searchAll":
			var r []itEntryCount
			json.Unmarshal(s.Res, &r)
			var got []string
			for _, e := range t.SearchAll(pos(s.P)) {
				got = append(got, fmt.Sprintf("[%d,%d]=%d", int(e.Interval.Min.(pos)), int(e.Interval.Max.(pos)), e.Value))
			}
			sort.Strings(got)
			if fmt.Sprint(got) != fmt.Sprint(bagStrings(r)) {
				return fail(si, s.Op, sig, "interval tree SearchAll(%d): model predicts %v, code returned %v", s.P, bagStrings(r), got)
			}
		case "values":
		default:
			return &kFail{step: si, harn: true, msg: "unknown op " + s.Op}
		}
		if s.St != nil {
			// contents: the bag of values
			var want []int
			for _, e := range *s.St {
				for i := 0; i < e.N; i++ {
					want = append(want, e.E[2])
				}
			}
			got := append([]int(nil), t.Values()...)
			sort.Ints(want)
			sort.Ints(got)
			if fmt.Sprint(got) != fmt.Sprint(want) {
				return fail(si, s.Op, sig, "interval tree after %s([%d,%d]=%d): Values() model=%v code=%v", s.Op, s.Lo, s.Hi, s.V, want, got)
			}
		}
	}
	return nil
}

func mainC51(in, outPath string) {
	var behs []*kBeh
	err := util.ReadLines(in, func(line []byte) error {
		var b kBeh
		if err := json.Unmarshal(line, &b); err != nil {
			return err
		}
		behs = append(behs, &b)
		return nil
	})
	if err != nil {
		util.Die("reading behaviours: %v", err)
	}
	out := util.NewOut(outPath)
	defer out.Close()
	var nfail, nsteps int64
	util.Parallel(len(behs), workers(), func(i int) {
		b := behs[i]
		var f *kFail
		var sf soft
		func() {
			defer func() {
				if r := recover(); r != nil {
					f = fail(len(b.Steps), "panic", map[string]any{"structure": b.Kind}, "%s: the code panicked: %v", b.Kind, r)
				}
			}()
			switch b.Kind {
			case "omap":
				f = replayOM(b, &sf)
			case "pset":
				f = replayPS(b)
			case "bimap":
				f = replayBM(b)
			case "itree":
				f = replayIT(b)
			default:
				f = &kFail{harn: true, msg: "unknown kind " + b.Kind}
			}
		}()
		atomic.AddInt64(&nsteps, int64(len(b.Steps)))
		all := sf.fails
		if f != nil {
			all = append(all, f)
		}
		for _, f := range all {
			atomic.AddInt64(&nfail, 1)
			n := f.step + 1
			if n > len(b.Steps) {
				n = len(b.Steps)
			}
			if f.sig == nil {
				f.sig = map[string]any{}
			}
			f.sig["kind"] = "result"
			out.Write(&Fail{ID: b.ID, Kind: "result", Harness: f.harn, Step: f.step, Op: f.op, Sig: f.sig, Msg: f.msg,
				Beh: map[string]any{"kind": b.Kind, "variant": b.Variant, "steps": b.Steps[:n]}})
		}
	})
	out.Write(map[string]any{"summary": true, "behaviours": len(behs), "replays": len(behs), "steps": nsteps, "failures": nfail})
}
