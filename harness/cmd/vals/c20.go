package main

// C20: behaviours of spec/system/Containers.tla replayed on the real runtime.
//
// A behaviour is {"id":n,"cn":CN,"nv":NV,"steps":[label...]}; a label is the `last` record of the
// specification (operation, arguments, predicted result `res`); the label that ends a
// transaction carries "com", the committed contents the specification predicts.
// Each transaction of the behaviour is rendered to one Cadence transaction in which every
// call is followed by a log of its observable result.  After every transaction a script
// (fresh storage: everything is re-read from the ledger) reads the full contents.
// Refinements of the element representation: "int" (inlinable Int), "str" (300-byte String,
// not inlinable; String keys), "nest" (nested arrays [Int]).

import (
	"encoding/json"
	"fmt"
	"os"
	"sort"
	"strconv"
	"strings"
	"sync/atomic"

	"errors"

	"github.com/onflow/cadence"
	"github.com/onflow/cadence/common"
	"github.com/onflow/cadence/runtime"

	"verifharness/health"
	"verifharness/host"
	"verifharness/util"
)

type cCom struct {
	S []int    `json:"s"`
	D [][2]int `json:"d"`
	C []int    `json:"c"`
}

type cStep struct {
	Op   string          `json:"op"`
	Tg   string          `json:"tg"`
	Src  string          `json:"src"`
	Mode string          `json:"mode"`
	P    string          `json:"p"`
	F    string          `json:"f"`
	I    int             `json:"i"`
	J    int             `json:"j"`
	X    int             `json:"x"`
	K    int             `json:"k"`
	N    int             `json:"n"`
	Xs   []int           `json:"xs"`
	Res  json.RawMessage `json:"res"`
	Com  *cCom           `json:"com"`
}

type cBeh struct {
	ID    int     `json:"id"`
	CN    int     `json:"cn"`
	NV    int     `json:"nv"`
	Deep  bool    `json:"deep"`
	Steps []cStep `json:"steps"`
}

type refinement struct {
	name      string
	E, K      string // element type, key type
	container bool   // elements are containers: through a reference they are handed out as references
	body      string // enc/dec functions
	init      string // contract initializer (gets the table bound substituted for TABMAX)
}

var pad295 = strings.Repeat("x", 295)

// key representations: "short" string keys ("k7") and "long" ones (300 characters: longer than
// atree's maximum inline map key size, so every key lives in a slab of its own)
const keyFuncsShort = `
  access(all) let ktab: {String: Int}
  access(all) view fun kenc(_ k: Int): String { return "k".concat(k.toString()) }
  access(all) view fun kdec(_ k: String): Int { return self.ktab[k] ?? -999 }
`
const keyFuncsLong = `
  access(all) let pad: String
  access(all) let ktab: {String: Int}
  access(all) view fun kenc(_ k: Int): String { return (10000 + k).toString().concat(self.pad) }
  access(all) view fun kdec(_ k: String): Int { return self.ktab[k] ?? -999 }
`
const keyInit = `self.ktab = {}; var k = 0; while k <= TABMAX { self.ktab[self.kenc(k)] = k; k = k + 1 }; k = 500; while k <= 512 { self.ktab[self.kenc(k)] = k; k = k + 1 }`

const intElems = `
  access(all) view fun enc(_ k: Int): Int { return k }
  access(all) view fun dec(_ e: Int): Int { return e }
`

// elements that are dictionaries {String: Int}: int k is {key(k): k, key(k+500): -7}
const dictElems = `
  access(all) view fun enc(_ k: Int): {String: Int} { return {self.kenc(k): k, self.kenc(k + 500): -7} }
  access(all) view fun dec(_ e: {String: Int}): Int {
    if e.length != 2 { return -999 }
    var r = -999
    for key in e.keys { let v = e[key]!; if v != -7 && (self.ktab[key] ?? -5) == v { r = v } }
    if r < 0 || e[self.kenc(r + 500)] != -7 { return -999 }
    return r
  }
`

func containerFuncs(E string) string {
	return strings.ReplaceAll(`
  access(all) fun showOR(_ r: &ELEM?): String { if let x = r { return self.dec(*x).toString() }; return "nil" }
  // functions called through a reference to a container of containers hand out containers of references
  access(all) fun owned(_ a: [&ELEM]): [ELEM] { let r: [ELEM] = []; for e in a { r.append(*e) }; return r }
  access(all) fun ownedC(_ a: [&ELEM; CN]): [ELEM; CN] { let r: [ELEM] = []; for e in a { r.append(*e) }; return r.toConstantSized<[ELEM; CN]>()! }
`, "ELEM", E)
}

var refinements = map[string]refinement{
	"int": {name: "int", E: "Int", K: "Int", body: intElems + `
  access(all) view fun kenc(_ k: Int): Int { return k }
  access(all) view fun kdec(_ k: Int): Int { return k }
`},
	"str": {name: "str", E: "String", K: "String", body: `
  access(all) let pad: String
  access(all) let tab: {String: Int}
  // 5 digits, then 295 bytes of padding: 300 bytes, never stored inline
  access(all) view fun enc(_ k: Int): String { return (10000 + k).toString().concat(self.pad) }
  // decoding is a lookup of the whole string: anything but an exact encoding is reported as -999
  access(all) view fun dec(_ e: String): Int { return self.tab[e] ?? -999 }
  access(all) view fun kenc(_ k: Int): String { return self.enc(k) }
  access(all) view fun kdec(_ k: String): Int { return self.dec(k) }
`, init: `self.pad = "` + pad295 + `"; self.tab = {}; var k = 0; while k <= TABMAX { self.tab[self.enc(k)] = k; k = k + 1 }`},
	"nest": {name: "nest", E: "[Int]", K: "Int", container: true, body: `
  access(all) view fun enc(_ k: Int): [Int] { return [k, 2 * k + 1, 7] }
  access(all) view fun dec(_ e: [Int]): Int {
    if e.length != 3 || e[1] != 2 * e[0] + 1 || e[2] != 7 { return -999 }
    return e[0]
  }
  access(all) view fun kenc(_ k: Int): Int { return k }
  access(all) view fun kdec(_ k: Int): Int { return k }
` + containerFuncs("[Int]")},
	// payload classes by STORAGE FORM crossed with the declared element type:
	// arbitrary-precision Int / UInt too large to be stored inline (1 << 8000: the element, the dictionary
	// key and the dictionary value each live in a slab of their own while a small container stays one slab),
	// a medium Int that is still inline (1 << 1000), and Int256 (always inline)
	"bigI": {name: "bigI", E: "Int", K: "Int", body: `
  access(all) let big: Int
  access(all) view fun enc(_ k: Int): Int { return self.big + k }
  access(all) view fun dec(_ e: Int): Int { return e - self.big }
  access(all) view fun kenc(_ k: Int): Int { return self.big + k }
  access(all) view fun kdec(_ k: Int): Int { return k - self.big }
`, init: `self.big = 1 << 8000`},
	"bigU": {name: "bigU", E: "UInt", K: "UInt", body: `
  access(all) let big: UInt
  access(all) view fun enc(_ k: Int): UInt { return self.big + UInt(k) }
  access(all) view fun dec(_ e: UInt): Int { return e >= self.big ? Int(e - self.big) : -999 }
  access(all) view fun kenc(_ k: Int): UInt { return self.big + UInt(k) }
  access(all) view fun kdec(_ k: UInt): Int { return k >= self.big ? Int(k - self.big) : -999 }
`, init: `self.big = 1 << 8000`},
	"medI": {name: "medI", E: "Int", K: "Int", body: `
  access(all) let big: Int
  access(all) view fun enc(_ k: Int): Int { return self.big + k }
  access(all) view fun dec(_ e: Int): Int { return e - self.big }
  access(all) view fun kenc(_ k: Int): Int { return self.big + k }
  access(all) view fun kdec(_ k: Int): Int { return k - self.big }
`, init: `self.big = 1 << 1000`},
	"i256": {name: "i256", E: "Int256", K: "Int256", body: `
  access(all) let big: Int256
  access(all) view fun enc(_ k: Int): Int256 { return self.big + Int256(k) }
  access(all) view fun dec(_ e: Int256): Int { return Int(e - self.big) }
  access(all) view fun kenc(_ k: Int): Int256 { return self.big + Int256(k) }
  access(all) view fun kdec(_ k: Int256): Int { return Int(k - self.big) }
`, init: `self.big = 1 << 200`},
	// key representation parameter: Int elements under short / long string keys
	"sk": {name: "sk", E: "Int", K: "String", body: intElems + keyFuncsShort, init: keyInit},
	"lk": {name: "lk", E: "Int", K: "String", body: intElems + keyFuncsLong, init: `self.pad = "` + pad295 + `"; ` + keyInit},
	// dictionaries nested in the array / dictionary / constant-sized array, with short / long keys inside and outside
	"dnS": {name: "dnS", E: "{String: Int}", K: "String", container: true, body: keyFuncsShort + dictElems + containerFuncs("{String: Int}"), init: keyInit},
	"dnL": {name: "dnL", E: "{String: Int}", K: "String", container: true, body: keyFuncsLong + dictElems + containerFuncs("{String: Int}"),
		init: `self.pad = "` + pad295 + `"; ` + keyInit},
}

func c20Contract(r refinement, cn int, deep bool) string {
	tabMax := 12 // the cover uses values and keys 0..3 only
	if deep {
		tabMax = 800
	}
	init := strings.ReplaceAll(r.init, "TABMAX", strconv.Itoa(tabMax))
	s := `access(all) contract T {` + r.body + `
  access(all) fun show(_ a: [E]): String { var s = ""; for e in a { s = s.concat(self.dec(e).toString()).concat(",") }; return s }
  access(all) fun showC(_ a: [E; CN]): String { var s = ""; for e in a { s = s.concat(self.dec(e).toString()).concat(",") }; return s }
  access(all) fun showI(_ a: [Int]): String { var s = ""; for e in a { s = s.concat(e.toString()).concat(",") }; return s }
  access(all) fun showCI(_ a: [Int; CN]): String { var s = ""; for e in a { s = s.concat(e.toString()).concat(",") }; return s }
  access(all) fun showK(_ a: [K]): String { var s = ""; for e in a { s = s.concat(self.kdec(e).toString()).concat(",") }; return s }
  access(all) fun showO(_ e: E?): String { if let x = e { return self.dec(x).toString() }; return "nil" }
  access(all) fun showOI(_ e: Int?): String { if let x = e { return x.toString() }; return "nil" }
  access(all) fun showD(_ d: {K: E}): String {
    var s = ""
    for k in d.keys { s = s.concat(self.kdec(k).toString()).concat("=").concat(self.dec(d[k]!).toString()).concat(",") }
    return s
  }
  init() { ` + init + ` }
}`
	s = strings.ReplaceAll(s, "; CN]", fmt.Sprintf("; %d]", cn))
	s = strings.ReplaceAll(s, "[E; ", "["+r.E+"; ")
	s = strings.ReplaceAll(s, "{K: E}", fmt.Sprintf("{%s: %s}", r.K, r.E))
	s = strings.ReplaceAll(s, "[E]", "["+r.E+"]")
	s = strings.ReplaceAll(s, "[K]", "["+r.K+"]")
	s = strings.ReplaceAll(s, "E?", r.E+"?")
	return s
}

type c20ctx struct {
	r      refinement
	mode   string
	cn, nv int
}

func (c *c20ctx) stored(tg string) bool { return tg == "s" || tg == "d" || tg == "c" }
func (c *c20ctx) viaRef(tg string) bool { return c.mode == "ref" && c.stored(tg) }

// elem turns an element expression read out of container tg into a value expression.
func (c *c20ctx) elem(tg, expr string) string {
	if c.viaRef(tg) && c.r.container {
		return "*" + expr
	}
	return expr
}

// refElems: calls on tg go through a reference to a container of containers, so callbacks receive and
// array-returning functions hand out references to the elements.
func (c *c20ctx) refElems(tg string) bool { return c.viaRef(tg) && c.r.container }

// owned turns the array returned by a function called on tg into an array of values.
func (c *c20ctx) owned(tg, expr string) string {
	if c.refElems(tg) {
		return "T.owned(" + expr + ")"
	}
	return expr
}

func (c *c20ctx) ownedC(tg, expr string) string {
	if c.refElems(tg) {
		return "T.ownedC(" + expr + ")"
	}
	return expr
}

// cbParam is the parameter type of filter/map callbacks on tg, cbVal the value of the parameter e.
func (c *c20ctx) cbParam(tg string) string {
	if c.refElems(tg) {
		return "&" + c.r.E
	}
	return c.r.E
}

func (c *c20ctx) cbVal(tg string) string {
	if c.refElems(tg) {
		return "*e"
	}
	return "e"
}

// whole is a value expression for the whole container tg.
func (c *c20ctx) whole(tg string) string {
	if c.viaRef(tg) {
		return "*" + tg
	}
	return tg
}

func (c *c20ctx) lit(xs []int) string {
	parts := make([]string, len(xs))
	for i, x := range xs {
		parts[i] = fmt.Sprintf("T.enc(%d)", x)
	}
	return fmt.Sprintf("([%s] as [%s])", strings.Join(parts, ", "), c.r.E)
}

func (c *c20ctx) pred(tg, p string) string {
	if p == "odd" {
		return "T.dec(" + c.cbVal(tg) + ") % 2 == 1"
	}
	return "T.dec(" + c.cbVal(tg) + ") > 1"
}

func (c *c20ctx) writeC(i int, expr string) string {
	if c.mode == "lms" {
		return fmt.Sprintf("c = %s", expr)
	}
	return fmt.Sprintf("var q%[1]d = 0; while q%[1]d < %[2]d { c[q%[1]d] = %[3]s[q%[1]d]; q%[1]d = q%[1]d + 1 }", i, c.cn, expr)
}

func (c *c20ctx) operand(s cStep) string {
	if s.Src == "lit" {
		return c.lit(s.Xs)
	}
	return c.whole(s.Src)
}

// renderOp renders one call; it logs exactly one line.
func (c *c20ctx) renderOp(i int, s cStep) string {
	E, K := c.r.E, c.r.K
	tg := s.Tg
	CE := fmt.Sprintf("[%s; %d]", E, c.cn)
	key := fmt.Sprintf("T.kenc(%d)", s.K)
	switch s.Op {
	case "append":
		return fmt.Sprintf("%s.append(T.enc(%d)); log(%s.length.toString())", tg, s.X, tg)
	case "appendAll":
		return fmt.Sprintf("%s.appendAll(%s); log(%s.length.toString())", tg, c.operand(s), tg)
	case "insert":
		return fmt.Sprintf("%s.insert(at: %d, T.enc(%d)); log(%s.length.toString())", tg, s.I, s.X, tg)
	case "remove":
		return fmt.Sprintf("log(T.dec(%s.remove(at: %d)).toString())", tg, s.I)
	case "removeFirst":
		return fmt.Sprintf("log(T.dec(%s.removeFirst()).toString())", tg)
	case "removeLast":
		return fmt.Sprintf("log(T.dec(%s.removeLast()).toString())", tg)
	case "get":
		return fmt.Sprintf("log(T.dec(%s).toString())", c.elem(tg, fmt.Sprintf("%s[%d]", tg, s.I)))
	case "set":
		return fmt.Sprintf("%s[%d] = T.enc(%d); log(%s.length.toString())", tg, s.I, s.X, tg)
	case "slice":
		return fmt.Sprintf("m = %s; log(T.show(m))", c.owned(tg, fmt.Sprintf("%s.slice(from: %d, upTo: %d)", tg, s.I, s.J)))
	case "reverse":
		return fmt.Sprintf("m = %s; log(T.show(m))", c.owned(tg, tg+".reverse()"))
	case "concat":
		return fmt.Sprintf("m = %s; log(T.show(m))", c.owned(tg, fmt.Sprintf("%s.concat(%s)", tg, c.operand(s))))
	case "filter":
		return fmt.Sprintf("m = %s; log(T.show(m))", c.owned(tg, fmt.Sprintf("%s.filter(view fun (e: %s): Bool { return %s })", tg, c.cbParam(tg), c.pred(tg, s.P))))
	case "map":
		if s.F == "rot" {
			return fmt.Sprintf("m = %s.map(fun (e: %s): %s { return T.enc((T.dec(%s) %% %d) + 1) }); log(T.show(m))", tg, c.cbParam(tg), E, c.cbVal(tg), c.nv)
		}
		return fmt.Sprintf("log(T.showI(%s.map(fun (e: %s): Int { return T.dec(%s) * 2 })))", tg, c.cbParam(tg), c.cbVal(tg))
	case "copy":
		return fmt.Sprintf("m = %s; log(T.show(m))", c.whole(tg))
	case "contains":
		return fmt.Sprintf("log(%s.contains(T.enc(%d)) ? \"true\" : \"false\")", tg, s.X)
	case "firstIndex":
		return fmt.Sprintf("log(T.showOI(%s.firstIndex(of: T.enc(%d))))", tg, s.X)
	case "length":
		return fmt.Sprintf("log(%s.length.toString())", tg)
	case "iterate":
		return fmt.Sprintf("var acc%[1]d = \"\"; var n%[1]d = 0; for ix, e in %[2]s { if ix != n%[1]d { acc%[1]d = acc%[1]d.concat(\"!\") }; n%[1]d = n%[1]d + 1; acc%[1]d = acc%[1]d.concat(T.dec(%[3]s).toString()).concat(\",\") }; for e in %[2]s { n%[1]d = n%[1]d - 1 }; log(n%[1]d == 0 ? acc%[1]d : \"count-mismatch\")",
			i, tg, c.elem(tg, "e"))
	case "toConst":
		if c.refElems(tg) {
			return fmt.Sprintf("if let rc%[1]d = %[2]s.toConstantSized<[&%[5]s; %[6]d]>() { let cc%[1]d = T.ownedC(rc%[1]d); %[4]s; log(\"some:\".concat(T.showC(cc%[1]d))) } else { log(\"nil\") }",
				i, tg, CE, c.writeC(i, fmt.Sprintf("cc%d", i)), E, c.cn)
		}
		return fmt.Sprintf("if let cc%[1]d = %[2]s.toConstantSized<%[3]s>() { %[4]s; log(\"some:\".concat(T.showC(cc%[1]d))) } else { log(\"nil\") }",
			i, tg, CE, c.writeC(i, fmt.Sprintf("cc%d", i)))
	case "bulk":
		return fmt.Sprintf("var b%[1]d = 0; while b%[1]d < %[2]d { %[3]s.append(T.enc(((%[4]d + b%[1]d) %% %[5]d) + 1)); b%[1]d = b%[1]d + 1 }; log(%[3]s.length.toString())",
			i, s.N, tg, s.I, c.nv)
	case "trunc":
		return fmt.Sprintf("var b%[1]d = 0; while b%[1]d < %[2]d { %[3]s.removeLast(); b%[1]d = b%[1]d + 1 }; log(%[3]s.length.toString())", i, s.N, tg)
	case "behead":
		return fmt.Sprintf("var b%[1]d = 0; while b%[1]d < %[2]d { %[3]s.removeFirst(); b%[1]d = b%[1]d + 1 }; log(%[3]s.length.toString())", i, s.N, tg)
	// constant-sized array
	case "cget":
		return fmt.Sprintf("log(T.dec(%s).toString())", c.elem("c", fmt.Sprintf("c[%d]", s.I)))
	case "cset":
		return fmt.Sprintf("c[%d] = T.enc(%d); log(c.length.toString())", s.I, s.X)
	case "ccontains":
		return fmt.Sprintf("log(c.contains(T.enc(%d)) ? \"true\" : \"false\")", s.X)
	case "cfirstIndex":
		return fmt.Sprintf("log(T.showOI(c.firstIndex(of: T.enc(%d))))", s.X)
	case "citerate":
		return fmt.Sprintf("var acc%[1]d = \"\"; for e in c { acc%[1]d = acc%[1]d.concat(T.dec(%[2]s).toString()).concat(\",\") }; log(acc%[1]d)", i, c.elem("c", "e"))
	case "creverse":
		return fmt.Sprintf("let r%[1]d = %[3]s; %[2]s; log(T.showC(r%[1]d))", i, c.writeC(i, fmt.Sprintf("r%d", i)), c.ownedC("c", "c.reverse()"))
	case "cmap":
		if s.F == "rot" {
			return fmt.Sprintf("let r%[1]d = c.map(fun (e: %[5]s): %[2]s { return T.enc((T.dec(%[6]s) %% %[3]d) + 1) }); %[4]s; log(T.showC(r%[1]d))",
				i, E, c.nv, c.writeC(i, fmt.Sprintf("r%d", i)), c.cbParam("c"), c.cbVal("c"))
		}
		return fmt.Sprintf("log(T.showCI(c.map(fun (e: %s): Int { return T.dec(%s) * 2 })))", c.cbParam("c"), c.cbVal("c"))
	case "cfilter":
		return fmt.Sprintf("m = %s; log(T.show(m))", c.owned("c", fmt.Sprintf("c.filter(view fun (e: %s): Bool { return %s })", c.cbParam("c"), c.pred("c", s.P))))
	case "ctoVar":
		return fmt.Sprintf("m = %s; log(T.show(m))", c.owned("c", "c.toVariableSized()"))
	// dictionaries
	case "dinsert":
		return fmt.Sprintf("log(T.showO(%s.insert(key: %s, T.enc(%d))))", tg, key, s.X)
	case "dremove":
		return fmt.Sprintf("log(T.showO(%s.remove(key: %s)))", tg, key)
	case "dget":
		if c.viaRef(tg) && c.r.container {
			return fmt.Sprintf("log(T.showOR(%s[%s]))", tg, key)
		}
		return fmt.Sprintf("log(T.showO(%s[%s]))", tg, key)
	case "dset":
		return fmt.Sprintf("%s[%s] = T.enc(%d); log(%s.length.toString())", tg, key, s.X, tg)
	case "dsetnil":
		return fmt.Sprintf("%s[%s] = nil; log(%s.length.toString())", tg, key, tg)
	case "dcontainsKey":
		return fmt.Sprintf("log(%s.containsKey(%s) ? \"true\" : \"false\")", tg, key)
	case "dlength":
		return fmt.Sprintf("log(%s.length.toString())", tg)
	case "dkeys":
		if c.viaRef(tg) {
			return fmt.Sprintf("log(T.showK(*%s.keys))", tg)
		}
		return fmt.Sprintf("log(T.showK(%s.keys))", tg)
	case "dvalues":
		if c.viaRef(tg) {
			return fmt.Sprintf("log(T.show(*%s.values))", tg)
		}
		return fmt.Sprintf("log(T.show(%s.values))", tg)
	case "diterate":
		// `for key in dict` visits the keys; the value is read by index
		return fmt.Sprintf("var acc%[1]d = \"\"; for key in %[2]s { acc%[1]d = acc%[1]d.concat(T.kdec(key).toString()).concat(\"=\").concat(T.dec(%[3]s).toString()).concat(\",\") }; log(acc%[1]d)",
			i, c.whole(tg), c.elem(tg, fmt.Sprintf("%s[key]!", tg)))
	case "dforEachKey":
		return fmt.Sprintf("var vis%[1]d = \"\"; %[2]s.forEachKey(fun (key: %[3]s): Bool { vis%[1]d = vis%[1]d.concat(T.kdec(key).toString()).concat(\",\"); return T.kdec(key) != %[4]d }); log(vis%[1]d)",
			i, tg, K, s.K)
	case "dcopy":
		return fmt.Sprintf("md = %s; log(T.showD(md))", c.whole(tg))
	case "dbulk":
		return fmt.Sprintf("var b%[1]d = %[2]d; while b%[1]d <= %[3]d { %[4]s[T.kenc(b%[1]d)] = T.enc((b%[1]d %% %[5]d) + 1); b%[1]d = b%[1]d + 1 }; log(%[4]s.length.toString())",
			i, s.I+1, s.I+s.N, tg, c.nv)
	case "dbulkRemove":
		return fmt.Sprintf("var b%[1]d = %[2]d; while b%[1]d <= %[3]d { %[4]s.remove(key: T.kenc(b%[1]d)); b%[1]d = b%[1]d + 1 }; log(%[4]s.length.toString())",
			i, s.I+1, s.I+s.N, tg)
	case "amove", "dmove":
		// move the stored container to the other account and back (a transfer with removal each way)
		name, ty := "s", fmt.Sprintf("[%s]", E)
		if s.Op == "dmove" {
			name, ty = "d", fmt.Sprintf("{%s: %s}", K, E)
		}
		if c.mode == "lms" {
			return fmt.Sprintf("other.storage.save(%[1]s, to: /storage/parked); %[1]s = other.storage.load<%[2]s>(from: /storage/parked)!; log(%[1]s.length.toString())", name, ty)
		}
		return fmt.Sprintf("other.storage.save(acct.storage.load<%[2]s>(from: /storage/%[1]s)!, to: /storage/parked); acct.storage.save(other.storage.load<%[2]s>(from: /storage/parked)!, to: /storage/%[1]s); log(%[1]s.length.toString())", name, ty)
	case "abort":
		return "panic(\"abort\")"
	}
	panic("renderOp: unknown op " + s.Op)
}

func (c *c20ctx) renderTx(steps []cStep, commit bool) string {
	E, K := c.r.E, c.r.K
	var sb strings.Builder
	sb.WriteString("import T from 0x1\ntransaction {\n  prepare(acct: auth(Storage) &Account, other: auth(Storage) &Account) {\n")
	if c.mode == "ref" {
		fmt.Fprintf(&sb, "    let s = acct.storage.borrow<auth(Mutate) &[%s]>(from: /storage/s)!\n", E)
		fmt.Fprintf(&sb, "    let d = acct.storage.borrow<auth(Mutate) &{%s: %s}>(from: /storage/d)!\n", K, E)
		fmt.Fprintf(&sb, "    let c = acct.storage.borrow<auth(Mutate) &[%s; %d]>(from: /storage/c)!\n", E, c.cn)
	} else {
		fmt.Fprintf(&sb, "    var s = acct.storage.load<[%s]>(from: /storage/s)!\n", E)
		fmt.Fprintf(&sb, "    var d = acct.storage.load<{%s: %s}>(from: /storage/d)!\n", K, E)
		fmt.Fprintf(&sb, "    var c = acct.storage.load<[%s; %d]>(from: /storage/c)!\n", E, c.cn)
	}
	fmt.Fprintf(&sb, "    var m: [%s] = []\n    var md: {%s: %s} = {}\n", E, K, E)
	for i, s := range steps {
		sb.WriteString("    " + c.renderOp(i, s) + "\n")
	}
	if commit && c.mode == "lms" {
		sb.WriteString("    acct.storage.save(s, to: /storage/s)\n    acct.storage.save(d, to: /storage/d)\n    acct.storage.save(c, to: /storage/c)\n")
	}
	sb.WriteString("  }\n}\n")
	return sb.String()
}

func (c *c20ctx) setupTx() string {
	ones := make([]string, c.cn)
	for i := range ones {
		ones[i] = "T.enc(1)"
	}
	return fmt.Sprintf(`import T from 0x1
transaction { prepare(acct: auth(Storage) &Account) {
  acct.storage.save([] as [%[1]s], to: /storage/s)
  acct.storage.save({} as {%[2]s: %[1]s}, to: /storage/d)
  acct.storage.save([%[3]s] as [%[1]s; %[4]d], to: /storage/c)
} }`, c.r.E, c.r.K, strings.Join(ones, ", "), c.cn)
}

func (c *c20ctx) projection() string {
	return fmt.Sprintf(`import T from 0x1
access(all) fun main(): [String] {
  let acct = getAuthAccount<auth(Storage) &Account>(0x2)
  let s = acct.storage.copy<[%[1]s]>(from: /storage/s)!
  let d = acct.storage.copy<{%[2]s: %[1]s}>(from: /storage/d)!
  let c = acct.storage.copy<[%[1]s; %[3]d]>(from: /storage/c)!
  let rs = acct.storage.borrow<&[%[1]s]>(from: /storage/s)!
  let rd = acct.storage.borrow<&{%[2]s: %[1]s}>(from: /storage/d)!
  var n = 0
  rd.forEachKey(fun (k: %[2]s): Bool { n = n + 1; return true })
  return [T.show(s), T.showD(d), T.showC(c), rs.length.toString(), rd.length.toString(), d.keys.length.toString(), d.values.length.toString(), n.toString()]
}`, c.r.E, c.r.K, c.cn)
}

// ---------------------------------------------------------------- expected observations

func joinInts(xs []int) string {
	var sb strings.Builder
	for _, x := range xs {
		sb.WriteString(strconv.Itoa(x))
		sb.WriteByte(',')
	}
	return sb.String()
}

func sortedInts(xs []int) []int {
	ys := append([]int(nil), xs...)
	sort.Ints(ys)
	return ys
}

func pairsString(ps [][2]int) string {
	qs := append([][2]int(nil), ps...)
	sort.Slice(qs, func(i, j int) bool { return qs[i][0] < qs[j][0] })
	var sb strings.Builder
	for _, p := range qs {
		fmt.Fprintf(&sb, "%d=%d,", p[0], p[1])
	}
	return sb.String()
}

// normalise brings an observed log line whose order is not promised into the canonical order.
func normalise(kind, got string) string {
	if kind == "" || got == "" {
		return got
	}
	parts := strings.Split(strings.TrimSuffix(got, ","), ",")
	switch kind {
	case "intset":
		xs := make([]int, 0, len(parts))
		for _, p := range parts {
			n, err := strconv.Atoi(p)
			if err != nil {
				return got
			}
			xs = append(xs, n)
		}
		return joinInts(sortedInts(xs))
	case "pairset":
		var ps [][2]int
		for _, p := range parts {
			kv := strings.Split(p, "=")
			if len(kv) != 2 {
				return got
			}
			k, e1 := strconv.Atoi(kv[0])
			v, e2 := strconv.Atoi(kv[1])
			if e1 != nil || e2 != nil {
				return got
			}
			ps = append(ps, [2]int{k, v})
		}
		sort.Slice(ps, func(i, j int) bool {
			if ps[i][0] != ps[j][0] {
				return ps[i][0] < ps[j][0]
			}
			return ps[i][1] < ps[j][1]
		})
		var sb strings.Builder
		for _, p := range ps {
			fmt.Fprintf(&sb, "%d=%d,", p[0], p[1])
		}
		return sb.String()
	}
	return got
}

type expectation struct {
	want    string
	kind    string // "", "intset", "pairset", "foreach"
	keys    []int  // foreach
	stop    bool
	stopKey int
	err     bool
}

func c20Expect(s cStep) (expectation, error) {
	var str string
	if json.Unmarshal(s.Res, &str) == nil {
		if str == "err:index" {
			return expectation{err: true}, nil
		}
		return expectation{}, fmt.Errorf("unexpected string result %q", str)
	}
	switch s.Op {
	case "append", "appendAll", "insert", "set", "length", "cset", "dset", "dsetnil", "dlength", "bulk", "trunc", "behead", "amove", "dmove",
		"dbulk", "dbulkRemove", "remove", "removeFirst", "removeLast", "get", "cget":
		var n int
		if err := json.Unmarshal(s.Res, &n); err != nil {
			return expectation{}, err
		}
		return expectation{want: strconv.Itoa(n)}, nil
	case "slice", "reverse", "concat", "filter", "map", "copy", "iterate", "citerate", "creverse", "cmap", "cfilter", "ctoVar":
		var xs []int
		if err := json.Unmarshal(s.Res, &xs); err != nil {
			return expectation{}, err
		}
		return expectation{want: joinInts(xs)}, nil
	case "contains", "ccontains", "dcontainsKey":
		var b bool
		if err := json.Unmarshal(s.Res, &b); err != nil {
			return expectation{}, err
		}
		return expectation{want: strconv.FormatBool(b)}, nil
	case "firstIndex", "cfirstIndex", "dinsert", "dremove", "dget":
		var xs []int
		if err := json.Unmarshal(s.Res, &xs); err != nil {
			return expectation{}, err
		}
		if len(xs) == 0 {
			return expectation{want: "nil"}, nil
		}
		return expectation{want: strconv.Itoa(xs[0])}, nil
	case "toConst":
		var xs [][]int
		if err := json.Unmarshal(s.Res, &xs); err != nil {
			return expectation{}, err
		}
		if len(xs) == 0 {
			return expectation{want: "nil"}, nil
		}
		return expectation{want: "some:" + joinInts(xs[0])}, nil
	case "dkeys":
		var xs []int
		if err := json.Unmarshal(s.Res, &xs); err != nil {
			return expectation{}, err
		}
		return expectation{want: joinInts(sortedInts(xs)), kind: "intset"}, nil
	case "dvalues":
		var ps [][2]int
		if err := json.Unmarshal(s.Res, &ps); err != nil {
			return expectation{}, err
		}
		vs := make([]int, len(ps))
		for i, p := range ps {
			vs[i] = p[1]
		}
		return expectation{want: joinInts(sortedInts(vs)), kind: "intset"}, nil
	case "diterate", "dcopy":
		var ps [][2]int
		if err := json.Unmarshal(s.Res, &ps); err != nil {
			return expectation{}, err
		}
		return expectation{want: pairsString(ps), kind: "pairset"}, nil
	case "dforEachKey":
		var r struct {
			Keys  []int `json:"keys"`
			Stops bool  `json:"stops"`
		}
		if err := json.Unmarshal(s.Res, &r); err != nil {
			return expectation{}, err
		}
		return expectation{kind: "foreach", keys: r.Keys, stop: r.Stops, stopKey: s.K,
			want: fmt.Sprintf("duplicate-free sequence of keys %v, %s", r.Keys, map[bool]string{true: "ending at the stop key " + strconv.Itoa(s.K), false: "visiting all of them"}[r.Stops])}, nil
	}
	return expectation{}, fmt.Errorf("no expectation rule for op %s", s.Op)
}

// foreachOK decides membership of the visited sequence in the set of outcomes the specification allows.
func foreachOK(e expectation, got string) bool {
	var vis []int
	if got != "" {
		for _, p := range strings.Split(strings.TrimSuffix(got, ","), ",") {
			n, err := strconv.Atoi(p)
			if err != nil {
				return false
			}
			vis = append(vis, n)
		}
	}
	keys := map[int]bool{}
	for _, k := range e.keys {
		keys[k] = true
	}
	seen := map[int]bool{}
	for _, v := range vis {
		if !keys[v] || seen[v] {
			return false
		}
		seen[v] = true
	}
	if e.stop {
		if len(vis) == 0 || vis[len(vis)-1] != e.stopKey {
			return false
		}
		for _, v := range vis[:len(vis)-1] {
			if v == e.stopKey {
				return false
			}
		}
		return true
	}
	return len(vis) == len(e.keys)
}

func indexErrorClass(class string) bool {
	switch class {
	case "user:ArrayIndexOutOfBoundsError", "user:ArraySliceIndicesError", "user:InvalidSliceIndexError":
		return true
	}
	return false
}

func c20Replay(b *cBeh, r refinement, engine string) *Fail {
	useVM := engine == "vm"
	c := &c20ctx{r: r, cn: b.CN, nv: b.NV}
	mk := func(kind string, step int, op, msg, src string) *Fail {
		return &Fail{ID: b.ID, Engine: engine, Ref: r.name, Kind: kind, Step: step, Op: op, Msg: msg, Src: src, Beh: b,
			Sig: map[string]any{"kind": kind, "op": op, "engine": engine, "refinement": r.name, "mode": c.mode}}
	}
	harness := func(f *Fail) *Fail { f.Harness = true; return f }
	// atree validation after every mutation is quadratic on the bulk-filled containers of the deep
	// histories: there it is on for every eighth history; it is always on for the transition cover
	// VERIF_HEALTH=1 (C23): the runtime's own validation is off and the storage-health monitor runs on the
	// committed ledger after every committed transaction.
	checkHealth := os.Getenv("VERIF_HEALTH") == "1"
	w := host.NewWorldWithConfig(runtime.Config{AtreeValidationEnabled: !checkHealth && (!b.Deep || b.ID%8 == 0)})
	if err := w.Deploy(host.Addr(1), "T", c20Contract(r, b.CN, b.Deep)); err != nil {
		return harness(mk("deploy", 0, "", err.Error(), c20Contract(r, b.CN, b.Deep)))
	}
	signers := []common.Address{host.Addr(2), host.Addr(3)}
	if res := w.Tx(c.setupTx(), signers[:1], useVM); res.Err != nil {
		if isCheckerError(res.Err) {
			return harness(mk("setup", 0, "", res.Err.Error(), c.setupTx()))
		}
		// saving the initial (valid) containers is itself a call the model predicts to succeed
		return mk("outcome", 0, "save", "saving the initial containers: model predicts success, runtime returned "+res.Class+": "+res.Err.Error(), c.setupTx())
	}
	proj := ""
	var cur []cStep
	var curIdx []int
	for si, s := range b.Steps {
		switch s.Op {
		case "begin":
			cur, curIdx = nil, nil
			c.mode = s.Mode
			continue
		case "end", "init":
			continue
		}
		var exp expectation
		if s.Op != "commit" && s.Op != "abort" {
			var err error
			exp, err = c20Expect(s)
			if err != nil {
				return harness(mk("expect", si, s.Op, err.Error(), ""))
			}
		}
		endsTx := s.Op == "commit" || s.Op == "abort" || exp.err
		if s.Op != "commit" {
			cur = append(cur, s)
			curIdx = append(curIdx, si)
		}
		if !endsTx {
			continue
		}
		src := c.renderTx(cur, s.Op == "commit")
		res := w.Tx(src, signers, useVM)
		if host.IsInternal(res.Class) {
			return mk("internal", si, s.Op, res.Class+": "+res.Err.Error(), src)
		}
		if isCheckerError(res.Err) {
			return harness(mk("render", si, s.Op, res.Err.Error(), src))
		}
		// per-call results
		var exps []expectation
		for _, cs := range cur {
			if cs.Op == "abort" {
				break
			}
			e, _ := c20Expect(cs)
			if e.err {
				break
			}
			exps = append(exps, e)
		}
		got := res.Logs
		for i := 0; i < len(exps) && i < len(got); i++ {
			e := exps[i]
			ok := false
			switch e.kind {
			case "foreach":
				ok = foreachOK(e, got[i])
			default:
				ok = normalise(e.kind, got[i]) == e.want
			}
			if !ok {
				f := mk("result", curIdx[i], cur[i].Op, fmt.Sprintf("call %d of the transaction, %s on %q: model predicts %s, runtime returned %s",
					i, cur[i].Op, cur[i].Tg, clip(e.want), clip(got[i])), src)
				f.Sig["tg"] = cur[i].Tg
				return f
			}
		}
		wantErr := s.Op != "commit"
		if (res.Err != nil) != wantErr {
			op := s.Op
			if res.Err != nil && len(got) < len(cur) {
				op = cur[len(got)].Op
			}
			return mk("outcome", si, op, fmt.Sprintf("transaction outcome: model predicts failure=%v (%s), runtime returned %v after %d calls", wantErr, s.Op, res.Err, len(got)), src)
		}
		if len(got) != len(exps) {
			return mk("result-count", si, s.Op, fmt.Sprintf("model predicts %d completed calls, runtime logged %d (error: %v)", len(exps), len(got), res.Err), src)
		}
		if wantErr {
			if s.Op == "abort" {
				if res.Class != "user:PanicError" {
					return mk("errkind", si, s.Op, "model predicts the explicit abort, runtime failed with "+res.Class+": "+res.Err.Error(), src)
				}
			} else if !indexErrorClass(res.Class) {
				return mk("errkind", si, s.Op, "model predicts an index error, runtime failed with "+res.Class+": "+res.Err.Error(), src)
			}
			if len(res.Writes) != 0 {
				return mk("write-on-failure", si, s.Op, fmt.Sprintf("failed transaction wrote %d registers", len(res.Writes)), src)
			}
		}
		if checkHealth && res.Err == nil {
			atomic.AddInt64(&healthChecks, 1)
			if err := health.Check(w); err != nil {
				return mk("health", si, lastMutator(cur), "committed storage is not healthy after the transaction: "+err.Error(), src)
			}
		}
		// full contents after the transaction, re-read from the ledger by a script
		if s.Com == nil {
			return harness(mk("nocom", si, s.Op, "step ending a transaction carries no predicted contents", ""))
		}
		if proj == "" {
			proj = c.projection()
		}
		pr := w.Script(proj, useVM)
		if pr.Err != nil {
			if host.IsInternal(pr.Class) {
				return mk("internal", si, s.Op, "projection: "+pr.Class+": "+pr.Err.Error(), src)
			}
			return mk("projection", si, s.Op, "reading the stored containers failed: "+pr.Err.Error(), src)
		}
		arr, ok := pr.Value.(cadence.Array)
		if !ok || len(arr.Values) != 8 {
			return harness(mk("projection-shape", si, s.Op, "unexpected projection result", proj))
		}
		g := make([]string, 8)
		for i, v := range arr.Values {
			g[i] = string(v.(cadence.String))
		}
		nd := strconv.Itoa(len(s.Com.D))
		wantP := []string{joinInts(s.Com.S), pairsString(s.Com.D), joinInts(s.Com.C), strconv.Itoa(len(s.Com.S)), nd, nd, nd, nd}
		g[1] = normalise("pairset", g[1])
		names := []string{"array s", "dictionary d", "constant-sized array c", "length of s through a reference", "length of d through a reference", "d.keys.length", "d.values.length", "forEachKey count"}
		for i := range wantP {
			if g[i] != wantP[i] {
				f := mk("state", si, s.Op, fmt.Sprintf("contents after the transaction (%s), %s: model=%s runtime=%s", s.Op, names[i], clip(wantP[i]), clip(g[i])), src)
				f.Sig["container"] = names[i]
				return f
			}
		}
	}
	return nil
}

// isCheckerError: the rendered program was rejected by the parser or checker (a renderer bug, not a verdict).
func isCheckerError(err error) bool {
	var pce *runtime.ParsingCheckingError
	return err != nil && errors.As(err, &pce)
}

var healthChecks int64

// lastMutator names the calls of the transaction (for the signature of a health failure).
func lastMutator(steps []cStep) string {
	seen := map[string]bool{}
	var ops []string
	for _, s := range steps {
		if !seen[s.Op] {
			seen[s.Op] = true
			ops = append(ops, s.Op)
		}
	}
	sort.Strings(ops)
	return strings.Join(ops, "+")
}

func clip(s string) string {
	if len(s) > 400 {
		return s[:400] + "…(" + strconv.Itoa(len(s)) + " bytes)"
	}
	return s
}

func mainC20(in, outPath string) {
	var behs []*cBeh
	err := util.ReadLines(in, func(line []byte) error {
		var b cBeh
		if err := json.Unmarshal(line, &b); err != nil {
			return err
		}
		behs = append(behs, &b)
		return nil
	})
	if err != nil {
		util.Die("reading behaviours: %v", err)
	}
	engines := envList("VALS_ENGINES", []string{"interp", "vm"})
	refs := envList("VALS_REFS", []string{"int", "str", "nest"})
	out := util.NewOut(outPath)
	defer out.Close()
	type job struct {
		b   *cBeh
		ref string
		eng string
	}
	var jobs []job
	for _, b := range behs {
		for _, r := range refs {
			for _, e := range engines {
				jobs = append(jobs, job{b, r, e})
			}
		}
	}
	var nfail, ntx, nsteps int64
	util.Parallel(len(jobs), workers(), func(i int) {
		j := jobs[i]
		if f := c20Replay(j.b, refinements[j.ref], j.eng); f != nil {
			atomic.AddInt64(&nfail, 1)
			out.Write(f)
		}
		for _, s := range j.b.Steps {
			if s.Op == "begin" {
				atomic.AddInt64(&ntx, 1)
			}
		}
		atomic.AddInt64(&nsteps, int64(len(j.b.Steps)))
	})
	out.Write(map[string]any{"summary": true, "behaviours": len(behs), "replays": len(jobs), "engines": len(engines), "refinements": len(refs),
		"transactions": ntx, "steps": nsteps, "failures": nfail, "health_checks": healthChecks})
}
