// vals: replay drivers of the "vals" family.
//
//	vals c20 <behaviours.ndjson> <results.ndjson>   Containers.tla behaviours -> real runtime (arrays / dictionaries)
//	vals c05 <behaviours.ndjson> <results.ndjson>   Values.tla behaviours     -> real runtime (copy semantics)
//	vals c51 <behaviours.ndjson> <results.ndjson>   spec/coll behaviours      -> common/orderedmap, persistent, intervalst, bimap
//
// Every driver reads behaviours of the specification (one JSON object per line), executes
// them on the real code, compares after every step what the specification predicts with
// what the code did, and writes one JSON object per disagreement plus a summary line.
// Environment: VALS_WORKERS (parallel replays, default 8), VALS_ENGINES (interp,vm),
// VALS_REFS (refinements of the element representation).
package main

import (
	"os"
	"runtime/pprof"
	"strconv"
	"strings"

	"verifharness/util"
)

// Fail is one disagreement between the specification and the code (or a harness error).
type Fail struct {
	ID      int            `json:"id"`
	Engine  string         `json:"engine,omitempty"`
	Ref     string         `json:"ref,omitempty"`
	Kind    string         `json:"kind"`
	Harness bool           `json:"harness,omitempty"`
	Step    int            `json:"step"`
	Op      string         `json:"op,omitempty"`
	Sig     map[string]any `json:"sig,omitempty"`
	Msg     string         `json:"msg"`
	Src     string         `json:"src,omitempty"`
	Beh     any            `json:"beh,omitempty"`
}

func workers() int {
	if n, err := strconv.Atoi(os.Getenv("VALS_WORKERS")); err == nil && n > 0 {
		return n
	}
	return 8
}

func envList(name string, def []string) []string {
	v := os.Getenv(name)
	if v == "" {
		return def
	}
	return strings.Split(v, ",")
}

func main() {
	if len(os.Args) < 4 {
		util.Die("usage: vals c20|c05|c51 behaviours.ndjson results.ndjson")
	}
	if pf := os.Getenv("VALS_PROF"); pf != "" {
		f, _ := os.Create(pf)
		pprof.StartCPUProfile(f)
		defer pprof.StopCPUProfile()
	}
	switch os.Args[1] {
	case "c20":
		mainC20(os.Args[2], os.Args[3])
	case "c05":
		mainC05(os.Args[2], os.Args[3])
	case "c51":
		mainC51(os.Args[2], os.Args[3])
	default:
		util.Die("unknown sub-command %s", os.Args[1])
	}
}
