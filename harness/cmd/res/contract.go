package main

import "strings"

// The Cadence world of the "res" family. Written by hand once; behaviours of the TLA+
// specifications (Resources / Refs / Attachments) are rendered into transactions that use it.
//
// Two concrete resource types implement the interface N: R declares the default destruction
// event, Q does not. Every resource carries the model's id (`id`), an optional resource
// field (`child`), an array field (`kids`), a dictionary field (`dict`) and a payload string
// (`pad`, used to vary the slab representation: inlined vs stand-alone slabs).

const resBody = `
    access(all) let id: Int
    access(all) let pad: String
    access(all) var child: @{N}?
    access(all) var kids: @[{N}]
    access(all) var dict: @{Int: {N}}
    access(all) var opts: @[{N}?]
    access(all) var odict: @{Int: {N}?}
    init(_ id: Int, _ pad: Int) {
      self.id = id
      var p = ""
      var i = 0
      while i < pad { p = p.concat("0123456789abcdefghijklmnopqrstuvwxyzABCDEFGHIJKLMNOPQRSTUVWXYZ-+"); i = i + 1 }
      self.pad = p
      self.child <- nil; self.kids <- []; self.dict <- {}
      // containers of OPTIONAL resources: two array cells and dictionary entries that hold nil
      // (keys 3..6 are never used, so nil-valued entries stay around the used keys 1 and 2)
      self.opts <- [nil, nil]; self.odict <- {1: nil, 2: nil, 3: nil, 4: nil, 5: nil, 6: nil}
    }
    access(all) fun setCell(_ i: Int, _ c: @{N}) { self.opts[i] <-! c }
    access(all) fun takeCell(_ i: Int): @{N} { let c <- self.opts[i] <- nil; return <- c! }
    access(all) fun swapCell(_ i: Int, _ c: @{N}): @{N} { let old <- self.opts[i] <- c; return <- old! }
    access(all) view fun cellRef(_ i: Int): &{N}? { return &self.opts[i] as &{N}? }
    access(all) fun setOD(_ k: Int, _ c: @{N}) { let old <- self.odict[k] <- c; destroy old }
    access(all) fun takeOD(_ k: Int): @{N} { let n: @{N}? <- nil; let old <- self.odict[k] <- n; return <- old!! }
    access(all) fun swapOD(_ k: Int, _ c: @{N}): @{N} { let old <- self.odict[k] <- c; return <- old!! }
    access(all) view fun odRef(_ k: Int): &{N}? { let r = &self.odict[k] as &{N}??; return r ?? nil }
    access(all) fun setChild(_ c: @{N}) { self.child <-! c }
    access(all) fun takeChild(): @{N} { let c <- self.child <- nil; return <- c! }
    access(all) fun swapChild(_ c: @{N}): @{N} { let old <- self.child <- c; return <- old! }
    access(all) fun addKid(_ i: Int, _ c: @{N}) { self.kids.insert(at: i, <- c) }
    access(all) fun takeKid(_ i: Int): @{N} { return <- self.kids.remove(at: i) }
    access(all) fun swapKid(_ i: Int, _ c: @{N}): @{N} { let old <- self.kids[i] <- c; return <- old }
    access(all) fun putDict(_ k: Int, _ c: @{N}) { self.dict[k] <-! c }
    access(all) fun takeDict(_ k: Int): @{N} { return <- self.dict.remove(key: k)! }
    access(all) fun swapDict(_ k: Int, _ c: @{N}): @{N} { let old <- self.dict[k] <- c; return <- old! }
    access(all) view fun desc(): String {
      var s = self.id.toString().concat("(")
      if let c = &self.child as &{N}? { s = s.concat(c.desc()) }
      s = s.concat(")[")
      for k in (&self.kids as &[{N}]) { s = s.concat(k.desc()).concat(",") }
      s = s.concat("]{")
      for key in [1, 2, 3, 4] {
        if let d = &self.dict[key] as &{N}? { s = s.concat(key.toString()).concat(":").concat(d.desc()).concat(",") }
      }
      s = s.concat("}<")
      for i in [0, 1] { if let c = self.cellRef(i) { s = s.concat(c.desc()) } else { s = s.concat("-") }; s = s.concat(",") }
      s = s.concat("|")
      for k in [1, 2] { if let c = self.odRef(k) { s = s.concat(c.desc()) } else { s = s.concat("-") }; s = s.concat(",") }
      return s.concat(">")
    }
    access(all) fun walk(_ pfx: String): [String] {
      var out: [String] = [self.id.toString().concat("=").concat(self.uuid.toString()).concat("@").concat(pfx)]
      if let c = &self.child as &{N}? { out.appendAll(c.walk(pfx.concat(".child"))) }
      var i = 0
      for k in (&self.kids as &[{N}]) { out.appendAll(k.walk(pfx.concat(".kids[").concat(i.toString()).concat("]"))); i = i + 1 }
      for key in self.dict.keys {
        let d = (&self.dict[key] as &{N}?)!
        out.appendAll(d.walk(pfx.concat(".dict[").concat(key.toString()).concat("]")))
      }
      for j in [0, 1] { if let c = self.cellRef(j) { out.appendAll(c.walk(pfx.concat(".opts[").concat(j.toString()).concat("]"))) } }
      for k in [1, 2] { if let c = self.odRef(k) { out.appendAll(c.walk(pfx.concat(".odict[").concat(k.toString()).concat("]"))) } }
      return out
    }
`

const resContractTmpl = `
access(all) contract T {
  access(all) resource interface N {
    access(all) let id: Int
    access(all) var child: @{N}?
    access(all) var kids: @[{N}]
    access(all) var dict: @{Int: {N}}
    access(all) var opts: @[{N}?]
    access(all) var odict: @{Int: {N}?}
    access(all) fun setChild(_ c: @{N})
    access(all) fun takeChild(): @{N}
    access(all) fun swapChild(_ c: @{N}): @{N}
    access(all) fun addKid(_ i: Int, _ c: @{N})
    access(all) fun takeKid(_ i: Int): @{N}
    access(all) fun swapKid(_ i: Int, _ c: @{N}): @{N}
    access(all) fun putDict(_ k: Int, _ c: @{N})
    access(all) fun setCell(_ i: Int, _ c: @{N})
    access(all) fun takeCell(_ i: Int): @{N}
    access(all) fun swapCell(_ i: Int, _ c: @{N}): @{N}
    access(all) view fun cellRef(_ i: Int): &{N}?
    access(all) fun setOD(_ k: Int, _ c: @{N})
    access(all) fun takeOD(_ k: Int): @{N}
    access(all) fun swapOD(_ k: Int, _ c: @{N}): @{N}
    access(all) view fun odRef(_ k: Int): &{N}?
    access(all) fun takeDict(_ k: Int): @{N}
    access(all) fun swapDict(_ k: Int, _ c: @{N}): @{N}
    access(all) view fun desc(): String
    access(all) fun walk(_ pfx: String): [String]
  }
  access(all) resource R: N {
    access(all) event ResourceDestroyed(id: Int = self.id, uuid: UInt64 = self.uuid)
    BODY
  }
  access(all) resource Q: N {
    BODY
  }
  access(all) fun mk(_ id: Int, _ kind: String, _ pad: Int): @{N} {
    if kind == "Q" { return <- create Q(id, pad) }
    return <- create R(id, pad)
  }
  access(all) fun pass(_ r: @{N}): @{N} { return <- r }
  access(all) view fun d(_ r: &{N}?): String { if let x = r { return x.desc() }; return "-" }
  access(all) view fun first(_ a: &[{N}]): &{N}? { if a.length == 0 { return nil }; return a[0] }
  access(all) fun w(_ r: &{N}?, _ pfx: String): [String] { if let x = r { return x.walk(pfx) }; return [] }
}`

func resContract() string {
	return strings.ReplaceAll(resContractTmpl, "BODY", resBody)
}
