package main

// replay: executes behaviours of spec/system/Resources.tla and Refs.tla on the real runtime.
//
// A behaviour is {"id":n, "cfg":{...}, "steps":[label...]}; a label is the `last` record of the
// specification. The steps between "begin" and the step that ends the transaction (commit, abort,
// or a step the specification predicts to fail) are rendered into ONE Cadence transaction; after
// every step the transaction logs the description of every slot and every storage path, which is
// compared with the `st` field the specification computed. At every commit a fresh script walks
// storage (ids, uuids, location paths) and the committed ledger is decoded by harness/health
// (slab health, root counts, resource population); both are compared with the model.

import (
	"encoding/json"
	"errors"
	"fmt"
	"os"
	"runtime"
	"sort"
	"strconv"
	"strings"
	"sync/atomic"

	"github.com/onflow/cadence"
	"github.com/onflow/cadence/common"
	"github.com/onflow/cadence/parser"
	cdcrt "github.com/onflow/cadence/runtime"
	"github.com/onflow/cadence/sema"

	"verifharness/health"
	"verifharness/host"
	"verifharness/util"
)

type Place struct {
	K string `json:"k"`
	A int    `json:"a"`
	B int    `json:"b"`
}

type PopEntry struct {
	U int    `json:"u"`
	P string `json:"p"`
}

type Step struct {
	Op    string     `json:"op"`
	U     int        `json:"u"`
	W     int        `json:"w"`
	M     int        `json:"m"`
	I     int        `json:"i"`
	J     int        `json:"j"`
	K     int        `json:"r"` // reference variable index (Refs)
	Kind  string     `json:"kind"`
	Big   bool       `json:"big"`
	Fn    bool       `json:"fn"`
	Sp    []Place    `json:"sp"`
	Mp    []Place    `json:"mp"`
	Dp    []Place    `json:"dp"`
	Tp    []Place    `json:"tp"`
	Dead  []int      `json:"dead"`
	Ev    []int      `json:"ev"`
	St    []string   `json:"st"`
	Pop   []PopEntry `json:"pop"`
	Roots []int      `json:"roots"`
	Res   string     `json:"res"`
	V     int        `json:"v"`
	Ty    string     `json:"ty"`
	Acct  int        `json:"acct"`
	Path  int        `json:"path"`
}

type Cfg struct {
	Slots []string `json:"slots"` // representation of slot i+1: var | dict | arr
	Accts int      `json:"accts"`
	Paths int      `json:"paths"`
	Refs  int      `json:"refs"`
	// Sparse: the description of all slots and storage paths is NOT logged after every step (that
	// logging reads every resource through references, which can mask stale internal state); results
	// of reference uses, events, the population read by the fresh script and the ledger are still compared.
	Sparse bool `json:"sparse"`
}

type Beh struct {
	ID    int    `json:"id"`
	Cfg   Cfg    `json:"cfg"`
	Steps []Step `json:"steps"`
}

type Fail struct {
	ID      int    `json:"id"`
	Engine  string `json:"engine"`
	Kind    string `json:"kind"`
	Op      string `json:"op,omitempty"`
	Form    string `json:"form,omitempty"`
	Err     string `json:"err,omitempty"`
	Harness bool   `json:"harness,omitempty"`
	Step    int    `json:"step"`
	Msg     string `json:"msg"`
	Src     string `json:"src,omitempty"`
	Beh     *Beh   `json:"beh,omitempty"`
}

const nType = "{T.N}"

var acctAddr = []common.Address{host.Addr(2), host.Addr(3), host.Addr(4)}

// renderer of one transaction
type txr struct {
	cfg Cfg
	sb  strings.Builder
	n   int
}

func (t *txr) tmp(p string) string { t.n++; return fmt.Sprintf("%s%d", p, t.n) }
func (t *txr) line(f string, a ...any) {
	t.sb.WriteString("    ")
	fmt.Fprintf(&t.sb, f, a...)
	t.sb.WriteString("\n")
}

func slotVar(cfg Cfg, i int) string {
	switch cfg.Slots[i-1] {
	case "dict":
		return fmt.Sprintf("d%d", i)
	case "arr":
		return fmt.Sprintf("a%d", i)
	}
	return fmt.Sprintf("s%d", i)
}

// slotLval: assignable optional-typed expression of a slot (var / dict representations)
func slotLval(cfg Cfg, i int) string {
	if cfg.Slots[i-1] == "dict" {
		return fmt.Sprintf("d%d[%d]", i, i)
	}
	return fmt.Sprintf("s%d", i)
}

// optional reference to the content of a slot
func slotOptRef(cfg Cfg, i int) string {
	switch cfg.Slots[i-1] {
	case "dict":
		return fmt.Sprintf("(&d%d[%d] as &%s?)", i, i, nType)
	case "arr":
		return fmt.Sprintf("T.first(&a%d as &[%s])", i, nType)
	}
	return fmt.Sprintf("(&s%d as &%s?)", i, nType)
}

func storePath(p Place) string { return fmt.Sprintf("/storage/p%d", p.B) }
func acctName(a int) string    { return fmt.Sprintf("A%d", a) }

// rootRef: non-optional reference expression to the resource at a root place
func (t *txr) rootRef(p Place) string {
	if p.K == "slot" {
		if t.cfg.Slots[p.A-1] == "arr" {
			return fmt.Sprintf("(&a%d[0] as &%s)", p.A, nType)
		}
		return slotOptRef(t.cfg, p.A) + "!"
	}
	return fmt.Sprintf("%s.storage.borrow<&%s>(from: %s)!", acctName(p.A), nType, storePath(p))
}

func sel(prev string, p Place) string {
	switch p.K {
	case "child":
		return prev + ".child!"
	case "kid":
		return fmt.Sprintf("%s.kids[%d]", prev, p.B)
	case "dict":
		return fmt.Sprintf("%s.dict[%d]!", prev, p.B)
	case "ocell":
		return fmt.Sprintf("%s.opts[%d]!", prev, p.B)
	case "odict":
		return fmt.Sprintf("%s.odRef(%d)!", prev, p.B)
	}
	panic("sel " + p.K)
}

// bindParent binds (statement by statement) a reference to the resource that holds the last
// place of the path and returns the variable name. Paths of length 1 have no parent.
func (t *txr) bindParent(path []Place) string {
	if len(path) < 2 {
		return ""
	}
	v := t.tmp("x")
	t.line("let %s = %s", v, t.rootRef(path[0]))
	for _, p := range path[1 : len(path)-1] {
		nv := t.tmp("x")
		t.line("let %s = %s", nv, sel(v, p))
		v = nv
	}
	return v
}

// take renders the removal of the resource at the end of path and returns an expression of type
// @{T.N} (to be used exactly once) denoting it.
func (t *txr) take(path []Place) string {
	last := path[len(path)-1]
	par := t.bindParent(path)
	switch last.K {
	case "slot":
		switch t.cfg.Slots[last.A-1] {
		case "var":
			o := t.tmp("o")
			t.line("let %s <- s%d <- nil", o, last.A)
			return o + "!"
		case "dict":
			o := t.tmp("o")
			if t.n%2 == 0 {
				t.line("let %s <- d%d.remove(key: %d)", o, last.A, last.A)
			} else {
				t.line("let %s <- d%d[%d] <- nil", o, last.A, last.A)
			}
			return o + "!"
		default:
			o := t.tmp("t")
			t.line("let %s <- a%d.removeFirst()", o, last.A)
			return o
		}
	case "store":
		o := t.tmp("o")
		t.line("let %s <- %s.storage.load<@%s>(from: %s)", o, acctName(last.A), nType, storePath(last))
		return o + "!"
	case "child":
		o := t.tmp("t")
		t.line("let %s <- %s.takeChild()", o, par)
		return o
	case "kid":
		o := t.tmp("t")
		t.line("let %s <- %s.takeKid(%d)", o, par, last.B)
		return o
	case "dict":
		o := t.tmp("t")
		t.line("let %s <- %s.takeDict(%d)", o, par, last.B)
		return o
	case "ocell":
		o := t.tmp("t")
		t.line("let %s <- %s.takeCell(%d)", o, par, last.B)
		return o
	case "odict":
		o := t.tmp("t")
		t.line("let %s <- %s.takeOD(%d)", o, par, last.B)
		return o
	}
	panic("take " + last.K)
}

// put renders moving the resource expression x into the place at the end of path.
func (t *txr) put(path []Place, x string) {
	last := path[len(path)-1]
	par := t.bindParent(path)
	switch last.K {
	case "slot":
		switch t.cfg.Slots[last.A-1] {
		case "arr":
			t.line("a%d.append(<- %s)", last.A, x)
		default:
			t.line("%s <-! %s", slotLval(t.cfg, last.A), x)
		}
	case "store":
		t.line("%s.storage.save(<- %s, to: %s)", acctName(last.A), x, storePath(last))
	case "child":
		t.line("%s.setChild(<- %s)", par, x)
	case "kid":
		t.line("%s.addKid(%d, <- %s)", par, last.B, x)
	case "dict":
		t.line("%s.putDict(%d, <- %s)", par, last.B, x)
	case "ocell":
		t.line("%s.setCell(%d, <- %s)", par, last.B, x)
	case "odict":
		t.line("%s.setOD(%d, <- %s)", par, last.B, x)
	}
}

func padOf(big bool) int {
	if big {
		return 12
	}
	return 0
}

func (t *txr) stateLog() {
	var parts []string
	for i := range t.cfg.Slots {
		parts = append(parts, "T.d("+slotOptRef(t.cfg, i+1)+")")
	}
	for a := 1; a <= t.cfg.Accts; a++ {
		for p := 1; p <= t.cfg.Paths; p++ {
			parts = append(parts, fmt.Sprintf("T.d(A%d.storage.borrow<&%s>(from: /storage/p%d))", a, nType, p))
		}
	}
	e := parts[0]
	for _, p := range parts[1:] {
		e += ".concat(\"|\").concat(" + p + ")"
	}
	t.line("log(%s)", e)
}

func tyExpr(ty string) string {
	if ty == "N" {
		return nType
	}
	return "T." + ty
}

func (t *txr) step(s Step) {
	switch s.Op {
	case "create":
		t.put(s.Dp, fmt.Sprintf("T.mk(%d, %q, %d)", s.U, s.Kind, padOf(s.Big)))
	case "move", "badmove":
		x := t.take(s.Sp)
		if s.Fn {
			x = "T.pass(<- " + x + ")"
		}
		t.put(s.Dp, x)
	case "swap":
		t.line("%s <-> %s", slotLval(t.cfg, s.I), slotLval(t.cfg, s.J))
	case "shift":
		var x string
		if s.W == 0 {
			x = fmt.Sprintf("T.mk(%d, %q, %d)", s.U, s.Kind, padOf(s.Big))
		} else {
			x = t.take(s.Sp)
		}
		mid := s.Mp[len(s.Mp)-1]
		par := t.bindParent(s.Mp)
		var old string
		switch mid.K {
		case "slot":
			o := t.tmp("o")
			t.line("let %s <- %s <- %s", o, slotLval(t.cfg, mid.A), x)
			old = o + "!"
		case "child":
			o := t.tmp("t")
			t.line("let %s <- %s.swapChild(<- %s)", o, par, x)
			old = o
		case "kid":
			o := t.tmp("t")
			t.line("let %s <- %s.swapKid(%d, <- %s)", o, par, mid.B, x)
			old = o
		case "dict":
			o := t.tmp("t")
			t.line("let %s <- %s.swapDict(%d, <- %s)", o, par, mid.B, x)
			old = o
		case "ocell":
			o := t.tmp("t")
			t.line("let %s <- %s.swapCell(%d, <- %s)", o, par, mid.B, x)
			old = o
		case "odict":
			o := t.tmp("t")
			t.line("let %s <- %s.swapOD(%d, <- %s)", o, par, mid.B, x)
			old = o
		}
		t.put(s.Dp, old)
	case "destroy":
		x := t.take(s.Sp)
		t.line("destroy %s", x)
	case "peek":
	case "takeref":
		last := s.Tp[len(s.Tp)-1]
		switch {
		case len(s.Tp) == 1 && last.K == "slot":
			if t.cfg.Slots[last.A-1] == "arr" {
				t.line("r%d = &a%d[0] as &%s", s.K, last.A, nType)
			} else {
				t.line("r%d = %s", s.K, slotOptRef(t.cfg, last.A))
			}
		case len(s.Tp) == 1:
			t.line("r%d = %s.storage.borrow<&%s>(from: %s)", s.K, acctName(last.A), nType, storePath(last))
		default:
			par := t.bindParent(s.Tp)
			switch last.K {
			case "child":
				t.line("r%d = %s.child", s.K, par)
			case "kid":
				t.line("r%d = %s.kids[%d]", s.K, par, last.B)
			case "dict":
				t.line("r%d = %s.dict[%d]", s.K, par, last.B)
			case "ocell":
				// directly, or through a function returning the reference
				if t.n%2 == 0 {
					t.line("r%d = %s.opts[%d]", s.K, par, last.B)
				} else {
					t.line("r%d = %s.cellRef(%d)", s.K, par, last.B)
				}
			case "odict":
				t.line("r%d = %s.odRef(%d)", s.K, par, last.B)
			}
		}
	case "borrow":
		t.line("r%d = %s.storage.borrow<&%s>(from: /storage/p%d)", s.K, acctName(s.Acct), tyExpr(s.Ty), s.Path)
		t.line("log(r%d == nil ? \"nil\" : \"some\")", s.K)
	case "useref":
		t.line("log(\"use:\".concat(r%d!.id.toString()))", s.K)
	case "abort":
		t.line("panic(\"abort\")")
	default:
		panic("unknown op " + s.Op)
	}
}

func render(cfg Cfg, steps []Step) string {
	t := &txr{cfg: cfg}
	t.sb.WriteString("import T from 0x1\ntransaction {\n  prepare(")
	for a := 1; a <= cfg.Accts; a++ {
		if a > 1 {
			t.sb.WriteString(", ")
		}
		fmt.Fprintf(&t.sb, "A%d: auth(Storage) &Account", a)
	}
	t.sb.WriteString(") {\n")
	for i, rep := range cfg.Slots {
		switch rep {
		case "var":
			t.line("var s%d: @%s? <- nil", i+1, nType)
		case "dict":
			t.line("var d%d: @{Int: %s} <- {}", i+1, nType)
		case "arr":
			t.line("var a%d: @[%s] <- []", i+1, nType)
		}
	}
	for k := 1; k <= cfg.Refs; k++ {
		t.line("var r%d: &%s? = nil", k, nType)
	}
	for _, s := range steps {
		if s.Op == "commit" {
			break
		}
		t.step(s)
		if s.Op != "abort" && !cfg.Sparse {
			t.stateLog()
		}
	}
	if len(steps) == 0 || steps[len(steps)-1].Op != "abort" {
		for i := range cfg.Slots {
			t.line("destroy %s", slotVar(cfg, i+1))
		}
	}
	t.sb.WriteString("  }\n}\n")
	return t.sb.String()
}

func projectionScript(cfg Cfg) string {
	var sb strings.Builder
	sb.WriteString("import T from 0x1\naccess(all) fun main(): [String] {\n  var out: [String] = []\n")
	for a := 1; a <= cfg.Accts; a++ {
		fmt.Fprintf(&sb, "  let A%d = getAuthAccount<auth(Storage) &Account>(%s)\n", a, acctAddr[a-1].HexWithPrefix())
		for p := 1; p <= cfg.Paths; p++ {
			fmt.Fprintf(&sb, "  out.appendAll(T.w(A%d.storage.borrow<&%s>(from: /storage/p%d), \"A%d/p%d\"))\n", a, nType, p, a, p)
		}
		fmt.Fprintf(&sb, "  out.append(\"#paths A%d=\".concat(A%d.storage.storagePaths.length.toString()))\n", a, a)
	}
	sb.WriteString("  return out\n}\n")
	return sb.String()
}

func formOf(s Step) string {
	k := func(p []Place) string {
		if len(p) == 0 {
			return "new"
		}
		return p[len(p)-1].K
	}
	switch s.Op {
	case "move", "badmove":
		f := k(s.Sp) + ">" + k(s.Dp)
		if s.Fn {
			f += "(fn)"
		}
		return f
	case "shift":
		return k(s.Sp) + ">" + k(s.Mp) + ">" + k(s.Dp)
	case "create":
		return "new>" + k(s.Dp)
	case "destroy":
		return k(s.Sp)
	case "takeref":
		if len(s.Tp) == 1 {
			return k(s.Tp)
		}
		return s.Tp[0].K + ".." + k(s.Tp)
	case "useref", "borrow":
		return s.Res
	}
	return ""
}

func errKindOK(want, class string) bool {
	switch want {
	case "abort":
		return class == "user:PanicError"
	case "err:loss":
		return class == "user:ResourceLossError"
	case "err:overwrite":
		return class == "user:OverwriteError"
	case "err:invalidated":
		return class == "user:InvalidatedResourceReferenceError"
	case "err:deref-nil", "err:deref-type":
		return class == "user:DereferenceError"
	case "err:borrow-type":
		return class == "user:StoredValueTypeMismatchError" || class == "user:ForceCastTypeMismatchError"
	}
	return false
}

func endsTx(s Step) bool {
	return s.Op == "commit" || s.Op == "abort" || strings.HasPrefix(s.Res, "err:")
}

func sortedInts(xs []int) []int { ys := append([]int(nil), xs...); sort.Ints(ys); return ys }

var withHealth = true
var atreeValidation = true
var healthFirst = false

func replay(b *Beh, useVM bool) *Fail {
	eng := "interp"
	if useVM {
		eng = "vm"
	}
	w := host.NewWorldWithConfig(cdcrt.Config{AtreeValidationEnabled: atreeValidation})
	if err := w.Deploy(host.Addr(1), "T", resContract()); err != nil {
		return &Fail{ID: b.ID, Engine: eng, Kind: "deploy", Harness: true, Msg: err.Error()}
	}
	signers := acctAddr[:b.Cfg.Accts]
	proj := projectionScript(b.Cfg)
	uuidOf := map[int]uint64{} // committed model id -> uuid
	var cur []Step
	inTx := false
	for si, s := range b.Steps {
		if s.Op == "init" {
			continue
		}
		if s.Op == "begin" {
			cur = nil
			inTx = true
			continue
		}
		if !inTx {
			return &Fail{ID: b.ID, Engine: eng, Kind: "shape", Harness: true, Step: si, Msg: "step outside a transaction: " + s.Op}
		}
		cur = append(cur, s)
		if !endsTx(s) {
			continue
		}
		inTx = false
		src := render(b.Cfg, cur)
		r := w.Tx(src, signers, useVM)
		fail := func(kind, msg string) *Fail {
			return &Fail{ID: b.ID, Engine: eng, Kind: kind, Op: s.Op, Form: formOf(s), Step: si, Msg: msg, Src: src, Beh: b}
		}
		failAt := func(st Step, kind, msg string) *Fail {
			f := fail(kind, msg)
			f.Op, f.Form = st.Op, formOf(st)
			return f
		}
		if host.IsInternal(r.Class) {
			return fail("internal", r.Class+": "+r.Err.Error())
		}
		if isStaticError(r.Err) {
			f := fail("render", r.Class+": "+r.Err.Error())
			f.Harness = true
			return f
		}
		wantErr := s.Op != "commit"
		// per-step logs: compare the common prefix first so that the first diverging step is named
		var want []string
		var wantSteps []Step
		for _, c := range cur {
			if c.Op == "commit" || c.Op == "abort" || strings.HasPrefix(c.Res, "err:") {
				break
			}
			if c.Op == "borrow" {
				want = append(want, c.Res)
				wantSteps = append(wantSteps, c)
			}
			if c.Op == "useref" {
				want = append(want, "use:"+strconv.Itoa(c.V))
				wantSteps = append(wantSteps, c)
			}
			if b.Cfg.Sparse {
				continue
			}
			want = append(want, strings.Join(c.St, "|"))
			wantSteps = append(wantSteps, c)
		}
		got := r.Logs
		for i := 0; i < len(want) && i < len(got); i++ {
			if want[i] != got[i] {
				return failAt(wantSteps[i], "state", fmt.Sprintf("after %s %s (log %d): model=%q runtime=%q", wantSteps[i].Op, formOf(wantSteps[i]), i, want[i], got[i]))
			}
		}
		if r.Err != nil && strings.HasPrefix(r.Class, "external:") {
			// the storage layer (atree) or the host refused: never a predicted outcome of the model
			st := s
			if len(got) < len(wantSteps) {
				st = wantSteps[len(got)]
			}
			f := failAt(st, "spurious-failure", fmt.Sprintf("runtime failed with %s after %d of %d logs: %v", r.Class, len(got), len(want), firstErrLine(r.Err)))
			f.Err = r.Class + ": " + firstErrLine(r.Err)
			return f
		}
		if (r.Err != nil) != wantErr {
			if r.Err != nil {
				// name the step after which execution stopped
				st := s
				if len(got) < len(wantSteps) {
					st = wantSteps[len(got)]
				}
				kind := "outcome"
				if strings.HasPrefix(r.Class, "external:") {
					// the storage layer (atree) or the host refused: not a user-level outcome of the program
					kind = "spurious-failure"
				}
				f := failAt(st, kind, fmt.Sprintf("model predicts success, runtime failed with %s after %d of %d logs: %v", r.Class, len(got), len(want), firstErrLine(r.Err)))
				f.Err = r.Class + ": " + firstErrLine(r.Err)
				return f
			}
			return fail("outcome", fmt.Sprintf("model predicts failure %q at %s %s, runtime succeeded", s.Res, s.Op, formOf(s)))
		}
		if len(got) != len(want) {
			st := s
			if len(got) < len(wantSteps) {
				st = wantSteps[len(got)]
			}
			return failAt(st, "outcome", fmt.Sprintf("model predicts %d completed steps before the end of the transaction, runtime completed %d (%s: %v)", len(want), len(got), r.Class, firstErrLine(r.Err)))
		}
		if wantErr {
			wk := s.Res
			if s.Op == "abort" {
				wk = "abort"
			}
			if !errKindOK(wk, r.Class) {
				return fail("errkind", fmt.Sprintf("model predicts %s, runtime failed with %s: %v", wk, r.Class, firstErrLine(r.Err)))
			}
			if len(r.Writes) != 0 {
				return fail("write-on-failure", fmt.Sprintf("failed transaction wrote %d registers", len(r.Writes)))
			}
			continue
		}
		// ---- committed transaction
		var ledger *health.Report
		checkLedger := func() *Fail {
			if !withHealth {
				return nil
			}
			rep, herr := health.Inspect(w)
			if herr != nil {
				k := "health"
				if he, ok := herr.(*health.Error); ok {
					k = "health:" + he.Kind
				}
				return fail(k, "committed storage is not healthy: "+herr.Error())
			}
			for a := 1; a <= b.Cfg.Accts; a++ {
				if n := rep.RootCount(acctAddr[a-1], "storage"); n != s.Roots[a-1] {
					return fail("root-count", fmt.Sprintf("account A%d: model has %d stored root values, ledger has %d", a, s.Roots[a-1], n))
				}
			}
			ledger = rep
			return nil
		}
		if healthFirst {
			if f := checkLedger(); f != nil {
				return f
			}
		}
		// creations: one uuid per create, in program order
		var createdIDs []int
		for _, c := range cur {
			if c.Op == "create" || (c.Op == "shift" && c.W == 0) {
				createdIDs = append(createdIDs, c.U)
			}
		}
		if len(r.UUIDs) != len(createdIDs) {
			return fail("uuid-count", fmt.Sprintf("model created %d resources, runtime generated %d uuids", len(createdIDs), len(r.UUIDs)))
		}
		for i, id := range createdIDs {
			uuidOf[id] = r.UUIDs[i]
		}
		// destroy events: multiset of ids, each with the uuid of that resource
		var wantEv []string
		for _, c := range cur {
			for _, id := range c.Ev {
				wantEv = append(wantEv, fmt.Sprintf("%d/%d", id, uuidOf[id]))
			}
		}
		var gotEv []string
		for _, e := range r.Events {
			if !strings.HasSuffix(e.Type, ".ResourceDestroyed") {
				continue
			}
			id, uu := "?", "?"
			for i, f := range e.Fields {
				if f == "id" {
					id = e.Values[i]
				}
				if f == "uuid" {
					uu = e.Values[i]
				}
			}
			if !strings.HasSuffix(e.Type, "T.R.ResourceDestroyed") {
				id = e.Type + ":" + id
			}
			gotEv = append(gotEv, id+"/"+uu)
		}
		sort.Strings(wantEv)
		sort.Strings(gotEv)
		if strings.Join(wantEv, ",") != strings.Join(gotEv, ",") {
			return fail("events", fmt.Sprintf("ResourceDestroyed events (id/uuid) of the transaction: model=%v runtime=%v", wantEv, gotEv))
		}
		for _, c := range cur {
			for _, id := range c.Dead {
				delete(uuidOf, id)
			}
		}
		// population through a fresh script
		pr := w.Script(proj, useVM)
		if pr.Err != nil {
			if host.IsInternal(pr.Class) {
				return fail("internal", "population script: "+pr.Class+": "+pr.Err.Error())
			}
			return fail("population-script", "population script failed: "+firstErrLine(pr.Err))
		}
		var gotPop []string
		for _, v := range pr.Value.(cadence.Array).Values {
			gotPop = append(gotPop, string(v.(cadence.String)))
		}
		var wantPop []string
		for _, e := range s.Pop {
			wantPop = append(wantPop, fmt.Sprintf("%d=%d@%s", e.U, uuidOf[e.U], e.P))
		}
		for a := 1; a <= b.Cfg.Accts; a++ {
			wantPop = append(wantPop, fmt.Sprintf("#paths A%d=%d", a, s.Roots[a-1]))
		}
		sort.Strings(gotPop)
		sort.Strings(wantPop)
		if strings.Join(gotPop, ";") != strings.Join(wantPop, ";") {
			return fail("population", fmt.Sprintf("resources in committed storage (id=uuid@location): model=%v runtime=%v", wantPop, gotPop))
		}
		if len(uuidOf) != len(s.Pop) {
			return fail("population", fmt.Sprintf("model has %d live resources, harness tracks %d", len(s.Pop), len(uuidOf)))
		}
		if !healthFirst {
			if f := checkLedger(); f != nil {
				return f
			}
		}
		if ledger != nil {
			var gotU, wantU []int
			for _, res := range ledger.Resources {
				gotU = append(gotU, int(res.UUID))
			}
			for _, u := range uuidOf {
				wantU = append(wantU, int(u))
			}
			if fmt.Sprint(sortedInts(gotU)) != fmt.Sprint(sortedInts(wantU)) {
				return fail("ledger-population", fmt.Sprintf("uuids of resources decoded from the committed ledger: model=%v ledger=%v", sortedInts(wantU), sortedInts(gotU)))
			}
		}
	}
	return nil
}

// isStaticError: the program was rejected by the parser or the checker (a renderer problem).
func isStaticError(err error) bool {
	if err == nil {
		return false
	}
	var ce *sema.CheckerError
	if errors.As(err, &ce) {
		return true
	}
	var pe parser.Error
	if errors.As(err, &pe) {
		return true
	}
	var pce *cdcrt.ParsingCheckingError
	return errors.As(err, &pce)
}

func firstErrLine(err error) string {
	if err == nil {
		return "<nil>"
	}
	for _, l := range strings.Split(err.Error(), "\n") {
		if strings.HasPrefix(strings.TrimSpace(l), "error:") {
			return strings.TrimSpace(l)
		}
	}
	s := err.Error()
	if len(s) > 300 {
		s = s[:300]
	}
	return s
}

func replayMain(args []string) {
	if len(args) < 2 {
		util.Die("usage: res replay behaviours.ndjson results.ndjson [engines] [health=0|1]")
	}
	engines := []bool{false, true}
	for _, a := range args[2:] {
		if strings.HasPrefix(a, "health=") {
			withHealth = a == "health=1"
			continue
		}
		if strings.HasPrefix(a, "healthfirst=") {
			healthFirst = a == "healthfirst=1"
			continue
		}
		if strings.HasPrefix(a, "atree=") {
			atreeValidation = a == "atree=1"
			continue
		}
		engines = nil
		for _, e := range strings.Split(a, ",") {
			engines = append(engines, e == "vm")
		}
	}
	var behs []*Beh
	err := util.ReadLines(args[0], func(line []byte) error {
		var b Beh
		if err := json.Unmarshal(line, &b); err != nil {
			return err
		}
		behs = append(behs, &b)
		return nil
	})
	if err != nil {
		util.Die("reading behaviours: %v", err)
	}
	out := util.NewOut(args[1])
	defer out.Close()
	var nfail, ntx, nsteps, ncommit int64
	util.Parallel(len(behs), runtime.NumCPU(), func(i int) {
		b := behs[i]
		for _, vm := range engines {
			f := func() (f *Fail) {
				defer func() {
					if r := recover(); r != nil {
						f = &Fail{ID: b.ID, Kind: "driver-panic", Harness: true, Msg: fmt.Sprint(r), Beh: b}
					}
				}()
				return replay(b, vm)
			}()
			if f != nil {
				atomic.AddInt64(&nfail, 1)
				out.Write(f)
			}
		}
		for _, s := range b.Steps {
			if s.Op == "begin" {
				atomic.AddInt64(&ntx, 1)
			}
			if s.Op == "commit" {
				atomic.AddInt64(&ncommit, 1)
			}
		}
		atomic.AddInt64(&nsteps, int64(len(b.Steps)))
	})
	out.Write(map[string]any{"summary": true, "behaviours": len(behs), "engines": len(engines),
		"transactions": ntx, "commits": ncommit, "steps": nsteps, "failures": nfail, "health": withHealth})
	_ = os.Stdout
}

// renderMain: development aid. `res render <behaviours.ndjson> <id>` prints the transactions of one
// behaviour in the format read by `res probe`.
func renderMain(args []string) {
	want, _ := strconv.Atoi(args[1])
	_ = util.ReadLines(args[0], func(line []byte) error {
		var b Beh
		if err := json.Unmarshal(line, &b); err != nil {
			return err
		}
		if b.ID != want {
			return nil
		}
		var cur []Step
		first := true
		for _, s := range b.Steps {
			if s.Op == "init" {
				continue
			}
			if s.Op == "begin" {
				cur = nil
				continue
			}
			cur = append(cur, s)
			if !endsTx(s) {
				continue
			}
			if !first {
				fmt.Println("----")
			}
			first = false
			fmt.Print(render(b.Cfg, cur))
		}
		return nil
	})
}
