package main

func replayMain(args []string) {}
