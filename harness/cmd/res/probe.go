package main

import (
	"fmt"
	"os"
	"strings"

	"github.com/onflow/cadence/common"

	"verifharness/health"
	"verifharness/host"
)

// probe: development aid. `res probe <contract:res|att> <file>`; the file holds transaction
// bodies (the inside of `prepare(A1, A2) { ... }`) separated by lines "----". Each is executed
// in sequence in one world per engine; outcome class, logs and events are printed.
func probeMain(args []string) {
	if len(args) < 2 {
		fmt.Println("usage: res probe res|att file")
		os.Exit(2)
	}
	b, err := os.ReadFile(args[1])
	if err != nil {
		panic(err)
	}
	bodies := strings.Split(string(b), "\n----\n")
	code := resContract()
	if args[0] == "att" {
		code = attContract
	} else if strings.HasPrefix(args[0], "file:") {
		cb, err := os.ReadFile(args[0][5:])
		if err != nil {
			panic(err)
		}
		code = string(cb)
	}
	for _, vm := range []bool{false, true} {
		w := host.NewWorld()
		if err := w.Deploy(host.Addr(1), "T", code); err != nil {
			fmt.Println("deploy failed:", err)
			os.Exit(1)
		}
		for i, body := range bodies {
			src := "import T from 0x1\ntransaction {\n  prepare(A1: auth(Storage) &Account, A2: auth(Storage) &Account) {\n" + body + "\n  }\n}\n"
			if strings.HasPrefix(strings.TrimSpace(body), "import") {
				src = body
			}
			r := w.Tx(src, []common.Address{host.Addr(2), host.Addr(3)}, vm)
			fmt.Printf("== tx %d vm=%v class=%s uuids=%v\n", i, vm, r.Class, r.UUIDs)
			for _, l := range r.Logs {
				fmt.Println("   log:", l)
			}
			for _, e := range r.Events {
				fmt.Println("   event:", e.String())
			}
			if r.Err != nil {
				for _, l := range strings.Split(r.Err.Error(), "\n") {
					if strings.Contains(l, "error:") {
						fmt.Println("   ", l)
					}
				}
			}
			rep, herr := health.Inspect(w)
			fmt.Printf("   health: err=%v roots=%v resources=%d slabs=%d\n", herr, rep.Roots, len(rep.Resources), rep.Slabs)
		}
	}
}
