package main

import (
	"fmt"
	"os"
	"sort"
	"strings"

	"github.com/onflow/cadence/common"

	"verifharness/health"
	"verifharness/host"
)

// probe: development aid. `res probe <contract:res|att> <file>`; the file holds transaction
// bodies (the inside of `prepare(A1, A2) { ... }`) separated by lines "----". Each is executed
// in sequence in one world per engine; outcome class, logs and events are printed.
func probeMain(args []string) {
	if len(args) < 2 {
		fmt.Println("usage: res probe res|att file")
		os.Exit(2)
	}
	b, err := os.ReadFile(args[1])
	if err != nil {
		panic(err)
	}
	bodies := strings.Split(string(b), "\n----\n")
	code := resContract()
	if args[0] == "att" {
		code = attContract
	} else if strings.HasPrefix(args[0], "file:") {
		cb, err := os.ReadFile(args[0][5:])
		if err != nil {
			panic(err)
		}
		code = string(cb)
	}
	for _, vm := range []bool{false, true} {
		w := host.NewWorld()
		if err := w.Deploy(host.Addr(1), "T", code); err != nil {
			fmt.Println("deploy failed:", err)
			os.Exit(1)
		}
		for i, body := range bodies {
			src := "import T from 0x1\ntransaction {\n  prepare(A1: auth(Storage) &Account, A2: auth(Storage) &Account) {\n" + body + "\n  }\n}\n"
			if strings.HasPrefix(strings.TrimSpace(body), "import") {
				src = body
			}
			r := w.Tx(src, []common.Address{host.Addr(2), host.Addr(3)}, vm)
			fmt.Printf("== tx %d vm=%v class=%s uuids=%v\n", i, vm, r.Class, r.UUIDs)
			for _, l := range r.Logs {
				fmt.Println("   log:", l)
			}
			for _, e := range r.Events {
				fmt.Println("   event:", e.String())
			}
			if r.Err != nil {
				for _, l := range strings.Split(r.Err.Error(), "\n") {
					if strings.Contains(l, "error:") {
						fmt.Println("   ", l)
					}
				}
			}
			rep, herr := health.Inspect(w)
			fmt.Printf("   health: err=%v roots=%v resources=%d slabs=%d\n", herr, rep.Roots, len(rep.Resources), rep.Slabs)
			if os.Getenv("VERIF_CORRUPT") != "" && i == len(bodies)-1 {
				corruptionControl(w)
			}
		}
	}
}

// corruptionControl: negative control of the health monitor. Copies the committed registers and
// (a) drops one non-root slab register, (b) adds an orphan copy of a slab under a fresh index,
// (c) truncates one slab register; each must be rejected.
func corruptionControl(w *host.World) {
	copyRegs := func() map[string][]byte {
		m := map[string][]byte{}
		for k, v := range w.Ledger.StoredValues {
			m[k] = append([]byte(nil), v...)
		}
		return m
	}
	var slabKeys []string
	a2 := host.Addr(2)
	acct2 := string(a2[:])
	for k, v := range w.Ledger.StoredValues {
		if len(v) > 0 && len(k) == 18 && k[9] == '$' && k[:8] == acct2 {
			slabKeys = append(slabKeys, k)
		}
	}
	sort.Strings(slabKeys)
	if len(slabKeys) < 2 {
		fmt.Println("   corruption control: needs at least 2 slabs in account 0x2")
		return
	}
	last := slabKeys[len(slabKeys)-1]
	m := copyRegs()
	delete(m, last)
	_, err := health.InspectRegisters(m)
	fmt.Printf("   corruption control (drop slab %x): rejected=%v (%v)\n", last[9:], err != nil, err)
	m = copyRegs()
	orphan := last[:10] + "\x00\x00\x00\x00\x00\x00\x03\xe7"
	m[orphan] = append([]byte(nil), m[last]...)
	_, err = health.InspectRegisters(m)
	fmt.Printf("   corruption control (orphan copy of slab): rejected=%v (%v)\n", err != nil, err)
	m = copyRegs()
	m[last] = m[last][:len(m[last])/2]
	_, err = health.InspectRegisters(m)
	fmt.Printf("   corruption control (truncated slab): rejected=%v (%v)\n", err != nil, err)
}
