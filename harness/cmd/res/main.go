// res: drivers of the "res" family (C02 resources, C04 references, C49 attachments, C23 health).
//
//	res replay <behaviours.ndjson> <results.ndjson> [engines=interp,vm] [health=0|1]
//	res att    <behaviours.ndjson> <results.ndjson> [engines=interp,vm]
//	res probe  res|att <file>
package main

import (
	"fmt"
	"os"
)

func main() {
	if len(os.Args) < 2 {
		fmt.Fprintln(os.Stderr, "usage: res replay|att|probe ...")
		os.Exit(2)
	}
	switch os.Args[1] {
	case "probe":
		probeMain(os.Args[2:])
	case "render":
		renderMain(os.Args[2:])
	case "replay":
		replayMain(os.Args[2:])
	case "att":
		attMain(os.Args[2:])
	default:
		fmt.Fprintln(os.Stderr, "unknown sub-command", os.Args[1])
		os.Exit(2)
	}
}
