package main

const attContract = `access(all) contract T {}`

func attMain(args []string) {}
