package main

// att: executes behaviours of spec/system/Attachments.tla on the real runtime (C49).
//
// Same scheme as replay.go: one Cadence transaction per model transaction, the description of
// every slot, struct variable and storage path is logged after every step and compared with the
// `st` the specification computed; per-operation results (access, forEachAttachment, entitled
// access) are logged and compared; destroy events of attachments (type, tag, `base.id` at the
// time of destruction) and bases are compared as multisets per committed transaction; after a
// commit a fresh script re-reads storage.
//
// Two variants of the contract: "plain" (the base type declares no entitlements) and "ent" (the
// base type declares an entitled member, attachment A has an entitled function that is called
// through an authorized reference).

import (
	"encoding/json"
	"fmt"
	"runtime"
	"sort"
	"strings"
	"sync/atomic"

	"github.com/onflow/cadence"
	"github.com/onflow/cadence/common"
	cdcrt "github.com/onflow/cadence/runtime"

	"verifharness/host"
	"verifharness/util"
)

const attContractTmpl = `
access(all) contract T {
  access(all) entitlement E
  access(all) resource R {
    access(all) let id: Int
    access(all) event ResourceDestroyed(id: Int = self.id, uuid: UInt64 = self.uuid)
    init(_ i: Int) { self.id = i }
    ENTMEMBER
  }
  access(all) attachment A for R {
    access(all) let tag: Int
    access(all) event ResourceDestroyed(tag: Int = self.tag, bid: Int = base.id)
    init(_ t: Int) { self.tag = t }
    access(all) fun info(): String { return "A:".concat(self.tag.toString()).concat(":").concat(base.id.toString()) }
    access(all) fun baseUuid(): UInt64 { return base.uuid }
    SECACCESS fun sec(): Int { return self.tag * 1000 + base.id }
  }
  access(all) attachment B for R {
    access(all) let tag: Int
    access(all) event ResourceDestroyed(tag: Int = self.tag, bid: Int = base.id)
    init(_ t: Int) { self.tag = t }
    access(all) fun info(): String { return "B:".concat(self.tag.toString()).concat(":").concat(base.id.toString()) }
    access(all) fun baseUuid(): UInt64 { return base.uuid }
  }
  access(all) struct S {
    access(all) var x: Int
    init(_ x: Int) { self.x = x }
    access(all) fun setX(_ x: Int) { self.x = x }
  }
  access(all) attachment SA for S {
    access(all) let tag: Int
    init(_ t: Int) { self.tag = t }
    access(all) fun info(): String { return "SA:".concat(self.tag.toString()).concat(":").concat(base.x.toString()) }
  }
  access(all) fun mk(_ i: Int): @R { return <- create R(i) }
  access(all) fun d(_ r: &R?): String {
    if let x = r {
      var s = x.id.toString().concat("<")
      if let a = x[A] { s = s.concat(a.info()).concat(a.baseUuid() == x.uuid ? "," : "!base-uuid,") }
      if let b = x[B] { s = s.concat(b.info()).concat(b.baseUuid() == x.uuid ? "," : "!base-uuid,") }
      return s.concat(">")
    }
    return "-"
  }
  access(all) fun first(_ a: &[R]): &R? { if a.length == 0 { return nil }; return a[0] }
  access(all) fun accA(_ r: &R): String { if let a = r[A] { return a.info() }; return "nil" }
  access(all) fun accB(_ r: &R): String { if let a = r[B] { return a.info() }; return "nil" }
  access(all) fun each(_ r: &R): String {
    var names: [String] = []
    r.forEachAttachment(fun (att: &AnyResourceAttachment) { names.append(att.getType().identifier) })
    var s = ""
    for n in names { s = s.concat(n).concat(",") }
    return s
  }
  access(all) fun ds(_ s: S): String {
    var r = "S(".concat(s.x.toString()).concat(")<")
    if let a = s[SA] { r = r.concat(a.info()) }
    return r.concat(">")
  }
  access(all) fun dso(_ s: S?): String { if let x = s { return self.ds(x) }; return "-" }
}`

func attContractFor(variant string) string {
	s := attContractTmpl
	if variant == "ent" {
		s = strings.ReplaceAll(s, "ENTMEMBER", "access(E) fun touch(): Int { return self.id }")
		s = strings.ReplaceAll(s, "SECACCESS", "access(E)")
	} else {
		s = strings.ReplaceAll(s, "ENTMEMBER", "")
		s = strings.ReplaceAll(s, "SECACCESS", "access(all)")
	}
	return s
}

var attContract = attContractFor("ent")

type AEv struct {
	Y   string `json:"y"`
	Tag int    `json:"tag"`
	B   int    `json:"b"`
}

type AStep struct {
	Op  string          `json:"op"`
	B   int             `json:"b"`
	Y   string          `json:"y"`
	Tag int             `json:"tag"`
	I   int             `json:"i"`
	J   int             `json:"j"`
	X   int             `json:"x"`
	Sp  Place           `json:"sp"`
	Dp  Place           `json:"dp"`
	Res json.RawMessage `json:"res"`
	Ev  []AEv           `json:"ev"`
	St  []string        `json:"st"`
	Cst []string        `json:"cst"`
}

type ACfg struct {
	Slots   []string `json:"slots"` // var | arr
	Paths   int      `json:"paths"`
	SSlots  int      `json:"sslots"`
	Variant string   `json:"variant"` // plain | ent
	// Sparse: no description of the state is logged inside the transaction (the logging itself reads
	// every attachment through references after every step, which can mask stale `base` bindings);
	// only per-operation results are logged and the committed state is read back by the fresh script.
	Sparse bool `json:"sparse"`
}

type ABeh struct {
	ID    int     `json:"id"`
	Cfg   ACfg    `json:"cfg"`
	Steps []AStep `json:"steps"`
}

type AFail struct {
	ID      int    `json:"id"`
	Engine  string `json:"engine"`
	Kind    string `json:"kind"`
	Op      string `json:"op,omitempty"`
	Form    string `json:"form,omitempty"`
	Variant string `json:"variant"`
	Err     string `json:"err,omitempty"`
	Harness bool   `json:"harness,omitempty"`
	Step    int    `json:"step"`
	Msg     string `json:"msg"`
	Src     string `json:"src,omitempty"`
	Beh     *ABeh  `json:"beh,omitempty"`
}

func (s AStep) resString() string {
	var r string
	if json.Unmarshal(s.Res, &r) == nil {
		return r
	}
	return ""
}

type atx struct {
	cfg ACfg
	sb  strings.Builder
	n   int
}

func (t *atx) tmp(p string) string { t.n++; return fmt.Sprintf("%s%d", p, t.n) }
func (t *atx) line(f string, a ...any) {
	t.sb.WriteString("    ")
	fmt.Fprintf(&t.sb, f, a...)
	t.sb.WriteString("\n")
}

func (t *atx) optRef(p Place) string {
	if p.K == "slot" {
		if t.cfg.Slots[p.A-1] == "arr" {
			return fmt.Sprintf("T.first(&a%d as &[T.R])", p.A)
		}
		return fmt.Sprintf("(&s%d as &T.R?)", p.A)
	}
	return fmt.Sprintf("A1.storage.borrow<&T.R>(from: /storage/p%d)", p.B)
}

// take returns an expression of type @T.R
func (t *atx) take(p Place) string {
	if p.K == "slot" {
		if t.cfg.Slots[p.A-1] == "arr" {
			o := t.tmp("m")
			t.line("let %s <- a%d.removeFirst()", o, p.A)
			return o
		}
		o := t.tmp("o")
		t.line("let %s <- s%d <- nil", o, p.A)
		return o + "!"
	}
	o := t.tmp("o")
	t.line("let %s <- A1.storage.load<@T.R>(from: /storage/p%d)", o, p.B)
	return o + "!"
}

func (t *atx) put(p Place, x string) {
	if p.K == "slot" {
		if t.cfg.Slots[p.A-1] == "arr" {
			t.line("a%d.append(<- %s)", p.A, x)
		} else {
			t.line("s%d <-! %s", p.A, x)
		}
		return
	}
	t.line("A1.storage.save(<- %s, to: /storage/p%d)", x, p.B)
}

func (t *atx) stateLog() {
	var parts []string
	for i := range t.cfg.Slots {
		parts = append(parts, "T.d("+t.optRef(Place{K: "slot", A: i + 1})+")")
	}
	for i := 1; i <= t.cfg.SSlots; i++ {
		parts = append(parts, fmt.Sprintf("T.ds(t%d)", i))
	}
	parts = append(parts, storeDescExprs(t.cfg)...)
	e := parts[0]
	for _, p := range parts[1:] {
		e += ".concat(\"|\").concat(" + p + ")"
	}
	t.line("log(%s)", e)
}

func storeDescExprs(cfg ACfg) []string {
	var parts []string
	for p := 1; p <= cfg.Paths; p++ {
		parts = append(parts, fmt.Sprintf("T.d(A1.storage.borrow<&T.R>(from: /storage/p%d))", p))
	}
	parts = append(parts, "T.dso(A1.storage.copy<T.S>(from: /storage/sv))")
	return parts
}

func (t *atx) step(s AStep) {
	switch s.Op {
	case "create":
		t.put(s.Dp, fmt.Sprintf("T.mk(%d)", s.B))
	case "attach":
		x := t.take(s.Sp)
		t.put(s.Sp, fmt.Sprintf("attach T.%s(%d) to <- %s", s.Y, s.Tag, x))
	case "access":
		r := t.tmp("r")
		t.line("let %s = %s!", r, t.optRef(s.Sp))
		t.line("log(T.acc%s(%s))", s.Y, r)
	case "sec":
		r := t.tmp("r")
		ty := "&T.R"
		if t.cfg.Variant == "ent" {
			ty = "auth(T.E) &T.R"
		}
		t.line("let %s = A1.storage.borrow<%s>(from: /storage/p%d)!", r, ty, s.Sp.B)
		t.line("if let q%d = %s[T.A] { log(q%d.sec().toString()) } else { log(\"nil\") }", t.n, r, t.n)
	case "foreach":
		r := t.tmp("r")
		t.line("let %s = %s!", r, t.optRef(s.Sp))
		t.line("log(T.each(%s))", r)
	case "remove":
		x := t.take(s.Sp)
		v := t.tmp("v")
		t.line("let %s <- %s", v, x)
		t.line("remove T.%s from %s", s.Y, v)
		t.put(s.Sp, v)
	case "move":
		x := t.take(s.Sp)
		t.put(s.Dp, x)
	case "destroy":
		x := t.take(s.Sp)
		t.line("destroy %s", x)
	case "sattach":
		t.line("t%d = attach T.SA(%d) to t%d", s.I, s.Tag, s.I)
	case "scopy":
		t.line("t%d = t%d", s.J, s.I)
	case "sset":
		t.line("t%d.setX(%d)", s.I, s.X)
	case "sremove":
		t.line("remove T.SA from t%d", s.I)
	case "ssave":
		t.line("A1.storage.load<T.S>(from: /storage/sv)")
		t.line("A1.storage.save(t%d, to: /storage/sv)", s.I)
	case "sload":
		t.line("t%d = A1.storage.copy<T.S>(from: /storage/sv)!", s.I)
	case "abort":
		t.line("panic(\"abort\")")
	default:
		panic("unknown op " + s.Op)
	}
}

func renderAtt(cfg ACfg, steps []AStep) string {
	t := &atx{cfg: cfg}
	t.sb.WriteString("import T from 0x1\ntransaction {\n  prepare(A1: auth(Storage) &Account) {\n")
	for i, rep := range cfg.Slots {
		if rep == "arr" {
			t.line("var a%d: @[T.R] <- []", i+1)
		} else {
			t.line("var s%d: @T.R? <- nil", i+1)
		}
	}
	for i := 1; i <= cfg.SSlots; i++ {
		t.line("var t%d = T.S(%d)", i, i)
	}
	for _, s := range steps {
		if s.Op == "commit" {
			break
		}
		t.step(s)
		if s.Op != "abort" && !cfg.Sparse {
			t.stateLog()
		}
	}
	if len(steps) == 0 || steps[len(steps)-1].Op != "abort" {
		for i, rep := range cfg.Slots {
			if rep == "arr" {
				t.line("destroy a%d", i+1)
			} else {
				t.line("destroy s%d", i+1)
			}
		}
	}
	t.sb.WriteString("  }\n}\n")
	return t.sb.String()
}

func attProjection(cfg ACfg) string {
	var sb strings.Builder
	sb.WriteString("import T from 0x1\naccess(all) fun main(): [String] {\n")
	fmt.Fprintf(&sb, "  let A1 = getAuthAccount<auth(Storage) &Account>(%s)\n  return [", acctAddr[0].HexWithPrefix())
	sb.WriteString(strings.Join(storeDescExprs(cfg), ", "))
	sb.WriteString("]\n}\n")
	return sb.String()
}

func evKey(y string, tag, b int) string {
	if y == "R" {
		return fmt.Sprintf("R:%d", b)
	}
	return fmt.Sprintf("%s:%d:%d", y, tag, b)
}

func attEndsTx(s AStep) bool {
	return s.Op == "commit" || s.Op == "abort" || strings.HasPrefix(s.resString(), "err:")
}

func sortedCSV(s string) string {
	if s == "" {
		return ""
	}
	parts := strings.Split(strings.TrimSuffix(s, ","), ",")
	sort.Strings(parts)
	return strings.Join(parts, ",")
}

func replayAtt(b *ABeh, useVM bool) *AFail {
	eng := "interp"
	if useVM {
		eng = "vm"
	}
	w := host.NewWorldWithConfig(cdcrt.Config{AtreeValidationEnabled: false})
	if err := w.Deploy(host.Addr(1), "T", attContractFor(b.Cfg.Variant)); err != nil {
		return &AFail{ID: b.ID, Engine: eng, Kind: "deploy", Harness: true, Msg: err.Error()}
	}
	proj := attProjection(b.Cfg)
	var cur []AStep
	inTx := false
	for si, s := range b.Steps {
		if s.Op == "init" {
			continue
		}
		if s.Op == "begin" {
			cur = nil
			inTx = true
			continue
		}
		if !inTx {
			return &AFail{ID: b.ID, Engine: eng, Kind: "shape", Harness: true, Step: si, Msg: "step outside a transaction: " + s.Op}
		}
		cur = append(cur, s)
		if !attEndsTx(s) {
			continue
		}
		inTx = false
		src := renderAtt(b.Cfg, cur)
		r := w.Tx(src, []common.Address{acctAddr[0]}, useVM)
		form := func(st AStep) string {
			f := st.Y
			if st.Sp.K != "" {
				f += "@" + st.Sp.K
			}
			if st.Dp.K != "" {
				f += ">" + st.Dp.K
			}
			return f
		}
		failAt := func(st AStep, kind, msg string) *AFail {
			return &AFail{ID: b.ID, Engine: eng, Kind: kind, Op: st.Op, Form: form(st), Variant: b.Cfg.Variant, Step: si, Msg: msg, Src: src, Beh: b}
		}
		fail := func(kind, msg string) *AFail { return failAt(s, kind, msg) }
		// expected logs
		var want []string
		var wantSteps []AStep
		var wantSet []bool
		var wantKind []string
		for _, c := range cur {
			if c.Op == "commit" || c.Op == "abort" || strings.HasPrefix(c.resString(), "err:") {
				break
			}
			switch c.Op {
			case "access", "sec":
				want = append(want, c.resString())
				wantSteps = append(wantSteps, c)
				wantSet = append(wantSet, false)
				wantKind = append(wantKind, "result")
			case "foreach":
				var ys []string
				json.Unmarshal(c.Res, &ys)
				for i := range ys {
					ys[i] = "A.0000000000000001.T." + ys[i]
				}
				sort.Strings(ys)
				want = append(want, strings.Join(ys, ","))
				wantSteps = append(wantSteps, c)
				wantSet = append(wantSet, true)
				wantKind = append(wantKind, "result")
			}
			if b.Cfg.Sparse {
				continue
			}
			want = append(want, strings.Join(c.St, "|"))
			wantSteps = append(wantSteps, c)
			wantSet = append(wantSet, false)
			wantKind = append(wantKind, "state")
		}
		got := append([]string(nil), r.Logs...)
		if host.IsInternal(r.Class) {
			st := s
			if len(got) < len(wantSteps) {
				st = wantSteps[len(got)]
			}
			f := failAt(st, "internal", r.Class+": "+firstErrLine(r.Err))
			f.Err = r.Class
			return f
		}
		if isStaticError(r.Err) {
			f := fail("render", r.Class+": "+r.Err.Error())
			f.Harness = true
			return f
		}
		for i := 0; i < len(want) && i < len(got); i++ {
			g := got[i]
			if wantSet[i] {
				g = sortedCSV(g)
			}
			if want[i] != g {
				kind := wantKind[i]
				return failAt(wantSteps[i], kind, fmt.Sprintf("after %s %s (log %d): model=%q runtime=%q", wantSteps[i].Op, form(wantSteps[i]), i, want[i], g))
			}
		}
		wantErr := s.Op != "commit"
		if (r.Err != nil) != wantErr {
			if r.Err != nil {
				st := s
				if len(got) < len(wantSteps) {
					st = wantSteps[len(got)]
				}
				return failAt(st, "outcome", fmt.Sprintf("model predicts success, runtime failed with %s after %d of %d logs: %v", r.Class, len(got), len(want), firstErrLine(r.Err)))
			}
			return fail("outcome", fmt.Sprintf("model predicts failure %q at %s, runtime succeeded", s.resString(), s.Op))
		}
		if len(got) != len(want) {
			st := s
			if len(got) < len(wantSteps) {
				st = wantSteps[len(got)]
			}
			return failAt(st, "outcome", fmt.Sprintf("model predicts %d logs before the end of the transaction, runtime produced %d (%s: %v)", len(want), len(got), r.Class, firstErrLine(r.Err)))
		}
		if wantErr {
			ok := false
			switch {
			case s.Op == "abort":
				ok = r.Class == "user:PanicError"
			case s.resString() == "err:dup":
				ok = r.Class == "user:DuplicateAttachmentError"
			}
			if !ok {
				return fail("errkind", fmt.Sprintf("model predicts %s %s, runtime failed with %s: %v", s.Op, s.resString(), r.Class, firstErrLine(r.Err)))
			}
			if len(r.Writes) != 0 {
				return fail("write-on-failure", fmt.Sprintf("failed transaction wrote %d registers", len(r.Writes)))
			}
			continue
		}
		// events
		var wantEv, gotEv []string
		for _, c := range cur {
			for _, e := range c.Ev {
				wantEv = append(wantEv, evKey(e.Y, e.Tag, e.B))
			}
		}
		for _, e := range r.Events {
			if !strings.HasSuffix(e.Type, ".ResourceDestroyed") {
				continue
			}
			f := map[string]string{}
			for i, n := range e.Fields {
				f[n] = e.Values[i]
			}
			switch {
			case strings.HasSuffix(e.Type, "T.R.ResourceDestroyed"):
				gotEv = append(gotEv, "R:"+f["id"])
			case strings.HasSuffix(e.Type, "T.A.ResourceDestroyed"):
				gotEv = append(gotEv, "A:"+f["tag"]+":"+f["bid"])
			case strings.HasSuffix(e.Type, "T.B.ResourceDestroyed"):
				gotEv = append(gotEv, "B:"+f["tag"]+":"+f["bid"])
			default:
				gotEv = append(gotEv, e.Type)
			}
		}
		sort.Strings(wantEv)
		sort.Strings(gotEv)
		if strings.Join(wantEv, ",") != strings.Join(gotEv, ",") {
			return fail("events", fmt.Sprintf("destroy events of the transaction (type:tag:base / R:id): model=%v runtime=%v", wantEv, gotEv))
		}
		pr := w.Script(proj, useVM)
		if pr.Err != nil {
			if host.IsInternal(pr.Class) {
				f := fail("internal", "projection script: "+pr.Class+": "+firstErrLine(pr.Err))
				f.Err = pr.Class
				return f
			}
			return fail("projection-script", "projection script failed: "+firstErrLine(pr.Err))
		}
		var gotSt []string
		for _, v := range pr.Value.(cadence.Array).Values {
			gotSt = append(gotSt, string(v.(cadence.String)))
		}
		if strings.Join(gotSt, "|") != strings.Join(s.Cst, "|") {
			return fail("committed-state", fmt.Sprintf("storage re-read by a fresh script: model=%v runtime=%v", s.Cst, gotSt))
		}
	}
	return nil
}

func attMain(args []string) {
	if len(args) < 2 {
		util.Die("usage: res att behaviours.ndjson results.ndjson [engines]")
	}
	engines := []bool{false, true}
	if len(args) > 2 {
		engines = nil
		for _, e := range strings.Split(args[2], ",") {
			engines = append(engines, e == "vm")
		}
	}
	var behs []*ABeh
	err := util.ReadLines(args[0], func(line []byte) error {
		var b ABeh
		if err := json.Unmarshal(line, &b); err != nil {
			return err
		}
		behs = append(behs, &b)
		return nil
	})
	if err != nil {
		util.Die("reading behaviours: %v", err)
	}
	out := util.NewOut(args[1])
	defer out.Close()
	var nfail, ntx, nsteps, ncommit int64
	util.Parallel(len(behs), runtime.NumCPU(), func(i int) {
		b := behs[i]
		for _, vm := range engines {
			f := func() (f *AFail) {
				defer func() {
					if r := recover(); r != nil {
						f = &AFail{ID: b.ID, Kind: "driver-panic", Harness: true, Msg: fmt.Sprint(r), Beh: b}
					}
				}()
				return replayAtt(b, vm)
			}()
			if f != nil {
				atomic.AddInt64(&nfail, 1)
				out.Write(f)
			}
		}
		for _, s := range b.Steps {
			if s.Op == "begin" {
				atomic.AddInt64(&ntx, 1)
			}
			if s.Op == "commit" {
				atomic.AddInt64(&ncommit, 1)
			}
		}
		atomic.AddInt64(&nsteps, int64(len(b.Steps)))
	})
	out.Write(map[string]any{"summary": true, "behaviours": len(behs), "engines": len(engines),
		"transactions": ntx, "commits": ncommit, "steps": nsteps, "failures": nfail})
}
