// langcond: table conformance driver for spec/lang/Conditions.tla (property C10).
//
//	langcond <cases.ndjson> <results.ndjson>     run every configuration on interpreter and VM
//	langcond -probe <file.cdc>                   run one Cadence script on both engines, print outcome
//	langcond -shapes <cases.ndjson> <out.ndjson> only parse+check every configuration (accept/reject),
//	                                             used to validate the well-formedness predicate of the spec
//
// A case is one configuration of the specification: an interface DAG, the conformance list
// of the concrete struct C, per declaration site the shape of function f (declared / pre /
// post / default or own body), the model-chosen truth value of every test condition, the
// body's counter increment d and return value r, and the constants D / R written in the
// before(...) / result post-conditions. The driver ONLY renders and executes; the expected
// outcome in the case ("exp") is not looked at here, python compares.
//
// Environment: LANGCOND_SRC=1 adds the rendered source to every result row.
package main

import (
	"encoding/json"
	"errors"
	"fmt"
	"os"
	"runtime"
	"strings"
	"sync/atomic"

	"github.com/onflow/cadence/interpreter"
	cdcruntime "github.com/onflow/cadence/runtime"
	"github.com/onflow/cadence/sema"

	"verifharness/host"
	"verifharness/util"
)

// Site is one declaration site of f (and, in nested mode, of g).
type Site struct {
	Decl bool // f is declared at this site
	Pre  bool // with a pre-condition block
	Post bool // with a post-condition block
	Body bool // with a body (default implementation in an interface; always for C)
	Pt   bool // truth value of the plain pre test
	Qt   bool // truth value of the plain post test
	D    int  // post: c.n == before(c.n) + D
	R    int  // post: result == R
	Gpt  bool // nested: truth value of g's pre test at this site
	Gqt  bool // nested: truth value of g's plain post test
	E    int  // nested: g's post: c.n == before(c.n) + E
}

type Case struct {
	ID   int     `json:"id"`
	NI   int     `json:"ni"`
	Par  [][]int `json:"par"`  // par[i-1] = ordered explicit conformances of interface Ii
	Conf []int   `json:"conf"` // ordered explicit conformances of C
	// RawSites: NI interface sites followed by C, each
	// [8*decl+4*pre+2*post+body, pt, qt, D, R, gpt, gqt, E] (layout of SiteRow in Conditions.tla)
	RawSites [][]int `json:"sites"`
	Sites    []Site  `json:"-"`
	Dd       int     `json:"d"`    // increment performed by the body of f
	Rr       int     `json:"r"`    // value returned by the body of f
	Nest     bool    `json:"nest"` // body of C.f calls self.g
	Ee       int     `json:"e"`    // increment performed by the body of g
	Via      int     `json:"via"`  // 0: call on a value of static type C; i>0: through a value of type {Ii}
	PS       string  `json:"ps"`   // parameter shape of f: none | res1 | int_res | res_int_res | optres
}

type Row struct {
	ID      int      `json:"id"`
	Engine  string   `json:"engine"`
	Class   string   `json:"class"`
	CKind   string   `json:"ckind,omitempty"` // pre | post (from the ConditionError)
	Msg     string   `json:"msg,omitempty"`   // message of the failing condition
	Logs    []string `json:"logs"`
	Events  []string `json:"events"`
	Value   string   `json:"value,omitempty"`
	Harness bool     `json:"harness,omitempty"`
	Err     string   `json:"err,omitempty"`
	Src     string   `json:"src,omitempty"`
}

func siteName(c *Case, i int) string { // i is 1-based; NI+1 = C
	if i == c.NI+1 {
		return "C"
	}
	return fmt.Sprintf("I%d", i)
}

const sig = "(_ flags: [Bool], _ c: &Counter): Int"

// parameter shapes of f: extra parameters come FIRST, so that "res1" really is the first argument and
// the other shapes put a resource after a non-resource one. Every body destroys what it receives.
func fSig(ps string) string {
	switch ps {
	case "res1":
		return "(_ r1: @R, _ flags: [Bool], _ c: &Counter): Int"
	case "int_res":
		return "(_ k: Int, _ r1: @R, _ flags: [Bool], _ c: &Counter): Int"
	case "res_int_res":
		return "(_ r1: @R, _ k: Int, _ r2: @R, _ flags: [Bool], _ c: &Counter): Int"
	case "optres":
		return "(_ k: Int, _ r1: @R?, _ flags: [Bool], _ c: &Counter): Int"
	}
	return sig
}

func fConsume(ps string) string {
	switch ps {
	case "res1", "int_res", "optres":
		return "    destroy r1\n"
	case "res_int_res":
		return "    destroy r1\n    destroy r2\n"
	}
	return ""
}

func fArgs(ps string) string {
	switch ps {
	case "res1":
		return "<- create R(), flags, c"
	case "int_res":
		return "3, <- create R(), flags, c"
	case "res_int_res":
		return "<- create R(), 3, <- create R(), flags, c"
	case "optres":
		return "3, <- create R(), flags, c"
	}
	return "flags, c"
}

// Render turns a configuration into a contract-less script.
func Render(c *Case) string {
	var b strings.Builder
	var flags []string
	flag := func(v bool) int {
		flags = append(flags, fmt.Sprintf("%v", v))
		return len(flags) - 1
	}
	b.WriteString("access(all) event Ev(s: String)\naccess(all) resource R {}\n")
	b.WriteString("access(all) struct Counter {\n  access(all) var n: Int\n  init() { self.n = 5 }\n" +
		"  access(all) fun inc(_ d: Int) { self.n = self.n + d }\n}\n")

	writeFun := func(name string, s Site, i int) {
		sn := siteName(c, i)
		isG := name == "g"
		if !s.Decl {
			return
		}
		hasPre, hasPost, hasBody := s.Pre, s.Post, s.Body
		if isG {
			// g mirrors the condition blocks of f; it has a body only in C
			hasBody = i == c.NI+1
			if hasBody {
				hasPre, hasPost = false, false
			}
		}
		fsig := sig
		if !isG {
			fsig = fSig(c.PS)
		}
		fmt.Fprintf(&b, "  access(all) fun %s%s", name, fsig)
		if !hasPre && !hasPost && !hasBody {
			b.WriteString("\n")
			return
		}
		b.WriteString(" {\n")
		p := ""
		if isG {
			p = "g"
		}
		if hasPre {
			t := s.Pt
			if isG {
				t = s.Gpt
			}
			fmt.Fprintf(&b, "    pre {\n      emit Ev(s: \"%s.%spre.a\")\n      flags[%d]: \"%spre:%s\"\n      emit Ev(s: \"%s.%spre.b\")\n    }\n",
				sn, p, flag(t), p, sn, sn, p)
		}
		if hasPost {
			if isG {
				fmt.Fprintf(&b, "    post {\n      emit Ev(s: \"%s.gpost.a\")\n      flags[%d]: \"gpost:%s\"\n      c.n == before(c.n) + %d: \"gbefore:%s\"\n      emit Ev(s: \"%s.gpost.b\")\n    }\n",
					sn, flag(s.Gqt), sn, s.E, sn, sn)
			} else {
				fmt.Fprintf(&b, "    post {\n      emit Ev(s: \"%s.post.a\")\n      flags[%d]: \"post:%s\"\n      c.n == before(c.n) + %d: \"before:%s\"\n      result == %d: \"result:%s\"\n      emit Ev(s: \"%s.post.b\")\n    }\n",
					sn, flag(s.Qt), sn, s.D, sn, s.R, sn, sn)
			}
		}
		if hasBody {
			if isG {
				fmt.Fprintf(&b, "    log(\"gbody:%s\")\n    c.inc(%d)\n    return 7\n", sn, c.Ee)
			} else {
				fmt.Fprintf(&b, "    log(\"body:%s\")\n    c.inc(%d)\n", sn, c.Dd)
				if c.Nest && i == c.NI+1 {
					b.WriteString("    let y = self.g(flags, c)\n    log(\"gret:\".concat(y.toString()))\n")
				}
				b.WriteString(fConsume(c.PS))
				fmt.Fprintf(&b, "    return %d\n", c.Rr)
			}
		}
		b.WriteString("  }\n")
	}

	names := func(xs []int) string {
		if len(xs) == 0 {
			return ""
		}
		ps := make([]string, len(xs))
		for k, x := range xs {
			ps[k] = fmt.Sprintf("I%d", x)
		}
		return ": " + strings.Join(ps, ", ")
	}
	for i := 1; i <= c.NI; i++ {
		fmt.Fprintf(&b, "access(all) struct interface I%d%s {\n", i, names(c.Par[i-1]))
		writeFun("f", c.Sites[i-1], i)
		if c.Nest {
			writeFun("g", c.Sites[i-1], i)
		}
		b.WriteString("}\n")
	}
	fmt.Fprintf(&b, "access(all) struct C%s {\n", names(c.Conf))
	writeFun("f", c.Sites[c.NI], c.NI+1)
	if c.Nest {
		g := c.Sites[c.NI]
		g.Decl = true
		writeFun("g", g, c.NI+1)
	}
	b.WriteString("}\n")
	b.WriteString("access(all) fun main(): Int {\n")
	fmt.Fprintf(&b, "  let flags: [Bool] = [%s]\n", strings.Join(flags, ", "))
	b.WriteString("  let cnt = Counter()\n  let c = &cnt as &Counter\n")
	if c.Via > 0 {
		fmt.Fprintf(&b, "  let x: {I%d} = C()\n", c.Via)
	} else {
		b.WriteString("  let x = C()\n")
	}
	b.WriteString("  let v = x.f(" + fArgs(c.PS) + ")\n  log(\"n:\".concat(cnt.n.toString()))\n  return v\n}\n")
	return b.String()
}

func isCheckerRejection(err error) bool {
	var pc *cdcruntime.ParsingCheckingError
	if errors.As(err, &pc) {
		return true
	}
	var ce *sema.CheckerError
	return errors.As(err, &ce)
}

func toRow(id int, engine string, res host.Result) Row {
	row := Row{ID: id, Engine: engine, Class: res.Class, Logs: res.Logs, Events: []string{}}
	if row.Logs == nil {
		row.Logs = []string{}
	}
	for _, ev := range res.Events {
		// Type ends with ".Ev"; a single String field
		if !strings.HasSuffix(ev.Type, "Ev") || len(ev.Values) != 1 {
			row.Events = append(row.Events, "?"+ev.String())
			continue
		}
		row.Events = append(row.Events, host.Unquote(ev.Values[0]))
	}
	if res.Value != nil {
		row.Value = res.Value.String()
	}
	if res.Err != nil {
		row.Err = res.Err.Error()
		if len(row.Err) > 1500 {
			row.Err = row.Err[:1500]
		}
		var cond *interpreter.ConditionError
		if errors.As(res.Err, &cond) {
			row.Msg = cond.Message
			row.CKind = cond.ConditionKind.Name()
		}
		if isCheckerRejection(res.Err) {
			row.Harness = true
		}
	}
	return row
}

func probe(path string) {
	src, err := os.ReadFile(path)
	if err != nil {
		util.Die("%v", err)
	}
	for _, vm := range []bool{false, true} {
		w := host.NewWorld()
		res := w.Script(string(src), vm)
		row := toRow(0, map[bool]string{false: "interp", true: "vm"}[vm], res)
		b, _ := json.MarshalIndent(row, "", " ")
		fmt.Println(string(b))
	}
}

func main() {
	if len(os.Args) >= 3 && os.Args[1] == "-probe" {
		probe(os.Args[2])
		return
	}
	shapes := false
	args := os.Args[1:]
	if len(args) >= 1 && args[0] == "-shapes" {
		shapes = true
		args = args[1:]
	}
	if len(args) < 2 {
		util.Die("usage: langcond [-shapes] <cases.ndjson> <results.ndjson> | -probe file.cdc")
	}
	var cases []*Case
	err := util.ReadLines(args[0], func(line []byte) error {
		c := &Case{}
		if err := json.Unmarshal(line, c); err != nil {
			return fmt.Errorf("bad case line: %v: %s", err, string(line))
		}
		if len(c.RawSites) != c.NI+1 || len(c.Par) != c.NI {
			return fmt.Errorf("malformed case %d", c.ID)
		}
		for _, rs := range c.RawSites {
			if len(rs) != 8 {
				return fmt.Errorf("malformed site in case %d", c.ID)
			}
			k := rs[0]
			c.Sites = append(c.Sites, Site{
				Decl: k&8 != 0, Pre: k&4 != 0, Post: k&2 != 0, Body: k&1 != 0,
				Pt: rs[1] != 0, Qt: rs[2] != 0, D: rs[3], R: rs[4],
				Gpt: rs[5] != 0, Gqt: rs[6] != 0, E: rs[7],
			})
		}
		cases = append(cases, c)
		return nil
	})
	if err != nil {
		util.Die("%v", err)
	}
	out := util.NewOut(args[1])
	withSrc := os.Getenv("LANGCOND_SRC") == "1"
	workers := runtime.NumCPU()
	if workers > 12 {
		workers = 12
	}
	var execs int64
	util.Parallel(len(cases), workers, func(i int) {
		c := cases[i]
		src := Render(c)
		engines := []bool{false, true}
		if shapes {
			engines = []bool{false}
		}
		for _, vm := range engines {
			w := host.NewWorld()
			res := w.Script(src, vm)
			atomic.AddInt64(&execs, 1)
			row := toRow(c.ID, map[bool]string{false: "interp", true: "vm"}[vm], res)
			if withSrc || row.Harness {
				row.Src = src
			}
			if shapes {
				// only accept / reject matters
				row.Logs, row.Events = []string{}, []string{}
			}
			out.Write(row)
		}
	})
	out.Write(map[string]any{"summary": true, "cases": len(cases), "engines": 2, "executions": execs})
	out.Close()
}
