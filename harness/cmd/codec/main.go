// codec: conformance drivers of the codec family (C41, C42, C43, C29, C48, C44).
//
//	codec roundtrip <cases.ndjson> <results.ndjson> [corpus.ndjson]
//	codec mutate    <corpus.ndjson> <results.ndjson> <n-per-seed>
//	codec order     <cases.ndjson> <results.ndjson>
//	codec args      <cases.ndjson> <results.ndjson>
//	codec events    <cases.ndjson> <results.ndjson>
//	codec stored    gen|check <cases.ndjson> <corpus-dir> <results.ndjson>
//	codec prims     (prints the primitive types this tree defines)
package main

import (
	"fmt"
	"os"
	"sort"

	"verifharness/util"
)

func main() {
	if len(os.Args) < 2 {
		util.Die("usage: codec <roundtrip|mutate|order|args|events|stored|prims> ...")
	}
	switch os.Args[1] {
	case "roundtrip":
		runRoundtrip(os.Args[2:])
	case "stored":
		runStored(os.Args[2:])
	case "events":
		runEvents(os.Args[2:])
	case "args":
		runArgs(os.Args[2:])
	case "order":
		runOrder(os.Args[2:])
	case "mutate":
		runMutate(os.Args[2:])
	case "prims":
		var names []string
		for n := range primByName {
			names = append(names, n)
		}
		sort.Strings(names)
		for _, n := range names {
			fmt.Println(n)
		}
	default:
		util.Die("unknown sub-command %q", os.Args[1])
	}
}
