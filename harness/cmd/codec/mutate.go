// mutate.go: sub-command "mutate" — decoder robustness (exploration part of C41 / C42).
// Byte-level and structure-level mutations of real encodings are fed to the decoders; a decoder
// must return a value or an error, never panic.
//
//	codec mutate <corpus.ndjson> <results.ndjson> <codec: json|ccf> <mutants>
package main

import (
	"bytes"
	"encoding/hex"
	"encoding/json"
	"fmt"
	"math/rand"
	"sort"
	"strconv"
	"strings"
	"sync"

	"github.com/onflow/cadence"
	"github.com/onflow/cadence/encoding/ccf"
	cdcjson "github.com/onflow/cadence/encoding/json"

	"verifharness/util"
)

type corpusEntry struct {
	ID    int    `json:"id"`
	Codec string `json:"codec"`
	Hex   string `json:"hex"`
}

var jsonKinds = []string{"Void", "Optional", "Bool", "String", "Character", "Address", "Int", "Int8", "UInt64", "Word128", "Fix64", "UFix128",
	"Array", "Dictionary", "Struct", "Resource", "Event", "Contract", "Enum", "Attachment", "Path", "Type", "Capability", "Function", "InclusiveRange", "Nope"}
var jsonTypeKinds = []string{"Int", "Optional", "VariableSizedArray", "ConstantSizedArray", "Dictionary", "Reference", "Intersection", "Capability",
	"Function", "Struct", "Enum", "StructInterface", "InclusiveRange", "Restriction", "Any", "Bytes", "Nope"}
var junkStrings = []string{"", "-", "+1", "1e5", "0x10", " 1", "1 ", "00", "-0", "1.5", "1.", ".5", "1.000000000", "NaN", "99999999999999999999999999999999999999999999999999999999999999999999999999999999999999",
	"0x", "0x1", "0xzz", "0x00000000000000000001", "A.1.C", "A.0000000000000001", "A.zz.C.S", "S.", "I.x", "storage", "nope", "\u0000", "\xff\xfe", "𝒳"}

func junk(r *rand.Rand) any {
	switch r.Intn(9) {
	case 0:
		return nil
	case 1:
		return float64(r.Intn(1000)) - 500
	case 2:
		return junkStrings[r.Intn(len(junkStrings))]
	case 3:
		return r.Intn(2) == 0
	case 4:
		return []any{}
	case 5:
		return map[string]any{}
	case 6:
		return []any{nil, "x", 1.5}
	case 7:
		return map[string]any{"type": jsonKinds[r.Intn(len(jsonKinds))], "value": junkStrings[r.Intn(len(junkStrings))]}
	default:
		return 1e300
	}
}

type nodeRef struct {
	parent any
	key    any // string or int
}

func collect(x any, out *[]nodeRef) {
	switch x := x.(type) {
	case map[string]any:
		keys := make([]string, 0, len(x))
		for k := range x {
			keys = append(keys, k)
		}
		sort.Strings(keys)
		for _, k := range keys {
			*out = append(*out, nodeRef{x, k})
			collect(x[k], out)
		}
	case []any:
		for i := range x {
			*out = append(*out, nodeRef{x, i})
			collect(x[i], out)
		}
	}
}

func deepCopy(x any) any {
	b, _ := json.Marshal(x)
	var y any
	_ = json.Unmarshal(b, &y)
	return y
}

// mutateJSONTree applies one structural mutation to a JSON-Cadence document.
func mutateJSONTree(doc []byte, r *rand.Rand) ([]byte, string) {
	var tree any
	if err := json.Unmarshal(doc, &tree); err != nil {
		return nil, ""
	}
	var refs []nodeRef
	collect(tree, &refs)
	if len(refs) == 0 {
		return nil, ""
	}
	ref := refs[r.Intn(len(refs))]
	get := func() any {
		if m, ok := ref.parent.(map[string]any); ok {
			return m[ref.key.(string)]
		}
		return ref.parent.([]any)[ref.key.(int)]
	}
	set := func(v any) {
		if m, ok := ref.parent.(map[string]any); ok {
			m[ref.key.(string)] = v
		} else {
			ref.parent.([]any)[ref.key.(int)] = v
		}
	}
	op := ""
	switch r.Intn(10) {
	case 0:
		op = "delete-key"
		if m, ok := ref.parent.(map[string]any); ok {
			delete(m, ref.key.(string))
		} else {
			set(nil)
		}
	case 1, 2:
		op = "replace-junk"
		set(junk(r))
	case 3:
		op = "retag-kind"
		if m, ok := ref.parent.(map[string]any); ok {
			if _, has := m["type"].(string); has {
				m["type"] = jsonKinds[r.Intn(len(jsonKinds))]
			}
			if _, has := m["kind"].(string); has {
				m["kind"] = jsonTypeKinds[r.Intn(len(jsonTypeKinds))]
			}
		}
	case 4:
		op = "rename-key"
		if m, ok := ref.parent.(map[string]any); ok {
			v := m[ref.key.(string)]
			delete(m, ref.key.(string))
			m[[]string{"value", "type", "kind", "id", "fields", "typeID", "x", ""}[r.Intn(8)]] = v
		}
	case 5:
		op = "swap-subtree"
		other := refs[r.Intn(len(refs))]
		var ov any
		if m, ok := other.parent.(map[string]any); ok {
			ov = m[other.key.(string)]
		} else {
			ov = other.parent.([]any)[other.key.(int)]
		}
		set(deepCopy(ov))
	case 6:
		op = "wrap-array"
		set([]any{get(), get()})
	case 7:
		op = "string-junk"
		if _, ok := get().(string); ok {
			set(junkStrings[r.Intn(len(junkStrings))])
		} else {
			set(junkStrings[r.Intn(len(junkStrings))])
		}
	case 8:
		op = "number-for-string"
		set(float64(r.Intn(1 << 20)))
	case 9:
		op = "extra-key"
		if m, ok := ref.parent.(map[string]any); ok {
			m["extra"] = junk(r)
		}
	}
	b, err := json.Marshal(tree)
	if err != nil {
		return nil, ""
	}
	return b, "tree:" + op
}

func mutateBytes(b []byte, r *rand.Rand, other []byte) ([]byte, string) {
	m := append([]byte(nil), b...)
	if len(m) == 0 {
		return []byte{byte(r.Intn(256))}, "bytes:single"
	}
	switch r.Intn(8) {
	case 0:
		m[r.Intn(len(m))] ^= 1 << uint(r.Intn(8))
		return m, "bytes:bitflip"
	case 1:
		m[r.Intn(len(m))] = byte(r.Intn(256))
		return m, "bytes:set"
	case 2:
		i := r.Intn(len(m))
		return append(m[:i], m[i+1:]...), "bytes:delete"
	case 3:
		i := r.Intn(len(m) + 1)
		return append(m[:i], append([]byte{byte(r.Intn(256))}, m[i:]...)...), "bytes:insert"
	case 4:
		return m[:r.Intn(len(m))], "bytes:truncate"
	case 5:
		i, j := r.Intn(len(m)), r.Intn(len(m))
		if i > j {
			i, j = j, i
		}
		return append(m[:j], m[i:]...), "bytes:duplicate-range"
	case 6:
		if len(other) > 0 {
			i, j := r.Intn(len(m)), r.Intn(len(other))
			return append(m[:i], other[j:]...), "bytes:splice"
		}
		return m[:len(m)/2], "bytes:truncate"
	default:
		// several edits
		for k := 0; k < 1+r.Intn(4); k++ {
			m[r.Intn(len(m))] = byte(r.Intn(256))
		}
		return m, "bytes:multi"
	}
}

// mutateCBORHeads rewrites a CBOR head byte (major type / additional info): tags, lengths, simple values.
func mutateCBORHeads(b []byte, r *rand.Rand) ([]byte, string) {
	m := append([]byte(nil), b...)
	if len(m) < 3 {
		return m, "cbor:short"
	}
	i := r.Intn(len(m))
	switch r.Intn(5) {
	case 0: // tag number of a 0xd8 xx tag
		for k := 0; k < len(m)-1; k++ {
			j := (i + k) % (len(m) - 1)
			if m[j] == 0xd8 {
				m[j+1] = byte(128 + r.Intn(100))
				return m, "cbor:retag"
			}
		}
	case 1: // container length
		mt := m[i] >> 5
		if mt >= 2 && mt <= 5 {
			m[i] = mt<<5 | byte(r.Intn(32))
			return m, "cbor:length"
		}
	case 2: // huge length
		m[i] = byte(r.Intn(4)+2)<<5 | 27
		return m, "cbor:huge-length"
	case 3:
		m[i] = 0xf6 // nil
		return m, "cbor:nil"
	case 4:
		m[i] = byte(r.Intn(8))<<5 | byte(24+r.Intn(8))
		return m, "cbor:head"
	}
	m[i] ^= 0xe0
	return m, "cbor:major"
}

// deepJSON nests Optional values n levels deep (balanced, or cut off half of the time).
func deepJSON(n int, r *rand.Rand) []byte {
	s := strings.Repeat(`{"type":"Optional","value":`, n) + `{"type":"Void"}`
	if r.Intn(2) == 0 {
		return []byte(s)
	}
	return []byte(s + strings.Repeat("}", n))
}

func runMutate(args []string) {
	if len(args) < 4 {
		util.Die("usage: codec mutate corpus.ndjson results.ndjson json|ccf <mutants>")
	}
	codec := args[2]
	total, _ := strconv.Atoi(args[3])
	var corpus [][]byte
	err := util.ReadLines(args[0], func(line []byte) error {
		var e corpusEntry
		if err := json.Unmarshal(line, &e); err != nil {
			return err
		}
		if e.Codec == codec {
			b, _ := hex.DecodeString(e.Hex)
			corpus = append(corpus, b)
		}
		return nil
	})
	if err != nil || len(corpus) == 0 {
		util.Die("reading corpus: %v (%d entries)", err, len(corpus))
	}
	out := util.NewOut(args[1])
	defer out.Close()
	seed := util.Seed()
	const workers = 4
	var mu sync.Mutex
	outcomes := map[string]int{} // op|outcome class -> count
	distinct := map[string]bool{}
	var accepted, rejected, panics int
	var samples []M
	util.Parallel(workers, workers, func(w int) {
		r := rand.New(rand.NewSource(seed*1000 + int64(w)))
		for n := w; n < total; n += workers {
			src := corpus[r.Intn(len(corpus))]
			var mut []byte
			var op string
			switch {
			case codec == "json" && n%3 != 0:
				mut, op = mutateJSONTree(src, r)
				if mut == nil {
					mut, op = mutateBytes(src, r, corpus[r.Intn(len(corpus))])
				}
			case codec == "json" && n%97 == 0:
				mut, op = deepJSON(200+r.Intn(3000), r), "tree:deep-nesting"
			case codec == "ccf" && n%2 == 0:
				mut, op = mutateCBORHeads(src, r)
			default:
				mut, op = mutateBytes(src, r, corpus[r.Intn(len(corpus))])
			}
			if bytes.Equal(mut, src) {
				continue
			}
			var v cadence.Value
			var derr error
			p, what := guard(func() {
				if codec == "json" {
					v, derr = cdcjson.Decode(nil, mut)
				} else {
					v, derr = ccf.Decode(nil, mut)
					if derr == nil {
						_, _ = strictDec.Decode(nil, mut)
					} else if _, serr := strictDec.Decode(nil, mut); serr == nil {
						derr = fmt.Errorf("strict decoder accepts what the default decoder rejects")
						p2 := M{"prop": map[string]string{"json": "C41", "ccf": "C42"}[codec], "kind": "strict-accepts-more", "op": op,
							"msg": "strict CCF decoder accepts an input the default decoder rejects", "hex": hex.EncodeToString(mut)}
						out.Write(p2)
					}
				}
			})
			mu.Lock()
			switch {
			case p:
				panics++
				out.Write(M{"prop": map[string]string{"json": "C41", "ccf": "C42"}[codec], "kind": codec + "-decode-panic", "op": op,
					"panic": strings.SplitN(what, "\n", 2)[0],
					"msg":   "decoder panicked on mutated input: " + what, "hex": hex.EncodeToString(mut), "source": hex.EncodeToString(src)})
				outcomes[op+"|panic"]++
			case derr != nil:
				rejected++
				ec := errClass(derr)
				outcomes[op+"|rejected"]++
				distinct[op+"|"+ec] = true
			default:
				accepted++
				outcomes[op+"|accepted"]++
				distinct[op+"|accepted:"+fmt.Sprintf("%T", v)] = true
				// an accepted mutant is a value: it must be encodable again without a crash
				p2, what2 := guard(func() {
					if codec == "json" {
						_, _ = cdcjson.Encode(v)
					} else {
						_, _ = ccf.Encode(v)
					}
				})
				if p2 {
					// outside the property statement (which is about decoding): recorded as an observation only
					out.Write(M{"info": true, "kind": codec + "-reencode-panic", "op": op,
						"msg": "re-encoding a decoded mutant panicked: " + strings.SplitN(what2, "\n", 2)[0], "hex": hex.EncodeToString(mut)})
				}
			}
			if len(samples) < 6 && n%(total/6+1) == 0 {
				s := M{"op": op, "outcome": "accepted"}
				if derr != nil {
					s["outcome"] = "rejected: " + errClass(derr)
				}
				if codec == "json" {
					s["input"] = string(mut[:min(len(mut), 300)])
				} else {
					s["input_hex"] = hex.EncodeToString(mut[:min(len(mut), 120)])
				}
				samples = append(samples, s)
			}
			mu.Unlock()
		}
	})
	out.Write(M{"summary": true, "codec": codec, "mutants": accepted + rejected + panics, "accepted": accepted, "rejected": rejected,
		"panics": panics, "distinct_outcomes": len(distinct), "by_op": outcomes, "samples": samples, "corpus": len(corpus)})
}
