// events.go: sub-command "events" — emitted events against spec/codec/Events.tla (C48).
//
//	codec events <rows.ndjson> <results.ndjson>
//
// rows: the TLC table [site, fields[name, ty, expr, kind], expected payloads]. For every row a program is
// rendered, executed on both engines, and the payloads the host received are compared with the model's.
package main

import (
	"encoding/json"
	"fmt"
	"runtime"
	"strings"
	"sync"

	"github.com/onflow/cadence"

	"verifharness/host"
	"verifharness/util"
)

type evField struct {
	Name string `json:"name"`
	Ty   string `json:"ty"`
	Expr string `json:"expr"`
	Kind string `json:"kind"`
}

type evPayload struct {
	Tid   string   `json:"tid"`
	Names []string `json:"names"`
	Tyids []string `json:"tyids"`
	Dyns  []string `json:"dyns"`
	Vals  []M      `json:"vals"`
}

type evRow struct {
	ID       int         `json:"id"`
	Site     string      `json:"site"`
	Fields   []evField   `json:"fields"`
	Expected []evPayload `json:"expected"`
}

const evStructS = "  access(all) struct S { access(all) let a: Int; init(a: Int) { self.a = a } }\n"

// renderEvents returns (contract source or "", program source, isScript).
func renderEvents(r evRow) (contract, program string, script bool) {
	var params, args []string
	for _, f := range r.Fields {
		params = append(params, f.Name+": "+f.Ty)
		args = append(args, f.Name+": "+f.Expr)
	}
	ps, as := strings.Join(params, ", "), strings.Join(args, ", ")
	tx := func(body string) string {
		return "import C from 0x1\ntransaction { execute { " + body + " } }"
	}
	switch r.Site {
	case "stmt":
		return "access(all) contract C {\n" + evStructS +
			"  access(all) event Ev(" + ps + ")\n  access(all) fun fire() { emit Ev(" + as + ") }\n}", tx("C.fire()"), false
	case "refs":
		return "access(all) contract C {\n" + evStructS +
			"  access(all) event Ev(" + ps + ")\n  access(all) fun fire() { let s = S(a: 2); let r = &s as &S; let r2 = &s as &S; emit Ev(" + as + ") }\n}", tx("C.fire()"), false
	case "script":
		return "", "access(all) event Ev(" + ps + ")\naccess(all) fun main() { emit Ev(" + as + ") }", true
	case "pre":
		return "access(all) contract C {\n  access(all) event Ev(" + ps + ")\n  access(all) fun f() { pre { emit Ev(" + as + ") } }\n}", tx("C.f()"), false
	case "post":
		return "access(all) contract C {\n  access(all) event Ev(" + ps + ")\n  access(all) fun f() { post { emit Ev(" + as + ") } }\n}", tx("C.f()"), false
	case "ifacepre":
		return "access(all) contract C {\n  access(all) event Ev(" + ps + ")\n" +
			"  access(all) struct interface SI { access(all) fun g() { pre { emit Ev(" + as + ") } } }\n" +
			"  access(all) struct T: SI { access(all) fun g() {} }\n}", tx("C.T().g()"), false
	}
	// destruction events
	var boxes, rfields, inits, defaults []string
	self := "self"
	if r.Site == "attach" {
		self = "base"
	}
	for i, f := range r.Fields {
		switch f.Kind {
		case "lit":
			defaults = append(defaults, fmt.Sprintf("%s: %s = %s", f.Name, f.Ty, f.Expr))
		case "field":
			rfields = append(rfields, fmt.Sprintf("    access(all) let f%d: %s", i, f.Ty))
			inits = append(inits, fmt.Sprintf("self.f%d = %s", i, f.Expr))
			defaults = append(defaults, fmt.Sprintf("%s: %s = %s.f%d", f.Name, f.Ty, self, i))
		case "deep":
			boxes = append(boxes, fmt.Sprintf("  access(all) struct Box%d { access(all) let v: %s; init(v: %s) { self.v = v } }", i, f.Ty, f.Ty))
			rfields = append(rfields, fmt.Sprintf("    access(all) let s%d: Box%d", i, i))
			inits = append(inits, fmt.Sprintf("self.s%d = Box%d(v: %s)", i, i, f.Expr))
			defaults = append(defaults, fmt.Sprintf("%s: %s = %s.s%d.v", f.Name, f.Ty, self, i))
		}
	}
	inner := "  access(all) resource Inner { access(all) let n: Int; access(all) event ResourceDestroyed(n: Int = self.n, lit: String = \"in\"); init(n: Int) { self.n = n } }\n" +
		"  access(all) fun mkInner(_ n: Int): @Inner { return <- create Inner(n: n) }\n"
	ev := "    access(all) event ResourceDestroyed(" + strings.Join(defaults, ", ") + ")\n"
	var b strings.Builder
	b.WriteString("access(all) contract C {\n" + evStructS + strings.Join(boxes, "\n") + "\n" + inner)
	switch r.Site {
	case "destroy", "array":
		b.WriteString("  access(all) resource R {\n" + strings.Join(rfields, "\n") + "\n" + ev +
			"    init() { " + strings.Join(inits, "; ") + " }\n  }\n")
		b.WriteString("  access(all) fun mk(): @R { return <- create R() }\n}")
		if r.Site == "array" {
			return b.String(), tx("let arr: @[AnyResource] <- [<- C.mk(), <- C.mkInner(1)]; destroy arr"), false
		}
		return b.String(), tx("let r <- C.mk(); destroy r"), false
	case "nested":
		b.WriteString("  access(all) resource R {\n" + strings.Join(rfields, "\n") + "\n    access(all) var i1: @Inner\n    access(all) var i2: @Inner\n" + ev +
			"    init() { " + strings.Join(append(inits, "self.i1 <- create Inner(n: 1)", "self.i2 <- create Inner(n: 2)"), "; ") + " }\n  }\n")
		b.WriteString("  access(all) fun mk(): @R { return <- create R() }\n}")
		return b.String(), tx("let r <- C.mk(); destroy r"), false
	case "attach":
		b.WriteString("  access(all) resource R {\n" + strings.Join(rfields, "\n") + "\n    access(all) event ResourceDestroyed(k: Int = 1)\n" +
			"    init() { " + strings.Join(inits, "; ") + " }\n  }\n")
		b.WriteString("  access(all) attachment A for R {\n" + ev + "  }\n")
		b.WriteString("  access(all) fun mk(): @R { return <- attach A() to <- create R() }\n}")
		return b.String(), tx("let r <- C.mk(); destroy r"), false
	}
	hfail("unknown site %q", r.Site)
	return
}

// matchPayload compares one delivered event with a predicted payload; "" = equal.
func matchPayload(p evPayload, e host.Event) string {
	tid := p.Tid
	if strings.HasPrefix(tid, "$LOC.") {
		i := strings.LastIndex(e.Type, ".")
		if i < 0 || !strings.HasPrefix(e.Type, "s.") {
			return fmt.Sprintf("event type ID %s is not located in the script", e.Type)
		}
		tid = e.Type[:i] + tid[len("$LOC"):]
	}
	if e.Type != tid {
		return fmt.Sprintf("type ID %s, expected %s", e.Type, tid)
	}
	if e.Raw.EventType == nil {
		return "event without type"
	}
	fields := getCompositeTypeFields(e.Raw.EventType)
	vals := getCompositeFieldValues(e.Raw)
	if len(fields) != len(p.Names) || len(vals) != len(p.Names) {
		return fmt.Sprintf("%d declared fields / %d values, expected %d", len(fields), len(vals), len(p.Names))
	}
	for i := range p.Names {
		if fields[i].Identifier != p.Names[i] {
			var got []string
			for _, f := range fields {
				got = append(got, f.Identifier)
			}
			return fmt.Sprintf("field order %v, expected declaration order %v", got, p.Names)
		}
		if fields[i].Type == nil || fields[i].Type.ID() != p.Tyids[i] {
			got := "<nil>"
			if fields[i].Type != nil {
				got = fields[i].Type.ID()
			}
			return fmt.Sprintf("field %s declared with type %s, expected %s", p.Names[i], got, p.Tyids[i])
		}
		dm := projMode{dictSet: true} // dictionary entries are compared as a set
		got, want := canonJSON(projValue(vals[i], dm)), canonJSON(normAbs(p.Vals[i], dm))
		if got != want {
			return fmt.Sprintf("field %s carries %s, expected %s", p.Names[i], got, want)
		}
		if id, ok := safeTypeID(vals[i]); ok && id != p.Dyns[i] {
			return fmt.Sprintf("field %s: value has type %s, expected %s", p.Names[i], id, p.Dyns[i])
		}
	}
	// the payload order seen by a JSON consumer
	if strings.Join(e.Fields, ",") != strings.Join(p.Names, ",") {
		return fmt.Sprintf("JSON-Cadence field order %v, expected %v", e.Fields, p.Names)
	}
	return ""
}

func runEvents(args []string) {
	if len(args) < 2 {
		util.Die("usage: codec events rows.ndjson results.ndjson")
	}
	var rows []evRow
	err := util.ReadLines(args[0], func(line []byte) error {
		var r evRow
		if err := json.Unmarshal(line, &r); err != nil {
			return err
		}
		rows = append(rows, r)
		return nil
	})
	if err != nil {
		util.Die("reading rows: %v", err)
	}
	out := util.NewOut(args[1])
	defer out.Close()
	workers := runtime.NumCPU()
	if workers > 8 {
		workers = 8
	}
	var mu sync.Mutex
	counts := map[string]int{}
	var samples []M
	util.Parallel(len(rows), workers, func(i int) {
		r := rows[i]
		defer func() {
			if p := recover(); p != nil {
				if h, ok := p.(harnessErr); ok {
					out.Write(M{"kind": "harness", "msg": h.msg, "id": r.ID})
					return
				}
				panic(p)
			}
		}()
		contract, program, script := renderEvents(r)
		for _, useVM := range []bool{false, true} {
			engine := "interp"
			if useVM {
				engine = "vm"
			}
			w := host.NewWorld()
			if contract != "" {
				if err := w.Deploy(host.Addr(1), "C", contract); err != nil {
					out.Write(M{"kind": "harness", "msg": "generated contract rejected: " + firstLine(err), "src": contract, "id": r.ID})
					return
				}
			}
			var res host.Result
			if script {
				res = w.Script(program, useVM)
			} else {
				res = w.Tx(program, nil, useVM)
			}
			mu.Lock()
			counts["executions"]++
			mu.Unlock()
			if res.Err != nil {
				if host.IsInternal(res.Class) {
					// the checker accepted the program; an internal error / crash while emitting is evidence about the code
					out.Write(M{"prop": "C48", "kind": "emit-internal-error", "site": r.Site, "engine": engine, "id": r.ID, "problem": "internal-error",
						"fty": "", "fkind": "", "msg": fmt.Sprintf("site %s (%s): emitting fails with %s: %s", r.Site, engine, res.Class, firstLine(res.Err)),
						"src": contract + "\n" + program, "row": r})
					continue
				}
				out.Write(M{"kind": "harness", "msg": "generated program failed: " + firstLine(res.Err), "src": contract + "\n" + program, "id": r.ID, "engine": engine})
				return
			}
			// bag comparison
			used := make([]bool, len(res.Events))
			var problems []string
			for _, p := range r.Expected {
				found := false
				why := "no event with type ID " + p.Tid + " was delivered"
				for j, e := range res.Events {
					if used[j] {
						continue
					}
					m := matchPayload(p, e)
					if m == "" {
						used[j], found = true, true
						break
					}
					if e.Type == p.Tid || strings.HasPrefix(p.Tid, "$LOC") {
						why = m
					}
				}
				if !found {
					problems = append(problems, why)
				}
			}
			for j, e := range res.Events {
				if !used[j] {
					problems = append(problems, "unexpected event "+e.String())
				}
			}
			mu.Lock()
			counts["events"] += len(res.Events)
			counts["fields"] += func() int {
				n := 0
				for _, p := range r.Expected {
					n += len(p.Names)
				}
				return n
			}()
			if len(samples) < 4 && r.ID%97 == 3 && !useVM {
				var evs []string
				for _, e := range res.Events {
					evs = append(evs, e.String())
				}
				samples = append(samples, M{"site": r.Site, "program": contract + "\n" + program, "delivered": evs})
			}
			mu.Unlock()
			if len(problems) > 0 {
				var evs []string
				for _, e := range res.Events {
					evs = append(evs, e.String())
				}
				fty, fkind := "", ""
				for _, f := range r.Fields {
					if strings.HasPrefix(problems[0], "field "+f.Name+" ") || strings.HasPrefix(problems[0], "field "+f.Name+":") {
						fty, fkind = f.Ty, f.Kind
					}
				}
				out.Write(M{"prop": "C48", "kind": "payload-mismatch", "site": r.Site, "engine": engine, "id": r.ID,
					"problem": classifyEvProblem(problems[0]), "fty": fty, "fkind": fkind,
					"msg": fmt.Sprintf("site %s (%s): %s\n delivered: %v", r.Site, engine, strings.Join(problems, "; "), evs),
					"src": contract + "\n" + program, "row": r})
			}
		}
	})
	out.Write(M{"summary": true, "rows": len(rows), "executions": counts["executions"], "events": counts["events"],
		"fields_compared": counts["fields"], "samples": samples})
}

func classifyEvProblem(p string) string {
	switch {
	case strings.Contains(p, "field order"):
		return "field-order"
	case strings.Contains(p, "carries"):
		return "field-value"
	case strings.Contains(p, "declared with type"):
		return "field-type"
	case strings.Contains(p, "value has type"):
		return "value-type"
	case strings.Contains(p, "type ID"):
		return "type-id"
	case strings.Contains(p, "unexpected event"):
		return "extra-event"
	case strings.Contains(p, "was delivered"):
		return "missing-event"
	}
	return "other"
}

var _ cadence.Value
