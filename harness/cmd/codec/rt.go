// rt.go: sub-command "roundtrip" — conformance of encoding/json and encoding/ccf with
// spec/codec/JsonCdc.tla on the TLC-enumerated universe (C41, C42 round-trip part, C43).
//
//	codec roundtrip <cases.ndjson> <results.ndjson>
//
// each case: {"id":n, "v":<abstract value>, "json":<JsonOf(v)>, "er":<Erase(v)>, "jo":bool}
package main

import (
	"bytes"
	"encoding/hex"
	"encoding/json"
	"errors"
	"fmt"
	"os"
	"regexp"
	"runtime"
	"sort"
	"strings"
	"sync"
	"sync/atomic"

	"github.com/onflow/cadence"
	"github.com/onflow/cadence/encoding/ccf"
	cdcjson "github.com/onflow/cadence/encoding/json"

	"verifharness/util"
)

type rtCase struct {
	ID   int  `json:"id"`
	V    M    `json:"v"`
	JSON any  `json:"json"`
	Er   M    `json:"er"`
	CC   M    `json:"cc"` // CcfView(v)
	X    M    `json:"x"`  // Common(v)
	JO   bool `json:"jo"`
}

type failure struct {
	Prop    string `json:"prop"`
	Kind    string `json:"kind"`
	Msg     string `json:"msg"`
	ID      int    `json:"id"`
	VKinds  string `json:"vkinds"`  // value kinds occurring in the case
	TKinds  string `json:"tkinds"`  // type kinds occurring in static types / embedded types
	FunStat bool   `json:"funstat"` // a function type occurs in the STATIC type of a value (not only inside a type value)
	Class   string `json:"class"`   // hazard features of the case (see hazards)
	Reason  string `json:"reason,omitempty"`
	Err     string `json:"err,omitempty"`
	Case    any    `json:"case,omitempty"`
	Harness bool   `json:"harness,omitempty"`
}

var detEnc = func() ccf.EncMode {
	m, err := ccf.EncOptions{
		SortCompositeFields:   ccf.SortBytewiseLexical,
		SortIntersectionTypes: ccf.SortBytewiseLexical,
		SortEntitlementTypes:  ccf.SortBytewiseLexical,
	}.EncMode()
	if err != nil {
		panic(err)
	}
	return m
}()

var strictDec = func() ccf.DecMode {
	m, err := ccf.DecOptions{
		EnforceSortCompositeFields:   ccf.EnforceSortBytewiseLexical,
		EnforceSortIntersectionTypes: ccf.EnforceSortBytewiseLexical,
		EnforceSortEntitlementTypes:  ccf.EnforceSortBytewiseLexical,
	}.DecMode()
	if err != nil {
		panic(err)
	}
	return m
}()

// guard runs f and converts a panic into (true, description).
func guard(f func()) (panicked bool, what string) {
	defer func() {
		if r := recover(); r != nil {
			if h, ok := r.(harnessErr); ok {
				panic(h)
			}
			panicked = true
			buf := make([]byte, 2048)
			n := runtime.Stack(buf, false)
			what = fmt.Sprintf("%v\n%s", r, buf[:n])
		}
	}()
	f()
	return
}

// walkValue visits an abstract value: fv on every (sub)value, ft on every type occurring in it
// (static=true for static types of containers/composites/capabilities, false for the payload of
// type values and function values).
func walkValue(v M, fv func(M), ft func(t M, static bool)) {
	fv(v)
	typ := func(x any, static bool) {
		switch x := x.(type) {
		case map[string]any:
			walkType(x, func(t M) { ft(t, static) })
		case []any:
			for _, e := range x {
				walkType(rec(e), func(t M) { ft(t, static) })
			}
		}
	}
	switch v["k"] {
	case "opt":
		for _, e := range seq(v, "v") {
			walkValue(rec(e), fv, ft)
		}
	case "arr":
		typ(v["t"], true)
		for _, e := range seq(v, "vs") {
			walkValue(rec(e), fv, ft)
		}
	case "dict":
		typ(v["t"], true)
		for _, p := range seq(v, "ps") {
			walkValue(sub(rec(p), "key"), fv, ft)
			walkValue(sub(rec(p), "v"), fv, ft)
		}
	case "range":
		typ(v["t"], true)
		walkValue(sub(v, "start"), fv, ft)
		walkValue(sub(v, "end"), fv, ft)
		walkValue(sub(v, "step"), fv, ft)
	case "comp":
		typ(v["t"], true)
		for _, e := range seq(v, "vs") {
			walkValue(rec(e), fv, ft)
		}
	case "cap":
		typ(v["t"], true)
	case "type", "fun":
		typ(v["t"], false)
	}
}

func walkType(t M, f func(M)) {
	f(t)
	for _, key := range []string{"t", "key", "ret"} {
		switch x := t[key].(type) {
		case map[string]any:
			walkType(x, f)
		case []any:
			for _, e := range x {
				walkType(rec(e), f)
			}
		}
	}
	for _, key := range []string{"types", "aux"} {
		if l, ok := t[key].([]any); ok {
			for _, e := range l {
				walkType(rec(e), f)
			}
		}
	}
	for _, key := range []string{"params", "fields"} {
		if l, ok := t[key].([]any); ok {
			for _, e := range l {
				walkType(sub(rec(e), "t"), f)
			}
		}
	}
	if l, ok := t["tparams"].([]any); ok {
		for _, e := range l {
			for _, b := range seq(rec(e), "bound") {
				walkType(rec(b), f)
			}
		}
	}
	if l, ok := t["inits"].([]any); ok {
		for _, in := range l {
			for _, e := range in.([]any) {
				walkType(sub(rec(e), "t"), f)
			}
		}
	}
}

func kinds(v M, vk, tk map[string]bool) (funStatic bool) {
	walkValue(v, func(x M) {
		vk[str(x, "k")] = true
		if x["k"] == "fun" {
			funStatic = true // the static type of a function value is its function type
		}
	}, func(t M, static bool) {
		k := str(t, "k")
		if k == "none" {
			return
		}
		if k == "comp" {
			k = "comp:" + str(t, "ck")
		}
		tk[k] = true
		if static && k == "fun" {
			funStatic = true
		}
	})
	return
}

// hazards names the features of a case that known defects hinge on (used by narrow matchers).
func hazards(v M) string {
	h := map[string]bool{}
	checkType := func(t M, static bool) {
		switch t["k"] {
		case "fun":
			if static {
				h["fun-static"] = true
			}
			for _, tp := range seq(t, "tparams") {
				if len(seq(rec(tp), "bound")) == 0 {
					h["typeparam-unbounded"] = true
				}
			}
			if dupLabels(seq(t, "params")) {
				h["dup-param-label"] = true
			}
		case "comp":
			for _, in := range seq(t, "inits") {
				if dupLabels(in.([]any)) {
					h["dup-param-label"] = true
				}
				for _, p := range in.([]any) {
					walkType(sub(rec(p), "t"), func(x M) {
						if x["k"] == "rec" {
							h["rec-in-initializer"] = true
						}
					})
				}
			}
			if t["ck"] == "Attachment" {
				h["attachment-type"] = true
			}
		case "inter":
			for _, m := range seq(t, "types") {
				if rec(m)["k"] != "prim" {
					h["intersection-nominal"] = true
				}
			}
		}
	}
	walkValue(v, func(x M) {
		switch x["k"] {
		case "fun":
			h["fun-static"] = true
		case "opt":
			if s := seq(x, "v"); len(s) == 1 && rec(s[0])["k"] == "void" {
				h["some-void"] = true
			}
		case "comp":
			t := sub(x, "t")
			if t["ck"] == "Attachment" {
				h["attachment-value"] = true
			}
			if len(seq(x, "vs")) > len(seq(t, "fields")) {
				h["attachment-field"] = true
			}
		}
	}, checkType)
	return setStr(h)
}

func dupLabels(ps []any) bool {
	seenL, seenI := map[string]bool{}, map[string]bool{}
	for _, p := range ps {
		l, i := str(rec(p), "label"), str(rec(p), "id")
		if seenL[l] || seenI[i] {
			return true
		}
		seenL[l], seenI[i] = true, true
	}
	return false
}

// matchTree compares the model's JSON tree with the decoded implementation tree; the model's
// "$tid" stands for any string (type IDs of function/intersection types are C45's subject).
func matchTree(spec, impl any) bool {
	switch s := spec.(type) {
	case string:
		i, ok := impl.(string)
		return ok && (s == "$tid" || s == i)
	case []any:
		i, ok := impl.([]any)
		if !ok || len(i) != len(s) {
			return false
		}
		for k := range s {
			if !matchTree(s[k], i[k]) {
				return false
			}
		}
		return true
	case map[string]any:
		i, ok := impl.(map[string]any)
		if !ok || len(i) != len(s) {
			return false
		}
		for k, e := range s {
			ie, ok := i[k]
			if !ok || !matchTree(e, ie) {
				return false
			}
		}
		return true
	case nil:
		return impl == nil
	}
	return canonJSON(spec) == canonJSON(impl)
}

func setStr(m map[string]bool) string {
	var s []string
	for k := range m {
		s = append(s, k)
	}
	sort.Strings(s)
	return strings.Join(s, ",")
}

var reAt = regexp.MustCompile(`\s*\(at ([^)]*)\)`)
var reDigits = regexp.MustCompile(`[0-9]+`)

// errClass reduces an error message to a stable class: the innermost message without numbers,
// followed by the last property of the JSON path it was reported at.
func errClass(err error) string {
	if err == nil {
		return ""
	}
	s := err.Error()
	at := ""
	if m := reAt.FindStringSubmatch(s); m != nil {
		p := m[1]
		if i := strings.LastIndex(p, "."); i >= 0 {
			p = p[i+1:]
		}
		at = " @" + reDigits.ReplaceAllString(p, "")
		s = reAt.ReplaceAllString(s, "")
	}
	if i := strings.LastIndex(s, ": "); i >= 0 && i+2 < len(s) {
		s = s[i+2:]
	}
	s = strings.TrimSpace(reDigits.ReplaceAllString(s, ""))
	if len(s) > 70 {
		s = s[:70]
	}
	return s + at
}

// embeddedTypes lists, in traversal order, the types embedded in a value (type values, capability
// borrow types, function types) and the static types of containers/composites.
func embeddedTypes(v cadence.Value, payloadOnly bool, out *[]cadence.Type) {
	switch v := v.(type) {
	case cadence.Optional:
		if v.Value != nil {
			embeddedTypes(v.Value, payloadOnly, out)
		}
	case cadence.Array:
		if !payloadOnly {
			*out = append(*out, v.ArrayType)
		}
		for _, e := range v.Values {
			embeddedTypes(e, payloadOnly, out)
		}
	case cadence.Dictionary:
		if !payloadOnly {
			*out = append(*out, v.DictionaryType)
		}
		for _, p := range v.Pairs {
			embeddedTypes(p.Key, payloadOnly, out)
			embeddedTypes(p.Value, payloadOnly, out)
		}
	case *cadence.InclusiveRange:
		embeddedTypes(v.Start, payloadOnly, out)
		embeddedTypes(v.End, payloadOnly, out)
		embeddedTypes(v.Step, payloadOnly, out)
	case cadence.Composite:
		if !payloadOnly {
			*out = append(*out, v.Type())
		}
		for _, e := range getCompositeFieldValues(v) {
			embeddedTypes(e, payloadOnly, out)
		}
	case cadence.TypeValue:
		*out = append(*out, v.StaticType)
	case cadence.Capability:
		*out = append(*out, v.BorrowType)
	case cadence.Function:
		*out = append(*out, v.FunctionType)
	}
}

func isNilType(t cadence.Type) bool {
	if t == nil {
		return true
	}
	switch x := t.(type) {
	case *cadence.DictionaryType:
		return x == nil
	case *cadence.VariableSizedArrayType:
		return x == nil
	case *cadence.ConstantSizedArrayType:
		return x == nil
	case *cadence.FunctionType:
		return x == nil
	}
	return false
}

// typesEqual compares two lists of embedded types with the repo's own notion of type equality and by ID.
func typesEqual(a, b []cadence.Type) string {
	if len(a) != len(b) {
		return fmt.Sprintf("%d embedded types vs %d", len(a), len(b))
	}
	for i := range a {
		na, nb := isNilType(a[i]), isNilType(b[i])
		if na || nb {
			if na != nb {
				return fmt.Sprintf("embedded type #%d: nil vs non-nil", i)
			}
			continue
		}
		var msg string
		p, what := guard(func() {
			if !a[i].Equal(b[i]) || !b[i].Equal(a[i]) {
				if a[i].ID() == b[i].ID() {
					msg = fmt.Sprintf("equal-false-same-id: embedded type #%d: %s is not Equal() to its decoded copy (same type ID)", i, a[i].ID())
				} else {
					msg = fmt.Sprintf("embedded type #%d: %s not Equal to decoded %s", i, a[i].ID(), b[i].ID())
				}
			} else if a[i].ID() != b[i].ID() {
				msg = fmt.Sprintf("embedded type #%d: type ID %s vs %s", i, a[i].ID(), b[i].ID())
			}
		})
		if p {
			return "panic comparing types: " + what
		}
		if msg != "" {
			return msg
		}
	}
	return ""
}

// safeTypeID returns the type ID of the dynamic type of v, or ok=false when the value does not
// carry enough static information to have one (JSON-decoded containers).
func safeTypeID(v cadence.Value) (id string, ok bool) {
	p, _ := guard(func() {
		t := v.Type()
		if isNilType(t) {
			return
		}
		id = t.ID()
		ok = !strings.Contains(id, "<nil>") && id != ""
	})
	if p {
		return "", false
	}
	return
}

// pairIDs walks two values of the same shape and compares type IDs wherever both sides have one.
func pairIDs(a, b cadence.Value, path string) string {
	ia, oka := safeTypeID(a)
	ib, okb := safeTypeID(b)
	if oka && okb && ia != ib {
		return fmt.Sprintf("at %s: type ID %s (JSON-decoded) vs %s (CCF-decoded)", path, ia, ib)
	}
	switch x := a.(type) {
	case cadence.Optional:
		y, ok := b.(cadence.Optional)
		if ok && x.Value != nil && y.Value != nil {
			return pairIDs(x.Value, y.Value, path+"?")
		}
	case cadence.Array:
		y, ok := b.(cadence.Array)
		if ok && len(x.Values) == len(y.Values) {
			for i := range x.Values {
				if m := pairIDs(x.Values[i], y.Values[i], fmt.Sprintf("%s[%d]", path, i)); m != "" {
					return m
				}
			}
		}
	case cadence.Composite:
		y, ok := b.(cadence.Composite)
		if ok {
			fa, fb := getCompositeFieldValues(x), getCompositeFieldValues(y)
			if len(fa) == len(fb) {
				for i := range fa {
					if m := pairIDs(fa[i], fb[i], fmt.Sprintf("%s.%d", path, i)); m != "" {
						return m
					}
				}
			}
		}
	}
	return ""
}

type rtStats struct {
	cases, jsonTrees, jsonRT, ccfRT, cross, typesCompared, detStrict, ccfRefused int64
}

func runRoundtrip(args []string) {
	if len(args) < 2 {
		util.Die("usage: codec roundtrip cases.ndjson results.ndjson")
	}
	var cases []rtCase
	err := util.ReadLines(args[0], func(line []byte) error {
		var c rtCase
		if err := json.Unmarshal(line, &c); err != nil {
			return err
		}
		cases = append(cases, c)
		return nil
	})
	if err != nil {
		util.Die("reading cases: %v", err)
	}
	out := util.NewOut(args[1])
	defer out.Close()
	var st rtStats
	var mu sync.Mutex
	encs := map[string]bool{}
	vkAll, tkAll := map[string]int{}, map[string]int{}
	var corpus []M
	workers := runtime.NumCPU()
	if workers > 8 {
		workers = 8
	}
	util.Parallel(len(cases), workers, func(i int) {
		c := cases[i]
		fails, enc := roundtripOne(c, &st)
		for _, f := range fails {
			out.Write(f)
		}
		vk, tk := map[string]bool{}, map[string]bool{}
		if p, _ := guard(func() { kinds(c.V, vk, tk) }); p {
			vk = map[string]bool{}
		}
		mu.Lock()
		for k := range vk {
			vkAll[k]++
		}
		for k := range tk {
			tkAll[k]++
		}
		for _, e := range enc {
			key := e["codec"].(string) + e["hex"].(string)
			if !encs[key] {
				encs[key] = true
				corpus = append(corpus, e)
			}
		}
		mu.Unlock()
	})
	// the encodings are the seed corpus of the mutation sub-command
	if len(args) > 2 {
		co := util.NewOut(args[2])
		sort.Slice(corpus, func(i, j int) bool {
			a, b := corpus[i], corpus[j]
			if a["id"].(int) != b["id"].(int) {
				return a["id"].(int) < b["id"].(int)
			}
			return a["codec"].(string) < b["codec"].(string)
		})
		for _, e := range corpus {
			co.Write(e)
		}
		co.Close()
	}
	out.Write(M{"summary": true, "cases": st.cases, "json_trees_compared": st.jsonTrees, "json_roundtrips": st.jsonRT,
		"ccf_roundtrips": st.ccfRT, "cross_compared": st.cross, "embedded_types_compared": st.typesCompared,
		"value_kinds": vkAll, "type_kinds": tkAll, "det_strict": st.detStrict, "ccf_refused_attachment": st.ccfRefused, "distinct_encodings": len(corpus)})
}

func roundtripOne(c rtCase, st *rtStats) (fails []failure, encs []M) {
	atomic.AddInt64(&st.cases, 1)
	vk, tk := map[string]bool{}, map[string]bool{}
	funStat := kinds(c.V, vk, tk)
	base := failure{ID: c.ID, VKinds: setStr(vk), TKinds: setStr(tk), FunStat: funStat, Class: hazards(c.V)}
	fail := func(prop, kind, msg string, err error) {
		f := base
		f.Prop, f.Kind, f.Msg, f.Err = prop, kind, msg, errClass(err)
		if strings.HasPrefix(msg, "equal-false-same-id") {
			f.Reason = "equal-false-same-id"
		}
		f.Case = c.V
		fails = append(fails, f)
	}
	defer func() {
		if r := recover(); r != nil {
			h, ok := r.(harnessErr)
			if !ok {
				panic(r)
			}
			f := base
			f.Harness, f.Kind, f.Msg, f.Case = true, "harness", h.msg, c.V
			fails = append(fails, f)
		}
	}()

	val := buildValue(c.V)
	full := projMode{}
	if got, want := canonJSON(projValue(val, full)), canonJSON(normAbs(c.V, full)); got != want {
		hfail("build/project are not inverse on case %d:\n model %s\n built %s", c.ID, want, got)
	}
	var origTypes []cadence.Type
	embeddedTypes(val, false, &origTypes)
	var origPayloadTypes []cadence.Type
	embeddedTypes(val, true, &origPayloadTypes)

	// ------------------------------------------------------------ JSON-Cadence (C41)
	var jb []byte
	var jerr error
	if p, what := guard(func() { jb, jerr = cdcjson.Encode(val) }); p {
		fail("C41", "json-encode-panic", what, nil)
		jerr = fmt.Errorf("panic")
	} else if jerr != nil {
		fail("C41", "json-encode-error", jerr.Error(), jerr)
	}
	var dv cadence.Value
	var jdecErr, cdecErr error
	if jerr == nil {
		encs = append(encs, M{"id": c.ID, "codec": "json", "hex": hex.EncodeToString(jb)})
		if c.JO {
			var tree any
			dec := json.NewDecoder(bytes.NewReader(jb))
			if err := dec.Decode(&tree); err != nil {
				fail("C41", "json-not-json", "encoder output is not JSON: "+err.Error(), nil)
			} else {
				atomic.AddInt64(&st.jsonTrees, 1)
				want := substAtoms(c.JSON)
				if !matchTree(want, tree) {
					fail("C41", "json-tree", fmt.Sprintf("encoded JSON differs from JsonOf(v)\n spec: %s\n impl: %s", canonJSON(want), canonJSON(tree)), nil)
				}
			}
		}
		var derr error
		if p, what := guard(func() { dv, derr = cdcjson.Decode(nil, jb) }); p {
			fail("C41", "json-decode-panic", what, nil)
			dv = nil
		} else if derr != nil {
			fail("C41", "json-decode-error", "decoding the encoder's own output fails: "+derr.Error()+"\n json: "+string(jb), derr)
			dv, jdecErr = nil, derr
		}
		if dv != nil {
			atomic.AddInt64(&st.jsonRT, 1)
			er := projMode{erase: true}
			if got, want := canonJSON(projValue(dv, er)), canonJSON(normAbs(c.Er, er)); got != want {
				fail("C41", "json-erase", fmt.Sprintf("decoded value differs from Erase(v)\n spec: %s\n impl: %s", want, got), nil)
			}
			var decTypes []cadence.Type
			embeddedTypes(dv, true, &decTypes)
			atomic.AddInt64(&st.typesCompared, int64(len(decTypes)))
			if m := typesEqual(origPayloadTypes, decTypes); m != "" {
				fail("C41", "json-type", m, nil)
			}
			var jb2 []byte
			var err2 error
			if p, what := guard(func() { jb2, err2 = cdcjson.Encode(dv) }); p {
				fail("C41", "json-reencode-panic", what, nil)
			} else if err2 != nil {
				fail("C41", "json-reencode", "re-encoding the decoded value fails: "+err2.Error(), err2)
			} else if !bytes.Equal(jb, jb2) {
				fail("C41", "json-reencode", fmt.Sprintf("re-encoding differs\n first:  %s\n second: %s", jb, jb2), nil)
			}
		}
	}

	// ------------------------------------------------------------ CCF (C42 round trip)
	var cb []byte
	var cerr error
	if p, what := guard(func() { cb, cerr = ccf.Encode(val) }); p {
		fail("C42", "ccf-encode-panic", what, nil)
		cerr = fmt.Errorf("panic")
	} else if cerr != nil {
		var unsupported ccf.AttachmentFieldNotSupportedEncodingError
		if errors.As(cerr, &unsupported) {
			atomic.AddInt64(&st.ccfRefused, 1) // documented limitation: not in the domain of CCF
		} else {
			fail("C42", "ccf-encode-error", cerr.Error(), cerr)
		}
	}
	var cv cadence.Value
	if cerr == nil {
		encs = append(encs, M{"id": c.ID, "codec": "ccf", "hex": hex.EncodeToString(cb)})
		var derr error
		if p, what := guard(func() { cv, derr = ccf.Decode(nil, cb) }); p {
			fail("C42", "ccf-decode-panic", what, nil)
			cv = nil
		} else if derr != nil {
			fail("C42", "ccf-decode-error", "decoding the encoder's own output fails: "+derr.Error(), derr)
			cv, cdecErr = nil, derr
		}
		if cv != nil {
			atomic.AddInt64(&st.ccfRT, 1)
			cm := projMode{dictSet: true, collapse: true}
			if got, want := canonJSON(normRec(projValue(cv, cm))), canonJSON(normRec(normAbs(c.CC, cm))); got != want {
				fail("C42", "ccf-roundtrip", fmt.Sprintf("CCF-decoded value differs from CcfView(v)\n spec: %s\n impl: %s", want, got), nil)
			} else {
				// same shape: the repo's own type equality on every static and embedded type
				var decTypes []cadence.Type
				embeddedTypes(cv, false, &decTypes)
				var ot []cadence.Type
				embeddedTypes(buildValue(rec(normAbs(c.V, projMode{collapse: true}))), false, &ot)
				if len(ot) == len(decTypes) && !hasDict(c.V) {
					atomic.AddInt64(&st.typesCompared, int64(len(decTypes)))
					if m := typesEqual(ot, decTypes); m != "" {
						fail("C42", "ccf-type", m, nil)
					}
				}
			}
			ia, oka := safeTypeID(val)
			ib, okb := safeTypeID(cv)
			if oka && okb && ia != ib && !strings.Contains(ia, "?") {
				fail("C42", "ccf-type-id", fmt.Sprintf("type ID %s became %s", ia, ib), nil)
			}
			var cb2 []byte
			var err2 error
			if p, what := guard(func() { cb2, err2 = ccf.Encode(cv) }); p {
				fail("C42", "ccf-reencode-panic", what, nil)
			} else if err2 != nil {
				fail("C42", "ccf-reencode", "re-encoding the decoded value fails: "+err2.Error(), err2)
			} else if !bytes.Equal(cb, cb2) {
				fail("C42", "ccf-reencode", fmt.Sprintf("re-encoding differs\n first:  %x\n second: %x", cb, cb2), nil)
			}
		}
		// deterministic mode: the strict decoder accepts what the deterministic encoder writes
		var db []byte
		var derr2 error
		if p, what := guard(func() { db, derr2 = detEnc.Encode(val) }); p {
			fail("C42", "ccf-det-encode-panic", what, nil)
		} else if derr2 != nil {
			fail("C42", "ccf-det-encode-error", derr2.Error(), derr2)
		} else {
			encs = append(encs, M{"id": c.ID, "codec": "ccf", "hex": hex.EncodeToString(db)})
			var sv cadence.Value
			var serr error
			if p, what := guard(func() { sv, serr = strictDec.Decode(nil, db) }); p {
				fail("C42", "ccf-strict-decode-panic", what, nil)
			} else if serr != nil {
				if cv != nil { // otherwise already reported as ccf-decode-error
					fail("C42", "ccf-strict-rejects-deterministic", "strict decoder rejects deterministic encoding: "+serr.Error(), serr)
				}
			} else {
				atomic.AddInt64(&st.detStrict, 1)
				sm := projMode{dictSet: true, collapse: true, erase: true, nominal: true}
				// deterministic mode may reorder composite fields / set members; compare modulo that order
				if got, want := canonJSON(normRec(sortFields(projValue(sv, sm)))), canonJSON(normRec(sortFields(normAbs(c.X, sm)))); got != want {
					fail("C42", "ccf-det-roundtrip", fmt.Sprintf("deterministic encoding decodes to a different value\n spec: %s\n impl: %s", want, got), nil)
				}
			}
		}
	}

	// ------------------------------------------------------------ cross (C43)
	switch {
	case jerr != nil || cerr != nil:
		// not encodable by one codec: reported above under that codec's property
	case dv == nil && cv == nil:
	case dv == nil:
		fail("C43", "cross-json-undecodable", "CCF decodes but JSON-Cadence does not decode its own encoding", jdecErr)
	case cv == nil:
		fail("C43", "cross-ccf-undecodable", "JSON-Cadence decodes but CCF does not decode its own encoding", cdecErr)
	default:
		atomic.AddInt64(&st.cross, 1)
		xm := projMode{erase: true, dictSet: true, collapse: true, nominal: true}
		a, b, want := canonJSON(normRec(projValue(dv, xm))), canonJSON(normRec(projValue(cv, xm))), canonJSON(normRec(normAbs(c.X, xm)))
		if a != b || a != want {
			fail("C43", "cross-value", fmt.Sprintf("decoded values differ modulo Erase\n spec: %s\n json: %s\n ccf:  %s", want, a, b), nil)
		} else if !hasDict(c.V) {
			if m := pairIDs(dv, cv, "v"); m != "" {
				fail("C43", "cross-type-id", m, nil)
			}
		}
	}
	return
}

func hasDict(x any) bool {
	switch x := x.(type) {
	case []any:
		for _, e := range x {
			if hasDict(e) {
				return true
			}
		}
	case map[string]any:
		if _, ok := x["ps"]; ok && x["k"] == "dict" {
			if ps, _ := x["ps"].([]any); len(ps) > 1 {
				return true
			}
		}
		for _, e := range x {
			if hasDict(e) {
				return true
			}
		}
	}
	return false
}

// canonSorted renders an abstract value with composite fields sorted by name (deterministic CCF
// may reorder fields) — values are paired with their names before sorting.
func canonSorted(x any) string {
	return canonJSON(sortFields(x))
}

func sortFields(x any) any {
	switch x := x.(type) {
	case []any:
		out := make([]any, len(x))
		for i, e := range x {
			out[i] = sortFields(e)
		}
		return out
	case map[string]any:
		vs, isVal := x["vs"].([]any)
		if x["k"] == "comp" && isVal {
			// composite VALUE: pair values with field names (original order), then sort by name
			t := x["t"].(M)
			fs := t["fields"].([]any)
			type fv struct {
				name string
				v    any
			}
			var l []fv
			for i := range vs {
				name := ""
				if i < len(fs) {
					name = fs[i].(M)["id"].(string)
				}
				l = append(l, fv{name, sortFields(vs[i])})
			}
			sort.SliceStable(l, func(i, j int) bool { return l[i].name < l[j].name })
			nv := make([]any, len(l))
			for i, e := range l {
				nv[i] = e.v
			}
			return M{"k": "comp", "t": sortFields(t), "vs": nv}
		}
		out := make(M, len(x))
		for k, e := range x {
			out[k] = sortFields(e)
		}
		switch {
		case x["k"] == "comp":
			// composite TYPE: deterministic CCF sorts its fields by name
			fs := append([]any(nil), out["fields"].([]any)...)
			sort.SliceStable(fs, func(i, j int) bool { return fs[i].(M)["id"].(string) < fs[j].(M)["id"].(string) })
			out["fields"] = fs
		case x["k"] == "inter":
			ts := append([]any(nil), out["types"].([]any)...)
			sort.SliceStable(ts, func(i, j int) bool { return canonJSON(ts[i]) < canonJSON(ts[j]) })
			out["types"] = ts
		case x["k"] == "conj" || x["k"] == "disj":
			es := append([]any(nil), x["ents"].([]any)...)
			sort.SliceStable(es, func(i, j int) bool { return es[i].(string) < es[j].(string) })
			out["ents"] = es
		}
		return out
	}
	return x
}

var _ = os.Stderr
