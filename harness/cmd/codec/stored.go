// stored.go: sub-command "stored" — storage encodings (C44).
//
//	codec stored gen   <rows.ndjson> <corpus-dir>                  (re)creates the golden corpus from THIS tree
//	codec stored check <rows.ndjson> <corpus-dir> <results.ndjson> round trip on this tree + stability against the corpus
//
// rows: {"v": abstract value, "er": Erase(v)} (storable values of the model), {"so": storage-only value},
// {"ty": abstract type}. Three tracks:
//
//	values   every storable value is passed as a transaction argument and saved (inside struct H) into account
//	         storage through the real runtime; the registers written are the encoding; a fresh script copies the
//	         value back out and the exported result is compared with the model's value
//	types    every static type: StaticTypeToBytes / StaticTypeFromBytes
//	direct   storage-only kinds (capability controllers, published values, capability values, deprecated link and
//	         path-capability values) through Storable().Encode / DecodeStorable
//	programs fixed transactions that store resources, issue/publish capabilities (controllers in real account storage)
package main

import (
	"bufio"
	"bytes"
	"compress/gzip"
	"crypto/sha256"
	"encoding/hex"
	"encoding/json"
	"fmt"
	"os"
	"path/filepath"
	"sort"
	"strings"

	"github.com/fxamacker/cbor/v2"
	"github.com/onflow/atree"
	"golang.org/x/text/unicode/norm"

	"github.com/onflow/cadence"
	"github.com/onflow/cadence/common"
	cdcjson "github.com/onflow/cadence/encoding/json"
	"github.com/onflow/cadence/interpreter"
	cdcruntime "github.com/onflow/cadence/runtime"

	"verifharness/host"
	"verifharness/util"
)

const storedContract = `
access(all) contract C {
  access(all) struct S { access(all) let a: Int; access(all) let b: String; init(a: Int, b: String) { self.a = a; self.b = b } }
  access(all) struct SInit { access(all) let x: UFix64; init(from y: Int?, _ z: Bool) { self.x = 1.0 } }
  access(all) struct Node { access(all) let next: Node?; access(all) let id: UInt8; init(next: Node?, id: UInt8) { self.next = next; self.id = id } }
  access(all) struct H { access(all) let x: AnyStruct; init(x: AnyStruct) { self.x = x } }
  access(all) struct Z { access(all) let zz: Int; access(all) let b: Bool; access(all) let aaa: String; access(all) let a: Int8
    init(zz: Int, b: Bool, aaa: String, a: Int8) { self.zz = zz; self.b = b; self.aaa = aaa; self.a = a } }
  access(all) enum E: UInt8 { access(all) case x; access(all) case y }
  access(all) entitlement E1
  access(all) resource R { access(all) let n: Int; init(n: Int) { self.n = n } }
  access(all) resource RH { access(all) var x: @R?; init(x: @R) { self.x <- x } }
  access(all) fun mkR(_ n: Int): @R { return <- create R(n: n) }
  access(all) fun mkRH(_ x: @R): @RH { return <- create RH(x: <- x) }
}`

const saveTx = `import C from 0x1
transaction(v: AnyStruct) { prepare(a: auth(Storage) &Account) { a.storage.save(C.H(x: v), to: /storage/v) } }`

// echoScript hands the imported argument straight back: what the runtime makes of the argument before any storage.
const echoScript = `access(all) fun main(v: AnyStruct): AnyStruct { return v }`

const readScript = `import C from 0x1
access(all) fun main(): AnyStruct { return getAuthAccount<auth(Storage) &Account>(0x1).storage.copy<C.H>(from: /storage/v)!.x }`

type storedProgram struct {
	Name, Tx, Read string
}

// fixed programs for values that cannot be passed as arguments
var storedPrograms = []storedProgram{
	{"resource", `import C from 0x1
transaction { prepare(a: auth(Storage) &Account) { a.storage.save(<- C.mkR(5), to: /storage/r) } }`,
		`import C from 0x1
access(all) fun main(): [AnyStruct] { let r = getAuthAccount<auth(Storage) &Account>(0x1).storage.borrow<&C.R>(from: /storage/r)!; return [r.n, r.uuid, r.getType()] }`},
	{"nested-resource", `import C from 0x1
transaction { prepare(a: auth(Storage) &Account) { a.storage.save(<- C.mkRH(<- C.mkR(6)), to: /storage/r) } }`,
		`import C from 0x1
access(all) fun main(): [AnyStruct] { let r = getAuthAccount<auth(Storage) &Account>(0x1).storage.borrow<&C.RH>(from: /storage/r)!; return [r.x?.n, r.x?.uuid, r.uuid, r.getType()] }`},
	{"resource-collections", `import C from 0x1
transaction { prepare(a: auth(Storage) &Account) { a.storage.save(<- [<- C.mkR(1), <- C.mkR(2)], to: /storage/arr); a.storage.save(<- {"k": <- C.mkR(3)}, to: /storage/dict) } }`,
		`import C from 0x1
access(all) fun main(): [AnyStruct] { let s = getAuthAccount<auth(Storage) &Account>(0x1).storage; let a = s.borrow<&[C.R]>(from: /storage/arr)!; let d = s.borrow<&{String: C.R}>(from: /storage/dict)!; return [a.length, a[0].n, a[1].n, d["k"]?.n, a.getType(), d.getType()] }`},
	{"storage-capability-controller", `import C from 0x1
transaction { prepare(a: auth(Storage, Capabilities) &Account) { a.storage.save(42, to: /storage/i); let c = a.capabilities.storage.issue<auth(C.E1) &Int>(/storage/i); a.storage.save(c, to: /storage/cap); a.capabilities.publish(a.capabilities.storage.issue<&Int>(/storage/i), at: /public/p) } }`,
		`import C from 0x1
access(all) fun main(): [AnyStruct] { let a = getAuthAccount<auth(Storage, Capabilities) &Account>(0x1); let c = a.storage.copy<Capability<auth(C.E1) &Int>>(from: /storage/cap)!; let ctl = a.capabilities.storage.getController(byCapabilityID: c.id)!; let p = a.capabilities.get<&Int>(/public/p); return [c, c.borrow()!, ctl.capabilityID, ctl.borrowType, ctl.target(), p, p.id, a.capabilities.storage.getControllers(forPath: /storage/i).length] }`},
	{"account-capability-controller", `transaction { prepare(a: auth(Storage, Capabilities) &Account) { let c = a.capabilities.account.issue<auth(Storage) &Account>(); a.storage.save(c, to: /storage/acap) } }`,
		`access(all) fun main(): [AnyStruct] { let a = getAuthAccount<auth(Storage, Capabilities) &Account>(0x1); let c = a.storage.copy<Capability<auth(Storage) &Account>>(from: /storage/acap)!; let ctl = a.capabilities.account.getController(byCapabilityID: c.id)!; return [c, ctl.capabilityID, ctl.borrowType, c.check()] }`},
	{"inbox-published", `transaction { prepare(a: auth(Storage, Capabilities, Inbox) &Account) { a.storage.save("s", to: /storage/s); let c = a.capabilities.storage.issue<&String>(/storage/s); a.inbox.publish(c, name: "gift", recipient: 0x2) } }`,
		`access(all) fun main(): [AnyStruct] { return [getAuthAccount<auth(Inbox) &Account>(0x2).inbox.claim<&String>("gift", provider: 0x1)] }`},
}

func sha(x any) string {
	h := sha256.Sum256([]byte(canonJSON(x)))
	return hex.EncodeToString(h[:12])
}

type ledgerSnap struct {
	vals map[string][]byte
	idx  map[string]uint64
}

func snapshot(w *host.World) ledgerSnap {
	s := ledgerSnap{map[string][]byte{}, map[string]uint64{}}
	for k, v := range w.Ledger.StoredValues {
		s.vals[k] = append([]byte(nil), v...)
	}
	for k, v := range w.Ledger.StorageIndices {
		s.idx[k] = v
	}
	return s
}

func restore(w *host.World, s ledgerSnap) {
	for k := range w.Ledger.StoredValues {
		delete(w.Ledger.StoredValues, k)
	}
	for k, v := range s.vals {
		w.Ledger.StoredValues[k] = append([]byte(nil), v...)
	}
	for k := range w.Ledger.StorageIndices {
		delete(w.Ledger.StorageIndices, k)
	}
	for k, v := range s.idx {
		w.Ledger.StorageIndices[k] = v
	}
}

func writesOf(res host.Result) [][3]string {
	last := map[string][3]string{}
	for _, wr := range res.Writes {
		k := hex.EncodeToString([]byte(wr.Owner)) + "|" + hex.EncodeToString([]byte(wr.Key))
		last[k] = [3]string{hex.EncodeToString([]byte(wr.Owner)), hex.EncodeToString([]byte(wr.Key)), hex.EncodeToString(wr.Value)}
	}
	var keys []string
	for k := range last {
		keys = append(keys, k)
	}
	sort.Strings(keys)
	out := make([][3]string, 0, len(keys))
	for _, k := range keys {
		out = append(out, last[k])
	}
	return out
}

func applyWrites(w *host.World, ws [][3]string) {
	for _, t := range ws {
		o, _ := hex.DecodeString(t[0])
		k, _ := hex.DecodeString(t[1])
		v, _ := hex.DecodeString(t[2])
		_ = w.Ledger.SetValue(o, k, v)
		// keep the slab index allocator ahead of the loaded slabs
		if len(k) == 9 && k[0] == '$' {
			var n uint64
			for _, b := range k[1:] {
				n = n<<8 | uint64(b)
			}
			if w.Ledger.StorageIndices[string(o)] < n {
				w.Ledger.StorageIndices[string(o)] = n
			}
		}
	}
}

type goldenEntry struct {
	Key    string      `json:"key"`
	Kind   string      `json:"kind"` // value | type | direct | program
	Abs    any         `json:"abs"`  // abstract value / type from the model (Erase(v) for values)
	Writes [][3]string `json:"writes,omitempty"`
	Hex    string      `json:"hex,omitempty"`
	Shown  string      `json:"shown,omitempty"` // String() / type ID / exported read-back of the pinned tree
}

func readGolden(dir string) map[string]goldenEntry {
	out := map[string]goldenEntry{}
	f, err := os.Open(filepath.Join(dir, "golden.ndjson.gz"))
	if err != nil {
		return out
	}
	defer f.Close()
	gz, err := gzip.NewReader(f)
	if err != nil {
		util.Die("corpus: %v", err)
	}
	sc := bufio.NewScanner(gz)
	sc.Buffer(make([]byte, 1<<24), 1<<26)
	for sc.Scan() {
		var e goldenEntry
		if err := json.Unmarshal(sc.Bytes(), &e); err != nil {
			util.Die("corpus entry: %v", err)
		}
		out[e.Kind+":"+e.Key] = e
	}
	return out
}

func writeGolden(dir string, es []goldenEntry) {
	_ = os.MkdirAll(dir, 0o755)
	f, err := os.Create(filepath.Join(dir, "golden.ndjson.gz"))
	if err != nil {
		util.Die("corpus: %v", err)
	}
	gz, _ := gzip.NewWriterLevel(f, gzip.BestCompression)
	sort.Slice(es, func(i, j int) bool { return es[i].Kind+es[i].Key < es[j].Kind+es[j].Key })
	for _, e := range es {
		b, _ := json.Marshal(e)
		gz.Write(b)
		gz.Write([]byte("\n"))
	}
	gz.Close()
	f.Close()
}

// ---------------------------------------------------------------- direct storable codec

var storedOwner = atree.Address{0, 0, 0, 0, 0, 0, 0, 1}

func encodeStorable(st atree.Storable) ([]byte, error) {
	var buf bytes.Buffer
	enc := atree.NewEncoder(&buf, interpreter.CBOREncMode)
	if err := st.Encode(enc); err != nil {
		return nil, err
	}
	if err := enc.CBOR.Flush(); err != nil {
		return nil, err
	}
	return buf.Bytes(), nil
}

func decodeStorable(b []byte, storage atree.SlabStorage) (atree.Value, atree.Storable, error) {
	dec := interpreter.CBORDecMode.NewByteStreamDecoder(b)
	st, err := interpreter.DecodeStorable(dec, atree.SlabID{}, nil, nil)
	if err != nil {
		return nil, nil, err
	}
	v, err := st.StoredValue(storage)
	return v, st, err
}

func refStatic(t M) *interpreter.ReferenceStaticType {
	st := cdcruntime.ImportType(nil, buildType(t, nil))
	r, ok := st.(*interpreter.ReferenceStaticType)
	if !ok {
		hfail("controller borrow type is not a reference: %v", canonJSON(t))
	}
	return r
}

func pathOf(p M) interpreter.PathValue {
	return interpreter.NewUnmeteredPathValue(common.PathDomainFromIdentifier(str(p, "dom")), str(p, "id"))
}

func addrValue(h string) interpreter.AddressValue {
	b, _ := hex.DecodeString(h)
	return interpreter.NewUnmeteredAddressValueFromBytes(b)
}

func capOf(c M) *interpreter.IDCapabilityValue {
	var bt interpreter.StaticType
	if s := seq(c, "t"); len(s) == 1 {
		bt = cdcruntime.ImportType(nil, buildType(rec(s[0]), nil))
	}
	return interpreter.NewUnmeteredCapabilityValue(
		interpreter.NewUnmeteredUInt64Value(bigOf(str(c, "id")).Uint64()), addrValue(str(c, "addr")), bt)
}

// buildStorageOnly builds the interpreter value of a storage-only abstract value.
func buildStorageOnly(v M) interpreter.Value {
	switch str(v, "k") {
	case "sctl":
		return interpreter.NewUnmeteredStorageCapabilityControllerValue(refStatic(sub(v, "t")),
			interpreter.NewUnmeteredUInt64Value(bigOf(str(v, "id")).Uint64()), pathOf(sub(v, "path")))
	case "actl":
		return interpreter.NewUnmeteredAccountCapabilityControllerValue(refStatic(sub(v, "t")),
			interpreter.NewUnmeteredUInt64Value(bigOf(str(v, "id")).Uint64()))
	case "published":
		return interpreter.NewPublishedValue(nil, addrValue(str(v, "recipient")), capOf(sub(v, "cap")))
	case "capv":
		return capOf(sub(v, "cap"))
	case "pathlink":
		return interpreter.PathLinkValue{Type: cdcruntime.ImportType(nil, buildType(sub(v, "t"), nil)), TargetPath: pathOf(sub(v, "path"))} //nolint:staticcheck
	case "acctlink":
		return interpreter.AccountLinkValue{} //nolint:staticcheck
	case "pathcap":
		var bt interpreter.StaticType
		if s := seq(v, "t"); len(s) == 1 {
			bt = cdcruntime.ImportType(nil, buildType(rec(s[0]), nil))
		}
		return interpreter.NewUnmeteredPathCapabilityValue(bt, addrValue(str(v, "addr")), pathOf(sub(v, "path"))) //nolint:staticcheck
	}
	hfail("unknown storage-only value %v", canonJSON(v))
	return nil
}

// showStored renders a decoded storage-only value in a tree-independent way.
func showStored(v atree.Value) string {
	switch x := v.(type) {
	case *interpreter.StorageCapabilityControllerValue:
		return fmt.Sprintf("StorageCapabilityController(id: %d, borrowType: %s, target: %s)", uint64(x.CapabilityID), x.BorrowType.ID(), x.TargetPath.String())
	case *interpreter.AccountCapabilityControllerValue:
		return fmt.Sprintf("AccountCapabilityController(id: %d, borrowType: %s)", uint64(x.CapabilityID), x.BorrowType.ID())
	case *interpreter.PublishedValue:
		return fmt.Sprintf("Published(recipient: %s, value: %s)", x.Recipient.String(), showStored(x.Value))
	case *interpreter.IDCapabilityValue:
		bt := "nil"
		if x.BorrowType != nil {
			bt = string(x.BorrowType.ID())
		}
		return fmt.Sprintf("Capability(id: %d, address: %s, borrowType: %s)", uint64(x.ID), x.Address().String(), bt)
	case interpreter.PathLinkValue: //nolint:staticcheck
		return fmt.Sprintf("PathLink(type: %s, target: %s)", x.Type.ID(), x.TargetPath.String())
	case interpreter.AccountLinkValue: //nolint:staticcheck
		return "AccountLink()"
	case *interpreter.PathCapabilityValue: //nolint:staticcheck
		bt := "nil"
		if x.BorrowType != nil {
			bt = string(x.BorrowType.ID())
		}
		return fmt.Sprintf("PathCapability(address: %s, path: %s, borrowType: %s)", x.Address().String(), x.Path.String(), bt)
	}
	return fmt.Sprintf("?%T", v)
}

// expectedShown renders what the model's storage-only value must decode to.
func expectedShown(v M) string {
	tid := func(t M) string { return buildType(t, nil).ID() }
	pth := func(p M) string { return "/" + str(p, "dom") + "/" + str(p, "id") }
	capS := func(c M) string {
		bt := "nil"
		if s := seq(c, "t"); len(s) == 1 {
			bt = tid(rec(s[0]))
		}
		return fmt.Sprintf("Capability(id: %s, address: 0x%s, borrowType: %s)", str(c, "id"), str(c, "addr"), bt)
	}
	switch str(v, "k") {
	case "sctl":
		return fmt.Sprintf("StorageCapabilityController(id: %s, borrowType: %s, target: %s)", str(v, "id"), tid(sub(v, "t")), pth(sub(v, "path")))
	case "actl":
		return fmt.Sprintf("AccountCapabilityController(id: %s, borrowType: %s)", str(v, "id"), tid(sub(v, "t")))
	case "published":
		return fmt.Sprintf("Published(recipient: 0x%s, value: %s)", str(v, "recipient"), capS(sub(v, "cap")))
	case "capv":
		return capS(sub(v, "cap"))
	case "pathlink":
		return fmt.Sprintf("PathLink(type: %s, target: %s)", tid(sub(v, "t")), pth(sub(v, "path")))
	case "acctlink":
		return "AccountLink()"
	case "pathcap":
		bt := "nil"
		if s := seq(v, "t"); len(s) == 1 {
			bt = tid(rec(s[0]))
		}
		return fmt.Sprintf("PathCapability(address: 0x%s, path: %s, borrowType: %s)", str(v, "addr"), pth(sub(v, "path")), bt)
	}
	return "?"
}

// ---------------------------------------------------------------- main

type storedFail struct {
	Prop  string `json:"prop"`
	Kind  string `json:"kind"`
	Track string `json:"track"`
	Msg   string `json:"msg"`
	Abs   any    `json:"abs,omitempty"`
	Err   string `json:"err,omitempty"`
}

func runStored(args []string) {
	if len(args) < 3 {
		util.Die("usage: codec stored gen|check rows.ndjson corpus-dir [results.ndjson]")
	}
	mode, dir := args[0], args[2]
	var vals []M
	var sos []M
	var types []M
	err := util.ReadLines(args[1], func(line []byte) error {
		var r M
		if err := json.Unmarshal(line, &r); err != nil {
			return err
		}
		switch {
		case r["so"] != nil:
			sos = append(sos, rec(r["so"]))
		case r["ty"] != nil:
			types = append(types, rec(r["ty"]))
		default:
			vals = append(vals, r)
		}
		return nil
	})
	if err != nil {
		util.Die("reading rows: %v", err)
	}
	golden := map[string]goldenEntry{}
	var out *util.Out
	if mode == "check" {
		if len(args) < 4 {
			util.Die("check needs a results file")
		}
		golden = readGolden(dir)
		out = util.NewOut(args[3])
		defer out.Close()
	}
	var newGolden []goldenEntry
	counts := map[string]int{}
	fail := func(track, kind, msg string, abs any, e error) {
		if out != nil {
			out.Write(storedFail{Prop: "C44", Kind: kind, Track: track, Msg: msg, Abs: abs, Err: errClass(e)})
		} else {
			fmt.Fprintf(os.Stderr, "GEN-PROBLEM %s %s: %s\n", track, kind, msg)
		}
	}
	harness := func(msg string) {
		if out != nil {
			out.Write(M{"kind": "harness", "msg": msg})
		} else {
			util.Die("%s", msg)
		}
	}
	var samples []M

	// ------------------------------------------------------------ track: values through the runtime
	w := host.NewWorld()
	if err := w.Deploy(host.Addr(1), "C", storedContract); err != nil {
		util.Die("deploying the storage contract: %v", err)
	}
	signer := []common.Address{host.Addr(1)}
	snap := snapshot(w)
	pm := projMode{erase: true, dictSet: true, collapse: true, nominal: true}
	for _, r := range vals {
		func() {
			defer func() {
				if p := recover(); p != nil {
					if h, ok := p.(harnessErr); ok {
						harness(h.msg)
						return
					}
					panic(p)
				}
			}()
			v := rec(r["v"])
			er := rec(r["er"])
			key := sha(v)
			arg, err := cdcjson.Encode(buildValue(v))
			if err != nil {
				hfail("cannot encode argument: %v", err)
			}
			counts["values"]++
			var first [][3]string
			for _, useVM := range []bool{false, true} {
				restore(w, snap)
				res := w.Tx(saveTx, signer, useVM, arg)
				if res.Err != nil {
					if strings.HasPrefix(res.Class, "user:") && !useVM {
						counts["values_not_importable"]++
						return
					}
					if m := firstLine(res.Err); !useVM && (strings.Contains(m, "cannot import") || strings.Contains(m, "unsupported location")) {
						// the argument never reaches storage: defects of argument import (C29), not of the storage codec
						counts["values_not_passable_as_argument"]++
						return
					}
					fail("values", "save-failed", fmt.Sprintf("saving failed (%s): %s", res.Class, firstLine(res.Err)), v, res.Err)
					return
				}
				ws := writesOf(res)
				if !useVM {
					first = ws
				} else if canonJSON(first) != canonJSON(ws) {
					fail("values", "engines-differ", "interpreter and VM write different registers", v, nil)
				}
				// read back with a fresh script (fresh interpreter, decodes the registers)
				rd := w.Script(readScript, useVM)
				if rd.Err != nil {
					fail("values", "readback-failed", "reading the stored value failed: "+firstLine(rd.Err), v, rd.Err)
					return
				}
				show := func(x any) any { return nfcAll(nominalOnly(sortFields(x))) }
				got := canonJSON(show(projValue(rd.Value, pm)))
				if ec := w.Script(echoScript, useVM, arg); ec.Err != nil {
					fail("values", "echo-failed", "echo script failed: "+firstLine(ec.Err), v, ec.Err)
				} else if want := canonJSON(show(projValue(ec.Value, pm))); got != want {
					// exact: the value read back from storage is the value the transaction received
					fail("values", "roundtrip", fmt.Sprintf("stored and re-read value differs from the imported value\n imported: %s\n read:     %s", want, got), v, nil)
				}
				if g2, want := canonJSON(unboxAll(show(projValue(rd.Value, pm)))), canonJSON(unboxAll(show(normAbs(er, pm)))); g2 != want {
					fail("values", "roundtrip", fmt.Sprintf("stored and re-read value differs from the model's value\n model: %s\n read:  %s", want, g2), v, nil)
				}
				counts["value_roundtrips"]++
			}
			if mode == "gen" {
				newGolden = append(newGolden, goldenEntry{Key: key, Kind: "value", Abs: er, Writes: first})
				return
			}
			g, ok := golden["value:"+key]
			if !ok {
				counts["values_without_golden"]++
				return
			}
			counts["golden_values"]++
			// (b) the current decoder reads the pinned bytes as the recorded value
			restore(w, snap)
			applyWrites(w, g.Writes)
			rd := w.Script(readScript, false)
			if rd.Err != nil {
				fail("values", "golden-undecodable", "golden registers cannot be read: "+firstLine(rd.Err), v, rd.Err)
				return
			}
			show := func(x any) any { return nfcAll(nominalOnly(sortFields(x))) }
			goldenRead := canonJSON(show(projValue(rd.Value, pm)))
			if got, want := canonJSON(unboxAll(show(projValue(rd.Value, pm)))), canonJSON(unboxAll(show(normAbs(g.Abs, pm)))); got != want {
				fail("values", "golden-decodes-differently", fmt.Sprintf("golden registers decode to another value\n recorded: %s\n read:     %s", want, got), v, nil)
			}
			// (a) the current encoder writes the bytes the pinned tree wrote - unless the VALUE that reaches storage changed
			// (argument import is upstream of the storage codec): then the two register sets decode to different values
			if canonJSON(g.Writes) != canonJSON(first) {
				restore(w, snap)
				applyWrites(w, first)
				cur := w.Script(readScript, false)
				if cur.Err == nil && canonJSON(show(projValue(cur.Value, pm))) != goldenRead {
					counts["golden_value_changed_upstream"]++
				} else {
					fail("values", "encoding-changed", fmt.Sprintf("registers differ from the golden corpus although they hold the same value\n golden: %v\n now:    %v", g.Writes, first), v, nil)
				}
			}
			if len(samples) < 2 && counts["golden_values"]%400 == 7 {
				samples = append(samples, M{"track": "values", "abstract": g.Abs, "registers": g.Writes})
			}
		}()
	}

	// ------------------------------------------------------------ track: static types
	storage := interpreter.NewInMemoryStorage(nil, nil)
	for _, t := range types {
		func() {
			defer func() {
				if p := recover(); p != nil {
					if h, ok := p.(harnessErr); ok {
						harness(h.msg)
						return
					}
					fail("types", "panic", fmt.Sprint(p), t, nil)
				}
			}()
			ct := buildType(t, nil)
			var st interpreter.StaticType
			if p, _ := guard(func() { st = cdcruntime.ImportType(nil, ct) }); p {
				counts["types_not_convertible"]++ // function and attachment types have no cadence.Type -> StaticType conversion
				return
			}
			counts["types"]++
			b, err := interpreter.StaticTypeToBytes(st)
			if err != nil {
				if strings.Contains(err.Error(), "unsupported location") {
					counts["types_not_storable_location"]++ // types of the built-in flow location cannot be named by a program
					counts["types"]--
					return
				}
				fail("types", "encode-error", err.Error(), t, err)
				return
			}
			st2, err := interpreter.StaticTypeFromBytes(b)
			if err != nil {
				fail("types", "decode-error", fmt.Sprintf("%s: %v", st.ID(), err), t, err)
				return
			}
			if !st2.Equal(st) || st2.ID() != st.ID() {
				fail("types", "roundtrip", fmt.Sprintf("static type %s decodes as %s", st.ID(), st2.ID()), t, nil)
			}
			if b2, err := interpreter.StaticTypeToBytes(st2); err != nil || !bytes.Equal(b, b2) {
				fail("types", "reencode", fmt.Sprintf("static type %s re-encodes differently", st.ID()), t, nil)
			}
			key := sha(t)
			if mode == "gen" {
				newGolden = append(newGolden, goldenEntry{Key: key, Kind: "type", Abs: t, Hex: hex.EncodeToString(b), Shown: string(st.ID())})
				return
			}
			g, ok := golden["type:"+key]
			if !ok {
				counts["types_without_golden"]++
				return
			}
			counts["golden_types"]++
			gb, _ := hex.DecodeString(g.Hex)
			if !bytes.Equal(gb, b) {
				fail("types", "encoding-changed", fmt.Sprintf("static type %s: golden %s, now %x", st.ID(), g.Hex, b), t, nil)
			}
			gst, err := interpreter.StaticTypeFromBytes(gb)
			if err != nil {
				fail("types", "golden-undecodable", fmt.Sprintf("static type %s: %v", g.Shown, err), t, err)
				return
			}
			if string(gst.ID()) != g.Shown || !gst.Equal(st) {
				fail("types", "golden-decodes-differently", fmt.Sprintf("golden bytes of %s decode to %s", g.Shown, gst.ID()), t, nil)
			}
		}()
	}

	// ------------------------------------------------------------ track: storage-only values, direct
	for _, v := range sos {
		func() {
			defer func() {
				if p := recover(); p != nil {
					if h, ok := p.(harnessErr); ok {
						harness(h.msg)
						return
					}
					fail("direct", "panic", fmt.Sprint(p), v, nil)
				}
			}()
			iv := buildStorageOnly(v)
			counts["direct"]++
			stb, err := iv.Storable(storage, storedOwner, 1<<30)
			if err != nil {
				fail("direct", "storable-error", err.Error(), v, err)
				return
			}
			b, err := encodeStorable(stb)
			if err != nil {
				fail("direct", "encode-error", err.Error(), v, err)
				return
			}
			dv, dst, err := decodeStorable(b, storage)
			if err != nil {
				fail("direct", "decode-error", err.Error(), v, err)
				return
			}
			want := expectedShown(v)
			if got := showStored(dv); got != want {
				fail("direct", "roundtrip", fmt.Sprintf("decoded %s, expected %s", got, want), v, nil)
			}
			if b2, err := encodeStorable(dst); err != nil || !bytes.Equal(b, b2) {
				fail("direct", "reencode", fmt.Sprintf("re-encoding differs: %x vs %x", b, b2), v, nil)
			}
			key := sha(v)
			if mode == "gen" {
				newGolden = append(newGolden, goldenEntry{Key: key, Kind: "direct", Abs: v, Hex: hex.EncodeToString(b), Shown: want})
				return
			}
			g, ok := golden["direct:"+key]
			if !ok {
				counts["direct_without_golden"]++
				return
			}
			counts["golden_direct"]++
			gb, _ := hex.DecodeString(g.Hex)
			if !bytes.Equal(gb, b) {
				fail("direct", "encoding-changed", fmt.Sprintf("%s: golden %s, now %x", want, g.Hex, b), v, nil)
			}
			gv, gst, err := decodeStorable(gb, storage)
			if err != nil {
				fail("direct", "golden-undecodable", fmt.Sprintf("%s: %v", g.Shown, err), v, err)
				return
			}
			if got := showStored(gv); got != g.Shown {
				fail("direct", "golden-decodes-differently", fmt.Sprintf("golden bytes decode to %s, recorded %s", got, g.Shown), v, nil)
			}
			if b2, err := encodeStorable(gst); err != nil || !bytes.Equal(gb, b2) {
				fail("direct", "golden-reencode", fmt.Sprintf("re-encoding the decoded golden value differs: %x", b2), v, nil)
			}
			if len(samples) < 4 {
				samples = append(samples, M{"track": "direct", "abstract": v, "hex": g.Hex, "decodes_to": g.Shown})
			}
		}()
	}

	// ------------------------------------------------------------ track: fixed programs
	for _, p := range storedPrograms {
		func() {
			pw := host.NewWorld()
			if err := pw.Deploy(host.Addr(1), "C", storedContract); err != nil {
				util.Die("deploy: %v", err)
			}
			res := pw.Tx(p.Tx, signer, false)
			if res.Err != nil {
				harness("fixed program " + p.Name + " failed: " + firstLine(res.Err))
				return
			}
			counts["programs"]++
			ws := writesOf(res)
			rd := pw.Script(p.Read, false)
			if rd.Err != nil {
				harness("read-back of program " + p.Name + " failed: " + firstLine(rd.Err))
				return
			}
			shown := rd.Value.String()
			// VM must write the same registers
			vw := host.NewWorld()
			_ = vw.Deploy(host.Addr(1), "C", storedContract)
			if vres := vw.Tx(p.Tx, signer, true); vres.Err != nil || canonJSON(writesOf(vres)) != canonJSON(ws) {
				fail("programs", "engines-differ", "program "+p.Name+": interpreter and VM write different registers", p.Name, vres.Err)
			}
			if mode == "gen" {
				newGolden = append(newGolden, goldenEntry{Key: p.Name, Kind: "program", Abs: p.Tx, Writes: ws, Shown: shown})
				return
			}
			g, ok := golden["program:"+p.Name]
			if !ok {
				counts["programs_without_golden"]++
				return
			}
			counts["golden_programs"]++
			if canonJSON(g.Writes) != canonJSON(ws) {
				fail("programs", "encoding-changed", fmt.Sprintf("program %s: registers differ from the golden corpus\n golden: %v\n now:    %v", p.Name, g.Writes, ws), p.Name, nil)
			}
			gw := host.NewWorld()
			_ = gw.Deploy(host.Addr(1), "C", storedContract)
			applyWrites(gw, g.Writes)
			grd := gw.Script(p.Read, false)
			if grd.Err != nil {
				fail("programs", "golden-undecodable", fmt.Sprintf("program %s: golden registers cannot be read: %s", p.Name, firstLine(grd.Err)), p.Name, grd.Err)
				return
			}
			if grd.Value.String() != g.Shown {
				fail("programs", "golden-decodes-differently", fmt.Sprintf("program %s: golden registers read as %s, recorded %s", p.Name, grd.Value, g.Shown), p.Name, nil)
			}
			if len(samples) < 6 {
				samples = append(samples, M{"track": "program", "name": p.Name, "registers": len(g.Writes), "reads_as": g.Shown})
			}
		}()
	}

	if mode == "gen" {
		writeGolden(dir, newGolden)
		fmt.Printf("wrote %d golden entries to %s\n", len(newGolden), dir)
		return
	}
	out.Write(M{"summary": true, "counts": counts, "golden_entries": len(golden), "samples": samples})
}

// unboxAll drops the optional layer of every non-nil optional: argument import may box a value into an
// optional (an element of an array whose inferred type is optional), which is not the storage codec's business.
func unboxAll(x any) any {
	switch x := x.(type) {
	case []any:
		out := make([]any, len(x))
		for i, e := range x {
			out[i] = unboxAll(e)
		}
		return out
	case map[string]any:
		if vs, ok := x["v"].([]any); ok && x["k"] == "opt" && len(vs) == 1 {
			return unboxAll(vs[0])
		}
		out := make(M, len(x))
		for k, e := range x {
			out[k] = unboxAll(e)
		}
		return out
	}
	return x
}

// nfcAll normalises the text of string and character values: Cadence strings are kept in NFC.
func nfcAll(x any) any {
	switch x := x.(type) {
	case []any:
		out := make([]any, len(x))
		for i, e := range x {
			out[i] = nfcAll(e)
		}
		return out
	case map[string]any:
		out := make(M, len(x))
		for k, e := range x {
			out[k] = nfcAll(e)
		}
		if x["k"] == "str" || x["k"] == "chr" {
			if t, ok := x["s"].(string); ok {
				out["s"] = norm.NFC.String(t)
			}
		}
		return out
	}
	return x
}

// nominalOnly reduces every nominal type inside an abstract value to (kind, type ID): storage keeps
// static types by name; the members shown by an export come from the deployed program, not from storage.
func nominalOnly(x any) any {
	switch x := x.(type) {
	case []any:
		out := make([]any, len(x))
		for i, e := range x {
			out[i] = nominalOnly(e)
		}
		return out
	case map[string]any:
		if _, isVal := x["vs"]; x["k"] == "comp" && !isVal {
			return M{"k": "comp", "ck": x["ck"], "tid": x["tid"]}
		}
		if x["k"] == "rec" {
			return M{"k": "comp", "tid": x["tid"]}
		}
		out := make(M, len(x))
		for k, e := range x {
			out[k] = nominalOnly(e)
		}
		if x["k"] == "comp" {
			// a composite VALUE: keep the field names of its type (they pair the values)
			t := x["t"].(M)
			out["t"] = M{"k": "comp", "ck": t["ck"], "tid": t["tid"], "fields": t["fields"]}
		}
		return out
	}
	return x
}

var _ = cbor.RawMessage{}
var _ cadence.Value
