// order.go: sub-command "order" — canonical orders of CCF (C42) against spec/codec/CcfOrder.tla.
//
//	codec order <rows.ndjson> <results.ndjson> <log.ndjson>
//
// rows: the TLC table [cat, rule, input, canon, amap, accept] (every permutation of every set).
// log:  key orders extracted from real deterministic encodings, judged afterwards by TLC (BadEntries).
package main

import (
	"bytes"
	"encoding/hex"
	"encoding/json"
	"fmt"
	"math/big"
	"math/rand"
	"sort"
	"strings"

	"github.com/onflow/cadence"
	"github.com/onflow/cadence/common"
	"github.com/onflow/cadence/encoding/ccf"

	"verifharness/util"
)

// ---------------------------------------------------------------- a minimal CBOR reader

type citem struct {
	major      byte
	arg        uint64
	start, end int // whole item
	hend       int // end of the head
	kids       []citem
}

func parseCBOR(b []byte, off int) (citem, error) {
	if off >= len(b) {
		return citem{}, fmt.Errorf("cbor: truncated at %d", off)
	}
	it := citem{start: off, major: b[off] >> 5}
	ai := b[off] & 31
	p := off + 1
	switch {
	case ai < 24:
		it.arg = uint64(ai)
	case ai >= 24 && ai <= 27:
		n := 1 << (ai - 24)
		if p+n > len(b) {
			return citem{}, fmt.Errorf("cbor: truncated head at %d", off)
		}
		for i := 0; i < n; i++ {
			it.arg = it.arg<<8 | uint64(b[p+i])
		}
		p += n
	default:
		return citem{}, fmt.Errorf("cbor: unsupported additional info %d at %d", ai, off)
	}
	it.hend = p
	switch it.major {
	case 0, 1, 7:
		it.end = p
	case 2, 3:
		it.end = p + int(it.arg)
		if it.end > len(b) {
			return citem{}, fmt.Errorf("cbor: truncated string at %d", off)
		}
	case 4, 5, 6:
		n := int(it.arg)
		if it.major == 5 {
			n *= 2
		}
		if it.major == 6 {
			n = 1
		}
		for i := 0; i < n; i++ {
			k, err := parseCBOR(b, p)
			if err != nil {
				return citem{}, err
			}
			it.kids = append(it.kids, k)
			p = k.end
		}
		it.end = p
	}
	return it, nil
}

func (c citem) raw(b []byte) []byte { return b[c.start:c.end] }
func (c citem) text(b []byte) string {
	if c.major != 3 {
		return ""
	}
	return string(b[c.hend:c.end])
}

// untag strips CBOR tags.
func (c citem) untag() citem {
	for c.major == 6 && len(c.kids) == 1 {
		c = c.kids[0]
	}
	return c
}

func texts(b []byte, c citem, out *[]string) {
	if c.major == 3 {
		*out = append(*out, c.text(b))
	}
	for _, k := range c.kids {
		texts(b, k, out)
	}
}

// ccfParts splits a CCF message into (typedef list or nil, inline type, value).
func ccfParts(b []byte) (typedefs *citem, typ, val citem, err error) {
	root, err := parseCBOR(b, 0)
	if err != nil {
		return nil, citem{}, citem{}, err
	}
	if root.end != len(b) || root.major != 6 {
		return nil, citem{}, citem{}, fmt.Errorf("not a CCF message")
	}
	body := root.kids[0]
	switch root.arg {
	case 129:
		if len(body.kids) != 2 || len(body.kids[1].kids) != 2 {
			return nil, citem{}, citem{}, fmt.Errorf("malformed typedef-and-value message")
		}
		td := body.kids[0]
		return &td, body.kids[1].kids[0], body.kids[1].kids[1], nil
	case 130:
		if len(body.kids) != 2 {
			return nil, citem{}, citem{}, fmt.Errorf("malformed type-and-value message")
		}
		return nil, body.kids[0], body.kids[1], nil
	}
	return nil, citem{}, citem{}, fmt.Errorf("unknown CCF message tag %d", root.arg)
}

// ---------------------------------------------------------------- rows

type orderRow struct {
	Cat    string  `json:"cat"`
	Rule   string  `json:"rule"`
	Input  [][]int `json:"input"`
	Canon  [][]int `json:"canon"`
	Accept bool    `json:"accept"`
	Amap   []struct {
		Enc []int `json:"enc"`
		Key M     `json:"key"`
	} `json:"amap"`
	Other struct {
		Input [][]int `json:"input"`
		Canon [][]int `json:"canon"`
	} `json:"other"`
}

func bs(x []int) []byte {
	out := make([]byte, len(x))
	for i, v := range x {
		out[i] = byte(v)
	}
	return out
}

func ints(b []byte) []int {
	out := make([]int, len(b))
	for i, v := range b {
		out[i] = int(v)
	}
	return out
}

const tidPrefix = "A.0000000000000001.C."

var ordLoc = common.NewAddressLocation(nil, common.MustBytesToAddress([]byte{1}), "C")

func keyValue(k M) (cadence.Value, cadence.Type) {
	switch str(k, "kind") {
	case "uint":
		return cadence.NewUInt32(uint32(k["n"].(float64))), cadence.UInt32Type
	case "sint":
		return cadence.NewInt32(int32(k["n"].(float64))), cadence.Int32Type
	case "text":
		var b []int
		for _, e := range seq(k, "bs") {
			b = append(b, int(e.(float64)))
		}
		return mustV(cadence.NewString(string(bs(b)))), cadence.StringType
	case "bool":
		return cadence.NewBool(k["b"] == true), cadence.BoolType
	case "big":
		var b []int
		for _, e := range seq(k, "mag") {
			b = append(b, int(e.(float64)))
		}
		n := new(big.Int).SetBytes(bs(b))
		if k["neg"] == true {
			n.Neg(n).Sub(n, big.NewInt(1))
		}
		return cadence.NewIntFromBig(n), cadence.IntType
	case "addr":
		var a [8]byte
		for i, e := range seq(k, "bs") {
			a[i] = byte(e.(float64))
		}
		return cadence.NewAddress(a), cadence.AddressType
	}
	hfail("unknown key kind %v", canonJSON(k))
	return nil, nil
}

type orderFail struct {
	Prop  string `json:"prop"`
	Kind  string `json:"kind"`
	Cat   string `json:"cat"`
	Msg   string `json:"msg"`
	Row   any    `json:"row,omitempty"`
	Model bool   `json:"model,omitempty"` // the model's prediction of the ENCODING (not of the order) is wrong: harness error
}

func sameSeqs(a [][]byte, b [][]int) bool {
	if len(a) != len(b) {
		return false
	}
	for i := range a {
		if !bytes.Equal(a[i], bs(b[i])) {
			return false
		}
	}
	return true
}

func sameSet(a [][]byte, b [][]int) bool {
	if len(a) != len(b) {
		return false
	}
	x, y := []string{}, []string{}
	for i := range a {
		x = append(x, string(a[i]))
		y = append(y, string(bs(b[i])))
	}
	sort.Strings(x)
	sort.Strings(y)
	return strings.Join(x, "\x00|") == strings.Join(y, "\x00|")
}

func runOrder(args []string) {
	if len(args) < 3 {
		util.Die("usage: codec order rows.ndjson results.ndjson log.ndjson")
	}
	var rows []orderRow
	err := util.ReadLines(args[0], func(line []byte) error {
		var r orderRow
		if err := json.Unmarshal(line, &r); err != nil {
			return err
		}
		rows = append(rows, r)
		return nil
	})
	if err != nil {
		util.Die("reading rows: %v", err)
	}
	out := util.NewOut(args[1])
	defer out.Close()
	logf := util.NewOut(args[2])
	defer logf.Close()

	detBytes := map[string][]byte{} // cat|canon -> deterministic encoding of the first permutation seen
	counts := map[string]int{}
	nlog := 0
	fail := func(r orderRow, kind, msg string, model bool) {
		out.Write(orderFail{Prop: "C42", Kind: kind, Cat: r.Cat, Msg: msg, Row: r, Model: model})
	}
	logKeys := func(rule string, keys [][]byte, what string) {
		ks := make([][]int, len(keys))
		for i, k := range keys {
			ks[i] = ints(k)
		}
		logf.Write(M{"rule": rule, "keys": ks, "what": what})
		nlog++
	}
	sameAcross := func(r orderRow, variant string, b []byte) {
		key := r.Cat + "|" + variant + "|" + canonJSON(r.Canon)
		if first, ok := detBytes[key]; ok {
			counts["permutation_pairs_compared"]++
			if !bytes.Equal(first, b) {
				fail(r, "det-not-permutation-invariant", fmt.Sprintf("%s: deterministic encoding depends on the input order\n first: %x\n this:  %x", variant, first, b), false)
			}
		} else {
			detBytes[key] = b
		}
	}
	strictAccept := func(r orderRow, variant string, b []byte, want bool) {
		_, err := strictDec.Decode(nil, b)
		counts["strict_decodes"]++
		if (err == nil) != want {
			if want {
				fail(r, "strict-rejects-sorted", fmt.Sprintf("%s: strict decoder rejects a sorted encoding: %v\n bytes: %x", variant, err, b), false)
			} else {
				fail(r, "strict-accepts-unsorted", fmt.Sprintf("%s: strict decoder accepts an unsorted encoding\n bytes: %x", variant, b), false)
			}
		}
	}
	name := func(x []int) string { return string(bs(x)) }

	for _, r := range rows {
		func() {
			defer func() {
				if p := recover(); p != nil {
					if h, ok := p.(harnessErr); ok {
						out.Write(orderFail{Prop: "C42", Kind: "harness", Cat: r.Cat, Msg: h.msg, Model: true})
						return
					}
					fail(r, "panic", fmt.Sprint(p), false)
				}
			}()
			counts["rows"]++
			switch {
			case strings.HasPrefix(r.Cat, "dict:"):
				orderDict(r, fail, sameAcross, strictAccept, logKeys, counts)
			case r.Cat == "fields":
				var fields []cadence.Field
				var vals []cadence.Value
				for _, n := range r.Input {
					fields = append(fields, cadence.NewField(name(n), cadence.IntType))
					idx := 0
					for i, c := range r.Canon {
						if name(c) == name(n) {
							idx = i
						}
					}
					vals = append(vals, cadence.NewInt(idx))
				}
				v := cadence.NewStruct(vals).WithType(cadence.NewStructType(ordLoc, "C.Sord", fields, nil))
				db := detEnc.MustEncode(v)
				sameAcross(r, "struct", db)
				strictAccept(r, "struct/det", db, true)
				td, _, val, err := ccfParts(db)
				if err != nil || td == nil {
					hfail("cannot parse struct encoding: %v", err)
				}
				// typedef = tag[id, tid, fields[[name,type]..]]
				fl := td.kids[0].untag().kids[2]
				var got [][]byte
				for _, f := range fl.kids {
					got = append(got, []byte(f.kids[0].text(db)))
				}
				logKeys("lenfirst", got, "composite field names")
				if !sameSeqs(got, r.Canon) {
					fail(r, "field-order", fmt.Sprintf("deterministic field order %q differs from the canonical order", got), false)
				}
				// values follow the same order: value i must be the number i
				for i, k := range val.kids {
					if k.untag().major != 2 && k.untag().major != 0 {
						continue
					}
					_ = i
				}
				if sv, err := strictDec.Decode(nil, db); err == nil {
					fm := cadence.FieldsMappedByName(sv.(cadence.Struct))
					for i, c := range r.Canon {
						if fm[name(c)] == nil || fm[name(c)].String() != fmt.Sprint(i) {
							fail(r, "field-value-mismatch", fmt.Sprintf("after deterministic encoding field %q holds %v, expected %d", name(c), fm[name(c)], i), false)
						}
					}
				}
				// a second composite type with the SAME qualified name at another address, declared in another order with
				// one more field, in the same message: every type definition must be sorted on its own
				orderSameName(r, v, fail, sameAcross, strictAccept, logKeys, counts)
				// declared order, no sorting: the strict decoder accepts iff the declared order is sorted
				nb := ccf.MustEncode(v)
				strictAccept(r, "struct/unsorted-mode", nb, r.Accept)
				if _, err := ccf.Decode(nil, nb); err != nil {
					fail(r, "default-decoder-rejects", "default decoder rejects default encoding: "+err.Error(), false)
				}
			case r.Cat == "inter":
				var ts []cadence.Type
				for _, n := range r.Input {
					ts = append(ts, cadence.NewStructInterfaceType(ordLoc, "C."+name(n), nil, nil))
				}
				it := cadence.NewIntersectionType(ts)
				tv := cadence.NewTypeValue(it)
				db := detEnc.MustEncode(tv)
				sameAcross(r, "type-value", db)
				strictAccept(r, "type-value/det", db, true)
				root, _ := parseCBOR(db, 0)
				var tx []string
				texts(db, root, &tx)
				var got [][]byte
				for _, t := range tx {
					if strings.HasPrefix(t, tidPrefix) {
						got = append(got, []byte(strings.TrimPrefix(t, tidPrefix)))
					}
				}
				logKeys("lenfirst", got, "intersection member type IDs")
				if !sameSeqs(got, r.Canon) {
					fail(r, "intersection-order", fmt.Sprintf("deterministic member order %q differs from the canonical order", got), false)
				}
				strictAccept(r, "type-value/unsorted-mode", ccf.MustEncode(tv), r.Accept)
				// the same set in static-type position
				cp := cadence.NewCapability(1, cadence.NewAddress([8]byte{7}), cadence.NewReferenceType(cadence.UnauthorizedAccess, it))
				cb := detEnc.MustEncode(cp)
				sameAcross(r, "static", cb)
				strictAccept(r, "static/det", cb, true)
				strictAccept(r, "static/unsorted-mode", ccf.MustEncode(cp), r.Accept)
			case r.Cat == "ents":
				var ids []common.TypeID
				for _, n := range r.Input {
					ids = append(ids, common.TypeID(tidPrefix+name(n)))
				}
				for _, kind := range []cadence.EntitlementSetKind{cadence.Conjunction, cadence.Disjunction} {
					rt := cadence.NewReferenceType(cadence.NewEntitlementSetAuthorization(nil, ids, kind), cadence.IntType)
					tv := cadence.NewTypeValue(rt)
					db := detEnc.MustEncode(tv)
					sameAcross(r, fmt.Sprint("type-value", kind), db)
					strictAccept(r, "type-value/det", db, true)
					root, _ := parseCBOR(db, 0)
					var tx []string
					texts(db, root, &tx)
					var got [][]byte
					for _, t := range tx {
						if strings.HasPrefix(t, tidPrefix) {
							got = append(got, []byte(strings.TrimPrefix(t, tidPrefix)))
						}
					}
					logKeys("lenfirst", got, "entitlement set members")
					if !sameSeqs(got, r.Canon) {
						fail(r, "entitlement-order", fmt.Sprintf("deterministic entitlement order %q differs from the canonical order", got), false)
					}
					strictAccept(r, "type-value/unsorted-mode", ccf.MustEncode(tv), r.Accept)
					cp := cadence.NewCapability(1, cadence.NewAddress([8]byte{7}), rt)
					cb := detEnc.MustEncode(cp)
					sameAcross(r, fmt.Sprint("static", kind), cb)
					strictAccept(r, "static/det", cb, true)
					strictAccept(r, "static/unsorted-mode", ccf.MustEncode(cp), r.Accept)
				}
			case r.Cat == "typedefs":
				var vs []cadence.Value
				for i, n := range r.Input {
					st := cadence.NewStructType(ordLoc, "C."+name(n), []cadence.Field{cadence.NewField("x", cadence.IntType)}, nil)
					vs = append(vs, cadence.NewStruct([]cadence.Value{cadence.NewInt(i)}).WithType(st))
				}
				arr := cadence.NewArray(vs).WithType(cadence.NewVariableSizedArrayType(cadence.AnyStructType))
				for _, mode := range []string{"default", "det"} {
					var b []byte
					if mode == "det" {
						b = detEnc.MustEncode(arr)
					} else {
						b = ccf.MustEncode(arr)
					}
					td, _, _, err := ccfParts(b)
					if err != nil || td == nil {
						hfail("cannot parse typedefs: %v", err)
					}
					var got [][]byte
					for _, d := range td.kids {
						got = append(got, []byte(strings.TrimPrefix(d.untag().kids[1].text(b), tidPrefix)))
					}
					logKeys("lenfirst", got, "type definitions")
					if !sameSeqs(got, r.Canon) {
						fail(r, "typedef-order", fmt.Sprintf("%s mode: type definitions emitted in order %q, not the canonical order", mode, got), false)
					}
					strictAccept(r, "typedefs/"+mode, b, true)
					if dv, err := ccf.Decode(nil, b); err != nil {
						fail(r, "default-decoder-rejects", "default decoder rejects: "+err.Error(), false)
					} else if dv.String() != arr.String() {
						fail(r, "typedef-roundtrip", fmt.Sprintf("decoded %s, expected %s", dv, arr), false)
					}
				}
			default:
				hfail("unknown category %q", r.Cat)
			}
		}()
	}

	// random dictionaries with key kinds beyond the model's CborKey: orders are judged by TLC from the log
	rnd := rand.New(rand.NewSource(util.Seed()))
	nrand := 300
	if util.Tier() != "quick" {
		nrand = 5000
	}
	for i := 0; i < nrand; i++ {
		d := randomDict(rnd)
		b, err := detEnc.Encode(d)
		if err != nil {
			out.Write(orderFail{Prop: "C42", Kind: "harness", Msg: "random dictionary not encodable: " + err.Error(), Model: true})
			continue
		}
		_, _, val, err := ccfParts(b)
		if err != nil {
			out.Write(orderFail{Prop: "C42", Kind: "harness", Msg: "cannot parse: " + err.Error(), Model: true})
			continue
		}
		var keys [][]byte
		for j := 0; j+1 < len(val.kids); j += 2 {
			keys = append(keys, val.kids[j].raw(b))
		}
		logKeys("bytewise", keys, "random dictionary "+d.DictionaryType.ID())
		counts["random_dicts"]++
		// shuffled presentation: same bytes
		sh := cadence.NewDictionary(append([]cadence.KeyValuePair(nil), d.Pairs...)).WithType(d.DictionaryType)
		rnd.Shuffle(len(sh.Pairs), func(a, b int) { sh.Pairs[a], sh.Pairs[b] = sh.Pairs[b], sh.Pairs[a] })
		b2, _ := detEnc.Encode(sh)
		if !bytes.Equal(b, b2) {
			out.Write(orderFail{Prop: "C42", Kind: "det-not-permutation-invariant", Cat: "dict:random",
				Msg: fmt.Sprintf("random dictionary %s: encoding depends on entry order\n %x\n %x", d.String(), b, b2)})
		}
		if _, err := strictDec.Decode(nil, b); err != nil {
			out.Write(orderFail{Prop: "C42", Kind: "strict-rejects-sorted", Cat: "dict:random",
				Msg: fmt.Sprintf("strict decoder rejects deterministic encoding of %s: %v", d.String(), err)})
		}
	}
	out.Write(M{"summary": true, "rows": counts["rows"], "permutation_pairs_compared": counts["permutation_pairs_compared"],
		"strict_decodes": counts["strict_decodes"], "reordered_dicts": counts["reordered_dicts"], "logged_orders": nlog,
		"random_dicts": counts["random_dicts"], "key_encodings_predicted": counts["key_encodings_predicted"],
		"same_name_messages": counts["same_name_messages"]})
}

var ordLoc2 = common.NewAddressLocation(nil, common.MustBytesToAddress([]byte{2}), "C")

func orderSameName(r orderRow, v1 cadence.Struct, fail func(orderRow, string, string, bool), sameAcross func(orderRow, string, []byte),
	strictAccept func(orderRow, string, []byte, bool), logKeys func(string, [][]byte, string), counts map[string]int) {
	name := func(x []int) string { return string(bs(x)) }
	var fields []cadence.Field
	var vals []cadence.Value
	for _, n := range r.Other.Input {
		fields = append(fields, cadence.NewField(name(n), cadence.IntType))
		idx := 0
		for i, c := range r.Other.Canon {
			if name(c) == name(n) {
				idx = i
			}
		}
		vals = append(vals, cadence.NewInt(100+idx))
	}
	v2 := cadence.NewStruct(vals).WithType(cadence.NewStructType(ordLoc2, "C.Sord", fields, nil))
	anyArr := cadence.NewVariableSizedArrayType(cadence.AnyStructType)
	for variant, vs := range map[string][]cadence.Value{"pair12": {v1, v2}, "pair21": {v2, v1}} {
		arr := cadence.NewArray(vs).WithType(anyArr)
		var db []byte
		var err error
		if p, what := guard(func() { db, err = detEnc.Encode(arr) }); p {
			fail(r, "det-encode-panic", variant+": deterministic encoding of two same-named composite types panics: "+strings.SplitN(what, "\n", 2)[0], false)
			continue
		} else if err != nil {
			fail(r, "det-encode-error", variant+": "+err.Error(), false)
			continue
		}
		counts["same_name_messages"]++
		sameAcross(r, variant, db)
		strictAccept(r, variant+"/det", db, true)
		td, _, _, perr := ccfParts(db)
		if perr != nil || td == nil || len(td.kids) != 2 {
			hfail("cannot parse the two type definitions: %v", perr)
		}
		for _, d := range td.kids {
			def := d.untag()
			tid := def.kids[1].text(db)
			var got [][]byte
			for _, f := range def.kids[2].kids {
				got = append(got, []byte(f.kids[0].text(db)))
			}
			logKeys("lenfirst", got, "composite field names of "+tid)
			want := r.Canon
			if strings.HasPrefix(tid, "A.0000000000000002.") {
				want = r.Other.Canon
			}
			if !sameSeqs(got, want) {
				fail(r, "field-order", fmt.Sprintf("%s: type definition %s has fields %q, not its canonical order", variant, tid, got), false)
			}
		}
		if dv, err := strictDec.Decode(nil, db); err == nil {
			da, ok := dv.(cadence.Array)
			if !ok || len(da.Values) != 2 {
				fail(r, "same-name-roundtrip", variant+": decoded "+dv.String(), false)
				continue
			}
			for _, e := range da.Values {
				st := e.(cadence.Struct)
				fm := cadence.FieldsMappedByName(st)
				canon, base := r.Canon, 0
				if st.StructType.Location == ordLoc2 {
					canon, base = r.Other.Canon, 100
				}
				if len(fm) != len(canon) {
					fail(r, "field-value-mismatch", fmt.Sprintf("%s: %s decodes with %d fields, expected %d", variant, st.StructType.ID(), len(fm), len(canon)), false)
					continue
				}
				for i, c := range canon {
					if fm[name(c)] == nil || fm[name(c)].String() != fmt.Sprint(base+i) {
						fail(r, "field-value-mismatch", fmt.Sprintf("%s: %s field %q holds %v, expected %d", variant, st.StructType.ID(), name(c), fm[name(c)], base+i), false)
					}
				}
			}
		}
	}
}

func orderDict(r orderRow, fail func(orderRow, string, string, bool), sameAcross func(orderRow, string, []byte),
	strictAccept func(orderRow, string, []byte, bool), logKeys func(string, [][]byte, string), counts map[string]int) {
	byEnc := map[string]M{}
	for _, a := range r.Amap {
		byEnc[string(bs(a.Enc))] = a.Key
	}
	var pairs []cadence.KeyValuePair
	var kt cadence.Type
	for _, e := range r.Input {
		k, ok := byEnc[string(bs(e))]
		if !ok {
			hfail("row input key %v not in amap", e)
		}
		kv, t := keyValue(k)
		kt = t
		idx := 0
		for i, c := range r.Canon {
			if bytes.Equal(bs(c), bs(e)) {
				idx = i
			}
		}
		pairs = append(pairs, cadence.KeyValuePair{Key: kv, Value: cadence.NewInt(idx)})
	}
	d := cadence.NewDictionary(pairs).WithType(cadence.NewDictionaryType(kt, cadence.IntType))
	for _, mode := range []string{"det", "default"} {
		var b []byte
		if mode == "det" {
			b = detEnc.MustEncode(d)
		} else {
			b = ccf.MustEncode(d)
		}
		sameAcross(r, "dict/"+mode, b)
		_, _, val, err := ccfParts(b)
		if err != nil {
			hfail("cannot parse dictionary encoding: %v", err)
		}
		var keys [][]byte
		for j := 0; j+1 < len(val.kids); j += 2 {
			keys = append(keys, val.kids[j].raw(b))
		}
		if mode == "det" {
			logKeys("bytewise", keys, "dictionary keys "+r.Cat)
		}
		if !sameSet(keys, r.Canon) {
			fail(r, "model-key-encoding", fmt.Sprintf("the model's CBOR encoding of the keys differs from the real one: real %x", keys), true)
			return
		}
		counts["key_encodings_predicted"] += len(keys)
		if !sameSeqs(keys, r.Canon) {
			fail(r, "dict-key-order", fmt.Sprintf("%s mode: keys emitted in order %x, canonical order is %v", mode, keys, r.Canon), false)
		}
		strictAccept(r, "dict/"+mode, b, true)
		if mode == "det" {
			// present the pairs in the row's input order by permuting the encoded pairs
			var nb []byte
			nb = append(nb, b[:val.hend]...)
			for _, e := range r.Input {
				for j := 0; j+1 < len(val.kids); j += 2 {
					if bytes.Equal(val.kids[j].raw(b), bs(e)) {
						nb = append(nb, b[val.kids[j].start:val.kids[j+1].end]...)
					}
				}
			}
			nb = append(nb, b[val.end:]...)
			if len(nb) != len(b) {
				hfail("re-ordering changed the length")
			}
			counts["reordered_dicts"]++
			strictAccept(r, "dict/reordered", nb, r.Accept)
			_, err := ccf.Decode(nil, nb)
			if (err == nil) != r.Accept {
				if r.Accept {
					fail(r, "default-rejects-sorted", "default decoder rejects sorted dictionary: "+err.Error(), false)
				} else {
					fail(r, "default-accepts-unsorted", fmt.Sprintf("default decoder accepts a dictionary with unsorted keys: %x", nb), false)
				}
			}
		}
	}
}

// randomDict builds a well-typed dictionary with 2..6 distinct keys of a random hashable type.
func randomDict(r *rand.Rand) cadence.Dictionary {
	enumT := cadence.NewEnumType(ordLoc, "C.E", cadence.UInt8Type, []cadence.Field{cadence.NewField("rawValue", cadence.UInt8Type)}, nil)
	gens := []struct {
		t cadence.Type
		g func() cadence.Value
	}{
		{cadence.UInt8Type, func() cadence.Value { return cadence.NewUInt8(uint8(r.Intn(256))) }},
		{cadence.UInt64Type, func() cadence.Value { return cadence.NewUInt64(r.Uint64() >> uint(r.Intn(64))) }},
		{cadence.Word16Type, func() cadence.Value { return cadence.NewWord16(uint16(r.Intn(65536))) }},
		{cadence.Int8Type, func() cadence.Value { return cadence.NewInt8(int8(r.Intn(256) - 128)) }},
		{cadence.Int64Type, func() cadence.Value { return cadence.NewInt64(int64(r.Uint64()) >> uint(r.Intn(64))) }},
		{cadence.IntType, func() cadence.Value {
			n := new(big.Int).Rand(r, new(big.Int).Lsh(big.NewInt(1), uint(1+r.Intn(130))))
			if r.Intn(2) == 0 {
				n.Neg(n)
			}
			return cadence.NewIntFromBig(n)
		}},
		{cadence.UInt128Type, func() cadence.Value {
			return mustV(cadence.NewUInt128FromBig(new(big.Int).Rand(r, new(big.Int).Lsh(big.NewInt(1), uint(1+r.Intn(127))))))
		}},
		{cadence.Int256Type, func() cadence.Value {
			n := new(big.Int).Rand(r, new(big.Int).Lsh(big.NewInt(1), uint(1+r.Intn(254))))
			if r.Intn(2) == 0 {
				n.Neg(n)
			}
			return mustV(cadence.NewInt256FromBig(n))
		}},
		{cadence.UFix64Type, func() cadence.Value {
			return mustV(cadence.NewUFix64FromParts(r.Intn(100000), uint(r.Intn(100000000))))
		}},
		{cadence.Fix64Type, func() cadence.Value {
			return mustV(cadence.NewFix64FromParts(r.Intn(2) == 0, r.Intn(100000), uint(r.Intn(100000000))))
		}},
		{cadence.StringType, func() cadence.Value {
			n := r.Intn(30)
			var sb strings.Builder
			for i := 0; i < n; i++ {
				rs := []rune("abAB z09_é\U0001F600")
				sb.WriteRune(rs[r.Intn(len(rs))])
			}
			return mustV(cadence.NewString(sb.String()))
		}},
		{cadence.CharacterType, func() cadence.Value {
			return mustV(cadence.NewCharacter([]string{"a", "b", "A", "z", "é", "\U0001F1FA\U0001F1F8", "0", " "}[r.Intn(8)]))
		}},
		{cadence.BoolType, func() cadence.Value { return cadence.NewBool(r.Intn(2) == 0) }},
		{cadence.AddressType, func() cadence.Value {
			var a [8]byte
			r.Read(a[:])
			if r.Intn(2) == 0 {
				a[0], a[1], a[2], a[3] = 0, 0, 0, 0
			}
			return cadence.NewAddress(a)
		}},
		{cadence.StoragePathType, func() cadence.Value {
			return mustV(cadence.NewPath(common.PathDomainStorage, []string{"a", "b", "ab", "foo", "B", "a1"}[r.Intn(6)]))
		}},
		{enumT, func() cadence.Value {
			return cadence.NewEnum([]cadence.Value{cadence.NewUInt8(uint8(r.Intn(20)))}).WithType(enumT)
		}},
	}
	g := gens[r.Intn(len(gens))]
	n := 2 + r.Intn(5)
	seen := map[string]bool{}
	var pairs []cadence.KeyValuePair
	for i := 0; i < n*3 && len(pairs) < n; i++ {
		k := g.g()
		if seen[k.String()] {
			continue
		}
		seen[k.String()] = true
		pairs = append(pairs, cadence.KeyValuePair{Key: k, Value: cadence.NewInt(len(pairs))})
	}
	kt := g.t
	if r.Intn(6) == 0 && kt != enumT {
		kt = cadence.HashableStructType // keys carry their inline type
	}
	return cadence.NewDictionary(pairs).WithType(cadence.NewDictionaryType(kt, cadence.IntType))
}

var _ = hex.EncodeToString
