package main

import (
	"bytes"
	"runtime"
	"strconv"
)

func goid() uint64 {
	var buf [64]byte
	n := runtime.Stack(buf[:], false)
	b := bytes.TrimPrefix(buf[:n], []byte("goroutine "))
	if i := bytes.IndexByte(b, ' '); i > 0 {
		id, _ := strconv.ParseUint(string(b[:i]), 10, 64)
		return id
	}
	return 0
}
