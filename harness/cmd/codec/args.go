// args.go: sub-command "args" — entry-point argument validation (C29) against spec/codec/ArgValidation.tla.
//
//	codec args <rows.ndjson> <results.ndjson> <log.ndjson>
//
// rows: the TLC table [t, src, arg, how, importable, conforms, resource]; each argument is encoded with
// JSON-Cadence and CCF and passed to a script `fun main(a: T)` on both engines.
// log: (parameter type, reported run-time type) pairs of accepted arguments, judged by TLC (Subtype).
package main

import (
	"bytes"
	"encoding/json"
	"fmt"
	"runtime"
	"strings"
	"sync"

	"github.com/onflow/cadence"
	"github.com/onflow/cadence/encoding/ccf"
	cdcjson "github.com/onflow/cadence/encoding/json"

	"verifharness/host"
	"verifharness/util"
)

const argContract = `
access(all) contract C {
  access(all) struct S { access(all) let a: Int; access(all) let b: String; init(a: Int, b: String) { self.a = a; self.b = b } }
  access(all) struct S2 { access(all) let a: Int; init(a: Int) { self.a = a } }
  access(all) struct H { access(all) let x: AnyStruct; init(x: AnyStruct) { self.x = x } }
  access(all) struct N { access(all) let next: N?; access(all) let id: UInt8; init(next: N?, id: UInt8) { self.next = next; self.id = id } }
  access(all) struct interface SI {}
  access(all) struct T: SI { access(all) let f: Int; init(f: Int) { self.f = f } }
  access(all) enum E: UInt8 { access(all) case x; access(all) case y }
  access(all) resource R { access(all) let n: Int; init(n: Int) { self.n = n } }
  access(all) attachment A for S { access(all) let k: Int; init() { self.k = 4 } }
  access(all) struct K { access(all) let m: {E: Int}; access(all) let l: [S2]; init(m: {E: Int}, l: [S2]) { self.m = m; self.l = l } }
}`

type argRow struct {
	ID         int    `json:"id"`
	T          M      `json:"t"`
	Src        string `json:"src"`
	Arg        M      `json:"arg"`
	How        string `json:"how"`
	Importable bool   `json:"importable"`
	Conforms   bool   `json:"conforms"`
	Resource   bool   `json:"resource"`
	// return probes
	Script string `json:"script,omitempty"`
}

type argResult struct {
	Prop   string `json:"prop"`
	Kind   string `json:"kind"`
	Msg    string `json:"msg"`
	ID     int    `json:"id"`
	How    string `json:"how"`
	Src    string `json:"src"`
	Engine string `json:"engine"`
	Codec  string `json:"codec"`
	Class  string `json:"class"`
	Err    string `json:"err,omitempty"`
	Row    any    `json:"row,omitempty"`
}

func newArgWorld() *host.World {
	w := host.NewWorld()
	if err := w.Deploy(host.Addr(1), "C", argContract); err != nil {
		util.Die("deploying the argument contract: %v", err)
	}
	w.RI.OnDecodeArgument = func(b []byte, t cadence.Type) (cadence.Value, error) {
		if ccf.HasMsgPrefix(b) {
			return ccf.Decode(nil, b)
		}
		return cdcjson.Decode(nil, b)
	}
	return w
}

// loosen re-derives container static types from the content so that a corrupted argument can still be
// CCF-encoded: arrays become [AnyStruct]/[AnyResource], dictionaries {HashableStruct: AnyStruct}.
func loosen(v M) M {
	out := make(M, len(v))
	for k, e := range v {
		out[k] = e
	}
	anyOf := func(x M) M { return M{"k": "prim", "n": "AnyStruct"} }
	switch v["k"] {
	case "opt":
		if s := seq(v, "v"); len(s) == 1 {
			out["v"] = []any{loosen(rec(s[0]))}
		}
	case "arr":
		var vs []any
		for _, e := range seq(v, "vs") {
			vs = append(vs, loosen(rec(e)))
		}
		if vs == nil {
			vs = []any{}
		}
		out["vs"] = vs
		out["t"] = M{"k": "varr", "t": anyOf(v)}
	case "dict":
		var ps []any
		for _, p := range seq(v, "ps") {
			ps = append(ps, M{"key": loosen(sub(rec(p), "key")), "v": loosen(sub(rec(p), "v"))})
		}
		if ps == nil {
			ps = []any{}
		}
		out["ps"] = ps
		out["t"] = M{"k": "dict", "key": M{"k": "prim", "n": "HashableStruct"}, "t": anyOf(v)}
	case "comp":
		var vs []any
		t := sub(v, "t")
		fs := seq(t, "fields")
		nf := make([]any, 0, len(fs))
		for i, e := range seq(v, "vs") {
			vs = append(vs, loosen(rec(e)))
			if i < len(fs) {
				nf = append(nf, M{"id": rec(fs[i])["id"], "t": anyOf(v)})
			}
		}
		if vs == nil {
			vs = []any{}
		}
		nt := make(M, len(t))
		for k, e := range t {
			nt[k] = e
		}
		nt["fields"] = nf
		out["vs"], out["t"] = vs, nt
	}
	return out
}

func scriptFor(r argRow) string {
	if r.Script != "" {
		return r.Script
	}
	if r.Resource {
		return fmt.Sprintf("import C from 0x1\naccess(all) fun main(a: @%s): Type { let t = a.getType(); destroy a; return t }", r.Src)
	}
	return fmt.Sprintf("import C from 0x1\naccess(all) fun main(a: %s): [AnyStruct] { return [a.getType(), a] }", r.Src)
}

// returnRoundTrip checks that an exported script result round-trips through both codecs
// (modulo the information the formats do not carry: Common content).
func returnRoundTrip(v cadence.Value) (kind, msg string, err error) {
	xm := projMode{erase: true, dictSet: true, collapse: true, nominal: true}
	want := canonSorted(projValue(v, xm))
	var jb []byte
	if p, what := guard(func() { jb, err = cdcjson.Encode(v) }); p {
		return "return-json-encode-panic", what, nil
	} else if err != nil {
		return "return-json-encode-error", err.Error(), err
	}
	var dv cadence.Value
	if p, what := guard(func() { dv, err = cdcjson.Decode(nil, jb) }); p {
		return "return-json-decode-panic", what, nil
	} else if err != nil {
		return "return-json-decode-error", err.Error() + "\n json: " + string(jb), err
	}
	if got := canonSorted(projValue(dv, xm)); got != want {
		return "return-json-roundtrip", fmt.Sprintf("exported %s\n decoded %s", want, got), nil
	}
	if jb2, e2 := cdcjson.Encode(dv); e2 != nil || !bytes.Equal(jb, jb2) {
		return "return-json-reencode", fmt.Sprintf("%s\n%s", jb, jb2), nil
	}
	var cb []byte
	if p, what := guard(func() { cb, err = ccf.Encode(v) }); p {
		return "return-ccf-encode-panic", what, fmt.Errorf("%s", strings.SplitN(what, "\n", 2)[0])
	} else if err != nil {
		return "return-ccf-encode-error", err.Error(), err
	}
	var cv cadence.Value
	if p, what := guard(func() { cv, err = ccf.Decode(nil, cb) }); p {
		return "return-ccf-decode-panic", what, nil
	} else if err != nil {
		return "return-ccf-decode-error", err.Error(), err
	}
	if got := canonSorted(projValue(cv, xm)); got != want {
		return "return-ccf-roundtrip", fmt.Sprintf("exported %s\n decoded %s", want, got), nil
	}
	if cb2, e2 := ccf.Encode(cv); e2 != nil || !bytes.Equal(cb, cb2) {
		return "return-ccf-reencode", fmt.Sprintf("%x\n%x", cb, cb2), nil
	}
	return "", "", nil
}

func runArgs(args []string) {
	if len(args) < 3 {
		util.Die("usage: codec args rows.ndjson results.ndjson log.ndjson")
	}
	var rows []argRow
	err := util.ReadLines(args[0], func(line []byte) error {
		var r argRow
		if err := json.Unmarshal(line, &r); err != nil {
			return err
		}
		rows = append(rows, r)
		return nil
	})
	if err != nil {
		util.Die("reading rows: %v", err)
	}
	out := util.NewOut(args[1])
	defer out.Close()
	logf := util.NewOut(args[2])
	defer logf.Close()
	workers := runtime.NumCPU()
	if workers > 8 {
		workers = 8
	}
	var mu sync.Mutex
	counts := map[string]int{}
	inc := func(k string) { mu.Lock(); counts[k]++; mu.Unlock() }
	worlds := make(chan *host.World, workers)
	for i := 0; i < workers; i++ {
		worlds <- newArgWorld()
	}
	var samples []M
	util.Parallel(len(rows), workers, func(i int) {
		r := rows[i]
		w := <-worlds
		defer func() { worlds <- w }()
		emit := func(kind, msg, engine, codec, class string, e error) {
			out.Write(argResult{Prop: "C29", Kind: kind, Msg: msg, ID: r.ID, How: r.How, Src: r.Src, Engine: engine, Codec: codec,
				Class: class, Err: errClass(e), Row: r})
		}
		defer func() {
			if p := recover(); p != nil {
				if h, ok := p.(harnessErr); ok {
					emit("harness", h.msg, "", "", "", nil)
					return
				}
				panic(p)
			}
		}()
		src := scriptFor(r)
		type enc struct {
			name string
			b    []byte
		}
		var encs []enc
		if r.Script == "" {
			val := buildValue(r.Arg)
			if p, what := guard(func() {
				b, e := cdcjson.Encode(val)
				if e == nil {
					encs = append(encs, enc{"json", b})
				}
			}); p {
				hfail("JSON encoding of the argument panicked: %s", what)
			}
			if conflictingDefs(r.Arg) {
				inc("ccf_inexpressible") // CCF has one definition per type ID: this corruption cannot be written in CCF
			} else if p, _ := guard(func() {
				lv := buildValue(loosen(r.Arg))
				b, e := ccf.Encode(lv)
				if e == nil {
					if _, de := ccf.Decode(nil, b); de == nil {
						encs = append(encs, enc{"ccf", b})
					}
				}
			}); p {
				inc("ccf_unencodable")
			}
			if len(encs) == 0 {
				inc("unencodable")
				return
			}
		} else {
			encs = []enc{{"none", nil}}
		}
		for _, e := range encs {
			for _, useVM := range []bool{false, true} {
				engine := "interp"
				if useVM {
					engine = "vm"
				}
				var res host.Result
				if e.b == nil {
					res = w.Script(src, useVM)
				} else {
					res = w.Script(src, useVM, e.b)
				}
				inc("executions")
				accepted := res.Err == nil
				if r.Script != "" {
					inc("return_probes")
					if !accepted {
						emit("harness", "return probe failed: "+res.Err.Error(), engine, e.name, res.Class, nil)
						continue
					}
					if k, m, er := returnRoundTrip(res.Value); k != "" {
						emit(k, fmt.Sprintf("script %q returned %s: %s", r.Script, res.Value, m), engine, e.name, res.Class, er)
					}
					continue
				}
				if !accepted {
					inc("rejected")
					if r.Conforms {
						inc("conforming_rejected")
						out.Write(M{"info": true, "kind": "conforming-rejected", "src": r.Src, "how": r.How, "codec": e.name, "engine": engine,
							"class": res.Class, "err": firstLine(res.Err)})
					}
					if !strings.HasPrefix(res.Class, "user:") {
						emit("rejected-not-user-error", fmt.Sprintf("argument (%s) for %s rejected with %s: %s", r.How, r.Src, res.Class, firstLine(res.Err)),
							engine, e.name, res.Class, fmt.Errorf("%s", firstLine(res.Err)))
					}
					continue
				}
				inc("accepted")
				if !r.Importable {
					emit("accepted-nonimportable-parameter", fmt.Sprintf("script with parameter type %s was executed", r.Src), engine, e.name, res.Class, nil)
					continue
				}
				if !r.Conforms {
					emit("accepted-nonconforming", fmt.Sprintf("argument (%s) does not conform to %s but was passed to the script; result %v",
						r.How, r.Src, res.Value), engine, e.name, res.Class, nil)
					continue
				}
				// reported run-time type, judged by TLC
				var tv cadence.TypeValue
				var passed cadence.Value
				switch x := res.Value.(type) {
				case cadence.TypeValue:
					tv = x
				case cadence.Array:
					if len(x.Values) == 2 {
						tv, _ = x.Values[0].(cadence.TypeValue)
						passed = x.Values[1]
					}
				}
				if tv.StaticType == nil {
					emit("harness", fmt.Sprintf("script did not report a type: %v", res.Value), engine, e.name, res.Class, nil)
					continue
				}
				logf.Write(M{"id": r.ID, "src": r.Src, "how": r.How, "engine": engine, "codec": e.name,
					"t": r.T, "rt": expandSiblingRec(projType(tv.StaticType, nil)), "rtid": tv.StaticType.ID()})
				inc("logged")
				if passed != nil {
					inc("returns_roundtripped")
					if k, m, er := returnRoundTrip(res.Value); k != "" {
						emit(k, fmt.Sprintf("value returned for %s (%s): %s", r.Src, r.How, m), engine, e.name, res.Class, er)
					}
					// the script received what was sent
					xm := projMode{erase: true, dictSet: true, collapse: true, nominal: true}
					if got, want := canonSorted(projValue(passed, xm)), canonSorted(normAbs(eraseAbs(r.Arg), xm)); got != want && !strings.Contains(r.How, "nil") {
						mu.Lock()
						counts["received_differs"]++
						mu.Unlock()
						out.Write(M{"info": true, "kind": "received-differs", "src": r.Src, "how": r.How, "sent": want, "received": got})
					}
				}
				mu.Lock()
				if len(samples) < 4 && r.ID%37 == 0 {
					samples = append(samples, M{"parameter": r.Src, "argument": r.How, "codec": e.name, "engine": engine, "runtime_type": tv.StaticType.ID()})
				}
				mu.Unlock()
			}
		}
	})
	out.Write(M{"summary": true, "rows": len(rows), "executions": counts["executions"], "accepted": counts["accepted"], "rejected": counts["rejected"],
		"logged": counts["logged"], "conforming_rejected": counts["conforming_rejected"], "unencodable": counts["unencodable"], "ccf_inexpressible": counts["ccf_inexpressible"],
		"returns_roundtripped": counts["returns_roundtripped"], "return_probes": counts["return_probes"],
		"received_differs": counts["received_differs"], "samples": samples})
}

func firstLine(err error) string {
	if err == nil {
		return ""
	}
	lines := strings.Split(err.Error(), "\n")
	// the most specific line: the last "error: ..." / "internal error: ..." line that is not a wrapper
	best := ""
	for _, l := range lines {
		t := strings.TrimSpace(l)
		if (strings.HasPrefix(t, "error:") || strings.HasPrefix(t, "internal error:")) && !strings.HasSuffix(t, "Execution failed:") {
			if best == "" || strings.Contains(t, "internal error") {
				best = t
			}
		}
	}
	if best != "" {
		return best
	}
	return lines[0]
}

// conflictingDefs reports whether one type ID occurs with two different kinds / field-name lists.
func conflictingDefs(v M) bool {
	defs := map[string]string{}
	conflict := false
	walkValue(v, func(x M) {
		if x["k"] != "comp" {
			return
		}
		t := sub(x, "t")
		var names []string
		for _, f := range seq(t, "fields") {
			names = append(names, str(rec(f), "id"))
		}
		d := str(t, "ck") + ":" + strings.Join(names, ",")
		if old, ok := defs[str(t, "tid")]; ok && old != d {
			conflict = true
		}
		defs[str(t, "tid")] = d
	}, func(M, bool) {})
	return conflict
}

// eraseAbs applies Erase of the spec to an abstract value (only used for an informational comparison).
func eraseAbs(v M) any {
	val := buildValue(v)
	return projValue(val, projMode{erase: true})
}
