// abs.go: the bridge between the abstract values/types of spec/codec/JsonCdc.tla
// (TLA+ records printed with ToJson) and cadence.Value / cadence.Type.
//
//	build*   : abstract -> cadence (used to feed the codecs)
//	proj*    : cadence  -> abstract (used to compare what the codecs return with the model)
//
// The abstract forms are documented in spec/codec/JsonCdc.tla (section "Abstract syntax").
package main

import (
	"encoding/hex"
	"encoding/json"
	"fmt"
	"math/big"
	"sort"
	"strings"
	"sync"
	_ "unsafe"

	"github.com/onflow/cadence"
	"github.com/onflow/cadence/common"
	"github.com/onflow/cadence/interpreter"
	_ "github.com/onflow/cadence/stdlib" // registers the "flow." type ID prefix
)

type M = map[string]any

//go:linkname getCompositeFieldValues github.com/onflow/cadence.getCompositeFieldValues
func getCompositeFieldValues(cadence.Composite) []cadence.Value

//go:linkname getCompositeTypeFields github.com/onflow/cadence.getCompositeTypeFields
func getCompositeTypeFields(cadence.CompositeType) []cadence.Field

//go:linkname setCompositeTypeFields github.com/onflow/cadence.setCompositeTypeFields
func setCompositeTypeFields(cadence.CompositeType, []cadence.Field)

//go:linkname getInterfaceTypeFields github.com/onflow/cadence.getInterfaceTypeFields
func getInterfaceTypeFields(cadence.InterfaceType) []cadence.Field

//go:linkname setInterfaceTypeFields github.com/onflow/cadence.setInterfaceTypeFields
func setInterfaceTypeFields(cadence.InterfaceType, []cadence.Field)

// harnessErr is raised (panic) for anything that is a defect of the model/driver pair, not of the code under test.
type harnessErr struct{ msg string }

func (h harnessErr) Error() string { return h.msg }

func hfail(format string, a ...any) {
	panic(harnessErr{fmt.Sprintf(format, a...)})
}

// ---------------------------------------------------------------- symbolic atoms

// Strings of the model are symbolic atoms "$s:<name>" / "$c:<name>"; the driver substitutes the
// real text everywhere (abstract value and expected JSON tree alike).
var atoms = map[string]string{
	"$s:empty":   "",
	"$s:ascii":   "hello",
	"$s:esc":     "q\"b\\n\n\t/<>& ",
	"$s:uni":     "café \U0001F1FA\U0001F1F8",
	"$s:nfd":     "café",
	"$s:a":       "a",
	"$s:b":       "b",
	"$s:ab":      "ab",
	"$s:B":       "B",
	"$s:long":    "abcdefghijklmnopqrstuvwxyz0123456789",
	"$c:a":       "a",
	"$c:eacute":  "é",
	"$c:flag":    "\U0001F1FA\U0001F1F8",
	"$c:newline": "\n",
	"$c:nfd":     "é",
}

func atom(s string) string {
	if strings.HasPrefix(s, "$s:") || strings.HasPrefix(s, "$c:") {
		r, ok := atoms[s]
		if !ok {
			hfail("unknown string atom %q", s)
		}
		return r
	}
	return s
}

// substAtoms rewrites every symbolic atom inside a decoded JSON tree and turns the model's
// [null_ |-> TRUE] into JSON null.
func substAtoms(x any) any {
	switch x := x.(type) {
	case string:
		return atom(x)
	case []any:
		out := make([]any, len(x))
		for i, e := range x {
			out[i] = substAtoms(e)
		}
		return out
	case map[string]any:
		if len(x) == 1 {
			if b, ok := x["null_"]; ok && b == true {
				return nil
			}
			if b, ok := x["str_"]; ok {
				return b
			}
		}
		out := make(map[string]any, len(x))
		for k, e := range x {
			out[k] = substAtoms(e)
		}
		return out
	}
	return x
}

func canonJSON(x any) string {
	b, err := json.Marshal(x)
	if err != nil {
		hfail("marshal: %v", err)
	}
	return string(b)
}

// ---------------------------------------------------------------- helpers on abstract records

func str(m M, k string) string {
	s, ok := m[k].(string)
	if !ok {
		hfail("field %q missing or not a string in %v", k, canonJSON(m))
	}
	return s
}

func seq(m M, k string) []any {
	v, ok := m[k]
	if !ok {
		hfail("field %q missing in %v", k, canonJSON(m))
	}
	if v == nil {
		return nil
	}
	s, ok := v.([]any)
	if !ok {
		hfail("field %q not a sequence in %v", k, canonJSON(m))
	}
	return s
}

func rec(x any) M {
	m, ok := x.(map[string]any)
	if !ok {
		hfail("expected a record, got %v", canonJSON(x))
	}
	return m
}

func sub(m M, k string) M {
	v, ok := m[k]
	if !ok {
		hfail("field %q missing in %v", k, canonJSON(m))
	}
	return rec(v)
}

// ---------------------------------------------------------------- types: abstract -> cadence

type tenv map[string]cadence.Type

var primByName = func() map[string]cadence.Type {
	m := map[string]cadence.Type{"Bytes": cadence.TheBytesType}
	for ty := interpreter.PrimitiveStaticType(1); ty < interpreter.PrimitiveStaticType_Count; ty++ {
		if !ty.IsDefined() || ty.IsDeprecated() { //nolint:staticcheck
			continue
		}
		m[cadence.PrimitiveType(ty).ID()] = cadence.PrimitiveType(ty)
	}
	return m
}()

func buildOptType(s []any, env tenv) cadence.Type {
	if len(s) == 0 {
		return nil
	}
	return buildType(rec(s[0]), env)
}

func buildParams(ps []any, env tenv) []cadence.Parameter {
	out := make([]cadence.Parameter, 0, len(ps))
	for _, p := range ps {
		pm := rec(p)
		out = append(out, cadence.NewParameter(str(pm, "label"), str(pm, "id"), buildType(sub(pm, "t"), env)))
	}
	return out
}

func buildFields(fs []any, env tenv) []cadence.Field {
	out := make([]cadence.Field, 0, len(fs))
	for _, f := range fs {
		fm := rec(f)
		out = append(out, cadence.NewField(str(fm, "id"), buildType(sub(fm, "t"), env)))
	}
	return out
}

func buildAuth(a M) cadence.Authorization {
	switch str(a, "k") {
	case "unauth":
		return cadence.UnauthorizedAccess
	case "map":
		return cadence.NewEntitlementMapAuthorization(nil, common.TypeID(str(a, "id")))
	case "conj", "disj":
		var ids []common.TypeID
		for _, e := range seq(a, "ents") {
			ids = append(ids, common.TypeID(e.(string)))
		}
		kind := cadence.Conjunction
		if str(a, "k") == "disj" {
			kind = cadence.Disjunction
		}
		return cadence.NewEntitlementSetAuthorization(nil, ids, kind)
	}
	hfail("unknown authorization %v", canonJSON(a))
	return nil
}

// typeCache shares one cadence.Type object between structurally identical abstract types of one
// value, as runtime.ExportValue does (its results map); nil = no sharing.
type typeCache map[string]cadence.Type

func buildType(t M, env tenv) cadence.Type {
	if env == nil {
		if c := getCache(); c != nil {
			key := canonJSON(t)
			if r, ok := c[key]; ok {
				return r
			}
			r := buildType1(t, tenv{})
			c[key] = r
			return r
		}
		env = tenv{}
	}
	return buildType1(t, env)
}

func buildType1(t M, env tenv) cadence.Type {
	switch str(t, "k") {
	case "none":
		return nil
	case "prim":
		p, ok := primByName[str(t, "n")]
		if !ok {
			hfail("model names primitive type %q which this tree does not define", str(t, "n"))
		}
		return p
	case "opt":
		return cadence.NewOptionalType(buildType(sub(t, "t"), env))
	case "varr":
		return cadence.NewVariableSizedArrayType(buildType(sub(t, "t"), env))
	case "carr":
		return cadence.NewConstantSizedArrayType(uint(t["size"].(float64)), buildType(sub(t, "t"), env))
	case "dict":
		return cadence.NewDictionaryType(buildType(sub(t, "key"), env), buildType(sub(t, "t"), env))
	case "range":
		return cadence.NewInclusiveRangeType(buildType(sub(t, "t"), env))
	case "ref":
		return cadence.NewReferenceType(buildAuth(sub(t, "auth")), buildType(sub(t, "t"), env))
	case "inter":
		var ts []cadence.Type
		for _, e := range seq(t, "types") {
			ts = append(ts, buildType(rec(e), env))
		}
		return cadence.NewIntersectionType(ts)
	case "cap":
		return cadence.NewCapabilityType(buildOptType(seq(t, "t"), env))
	case "fun":
		purity := cadence.FunctionPurityImpure
		if str(t, "purity") == "view" {
			purity = cadence.FunctionPurityView
		}
		var tps []cadence.TypeParameter
		for _, tp := range seq(t, "tparams") {
			tpm := rec(tp)
			tps = append(tps, cadence.NewTypeParameter(str(tpm, "name"), buildOptType(seq(tpm, "bound"), env)))
		}
		return cadence.NewFunctionType(purity, tps, buildParams(seq(t, "params"), env), buildType(sub(t, "ret"), env))
	case "rec":
		r, ok := env[str(t, "tid")]
		if !ok {
			// a reference to a type that is not being defined here (argument corruptions): nominal stub
			loc, qid, err := common.DecodeTypeID(nil, str(t, "tid"))
			if err != nil {
				hfail("dangling recursive type reference %q", str(t, "tid"))
			}
			return cadence.NewStructType(loc, qid, nil, nil)
		}
		return r
	case "comp":
		return buildCompType(t, env)
	}
	hfail("unknown abstract type %v", canonJSON(t))
	return nil
}

func buildCompType(t M, env tenv) cadence.Type {
	tid := str(t, "tid")
	loc, qid, lerr := common.DecodeTypeID(nil, tid)
	if lerr != nil {
		hfail("bad composite type ID %q: %v", tid, lerr)
	}
	var ct cadence.CompositeType
	var it cadence.InterfaceType
	var res cadence.Type
	var aux []any
	if a, ok := t["aux"]; ok && a != nil {
		aux = a.([]any)
	}
	switch str(t, "ck") {
	case "Struct":
		x := cadence.NewStructType(loc, qid, nil, nil)
		ct, res = x, x
	case "Resource":
		x := cadence.NewResourceType(loc, qid, nil, nil)
		ct, res = x, x
	case "Event":
		x := cadence.NewEventType(loc, qid, nil, nil)
		ct, res = x, x
	case "Contract":
		x := cadence.NewContractType(loc, qid, nil, nil)
		ct, res = x, x
	case "Enum":
		x := cadence.NewEnumType(loc, qid, nil, nil, nil)
		ct, res = x, x
	case "Attachment":
		x := cadence.NewAttachmentType(loc, qid, nil, nil, nil)
		ct, res = x, x
	case "StructInterface":
		x := cadence.NewStructInterfaceType(loc, qid, nil, nil)
		it, res = x, x
	case "ResourceInterface":
		x := cadence.NewResourceInterfaceType(loc, qid, nil, nil)
		it, res = x, x
	case "ContractInterface":
		x := cadence.NewContractInterfaceType(loc, qid, nil, nil)
		it, res = x, x
	default:
		hfail("unknown composite kind in %v", canonJSON(t))
	}
	// env lives as long as the embedded type that is being built: a "rec" node refers to the nominal type with
	// that ID written EARLIER in the traversal (enclosing or sibling) and shares its object, as the JSON-Cadence
	// encoder expects (first occurrence in full, later ones by type ID). A second FULL definition of an ID is an
	// independent object (and becomes the target of later references).
	env[tid] = res
	fields := buildFields(seq(t, "fields"), env)
	var inits [][]cadence.Parameter
	for _, in := range seq(t, "inits") {
		inits = append(inits, buildParams(in.([]any), env))
	}
	if ct != nil {
		setCompositeTypeFields(ct, fields)
	} else {
		setInterfaceTypeFields(it, fields)
	}
	switch x := res.(type) {
	case *cadence.StructType:
		x.Initializers = inits
	case *cadence.ResourceType:
		x.Initializers = inits
	case *cadence.EventType:
		if len(inits) > 0 {
			x.Initializer = inits[0]
		}
	case *cadence.ContractType:
		x.Initializers = inits
	case *cadence.EnumType:
		x.Initializers = inits
		x.RawType = buildOptType(aux, env)
	case *cadence.AttachmentType:
		x.Initializers = inits
		x.BaseType = buildOptType(aux, env)
	case *cadence.StructInterfaceType:
		x.Initializers = inits
	case *cadence.ResourceInterfaceType:
		x.Initializers = inits
	case *cadence.ContractInterfaceType:
		x.Initializers = inits
	}
	return res
}

// ---------------------------------------------------------------- values: abstract -> cadence

func mustV[T any](v T, err error) T {
	if err != nil {
		hfail("cannot construct value: %v", err)
	}
	return v
}

func bigOf(s string) *big.Int {
	b, ok := new(big.Int).SetString(s, 10)
	if !ok {
		hfail("bad integer literal %q", s)
	}
	return b
}

func buildNum(t, s string) cadence.Value {
	b := bigOf(s)
	switch t {
	case "Int":
		return cadence.NewIntFromBig(b)
	case "Int8":
		return cadence.NewInt8(int8(b.Int64()))
	case "Int16":
		return cadence.NewInt16(int16(b.Int64()))
	case "Int32":
		return cadence.NewInt32(int32(b.Int64()))
	case "Int64":
		return cadence.NewInt64(b.Int64())
	case "Int128":
		return mustV(cadence.NewInt128FromBig(b))
	case "Int256":
		return mustV(cadence.NewInt256FromBig(b))
	case "UInt":
		return mustV(cadence.NewUIntFromBig(b))
	case "UInt8":
		return cadence.NewUInt8(uint8(b.Uint64()))
	case "UInt16":
		return cadence.NewUInt16(uint16(b.Uint64()))
	case "UInt32":
		return cadence.NewUInt32(uint32(b.Uint64()))
	case "UInt64":
		return cadence.NewUInt64(b.Uint64())
	case "UInt128":
		return mustV(cadence.NewUInt128FromBig(b))
	case "UInt256":
		return mustV(cadence.NewUInt256FromBig(b))
	case "Word8":
		return cadence.NewWord8(uint8(b.Uint64()))
	case "Word16":
		return cadence.NewWord16(uint16(b.Uint64()))
	case "Word32":
		return cadence.NewWord32(uint32(b.Uint64()))
	case "Word64":
		return cadence.NewWord64(b.Uint64())
	case "Word128":
		return mustV(cadence.NewWord128FromBig(b))
	case "Word256":
		return mustV(cadence.NewWord256FromBig(b))
	}
	hfail("unknown integer type %q", t)
	return nil
}

// fixed-point values of the model: sign, integer digits, fractional digits WITHOUT trailing zeros.
func buildFix(v M) cadence.Value {
	t := str(v, "t")
	lit := str(v, "ip") + "." + str(v, "fp")
	if str(v, "fp") == "" {
		lit += "0"
	}
	if v["neg"] == true {
		lit = "-" + lit
	}
	switch t {
	case "Fix64":
		return mustV(cadence.NewFix64(lit))
	case "UFix64":
		return mustV(cadence.NewUFix64(lit))
	case "Fix128":
		return mustV(cadence.NewUnmeteredFix128FromString(lit))
	case "UFix128":
		return mustV(cadence.NewUnmeteredUFix128FromString(lit))
	}
	hfail("unknown fixed-point type %q", t)
	return nil
}

func addrOf(h string) cadence.Address {
	b, err := hex.DecodeString(h)
	if err != nil || len(b) != 8 {
		hfail("bad address %q", h)
	}
	var a [8]byte
	copy(a[:], b)
	return cadence.NewAddress(a)
}

func buildValues(vs []any) []cadence.Value {
	out := make([]cadence.Value, len(vs))
	for i, e := range vs {
		out[i] = buildValue1(rec(e))
	}
	return out
}

var tlsCache = newTLS()

func getCache() typeCache { return tlsCache.get() }

// buildValue builds the cadence value of an abstract value; structurally identical types share one object.
func buildValue(v M) cadence.Value {
	if tlsCache.get() != nil {
		return buildValue1(v)
	}
	tlsCache.set(typeCache{})
	defer tlsCache.set(nil)
	return buildValue1(v)
}

func buildValue1(v M) cadence.Value {
	switch str(v, "k") {
	case "void":
		return cadence.NewVoid()
	case "opt":
		s := seq(v, "v")
		if len(s) == 0 {
			return cadence.NewOptional(nil)
		}
		return cadence.NewOptional(buildValue1(rec(s[0])))
	case "bool":
		return cadence.NewBool(v["b"] == true)
	case "str":
		return mustV(cadence.NewString(atom(str(v, "s"))))
	case "chr":
		return mustV(cadence.NewCharacter(atom(str(v, "s"))))
	case "addr":
		return addrOf(str(v, "h"))
	case "num":
		return buildNum(str(v, "t"), str(v, "s"))
	case "fix":
		return buildFix(v)
	case "arr":
		a := cadence.NewArray(buildValues(seq(v, "vs")))
		if t := buildType(sub(v, "t"), nil); t != nil {
			a = a.WithType(t.(cadence.ArrayType))
		}
		return a
	case "dict":
		var ps []cadence.KeyValuePair
		for _, p := range seq(v, "ps") {
			pm := rec(p)
			ps = append(ps, cadence.KeyValuePair{Key: buildValue1(sub(pm, "key")), Value: buildValue1(sub(pm, "v"))})
		}
		d := cadence.NewDictionary(ps)
		if t := buildType(sub(v, "t"), nil); t != nil {
			d = d.WithType(t.(*cadence.DictionaryType))
		}
		return d
	case "range":
		r := cadence.NewInclusiveRange(buildValue1(sub(v, "start")), buildValue1(sub(v, "end")), buildValue1(sub(v, "step")))
		if t := buildType(sub(v, "t"), nil); t != nil {
			r = r.WithType(t.(*cadence.InclusiveRangeType))
		}
		return r
	case "comp":
		t := buildType(sub(v, "t"), nil)
		vs := buildValues(seq(v, "vs"))
		switch t := t.(type) {
		case *cadence.StructType:
			return cadence.NewStruct(vs).WithType(t)
		case *cadence.ResourceType:
			return cadence.NewResource(vs).WithType(t)
		case *cadence.EventType:
			return cadence.NewEvent(vs).WithType(t)
		case *cadence.ContractType:
			return cadence.NewContract(vs).WithType(t)
		case *cadence.EnumType:
			return cadence.NewEnum(vs).WithType(t)
		case *cadence.AttachmentType:
			return cadence.NewAttachment(vs).WithType(t)
		}
		hfail("composite value with non-composite type %v", canonJSON(v))
	case "path":
		return mustV(cadence.NewPath(common.PathDomainFromIdentifier(str(v, "dom")), str(v, "id")))
	case "type":
		return cadence.NewTypeValue(buildOptType(seq(v, "t"), nil))
	case "cap":
		id := bigOf(str(v, "id")).Uint64()
		return cadence.NewCapability(cadence.NewUInt64(id), addrOf(str(v, "addr")), buildOptType(seq(v, "t"), nil))
	case "fun":
		return cadence.NewFunction(buildType(sub(v, "t"), nil).(*cadence.FunctionType))
	}
	hfail("unknown abstract value %v", canonJSON(v))
	return nil
}

// ---------------------------------------------------------------- cadence -> abstract

type projMode struct {
	nominal  bool // reduce capability borrow types to what a CCF static type carries (StaticT of the spec)
	erase    bool // drop the static information JSON-Cadence does not carry
	dictSet  bool // dictionary entries as a set (sorted canonically)
	collapse bool // some(nil) == nil
}

func projOptType(t cadence.Type, seen map[string]bool) []any {
	if t == nil {
		return []any{}
	}
	return []any{projType(t, seen)}
}

func projParams(ps []cadence.Parameter, seen map[string]bool) []any {
	out := make([]any, 0, len(ps))
	for _, p := range ps {
		out = append(out, M{"label": p.Label, "id": p.Identifier, "t": projType(p.Type, seen)})
	}
	return out
}

func projType(t cadence.Type, seen map[string]bool) any {
	if seen == nil {
		seen = map[string]bool{}
	}
	switch t := t.(type) {
	case nil:
		return M{"k": "none"}
	case cadence.PrimitiveType:
		return M{"k": "prim", "n": t.ID()}
	case cadence.BytesType:
		return M{"k": "prim", "n": "Bytes"}
	case *cadence.OptionalType:
		return M{"k": "opt", "t": projType(t.Type, seen)}
	case *cadence.VariableSizedArrayType:
		return M{"k": "varr", "t": projType(t.ElementType, seen)}
	case *cadence.ConstantSizedArrayType:
		return M{"k": "carr", "t": projType(t.ElementType, seen), "size": float64(t.Size)}
	case *cadence.DictionaryType:
		return M{"k": "dict", "key": projType(t.KeyType, seen), "t": projType(t.ElementType, seen)}
	case *cadence.InclusiveRangeType:
		return M{"k": "range", "t": projType(t.ElementType, seen)}
	case *cadence.ReferenceType:
		var a M
		switch au := t.Authorization.(type) {
		case cadence.Unauthorized:
			a = M{"k": "unauth"}
		case cadence.EntitlementMapAuthorization:
			a = M{"k": "map", "id": string(au.TypeID)}
		case *cadence.EntitlementSetAuthorization:
			ents := make([]any, 0, len(au.Entitlements))
			for _, e := range au.Entitlements {
				ents = append(ents, string(e))
			}
			k := "conj"
			if au.Kind == cadence.Disjunction {
				k = "disj"
			}
			a = M{"k": k, "ents": ents}
		default:
			a = M{"k": fmt.Sprintf("?%T", au)}
		}
		return M{"k": "ref", "auth": a, "t": projType(t.Type, seen)}
	case *cadence.IntersectionType:
		ts := make([]any, 0, len(t.Types))
		for _, e := range t.Types {
			ts = append(ts, projType(e, seen))
		}
		return M{"k": "inter", "types": ts}
	case *cadence.CapabilityType:
		return M{"k": "cap", "t": projOptType(t.BorrowType, seen)}
	case *cadence.FunctionType:
		purity := "impure"
		if t.Purity == cadence.FunctionPurityView {
			purity = "view"
		}
		tps := make([]any, 0, len(t.TypeParameters))
		for _, tp := range t.TypeParameters {
			tps = append(tps, M{"name": tp.Name, "bound": projOptType(tp.TypeBound, seen)})
		}
		return M{"k": "fun", "purity": purity, "tparams": tps, "params": projParams(t.Parameters, seen), "ret": projType(t.ReturnType, seen)}
	case cadence.CompositeType:
		return projComp(t, seen)
	case cadence.InterfaceType:
		return projComp(t, seen)
	}
	return M{"k": fmt.Sprintf("?%T", t)}
}

func projComp(t cadence.Type, seen map[string]bool) any {
	var loc common.Location
	var qid, ck string
	var fields []cadence.Field
	var inits [][]cadence.Parameter
	aux := []any{}
	switch x := t.(type) {
	case *cadence.StructType:
		ck, loc, qid, inits = "Struct", x.Location, x.QualifiedIdentifier, x.Initializers
	case *cadence.ResourceType:
		ck, loc, qid, inits = "Resource", x.Location, x.QualifiedIdentifier, x.Initializers
	case *cadence.EventType:
		ck, loc, qid = "Event", x.Location, x.QualifiedIdentifier
		if len(x.Initializer) > 0 {
			inits = [][]cadence.Parameter{x.Initializer}
		}
	case *cadence.ContractType:
		ck, loc, qid, inits = "Contract", x.Location, x.QualifiedIdentifier, x.Initializers
	case *cadence.EnumType:
		ck, loc, qid, inits = "Enum", x.Location, x.QualifiedIdentifier, x.Initializers
	case *cadence.AttachmentType:
		ck, loc, qid, inits = "Attachment", x.Location, x.QualifiedIdentifier, x.Initializers
	case *cadence.StructInterfaceType:
		ck, loc, qid, inits = "StructInterface", x.Location, x.QualifiedIdentifier, x.Initializers
	case *cadence.ResourceInterfaceType:
		ck, loc, qid, inits = "ResourceInterface", x.Location, x.QualifiedIdentifier, x.Initializers
	case *cadence.ContractInterfaceType:
		ck, loc, qid, inits = "ContractInterface", x.Location, x.QualifiedIdentifier, x.Initializers
	}
	tid := t.ID()
	// identity of the type OBJECT: a later occurrence of the same object is a back reference
	key := fmt.Sprintf("%p", t)
	if seen[key] {
		return M{"k": "rec", "tid": tid}
	}
	seen[key] = true
	if c, ok := t.(cadence.CompositeType); ok {
		fields = getCompositeTypeFields(c)
	} else {
		fields = getInterfaceTypeFields(t.(cadence.InterfaceType))
	}
	_, _ = loc, qid
	fs := make([]any, 0, len(fields))
	for _, f := range fields {
		fs = append(fs, M{"id": f.Identifier, "t": projType(f.Type, seen)})
	}
	is := make([]any, 0, len(inits))
	for _, in := range inits {
		is = append(is, projParams(in, seen))
	}
	// raw type / base type come last (the order in which the encoder writes them)
	switch x := t.(type) {
	case *cadence.EnumType:
		aux = projOptType(x.RawType, seen)
	case *cadence.AttachmentType:
		aux = projOptType(x.BaseType, seen)
	}
	return M{"k": "comp", "ck": ck, "tid": tid, "fields": fs, "inits": is, "aux": aux}
}

// eraseCompType keeps what JSON-Cadence carries about the type of a composite VALUE:
// kind, type ID and the field names in order.
func eraseCompType(t any) any {
	m := t.(M)
	fs := m["fields"].([]any)
	out := make([]any, 0, len(fs))
	for _, f := range fs {
		out = append(out, M{"id": f.(M)["id"], "t": M{"k": "none"}})
	}
	return M{"k": "comp", "ck": m["ck"], "tid": m["tid"], "fields": out, "inits": []any{}, "aux": []any{}}
}

// normRec brings every embedded type of an abstract value to the normal form "first occurrence of a nominal type
// in full, later occurrences as rec" (by type ID, in the traversal order fields, initializers, aux): whether a
// repeated type is a shared object or a copy is an artefact of the codec that produced the value.
func normRec(x any) any {
	return normRecIn(x, nil)
}

func normRecIn(x any, seen map[string]bool) any {
	switch x := x.(type) {
	case []any:
		out := make([]any, len(x))
		for i, e := range x {
			out[i] = normRecIn(e, seen)
		}
		return out
	case map[string]any:
		out := make(M, len(x))
		for k, e := range x {
			if k == "t" {
				// the static / embedded type of a value: one embedded type, normalised on its own
				defs := map[string]M{}
				collectDefs(e, defs)
				out[k] = rewriteRec(e, defs, map[string]bool{})
				continue
			}
			out[k] = normRecIn(e, seen)
		}
		return out
	}
	return x
}

func collectDefs(x any, defs map[string]M) {
	switch x := x.(type) {
	case []any:
		for _, e := range x {
			collectDefs(e, defs)
		}
	case map[string]any:
		if x["k"] == "comp" {
			if tid, _ := x["tid"].(string); defs[tid] == nil {
				defs[tid] = x
			}
		}
		for _, e := range x {
			collectDefs(e, defs)
		}
	}
}

var typeKeyOrder = map[string]int{"tparams": 1, "params": 2, "ret": 3, "key": 1, "t": 2, "types": 2, "fields": 1, "inits": 2, "aux": 4}

func rewriteRec(x any, defs map[string]M, seen map[string]bool) any {
	switch x := x.(type) {
	case []any:
		out := make([]any, len(x))
		for i, e := range x {
			out[i] = rewriteRec(e, defs, seen)
		}
		return out
	case map[string]any:
		if x["k"] == "comp" || x["k"] == "rec" {
			tid, _ := x["tid"].(string)
			def := defs[tid]
			if seen[tid] || def == nil {
				return M{"k": "rec", "tid": tid}
			}
			seen[tid] = true
			x = def
		}
		keys := make([]string, 0, len(x))
		for k := range x {
			keys = append(keys, k)
		}
		sort.Strings(keys)
		sort.SliceStable(keys, func(i, j int) bool { return typeKeyOrder[keys[i]] < typeKeyOrder[keys[j]] })
		out := make(M, len(x))
		for _, k := range keys {
			out[k] = rewriteRec(x[k], defs, seen)
		}
		return out
	}
	return x
}

// staticT mirrors StaticT of JsonCdc.tla (used only to bring the JSON-decoded value to the common
// content before comparing it with the model's Common(v)).
func staticT(x any) any {
	switch x := x.(type) {
	case []any:
		out := make([]any, len(x))
		for i, e := range x {
			out[i] = staticT(e)
		}
		return out
	case map[string]any:
		if x["k"] == "fun" {
			return x
		}
		if x["k"] == "comp" {
			fs := []any{}
			switch x["ck"] {
			case "StructInterface", "ResourceInterface", "ContractInterface":
			default:
				for _, f := range x["fields"].([]any) {
					fs = append(fs, M{"id": f.(M)["id"], "t": staticT(f.(M)["t"])})
				}
			}
			return M{"k": "comp", "ck": x["ck"], "tid": x["tid"], "aux": []any{}, "inits": []any{}, "fields": fs}
		}
		out := make(M, len(x))
		for k, e := range x {
			switch k {
			case "t", "key", "types":
				out[k] = staticT(e)
			default:
				out[k] = e
			}
		}
		return out
	}
	return x
}

func fixParts(s string) (bool, string, string) {
	neg := strings.HasPrefix(s, "-")
	s = strings.TrimPrefix(s, "-")
	ip, fp, _ := strings.Cut(s, ".")
	fp = strings.TrimRight(fp, "0")
	return neg, ip, fp
}

func projValues(vs []cadence.Value, pm projMode) []any {
	out := make([]any, 0, len(vs))
	for _, e := range vs {
		out = append(out, projValue(e, pm))
	}
	return out
}

func projValue(v cadence.Value, pm projMode) any {
	typ := func(t cadence.Type) any {
		if pm.erase {
			return M{"k": "none"}
		}
		return projType(t, nil)
	}
	switch v := v.(type) {
	case nil:
		return M{"k": "?nil"}
	case cadence.Void:
		return M{"k": "void"}
	case cadence.Optional:
		if v.Value == nil {
			return M{"k": "opt", "v": []any{}}
		}
		if pm.collapse {
			if in, ok := v.Value.(cadence.Optional); ok {
				x := cadence.Value(in)
				for {
					o, ok := x.(cadence.Optional)
					if !ok {
						break
					}
					if o.Value == nil {
						return M{"k": "opt", "v": []any{}}
					}
					x = o.Value
				}
			}
		}
		return M{"k": "opt", "v": []any{projValue(v.Value, pm)}}
	case cadence.Bool:
		return M{"k": "bool", "b": bool(v)}
	case cadence.String:
		return M{"k": "str", "s": string(v)}
	case cadence.Character:
		return M{"k": "chr", "s": string(v)}
	case cadence.Address:
		return M{"k": "addr", "h": hex.EncodeToString(v.Bytes())}
	case cadence.Fix64, cadence.UFix64, cadence.Fix128, cadence.UFix128:
		neg, ip, fp := fixParts(v.String())
		return M{"k": "fix", "t": v.Type().ID(), "neg": neg, "ip": ip, "fp": fp}
	case cadence.NumberValue:
		return M{"k": "num", "t": v.Type().ID(), "s": v.String()}
	case cadence.Array:
		var t cadence.Type
		if v.ArrayType != nil {
			t = v.ArrayType
		}
		return M{"k": "arr", "t": typ(t), "vs": projValues(v.Values, pm)}
	case cadence.Dictionary:
		ps := make([]any, 0, len(v.Pairs))
		for _, p := range v.Pairs {
			ps = append(ps, M{"key": projValue(p.Key, pm), "v": projValue(p.Value, pm)})
		}
		if pm.dictSet {
			sort.SliceStable(ps, func(i, j int) bool {
				return canonJSON(ps[i].(M)["key"]) < canonJSON(ps[j].(M)["key"])
			})
		}
		var t cadence.Type
		if v.DictionaryType != nil {
			t = v.DictionaryType
		}
		return M{"k": "dict", "t": typ(t), "ps": ps}
	case *cadence.InclusiveRange:
		var t cadence.Type
		if v.InclusiveRangeType != nil {
			t = v.InclusiveRangeType
		}
		return M{"k": "range", "t": typ(t), "start": projValue(v.Start, pm), "end": projValue(v.End, pm), "step": projValue(v.Step, pm)}
	case cadence.Composite:
		t := projType(v.Type(), nil)
		if pm.erase {
			t = eraseCompType(t)
		}
		return M{"k": "comp", "t": t, "vs": projValues(getCompositeFieldValues(v), pm)}
	case cadence.Path:
		return M{"k": "path", "dom": v.Domain.Identifier(), "id": v.Identifier}
	case cadence.TypeValue:
		return M{"k": "type", "t": projOptType(v.StaticType, nil)}
	case cadence.Capability:
		bt := projOptType(v.BorrowType, nil)
		if pm.nominal {
			bt = staticT(bt).([]any)
		}
		m := M{"k": "cap", "id": v.ID.String(), "addr": hex.EncodeToString(v.Address.Bytes()), "t": bt}
		if v.DeprecatedPath != nil {
			m["path"] = projValue(*v.DeprecatedPath, pm)
		}
		return m
	case cadence.Function:
		return M{"k": "fun", "t": projType(v.FunctionType, nil)}
	}
	return M{"k": fmt.Sprintf("?%T", v)}
}

// normAbs applies atom substitution and (optionally) the canonical dictionary order / optional collapse
// to an abstract value that came from the model, so that it can be compared with a projection.
func normAbs(x any, pm projMode) any {
	switch x := x.(type) {
	case []any:
		out := make([]any, len(x))
		for i, e := range x {
			out[i] = normAbs(e, pm)
		}
		return out
	case map[string]any:
		out := make(M, len(x))
		for k, e := range x {
			out[k] = normAbs(e, pm)
		}
		if out["k"] == "str" || out["k"] == "chr" {
			out["s"] = atom(out["s"].(string))
		}
		if out["k"] == "dict" && pm.dictSet {
			if ps, ok := out["ps"].([]any); ok {
				sort.SliceStable(ps, func(i, j int) bool {
					return canonJSON(ps[i].(M)["key"]) < canonJSON(ps[j].(M)["key"])
				})
			}
		}
		if out["k"] == "opt" && pm.collapse {
			if _, isVal := out["v"]; isVal {
				// some(some(...(nil))) == nil
				cur := out
				for {
					s, _ := cur["v"].([]any)
					if len(s) == 0 {
						return M{"k": "opt", "v": []any{}}
					}
					in, ok := s[0].(M)
					if !ok || in["k"] != "opt" {
						break
					}
					if _, isVal := in["v"]; !isVal {
						break
					}
					cur = in
				}
			}
		}
		return out
	}
	return x
}

// ---------------------------------------------------------------- goroutine-local slot

// tls is a tiny goroutine-local slot (keyed by goroutine id parsed from the stack header).
type tls struct {
	mu sync.Mutex
	m  map[uint64]typeCache
}

func newTLS() *tls { return &tls{m: map[uint64]typeCache{}} }

func (t *tls) get() typeCache {
	id := goid()
	t.mu.Lock()
	defer t.mu.Unlock()
	return t.m[id]
}

func (t *tls) set(c typeCache) {
	id := goid()
	t.mu.Lock()
	defer t.mu.Unlock()
	if c == nil {
		delete(t.m, id)
	} else {
		t.m[id] = c
	}
}

// expandSiblingRec rewrites a projected type so that only occurrences of a nominal type INSIDE its own
// definition stay back references; a repeated sibling occurrence is written in full again. The run-time
// type judge of the argument check (Trace_ArgValidation) compares type trees and knows `rec` only as
// true recursion.
func expandSiblingRec(x any) any {
	defs := map[string]M{}
	var collect func(any)
	collect = func(x any) {
		switch x := x.(type) {
		case []any:
			for _, e := range x {
				collect(e)
			}
		case M:
			if x["k"] == "comp" {
				if tid, ok := x["tid"].(string); ok {
					if _, have := defs[tid]; !have {
						defs[tid] = x
					}
				}
			}
			for _, e := range x {
				collect(e)
			}
		}
	}
	collect(x)
	enclosing := map[string]bool{}
	var walk func(any) any
	walk = func(x any) any {
		switch x := x.(type) {
		case []any:
			out := make([]any, len(x))
			for i, e := range x {
				out[i] = walk(e)
			}
			return out
		case M:
			tid, _ := x["tid"].(string)
			if x["k"] == "rec" {
				def, ok := defs[tid]
				if enclosing[tid] || !ok {
					return x
				}
				return walk(def)
			}
			if x["k"] == "comp" {
				enclosing[tid] = true
				defer delete(enclosing, tid)
			}
			out := M{}
			for k, e := range x {
				out[k] = walk(e)
			}
			return out
		}
		return x
	}
	return walk(x)
}
