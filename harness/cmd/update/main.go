// update: executes the (old, new) contract-schema pairs enumerated by spec/system/ContractUpdate.tla (C27).
//
//	update <pairs.ndjson> <results.ndjson> [engines=interp,vm]
//
// Every pair is {"id", "old", "new", "ms", "usable", "why"}: two abstract schemas, the mutations that
// produced them and the specification's judgement Usable(old, new). The driver renders both schemas
// to Cadence, deploys `old`, stores instances of every declaration (as values, array elements,
// dictionary values, interface-typed and AnyStruct-typed elements, contract fields), calls
// contracts.update with `new`, and -- when the update is ACCEPTED -- runs a reading script generated
// from `new`: load everything, read every field the new version declares, enum raw values and case
// identity, isInstance of every interface of the old version. Verdict: accepted and a read fails or
// differs => violation. accepted, reads fine, but the specification says not Usable => a note.
package main

import (
	"encoding/hex"
	"encoding/json"
	goerrors "errors"
	"fmt"
	"os"
	"regexp"
	"runtime"
	"sort"
	"strings"
	"sync/atomic"

	"github.com/onflow/cadence"
	"github.com/onflow/cadence/common"
	cdcruntime "github.com/onflow/cadence/runtime"
	"github.com/onflow/cadence/stdlib"

	"verifharness/host"
	"verifharness/util"
)

type Field struct {
	N   string `json:"n"`
	Ty  string `json:"ty"`
	Vr  string `json:"vr"`
	Acc string `json:"acc"`
}
type Decl struct {
	Kind   string   `json:"kind"`
	Fields []Field  `json:"fields"`
	Confs  []string `json:"confs"`
	Cases  []string `json:"cases"`
	Raw    string   `json:"raw"`
}
type Schema struct {
	Decls   map[string]Decl `json:"decls"`
	CFields []Field         `json:"cfields"`
	Removed []string        `json:"removed"`
}
type Pair struct {
	ID     int             `json:"id"`
	First  *Schema         `json:"first"` // version under which the first generation was stored (chains)
	Chain  int             `json:"chain"` // 1: first -> old was an earlier update, old -> new is the second
	Old    Schema          `json:"old"`
	New    Schema          `json:"new"`
	Ms     [][]string      `json:"ms"`
	Usable bool            `json:"usable"`
	Why    json.RawMessage `json:"why"`
}
type Result struct {
	ID       int      `json:"id"`
	Engine   string   `json:"engine"`
	Outcome  string   `json:"outcome"` // accepted | rejected | rejected-invalid-new | old-invalid
	Kind     string   `json:"kind,omitempty"`
	Harness  bool     `json:"harness,omitempty"`
	Msg      string   `json:"msg,omitempty"`
	Note     string   `json:"note,omitempty"`
	Reads    int      `json:"reads"`
	Detail   []string `json:"detail,omitempty"`
	Ms       string   `json:"ms"`
	Usable   bool     `json:"usable"`
	Chain    int      `json:"chain"`
	FirstSrc string   `json:"first_src,omitempty"`
	OldSrc   string   `json:"old_src,omitempty"`
	NewSrc   string   `json:"new_src,omitempty"`
	Reader   string   `json:"reader,omitempty"`
	RejectBy string   `json:"reject_by,omitempty"`
}

const cPrefix = "A.0000000000000001.C."

func (s *Schema) present(d string) bool { return s.Decls[d].Kind != "absent" && s.Decls[d].Kind != "" }
func (s *Schema) removed(d string) bool {
	for _, r := range s.Removed {
		if r == d {
			return true
		}
	}
	return false
}

// gone: removed with #removedType and not declared again
func (s *Schema) gone(d string) bool { return s.removed(d) && !s.present(d) }

// norm: the denoted type; a contract-qualified spelling (C.U) denotes the same type as the simple one (U)
func norm(t string) string {
	return strings.ReplaceAll(t, "C.", "")
}
func sameType(a, b string) bool { return norm(a) == norm(b) }

func typeExpr(t string) string {
	switch t {
	case "[Int;2]":
		return "[Int; 2]"
	case "{String:Int}":
		return "{String: Int}"
	case "{String:Int?}":
		return "{String: Int?}"
	case "{Int:Int}":
		return "{Int: Int}"
	}
	if strings.HasPrefix(t, "{String:") {
		return "{String: " + t[len("{String:"):]
	}
	return t
}

// nominalUV: for the types that hold the local struct U or V at some position: the struct and the position
func nominalUV(t string) (name, pos string) {
	switch n := norm(t); n {
	case "U", "V":
		return n, "direct"
	case "U?", "V?":
		return n[:1], "optional"
	case "[U]", "[V]":
		return n[1:2], "array"
	case "{String:U}", "{String:V}":
		return n[8:9], "dict"
	}
	return "", ""
}

// enumValIndex: which case the initializers use for fields of type E
func enumValIndex(d Decl) int {
	if len(d.Cases) >= 2 {
		return 1
	}
	return 0
}

func valExpr(t string, s *Schema) string {
	if name, pos := nominalUV(t); name != "" {
		switch pos {
		case "array":
			return "[" + name + "()]"
		case "dict":
			return "{\"k\": " + name + "()}"
		}
		return name + "()"
	}
	switch norm(t) {
	case "Int", "Int8", "Integer", "AnyStruct":
		return "7"
	case "UInt8", "UInt16":
		return "1"
	case "String", "String?":
		return "\"bee\""
	case "Int?", "Int??":
		return "5"
	case "[Int]", "[Int;2]", "[Int8]", "[AnyStruct]":
		return "[1, 2]"
	case "{String:Int}", "{String:Int?}":
		return "{\"k\": 1}"
	case "{Int:Int}":
		return "{1: 1}"
	case "E":
		e := s.Decls["E"]
		if e.Kind == "enum" && len(e.Cases) > 0 {
			return "E." + e.Cases[enumValIndex(e)]
		}
		return "E()"
	case "S", "{I}", "{I2}":
		return "S()"
	case "T":
		return "T()"
	}
	return "nil"
}

func fieldDecl(f Field) string {
	return fmt.Sprintf("access(%s) %s %s: %s", f.Acc, f.Vr, f.N, typeExpr(f.Ty))
}

// render produces the Cadence source of contract C for a schema.
func render(s *Schema) string {
	var sb strings.Builder
	sb.WriteString("access(all) contract C {\n")
	rem := append([]string(nil), s.Removed...)
	sort.Strings(rem)
	for _, r := range rem {
		fmt.Fprintf(&sb, "  #removedType(%s)\n", r)
	}
	for _, d := range []string{"I", "I2"} {
		switch s.Decls[d].Kind {
		case "sinterface":
			fmt.Fprintf(&sb, "  access(all) struct interface %s {}\n", d)
		case "rinterface":
			fmt.Fprintf(&sb, "  access(all) resource interface %s {}\n", d)
		}
	}
	if e := s.Decls["E"]; e.Kind == "enum" {
		fmt.Fprintf(&sb, "  access(all) enum E: %s {", e.Raw)
		for _, c := range e.Cases {
			fmt.Fprintf(&sb, " access(all) case %s;", c)
		}
		sb.WriteString(" }\n")
	}
	for _, d := range []string{"E", "T", "U", "V", "S", "W", "R"} {
		decl := s.Decls[d]
		if decl.Kind != "struct" && decl.Kind != "resource" {
			continue
		}
		confs := append([]string(nil), decl.Confs...)
		sort.Strings(confs)
		conf := ""
		if len(confs) > 0 {
			conf = ": " + strings.Join(confs, ", ")
		}
		fmt.Fprintf(&sb, "  access(all) %s %s%s {\n", decl.Kind, d, conf)
		var inits []string
		for _, f := range decl.Fields {
			fmt.Fprintf(&sb, "    %s\n", fieldDecl(f))
			inits = append(inits, fmt.Sprintf("self.%s = %s", f.N, valExpr(f.Ty, s)))
		}
		fmt.Fprintf(&sb, "    init() { %s }\n  }\n", strings.Join(inits, "; "))
	}
	var inits []string
	for _, f := range s.CFields {
		fmt.Fprintf(&sb, "  %s\n", fieldDecl(f))
		v := valExpr(f.Ty, s)
		if f.N == "count" && v == "7" {
			v = "3"
		}
		inits = append(inits, fmt.Sprintf("self.%s = %s", f.N, v))
	}
	if s.Decls["S"].Kind == "struct" {
		sb.WriteString("  access(all) fun mkS(): S { return S() }\n")
	}
	switch s.Decls["R"].Kind {
	case "resource":
		sb.WriteString("  access(all) fun mkR(): @R { return <- create R() }\n")
	case "struct":
		sb.WriteString("  access(all) fun mkR(): R { return R() }\n")
	}
	if s.Decls["W"].Kind == "struct" {
		sb.WriteString("  access(all) fun mkW(): W { return W() }\n")
	}
	if s.Decls["T"].Kind == "struct" {
		sb.WriteString("  access(all) fun mkT(): T { return T() }\n")
	}
	fmt.Fprintf(&sb, "  init() { %s }\n}\n", strings.Join(inits, "; "))
	return sb.String()
}

// ---- what is stored under the old version
type stored struct{ s, r, rStruct, es, ds, is, any, anyE, t, w bool }

func whatIsStored(old *Schema) stored {
	var st stored
	st.s = old.Decls["S"].Kind == "struct"
	st.r = old.Decls["R"].Kind == "resource"
	st.rStruct = old.Decls["R"].Kind == "struct"
	st.es = old.Decls["E"].Kind == "enum"
	st.ds = st.s
	st.any = st.s
	st.anyE = st.s && st.es
	st.t = old.Decls["T"].Kind == "struct"
	st.w = old.Decls["W"].Kind == "struct"
	if st.s && old.Decls["I"].Kind == "sinterface" {
		for _, c := range old.Decls["S"].Confs {
			if c == "I" {
				st.is = true
			}
		}
	}
	return st
}

func storeTx(old *Schema, st stored) string {
	var sb strings.Builder
	sb.WriteString("import C from 0x1\ntransaction {\n  prepare(a: auth(Storage) &Account) {\n")
	if st.s {
		sb.WriteString("    a.storage.save(C.mkS(), to: /storage/s)\n")
		sb.WriteString("    a.storage.save({\"k\": C.mkS()}, to: /storage/ds)\n")
	}
	if st.r {
		sb.WriteString("    a.storage.save(<- C.mkR(), to: /storage/r)\n")
	}
	if st.rStruct {
		sb.WriteString("    a.storage.save(C.mkR(), to: /storage/r)\n")
	}
	if st.es {
		var cs []string
		for _, c := range old.Decls["E"].Cases {
			cs = append(cs, "C.E."+c)
		}
		fmt.Fprintf(&sb, "    a.storage.save([%s], to: /storage/es)\n", strings.Join(cs, ", "))
	}
	if st.is {
		sb.WriteString("    a.storage.save([C.mkS() as {C.I}], to: /storage/is)\n")
	}
	if st.anyE {
		e := old.Decls["E"]
		fmt.Fprintf(&sb, "    a.storage.save([C.mkS() as AnyStruct, C.E.%s as AnyStruct], to: /storage/any)\n", e.Cases[len(e.Cases)-1])
	} else if st.any {
		sb.WriteString("    a.storage.save([C.mkS() as AnyStruct], to: /storage/any)\n")
	}
	if st.t {
		sb.WriteString("    a.storage.save(C.mkT(), to: /storage/t)\n")
	}
	if st.w {
		sb.WriteString("    a.storage.save(C.mkW(), to: /storage/w)\n")
	}
	sb.WriteString("  }\n}\n")
	return sb.String()
}

// ---- reading under the new version
type reader struct {
	old, new *Schema
	rIsRef   bool // the stored R is read through a storage reference
	sb       strings.Builder
	want     []string
	keys     []string
}

// showExpr: Cadence expression (of type String) describing expression x of declared type ty.
func (r *reader) showExpr(x, ty string) string {
	if name, pos := nominalUV(ty); name != "" && r.new.Decls[name].Kind == "struct" {
		// read the nested struct's own field through the position: the stored value must have the declared type
		switch pos {
		case "direct":
			return x + ".a.toString()"
		case "optional":
			return x + "!.a.toString()"
		case "array":
			return x + "[0].a.toString()"
		case "dict":
			return x + "[\"k\"]!.a.toString()"
		}
	}
	switch norm(ty) {
	case "Int", "Int8", "UInt8", "UInt16", "Integer":
		return x + ".toString()"
	case "String":
		return x
	case "Int?":
		return "(" + x + " ?? -1).toString()"
	case "String?":
		return "(" + x + " ?? \"nil\")"
	case "Int??":
		return "\"opt2\""
	case "[Int]", "[Int;2]", "[Int8]":
		return x + ".length.toString().concat(\":\").concat(" + x + "[0].toString())"
	case "[AnyStruct]", "{String:Int?}", "{Int:Int}":
		return x + ".length.toString()"
	case "{String:Int}":
		return x + ".length.toString().concat(\":\").concat((" + x + "[\"k\"] ?? -1).toString())"
	case "E":
		return x + ".rawValue.toString()"
	case "S":
		if r.new.Decls["S"].Kind == "struct" {
			if strings.HasPrefix(x, "C.") || strings.HasPrefix(x, "s.") || (r.rIsRef && strings.HasPrefix(x, "r.")) { // already a reference (contract field / field of a reference)
				return "showS(" + x + ")"
			}
			return "showS(&" + x + " as &C.S)"
		}
	case "T":
		if r.tReadable() {
			return "\"T:\".concat(" + r.showExpr(x+".a", fieldType(r.new.Decls["T"].Fields, "a")) + ")"
		}
	}
	return "((" + x + " as AnyStruct) != nil ? \"present\" : \"nil\")"
}

// tReadable: the new version declares struct T with a field `a` the reader may touch
func (r *reader) tReadable() bool {
	if r.new.Decls["T"].Kind != "struct" {
		return false
	}
	for _, f := range r.new.Decls["T"].Fields {
		if f.N == "a" && f.Acc == "all" {
			return true
		}
	}
	return false
}

func hasField(fs []Field, n string) bool {
	for _, f := range fs {
		if f.N == n {
			return true
		}
	}
	return false
}
func fieldType(fs []Field, n string) string {
	for _, f := range fs {
		if f.N == n {
			return f.Ty
		}
	}
	return ""
}

// expectVal: the string showExpr yields for the value the OLD initializer gave a field of old type oldTy,
// read through declared type newTy. "?..." marks a read that cannot agree.
func (r *reader) expectVal(newTy, oldTy string) string {
	if oldTy == "" {
		return "?field-missing-in-stored-value"
	}
	if !sameType(newTy, oldTy) {
		return "?stored-type-" + oldTy + "-declared-" + newTy
	}
	if name, _ := nominalUV(newTy); name != "" && r.new.Decls[name].Kind == "struct" {
		return "7"
	}
	switch norm(newTy) {
	case "Int", "Int8", "Integer":
		return "7"
	case "UInt8", "UInt16":
		return "1"
	case "String", "String?":
		return "bee"
	case "Int?":
		return "5"
	case "Int??":
		return "opt2"
	case "[Int]", "[Int;2]", "[Int8]":
		return "2:1"
	case "[AnyStruct]":
		return "2"
	case "{String:Int?}", "{Int:Int}":
		return "1"
	case "{String:Int}":
		return "1:1"
	case "E":
		e := r.old.Decls["E"]
		if e.Kind == "enum" {
			return fmt.Sprint(enumValIndex(e))
		}
		return "1"
	case "S":
		if r.new.Decls["S"].Kind == "struct" {
			return r.expectS()
		}
		return "present"
	case "T":
		if r.tReadable() {
			return "T:" + r.expectVal(fieldType(r.new.Decls["T"].Fields, "a"), fieldType(r.old.Decls["T"].Fields, "a"))
		}
		return "present"
	}
	return "present"
}

// fields of declaration d the reader may touch: declared by new, access(all)
func (r *reader) readable(d string) []Field {
	var out []Field
	for _, f := range r.new.Decls[d].Fields {
		if f.Acc == "all" {
			out = append(out, f)
		}
	}
	return out
}

func (r *reader) expectS() string {
	out := ""
	for _, f := range r.readable("S") {
		out += f.N + "=" + r.expectVal(f.Ty, fieldType(r.old.Decls["S"].Fields, f.N)) + ";"
	}
	return "S{" + out + "}"
}

func (r *reader) emit(key, expr, want string) {
	fmt.Fprintf(&r.sb, "  out.append(%s)\n", expr)
	r.keys = append(r.keys, key)
	r.want = append(r.want, want)
}

// loadable: the declaration still exists in the new version with a kind under which the reader can name it
func (r *reader) usableType(d string, kinds ...string) bool {
	for _, k := range kinds {
		if r.new.Decls[d].Kind == k {
			return true
		}
	}
	return false
}

func (r *reader) build(st stored) (string, []string, []string) {
	n := r.new
	r.sb.WriteString("import C from 0x1\n")
	if n.Decls["S"].Kind == "struct" {
		r.sb.WriteString("access(all) fun showS(_ s: &C.S): String {\n  var o = \"S{\"\n")
		for _, f := range r.readable("S") {
			fmt.Fprintf(&r.sb, "  o = o.concat(\"%s=\").concat(%s).concat(\";\")\n", f.N, r.showExpr("s."+f.N, f.Ty))
		}
		r.sb.WriteString("  return o.concat(\"}\")\n}\n")
	}
	r.sb.WriteString("access(all) fun main(): [String] {\n  let out: [String] = []\n  let a = getAuthAccount<auth(Storage) &Account>(0x1)\n")
	sUsable := r.usableType("S", "struct")
	if st.s {
		if sUsable {
			r.sb.WriteString("  let s = a.storage.copy<C.S>(from: /storage/s)!\n")
			r.emit("stored S", "showS(&s as &C.S)", r.expectS())
			for _, c := range r.old.Decls["S"].Confs {
				if n.Decls[c].Kind == "sinterface" && !n.gone(c) {
					r.emit("stored S isInstance {"+c+"}", fmt.Sprintf("s.isInstance(Type<{C.%s}>()) ? \"true\" : \"false\"", c), "true")
				}
			}
			r.sb.WriteString("  let ds = a.storage.copy<{String: C.S}>(from: /storage/ds)!\n")
			r.sb.WriteString("  let dsv = ds[\"k\"]!\n")
			r.emit("dictionary value S", "showS(&dsv as &C.S)", r.expectS())
		} else if !n.gone("S") {
			r.emit("stored S (type not declared by the new version)", "a.storage.borrow<&AnyStruct>(from: /storage/s)!.getType().identifier", cPrefix+"S")
		}
	}
	if st.r || st.rStruct {
		switch {
		case st.r && r.usableType("R", "resource"), st.rStruct && r.usableType("R", "struct"):
			if st.r {
				// read through a reference: neither loading-and-destroying nor re-saving is part of the property
				r.rIsRef = true
				r.sb.WriteString("  let r = a.storage.borrow<&C.R>(from: /storage/r)!\n")
			} else {
				r.sb.WriteString("  let r = a.storage.copy<C.R>(from: /storage/r)!\n")
			}
			for _, f := range r.readable("R") {
				r.emit("stored R field "+f.N, r.showExpr("r."+f.N, f.Ty), r.expectVal(f.Ty, fieldType(r.old.Decls["R"].Fields, f.N)))
			}

		case !n.gone("R"):
			any := "&AnyResource"
			if st.rStruct {
				any = "&AnyStruct"
			}
			r.emit("stored R (not declared with its old kind by the new version)", "a.storage.borrow<"+any+">(from: /storage/r)!.getType().identifier", cPrefix+"R")
		}
	}
	eUsable := r.usableType("E", "enum")
	if st.es {
		if eUsable {
			r.sb.WriteString("  let es = a.storage.copy<[C.E]>(from: /storage/es)!\n")
			for i, c := range r.old.Decls["E"].Cases {
				r.emit(fmt.Sprintf("stored enum case %s rawValue", c), fmt.Sprintf("es[%d].rawValue.toString()", i), fmt.Sprint(i))
				r.emit(fmt.Sprintf("stored enum case %s round trip", c), fmt.Sprintf("(C.E(rawValue: es[%d].rawValue) ?? es[%d]) == es[%d] && C.E(rawValue: es[%d].rawValue) != nil ? \"same\" : \"lost\"", i, (i+1)%len(r.old.Decls["E"].Cases), i, i), "same")
				declared := false
				for _, nc := range n.Decls["E"].Cases {
					declared = declared || nc == c
				}
				if declared {
					r.emit(fmt.Sprintf("stored enum case %s identity", c), fmt.Sprintf("es[%d] == C.E.%s ? \"is-%s\" : \"is-not-%s\"", i, c, c, c), "is-"+c)
				} else {
					// the case the value was created as is gone: its meaning cannot have been kept
					r.emit(fmt.Sprintf("stored enum case %s identity", c), "\"case-"+c+"-not-declared-by-new-version\"", "is-"+c)
				}
			}
		} else if !n.gone("E") {
			r.emit("stored [E] (E not declared as an enum by the new version)", "a.storage.copy<[AnyStruct]>(from: /storage/es)!.length.toString()", fmt.Sprint(len(r.old.Decls["E"].Cases)))
		}
	}
	if st.is {
		if n.Decls["I"].Kind == "sinterface" && !n.gone("I") {
			r.sb.WriteString("  let xs = a.storage.copy<[{C.I}]>(from: /storage/is)!\n")
			r.emit("interface-typed element", "xs[0].getType().identifier", cPrefix+"S")
			if sUsable {
				r.sb.WriteString("  let xs0 = xs[0] as! C.S\n")
				r.emit("interface-typed element as S", "showS(&xs0 as &C.S)", r.expectS())
			}
		} else if !n.gone("I") {
			r.emit("stored [{I}] (I not declared as a struct interface by the new version)", "a.storage.copy<[AnyStruct]>(from: /storage/is)!.length.toString()", "1")
		}
	}
	if st.any && !n.gone("S") && !(st.anyE && n.gone("E")) {
		r.sb.WriteString("  let anys = a.storage.copy<[AnyStruct]>(from: /storage/any)!\n")
		if sUsable {
			r.sb.WriteString("  let any0 = anys[0] as! C.S\n")
			r.emit("AnyStruct-typed element S", "showS(&any0 as &C.S)", r.expectS())
		} else {
			r.emit("AnyStruct-typed element S", "anys[0].getType().identifier", cPrefix+"S")
		}
		if st.anyE {
			last := len(r.old.Decls["E"].Cases) - 1
			if eUsable {
				r.emit("AnyStruct-typed element E", "(anys[1] as! C.E).rawValue.toString()", fmt.Sprint(last))
			} else {
				r.emit("AnyStruct-typed element E", "anys[1].getType().identifier", cPrefix+"E")
			}
		}
	}
	if st.w && r.usableType("W", "struct") {
		r.sb.WriteString("  let w = a.storage.copy<C.W>(from: /storage/w)!\n")
		for _, f := range r.readable("W") {
			r.emit("stored W field "+f.N+" (declared "+f.Ty+")", r.showExpr("w."+f.N, f.Ty), r.expectVal(f.Ty, fieldType(r.old.Decls["W"].Fields, f.N)))
		}
	}
	if st.t && !n.gone("T") {
		if r.usableType("T", "struct") {
			r.emit("stored T", r.showExpr("a.storage.copy<C.T>(from: /storage/t)!", "T"), r.expectVal("T", "T"))
		} else {
			r.emit("stored T (not declared as a struct by the new version)", "a.storage.borrow<&AnyStruct>(from: /storage/t)!.getType().identifier", cPrefix+"T")
		}
	}
	for _, f := range n.CFields {
		if f.Acc != "all" {
			continue
		}
		want := r.expectVal(f.Ty, fieldType(r.old.CFields, f.N))
		if f.N == "count" && want == "7" {
			want = "3"
		}
		r.emit("contract field "+f.N, r.showExpr("C."+f.N, f.Ty), want)
	}
	r.sb.WriteString("  return out\n}\n")
	return r.sb.String(), r.keys, r.want
}

func firstLines(err error, n int) string {
	lines := strings.Split(err.Error(), "\n")
	var out []string
	for _, l := range lines {
		if strings.TrimSpace(l) == "" {
			continue
		}
		out = append(out, l)
		if len(out) >= n {
			break
		}
	}
	return strings.Join(out, "\n")
}

func msString(ms [][]string) string {
	var parts []string
	for _, m := range ms {
		parts = append(parts, strings.Join(m, " "))
	}
	return strings.Join(parts, "; ")
}

var pathRe = regexp.MustCompile(`/storage/([a-z]+)\)`)

// withSuffix moves every storage path of a rendered transaction / script to the paths of a generation.
func withSuffix(src, sfx string) string {
	if sfx == "" {
		return src
	}
	return pathRe.ReplaceAllString(src, "/storage/${1}"+sfx+")")
}

// update submits contracts.update; outcome is "accepted", "rejected", "rejected-invalid-new", or "" with res filled (internal / harness)
func update(w *host.World, res *Result, src string, useVM bool) string {
	upd := fmt.Sprintf("transaction { prepare(s: auth(Contracts) &Account) { s.contracts.update(name: \"C\", code: \"%s\".decodeHex()) } }", hex.EncodeToString([]byte(src)))
	r := w.Tx(upd, []common.Address{host.Addr(1)}, useVM)
	if r.Err == nil {
		return "accepted"
	}
	if host.IsInternal(r.Class) {
		res.Kind, res.Msg = "internal", "contracts.update: "+firstLines(r.Err, 6)
		return ""
	}
	var upe *stdlib.ContractUpdateError
	var dep *stdlib.InvalidContractDeploymentError
	switch {
	case goerrors.As(r.Err, &upe):
		var kinds []string
		for _, e := range upe.Errors {
			kinds = append(kinds, strings.TrimPrefix(fmt.Sprintf("%T", e), "*stdlib."))
		}
		res.RejectBy = strings.Join(kinds, ",")
		return "rejected"
	case goerrors.As(r.Err, &dep):
		res.Msg = firstLines(r.Err, 4)
		return "rejected-invalid-new"
	}
	var pc *cdcruntime.ParsingCheckingError
	if goerrors.As(r.Err, &pc) {
		res.Kind, res.Harness, res.Msg = "render", true, "update transaction does not check: "+firstLines(r.Err, 8)
		return ""
	}
	res.RejectBy = r.Class
	return "rejected"
}

// readBack reads the instances stored under `stored` (generation suffix sfx) under the deployed version `cur`.
// It fills res.Kind when a read fails or differs; returns false when the run must stop.
func readBack(w *host.World, res *Result, stored, cur *Schema, sfx, what string, useVM bool) bool {
	rd := &reader{old: stored, new: cur}
	src, keys, want := rd.build(whatIsStored(stored))
	src = withSuffix(src, sfx)
	res.Reads += len(want)
	pr := w.Script(src, useVM)
	if pr.Err != nil {
		res.Reader = src
		var pc *cdcruntime.ParsingCheckingError
		if goerrors.As(pr.Err, &pc) {
			res.Kind, res.Harness, res.Msg = "render", true, "the reading script does not check: "+firstLines(pr.Err, 10)
			return false
		}
		if host.IsInternal(pr.Class) {
			res.Kind = "read-internal-error"
		} else {
			res.Kind = "read-fails"
		}
		res.Msg = "the update was accepted, reading " + what + " fails (" + pr.Class + "): " + firstLines(pr.Err, 8)
		return false
	}
	arr, ok := pr.Value.(cadence.Array)
	if !ok || len(arr.Values) != len(want) {
		res.Kind, res.Harness, res.Msg = "render", true, "reader returned an unexpected number of values"
		res.Reader = src
		return false
	}
	if os.Getenv("VERIF_SELFTEST_CORRUPT") == "1" && len(want) > 0 { // negative control: corrupt the expected value of one read
		want[len(want)-1] += "#"
	}
	for i, v := range arr.Values {
		g := string(v.(cadence.String))
		if g != want[i] {
			res.Detail = append(res.Detail, fmt.Sprintf("%s: stored %q, read under the new version %q", keys[i], want[i], g))
		}
	}
	if len(res.Detail) > 0 {
		res.Kind = "read-differs"
		res.Msg = "the update was accepted, " + what + " reads differently under the new version"
		res.Reader = src
		return false
	}
	return true
}

func run(p *Pair, useVM bool) *Result {
	eng := "interp"
	if useVM {
		eng = "vm"
	}
	res := &Result{ID: p.ID, Engine: eng, Ms: msString(p.Ms), Usable: p.Usable, Chain: p.Chain}
	first := &p.Old
	if p.Chain == 1 && p.First != nil {
		first = p.First
	}
	firstSrc, oldSrc, newSrc := render(first), render(&p.Old), render(&p.New)
	attach := func() { res.FirstSrc, res.OldSrc, res.NewSrc = firstSrc, oldSrc, newSrc }
	w := host.NewWorld()
	signers := []common.Address{host.Addr(1)}
	deploy := fmt.Sprintf("transaction { prepare(s: auth(Contracts) &Account) { s.contracts.add(name: \"C\", code: \"%s\".decodeHex()) } }", hex.EncodeToString([]byte(firstSrc)))
	r := w.Tx(deploy, signers, useVM)
	if r.Err != nil {
		if host.IsInternal(r.Class) {
			res.Kind, res.Msg = "internal", "deploying the first version: "+firstLines(r.Err, 6)
			attach()
			return res
		}
		// the mutated schema does not render to a valid program: not a case of the property
		res.Outcome = "old-invalid"
		res.Msg = firstLines(r.Err, 4)
		res.OldSrc = firstSrc
		return res
	}
	store := func(sc *Schema, sfx string) bool {
		stx := withSuffix(storeTx(sc, whatIsStored(sc)), sfx)
		r := w.Tx(stx, signers, useVM)
		if r.Err != nil {
			res.Kind, res.Harness, res.Msg = "render", true, "storing instances failed: "+firstLines(r.Err, 8)+"\n"+stx
			attach()
			return false
		}
		return true
	}
	if !store(first, "") {
		return res
	}
	if p.Chain == 1 {
		// first step of the chain: first -> old (the specification judges it Usable)
		switch out := update(w, res, oldSrc, useVM); out {
		case "":
			attach()
			return res
		case "accepted":
		default:
			res.Outcome = "chain-step1-" + out
			return res
		}
		if !readBack(w, res, first, &p.Old, "", "the data stored under the first version (after the first update)", useVM) {
			attach()
			return res
		}
		if !store(&p.Old, "g2") {
			return res
		}
	}
	out := update(w, res, newSrc, useVM)
	if out == "" {
		attach()
		return res
	}
	res.Outcome = out
	if out != "accepted" {
		return res
	}
	if !readBack(w, res, first, &p.New, "", "the data stored under the first version", useVM) {
		attach()
		return res
	}
	if p.Chain == 1 && !readBack(w, res, &p.Old, &p.New, "g2", "the data stored under the second version", useVM) {
		attach()
		return res
	}
	if !p.Usable {
		res.Note = "accepted, every read agrees, but the specification judges the pair not Usable: " + string(p.Why)
	}
	return res
}

func main() {
	if len(os.Args) < 3 {
		util.Die("usage: update pairs.ndjson results.ndjson [engines]")
	}
	engines := []bool{false, true}
	if len(os.Args) > 3 {
		engines = nil
		for _, e := range strings.Split(os.Args[3], ",") {
			engines = append(engines, e == "vm")
		}
	}
	var pairs []*Pair
	err := util.ReadLines(os.Args[1], func(line []byte) error {
		var p Pair
		if err := json.Unmarshal(line, &p); err != nil {
			return err
		}
		pairs = append(pairs, &p)
		return nil
	})
	if err != nil {
		util.Die("reading pairs: %v", err)
	}
	out := util.NewOut(os.Args[2])
	defer out.Close()
	var n int64
	util.Parallel(len(pairs), runtime.NumCPU(), func(i int) {
		for _, vm := range engines {
			out.Write(run(pairs[i], vm))
			atomic.AddInt64(&n, 1)
		}
	})
	out.Write(map[string]any{"summary": true, "pairs": len(pairs), "engines": len(engines), "executions": n})
}
