// text: drivers of the "text" family (C46 RLP, C47 revertibleRandom, C35 LEB128/instruction
// codec/compile determinism, C17 numeric text and byte encodings, C40 literals).
//
//	text rlp      <out.ndjson> <spec-table>...        table conformance against spec/text/Rlp.tla
//	text random   <out.ndjson> <spec-table>           replay of spec/text/Random.tla draws
//	text leb      <out.ndjson> <spec-table>...        table conformance against spec/text/Leb128.tla
//	text instr    <out.ndjson>                        instruction codec round trips
//	text compile  <out.ndjson> [child]                compile determinism digests
//	text numtext  ...                                 spec/text/NumText.tla
//	text literals ...                                 spec/text/Literals.tla
//
// The specification decides; these drivers only execute the real code on the cases the
// specification enumerated and report rows where the observed outcome differs from the
// row's expectation. A spec table is either an NDJSON file of rows or a raw TLC output
// file in which every row is a line `"<json>"` printed by PrintT(ToJson(row)).
package main

import (
	"bufio"
	"encoding/json"
	"fmt"
	"os"
	"strings"
)

func main() {
	if len(os.Args) < 2 {
		fmt.Fprintln(os.Stderr, "usage: text <rlp|random|leb|instr|compile|numtext|literals> ...")
		os.Exit(2)
	}
	cmd, args := os.Args[1], os.Args[2:]
	switch cmd {
	case "rlp":
		rlpMain(args)
	case "random":
		randomMain(args)
	case "leb":
		lebMain(args)
	case "instr":
		instrMain(args)
	case "compile":
		compileMain(args)
	case "numtext":
		numtextMain(args)
	case "literals":
		literalsMain(args)
	default:
		fmt.Fprintln(os.Stderr, "unknown sub-command", cmd)
		os.Exit(2)
	}
}

// readRows streams the rows of a spec table (NDJSON or raw TLC output) to f.
func readRows(path string, f func(raw []byte)) error {
	fh, err := os.Open(path)
	if err != nil {
		return err
	}
	defer fh.Close()
	sc := bufio.NewScanner(fh)
	sc.Buffer(make([]byte, 1<<24), 1<<28)
	for sc.Scan() {
		b := sc.Bytes()
		if len(b) == 0 {
			continue
		}
		switch b[0] {
		case '"':
			var s string
			if err := json.Unmarshal(b, &s); err != nil {
				// TLC prints TLA+ strings; ToJson output only needs \" and \\ unescaped
				s = strings.ReplaceAll(strings.ReplaceAll(string(b[1:len(b)-1]), `\"`, `"`), `\\`, `\`)
			}
			if len(s) > 0 && (s[0] == '[' || s[0] == '{') {
				f([]byte(s))
			}
		case '[', '{':
			f(append([]byte(nil), b...))
		}
	}
	return sc.Err()
}

func hexOf(b []byte) string {
	const d = "0123456789abcdef"
	out := make([]byte, 0, 2*len(b))
	for _, x := range b {
		out = append(out, d[x>>4], d[x&15])
	}
	return string(out)
}

func toBytes(a []int) []byte {
	b := make([]byte, len(a))
	for i, x := range a {
		b[i] = byte(x)
	}
	return b
}
