package main

// C40: literals. Every row of spec/text/Literals.tla (MC_Literals) is turned into `let x: T = <literal>` programs
// that go through the real parser and checker (accept / reject), and accepted literals are evaluated by real
// scripts (interpreter and VM) whose results are compared with the specified value.
//
// Rows:
//   ["I", prefix, body, valid, digits, rejPos, rejNeg]                 enumerated integer literal x all integer types x both signs
//   ["F", ip, fp, valid, {type: [{a,d,w}, {a,d,w}]}]                   enumerated fixed-point literal x fixed types x both signs
//   ["IP", type, neg, prefix, body, valid, accept, digits]             generated integer literal for one type
//   ["FP", type, neg, ip, fp, valid, accept, digits, why]              generated fixed-point literal for one type
//   ["S", tokens, valid, codepoints, asCharacter]                      string / character literal
//
//	text literals <out.ndjson> <table>...

import (
	"encoding/json"
	"fmt"
	"math/big"
	"runtime"
	"sort"
	"strings"
	"sync"

	"github.com/onflow/cadence"
	"github.com/onflow/cadence/common"
	"github.com/onflow/cadence/parser"
	"github.com/onflow/cadence/sema"

	"verifharness/host"
	"verifharness/util"
)

type litCase struct {
	ty     string
	text   string   // literal source text including the sign
	accept bool     // specified: the program is accepted
	valid  bool     // specified: the literal is well-formed
	want   *big.Int // scaled value when accepted
	why    string
	kind   string // int | fixed
	base   int
}

type litFail struct {
	Kind    string `json:"kind"` // int | fixed | string | character
	Ty      string `json:"ty"`
	Class   string `json:"class"`
	Dev     string `json:"dev"`   // accepts-specified-reject | rejects-specified-accept | wrong-value | internal
	Why     string `json:"why"`   // the specification's reason (ok | syntax | scale | range...)
	Shape   string `json:"shape"` // negative-zero | plain
	Base    int    `json:"base"`
	Engine  string `json:"engine"`
	Literal string `json:"literal"`
	Msg     string `json:"msg"`
	Harness bool   `json:"harness,omitempty"`
}

// checkProgram parses and checks; returns "" when accepted, else a short description of the errors
func checkProgram(code string) (errKinds string, internal bool) {
	defer func() {
		if r := recover(); r != nil {
			errKinds = fmt.Sprintf("panic: %v", r)
			internal = true
		}
	}()
	prog, perr := parser.ParseProgram(nil, []byte(code), parser.Config{})
	if perr != nil {
		return "parse: " + firstLine(perr), false
	}
	checker, cerr := sema.NewChecker(prog, common.ScriptLocation{2}, nil, &sema.Config{
		AccessCheckMode:            sema.AccessCheckModeStrict,
		BaseValueActivationHandler: baseActivation,
	})
	if cerr != nil {
		return "checker: " + cerr.Error(), true
	}
	if err := checker.Check(); err != nil {
		var names []string
		if ce, ok := err.(*sema.CheckerError); ok {
			for _, e := range ce.Errors {
				names = append(names, fmt.Sprintf("%T", e))
			}
		} else {
			names = append(names, fmt.Sprintf("%T", err))
		}
		return "check: " + strings.Join(names, ","), false
	}
	return "", false
}

func join(raw json.RawMessage) (string, bool) { return chars(raw) }

func literalsMain(args []string) {
	if len(args) < 2 {
		util.Die("usage: text literals <out.ndjson> <table>...")
	}
	out := util.NewOut(args[0])
	defer out.Close()
	harness := func(msg string) { out.Write(litFail{Harness: true, Msg: msg}) }
	var cases []litCase
	type strCase struct {
		src   string
		valid bool
		cps   []int
		asCh  bool
		why   string
	}
	var strs []strCase
	rows := 0
	intTypes, fixTypes := []string{}, []string{}
	for _, t := range numTypes {
		if t.Fixed {
			fixTypes = append(fixTypes, t.Name)
		} else {
			intTypes = append(intTypes, t.Name)
		}
	}
	baseOfPrefix := map[string]int{"": 10, "0b": 2, "0o": 8, "0x": 16}
	for _, path := range args[1:] {
		n := 0
		err := readRows(path, func(raw []byte) {
			var p []json.RawMessage
			if json.Unmarshal(raw, &p) != nil || len(p) < 4 {
				harness("cannot parse row " + string(raw[:min(len(raw), 200)]))
				return
			}
			var tag string
			_ = json.Unmarshal(p[0], &tag)
			n++
			rows++
			switch tag {
			case "I":
				prefix, ok1 := join(p[1])
				body, ok2 := join(p[2])
				var valid bool
				var d []int
				var rejPos, rejNeg []string
				if !ok1 || !ok2 || json.Unmarshal(p[3], &valid) != nil || json.Unmarshal(p[4], &d) != nil ||
					json.Unmarshal(p[5], &rejPos) != nil || json.Unmarshal(p[6], &rejNeg) != nil {
					harness("cannot parse I row")
					return
				}
				rp, rn := map[string]bool{}, map[string]bool{}
				for _, t := range rejPos {
					rp[t] = true
				}
				for _, t := range rejNeg {
					rn[t] = true
				}
				for _, t := range intTypes {
					for _, neg := range []bool{false, true} {
						rej := rp[t]
						sign := ""
						if neg {
							rej = rn[t]
							sign = "-"
						}
						c := litCase{ty: t, text: sign + prefix + body, valid: valid, accept: valid && !rej, kind: "int", base: baseOfPrefix[prefix]}
						c.why = "ok"
						if !valid {
							c.why = "syntax"
						} else if rej {
							c.why = "range"
						} else {
							c.want = digitsBig(neg, d)
						}
						cases = append(cases, c)
					}
				}
			case "F":
				ip, ok1 := join(p[1])
				fp, ok2 := join(p[2])
				var valid bool
				var res map[string][2]struct {
					A bool
					D []int
					W string
				}
				if !ok1 || !ok2 || json.Unmarshal(p[3], &valid) != nil || json.Unmarshal(p[4], &res) != nil {
					harness("cannot parse F row")
					return
				}
				for _, t := range fixTypes {
					for k, neg := range []bool{false, true} {
						r := res[t][k]
						sign := ""
						if neg {
							sign = "-"
						}
						c := litCase{ty: t, text: sign + ip + "." + fp, valid: valid, accept: r.A, why: r.W, kind: "fixed", base: 10}
						if r.A {
							c.want = digitsBig(neg, r.D)
						}
						cases = append(cases, c)
					}
				}
			case "IP":
				var t string
				var neg, valid, accept bool
				var d []int
				prefix, ok1 := join(p[3])
				body, ok2 := join(p[4])
				if !ok1 || !ok2 || json.Unmarshal(p[1], &t) != nil || json.Unmarshal(p[2], &neg) != nil || json.Unmarshal(p[5], &valid) != nil ||
					json.Unmarshal(p[6], &accept) != nil || json.Unmarshal(p[7], &d) != nil {
					harness("cannot parse IP row")
					return
				}
				sign := ""
				if neg {
					sign = "-"
				}
				c := litCase{ty: t, text: sign + prefix + body, valid: valid, accept: accept, kind: "int", base: baseOfPrefix[prefix], why: "ok"}
				if !valid {
					c.why = "syntax"
				} else if !accept {
					c.why = "range"
				} else {
					c.want = digitsBig(neg, d)
				}
				cases = append(cases, c)
			case "FP":
				var t, why string
				var neg, valid, accept bool
				var d []int
				ip, ok1 := join(p[3])
				fp, ok2 := join(p[4])
				if !ok1 || !ok2 || json.Unmarshal(p[1], &t) != nil || json.Unmarshal(p[2], &neg) != nil || json.Unmarshal(p[5], &valid) != nil ||
					json.Unmarshal(p[6], &accept) != nil || json.Unmarshal(p[7], &d) != nil || json.Unmarshal(p[8], &why) != nil {
					harness("cannot parse FP row")
					return
				}
				sign := ""
				if neg {
					sign = "-"
				}
				c := litCase{ty: t, text: sign + ip + "." + fp, valid: valid, accept: accept, kind: "fixed", base: 10, why: why}
				if accept {
					c.want = digitsBig(neg, d)
				}
				cases = append(cases, c)
			case "S":
				var toks []map[string]json.RawMessage
				var valid, asCh bool
				var cps []int
				if json.Unmarshal(p[1], &toks) != nil || json.Unmarshal(p[2], &valid) != nil || json.Unmarshal(p[3], &cps) != nil || json.Unmarshal(p[4], &asCh) != nil {
					harness("cannot parse S row")
					return
				}
				var sb strings.Builder
				for _, t := range toks {
					switch {
					case t["c"] != nil:
						var cp int
						_ = json.Unmarshal(t["c"], &cp)
						sb.WriteRune(rune(cp))
					case t["e"] != nil:
						var l string
						_ = json.Unmarshal(t["e"], &l)
						sb.WriteString("\\" + l)
					case t["u"] != nil:
						h, _ := chars(t["u"])
						sb.WriteString("\\u{" + h + "}")
					}
				}
				var why string
				if len(p) >= 6 {
					_ = json.Unmarshal(p[5], &why)
				}
				strs = append(strs, strCase{src: sb.String(), valid: valid, cps: cps, asCh: asCh, why: why})
			default:
				harness("unknown row tag " + tag)
			}
		})
		if err != nil {
			util.Die("reading %s: %v", path, err)
		}
		if n == 0 {
			util.Die("no rows in %s", path)
		}
	}

	// ---- 1. parser + checker on every (literal, type)
	accepted := make([]bool, len(cases))
	var mu sync.Mutex
	checks := 0
	toleratedIllFormed := 0
	util.Parallel((len(cases)+511)/512, runtime.NumCPU(), func(ci int) {
		lo, hi := ci*512, min(ci*512+512, len(cases))
		for i := lo; i < hi; i++ {
			c := &cases[i]
			code := fmt.Sprintf("access(all) fun main(): %s { let x: %s = %s\n return x }", c.ty, c.ty, c.text)
			errs, internal := checkProgram(code)
			accepted[i] = errs == ""
			t := numTypeByName(c.ty)
			f := litFail{Kind: c.kind, Ty: c.ty, Class: t.class(), Why: c.why, Base: c.base, Engine: "checker", Literal: c.text, Shape: "plain"}
			if strings.HasPrefix(c.text, "-") && c.want != nil && c.want.Sign() == 0 {
				f.Shape = "negative-zero"
			}
			switch {
			case internal:
				f.Dev, f.Msg = "internal", errs
				out.Write(f)
			case !c.valid:
				// not a literal of the grammar: outside the property's domain (the quantifier ranges over literals generated
				// from the literal grammar); whether the lexer tolerates it is recorded but not judged
				if errs == "" {
					mu.Lock()
					toleratedIllFormed++
					mu.Unlock()
				}
			case errs == "" && !c.accept:
				f.Dev = "accepts-specified-reject"
				f.Msg = fmt.Sprintf("`let x: %s = %s` is accepted; specified: rejected (%s)", c.ty, c.text, c.why)
				out.Write(f)
			case errs != "" && c.accept:
				f.Dev = "rejects-specified-accept"
				f.Msg = fmt.Sprintf("`let x: %s = %s` is rejected (%s); specified: accepted with scaled value %s", c.ty, c.text, errs, c.want)
				out.Write(f)
			}
		}
		mu.Lock()
		checks += hi - lo
		mu.Unlock()
	})

	// ---- 2. values of the accepted literals through scripts, both engines, batched per type
	byType := map[string][]int{}
	for i := range cases {
		if accepted[i] {
			byType[cases[i].ty] = append(byType[cases[i].ty], i)
		}
	}
	type batch struct {
		ty  string
		idx []int
	}
	var batches []batch
	tys := make([]string, 0, len(byType))
	for t := range byType {
		tys = append(tys, t)
	}
	sort.Strings(tys)
	for _, t := range tys {
		idx := byType[t]
		for i := 0; i < len(idx); i += 400 {
			batches = append(batches, batch{t, idx[i:min(i+400, len(idx))]})
		}
	}
	values := 0
	distinct := map[string]bool{}
	util.Parallel(len(batches), runtime.NumCPU(), func(bi int) {
		b := batches[bi]
		w := host.NewWorld()
		var sb strings.Builder
		fmt.Fprintf(&sb, "access(all) fun main(): [%s] {\n let r: [%s] = []\n", b.ty, b.ty)
		for k, i := range b.idx {
			fmt.Fprintf(&sb, " let x%d: %s = %s\n r.append(x%d)\n", k, b.ty, cases[i].text, k)
		}
		sb.WriteString(" return r\n}")
		for _, vm := range []bool{false, true} {
			eng := "interp"
			if vm {
				eng = "vm"
			}
			r := w.Script(sb.String(), vm)
			if r.Class != "ok" {
				t := numTypeByName(b.ty)
				dev := "internal"
				if !host.IsInternal(r.Class) {
					dev = "execution-error"
				}
				out.Write(litFail{Kind: cases[b.idx[0]].kind, Ty: b.ty, Class: t.class(), Dev: dev, Engine: eng, Literal: cases[b.idx[0]].text + " ...",
					Msg: "script of accepted literals failed: " + r.Class + ": " + firstLine(r.Err)})
				continue
			}
			arr, ok := r.Value.(cadence.Array)
			if !ok || len(arr.Values) != len(b.idx) {
				out.Write(litFail{Harness: true, Msg: "unexpected script result"})
				continue
			}
			mu.Lock()
			values += len(b.idx)
			mu.Unlock()
			for k, i := range b.idx {
				c := &cases[i]
				if c.want == nil {
					continue // acceptance disagreement already reported
				}
				got, ok := numBig(arr.Values[k])
				if !ok {
					out.Write(litFail{Harness: true, Msg: "not a number: " + arr.Values[k].String()})
					continue
				}
				if got.Cmp(c.want) != 0 {
					t := numTypeByName(c.ty)
					out.Write(litFail{Kind: c.kind, Ty: c.ty, Class: t.class(), Why: c.why, Base: c.base, Dev: "wrong-value", Engine: eng, Literal: c.text,
						Msg: fmt.Sprintf("`let x: %s = %s` evaluates to %s (scaled %s); specified scaled value %s", c.ty, c.text, arr.Values[k], got, c.want)})
				}
			}
		}
	})
	nontrivial := 0
	for i := range cases {
		c := &cases[i]
		k := c.ty + "|" + c.text
		if !distinct[k] {
			distinct[k] = true
			// non-trivial: a well-formed literal (range/scale/value decide) or a literal that is ill-formed only by an underscore or digit rule
			if c.valid || strings.ContainsAny(c.text, "0123456789") {
				nontrivial++
			}
		}
	}

	// ---- 3. string and character literals
	strEvals := 0
	for _, sc := range strs {
		ty := "String"
		kind := "string"
		if sc.asCh {
			ty, kind = "Character", "character"
		}
		code := fmt.Sprintf("access(all) fun main(): String { let x: %s = \"%s\"\n return x%s }", ty, sc.src, map[bool]string{true: ".toString()", false: ""}[sc.asCh])
		errs, internal := checkProgram(code)
		strEvals++
		k := kind + "|" + sc.src
		if !distinct[k] {
			distinct[k] = true
			if strings.Contains(sc.src, "\\") {
				nontrivial++
			}
		}
		f := litFail{Kind: kind, Ty: ty, Engine: "checker", Literal: sc.src, Why: sc.why}
		switch {
		case internal:
			f.Dev, f.Msg = "internal", errs
			out.Write(f)
			continue
		case !sc.valid && (sc.why == "empty-unicode-escape" || sc.why == "non-hex-digit" || sc.why == "unknown-escape"):
			// not generated by the grammar's EscapedCharacter rule: not judged
			if errs == "" {
				toleratedIllFormed++
			}
		case errs == "" && !sc.valid:
			f.Dev, f.Msg = "accepts-specified-reject", fmt.Sprintf("string literal \"%s\" is accepted; specified: invalid escape", sc.src)
			out.Write(f)
		case errs != "" && sc.valid:
			f.Dev, f.Msg = "rejects-specified-accept", fmt.Sprintf("string literal \"%s\" is rejected (%s); specified code points %v", sc.src, errs, sc.cps)
			out.Write(f)
		}
		if errs != "" || !sc.valid {
			continue
		}
		w := host.NewWorld()
		for _, vm := range []bool{false, true} {
			eng := "interp"
			if vm {
				eng = "vm"
			}
			r := w.Script(code, vm)
			strEvals++
			if r.Class != "ok" {
				dev := "internal"
				if !host.IsInternal(r.Class) {
					dev = "execution-error"
				}
				out.Write(litFail{Kind: kind, Ty: ty, Dev: dev, Engine: eng, Literal: sc.src, Msg: r.Class + ": " + firstLine(r.Err)})
				continue
			}
			s, _ := r.Value.(cadence.String)
			got := []rune(string(s))
			same := len(got) == len(sc.cps)
			for i := 0; same && i < len(got); i++ {
				same = int(got[i]) == sc.cps[i]
			}
			if !same {
				out.Write(litFail{Kind: kind, Ty: ty, Dev: "wrong-value", Engine: eng, Literal: sc.src,
					Msg: fmt.Sprintf("\"%s\" denotes code points %v; specified %v", sc.src, []int32(got), sc.cps)})
			}
		}
	}
	out.Write(map[string]any{"summary": true, "rows": rows, "cases": len(cases), "checks": checks, "values": values, "string_evals": strEvals,
		"strings": len(strs), "distinct": len(distinct), "nontrivial": nontrivial, "ill_formed_tolerated": toleratedIllFormed})
}
