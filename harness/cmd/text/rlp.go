package main

// C46: table conformance of stdlib/rlp.DecodeString / DecodeList and of the Cadence-level
// RLP.decodeString / RLP.decodeList (scripts, interpreter and VM) against rows evaluated by
// TLC from spec/text/Rlp.tla.
//
// Row: [input, S, L, D, [whyS, clsS, whyL, clsL]?]  with S = 0 | {"v":[bytes]},
// L = 0 | {"v":[[bytes]...]}, D = 0 | {"t": item tree} (tree = {"s":[bytes]} | {"l":[trees]}).
//
//	text rlp <out.ndjson> <table>=<cadence mode>...     mode: all | none | <n> (about one row in n, by hash)

import (
	"bytes"
	"encoding/json"
	"fmt"
	"hash/fnv"
	"os"
	"runtime"
	"strconv"
	"strings"
	"sync"
	"sync/atomic"

	"github.com/onflow/cadence"
	cdcjson "github.com/onflow/cadence/encoding/json"
	"github.com/onflow/cadence/stdlib/rlp"

	"verifharness/host"
	"verifharness/util"
)

type rlpTree struct {
	S *[]int     `json:"s"`
	L *[]rlpTree `json:"l"`
}

type rlpFail struct {
	Fn      string `json:"fn"`    // decodeString | decodeList | recursive
	Level   string `json:"level"` // go | interp | vm
	Dev     string `json:"dev"`   // crash | accepts-rejected-input | rejects-canonical-input | wrong-value | non-user-error
	Input   string `json:"input"` // hex
	Len     int    `json:"len"`
	Why     string `json:"why"` // the specification's reason for rejecting ("ok" when it accepts)
	Cls     string `json:"cls"` // class of the declared length
	Msg     string `json:"msg"`
	Harness bool   `json:"harness,omitempty"`
}

type outcome struct {
	kind string // ok | err | crash
	msg  string
	str  []byte
	list [][]byte
}

func goDecodeString(in []byte) (o outcome) {
	defer func() {
		if p := recover(); p != nil {
			o = outcome{kind: "crash", msg: fmt.Sprint(p)}
		}
	}()
	out, n, err := rlp.DecodeString(in, 0)
	if err != nil {
		return outcome{kind: "err", msg: err.Error()}
	}
	if n != len(in) {
		return outcome{kind: "err", msg: "trailing bytes"}
	}
	return outcome{kind: "ok", str: out}
}

func goDecodeList(in []byte) (o outcome) {
	defer func() {
		if p := recover(); p != nil {
			o = outcome{kind: "crash", msg: fmt.Sprint(p)}
		}
	}()
	out, n, err := rlp.DecodeList(in, 0)
	if err != nil {
		return outcome{kind: "err", msg: err.Error()}
	}
	if n != len(in) {
		return outcome{kind: "err", msg: "trailing bytes"}
	}
	return outcome{kind: "ok", list: out}
}

// recursive decoding through the real API only: a string if DecodeString accepts the whole
// input, else a list whose items are decoded the same way.
func goDeep(in []byte, depth int) (t *rlpTree, kind string, msg string) {
	if depth > 64 {
		return nil, "err", "too deep"
	}
	s := goDecodeString(in)
	if s.kind == "crash" {
		return nil, "crash", s.msg
	}
	if s.kind == "ok" {
		v := make([]int, len(s.str))
		for i, x := range s.str {
			v[i] = int(x)
		}
		return &rlpTree{S: &v}, "ok", ""
	}
	l := goDecodeList(in)
	if l.kind != "ok" {
		return nil, l.kind, l.msg
	}
	items := make([]rlpTree, 0, len(l.list))
	for _, it := range l.list {
		c, k, m := goDeep(it, depth+1)
		if k != "ok" {
			return nil, k, m
		}
		items = append(items, *c)
	}
	return &rlpTree{L: &items}, "ok", ""
}

func treeEq(a, b *rlpTree) bool {
	if (a.S != nil) != (b.S != nil) || (a.L != nil) != (b.L != nil) {
		return false
	}
	if a.S != nil {
		if len(*a.S) != len(*b.S) {
			return false
		}
		for i := range *a.S {
			if (*a.S)[i] != (*b.S)[i] {
				return false
			}
		}
		return true
	}
	if a.L == nil || b.L == nil || len(*a.L) != len(*b.L) {
		return false
	}
	for i := range *a.L {
		if !treeEq(&(*a.L)[i], &(*b.L)[i]) {
			return false
		}
	}
	return true
}

const rlpStringScript = `access(all) fun main(b: [UInt8]): [UInt8] { return RLP.decodeString(b) }`
const rlpListScript = `access(all) fun main(b: [UInt8]): [[UInt8]] { return RLP.decodeList(b) }`

func bytesArg(in []byte) []byte {
	vals := make([]cadence.Value, len(in))
	for i, x := range in {
		vals[i] = cadence.UInt8(x)
	}
	arr := cadence.NewArray(vals).WithType(cadence.NewVariableSizedArrayType(cadence.UInt8Type))
	enc, err := cdcjson.Encode(arr)
	if err != nil {
		util.Die("cannot encode argument: %v", err)
	}
	return enc
}

func cadenceBytes(v cadence.Value) ([]byte, bool) {
	arr, ok := v.(cadence.Array)
	if !ok {
		return nil, false
	}
	out := make([]byte, len(arr.Values))
	for i, e := range arr.Values {
		u, ok := e.(cadence.UInt8)
		if !ok {
			return nil, false
		}
		out[i] = byte(u)
	}
	return out, true
}

func cadenceDecode(w *host.World, fn string, in []byte, useVM bool) (o outcome) {
	src := rlpStringScript
	if fn == "decodeList" {
		src = rlpListScript
	}
	r := w.Script(src, useVM, bytesArg(in))
	switch {
	case r.Class == "ok":
		if fn == "decodeString" {
			b, ok := cadenceBytes(r.Value)
			if !ok {
				return outcome{kind: "harness", msg: "unexpected result value " + fmt.Sprint(r.Value)}
			}
			return outcome{kind: "ok", str: b}
		}
		arr, ok := r.Value.(cadence.Array)
		if !ok {
			return outcome{kind: "harness", msg: "unexpected result value " + fmt.Sprint(r.Value)}
		}
		list := make([][]byte, 0, len(arr.Values))
		for _, e := range arr.Values {
			b, ok := cadenceBytes(e)
			if !ok {
				return outcome{kind: "harness", msg: "unexpected result value " + fmt.Sprint(r.Value)}
			}
			list = append(list, b)
		}
		return outcome{kind: "ok", list: list}
	case r.Class == "user:RLPDecodeStringError" || r.Class == "user:RLPDecodeListError":
		return outcome{kind: "err", msg: r.Err.Error()}
	case host.IsInternal(r.Class):
		return outcome{kind: "crash", msg: r.Class + ": " + firstLine(r.Err)}
	case strings.HasPrefix(r.Class, "user:"):
		// a user error, but not the decoder's: the generated script itself is wrong
		return outcome{kind: "harness", msg: r.Class + ": " + firstLine(r.Err)}
	default:
		return outcome{kind: "other", msg: r.Class + ": " + firstLine(r.Err)}
	}
}

func firstLine(err error) string {
	if err == nil {
		return ""
	}
	s := err.Error()
	if i := strings.Index(s, "goroutine "); i > 0 {
		s = s[:i]
	}
	// keep the part that names the Go panic, drop source excerpts
	if i := strings.Index(s, "\n"); i > 0 && !strings.Contains(s[:i], "error") {
		s = strings.ReplaceAll(s, "\n", " | ")
	}
	if len(s) > 400 {
		s = s[:400]
	}
	return strings.ReplaceAll(s, "\n", " | ")
}

type rlpStats struct {
	rows, goEvals, cadEvals, accS, accL, accD, nontrivial int64
}

func rlpMain(args []string) {
	if len(args) < 2 {
		util.Die("usage: text rlp <out.ndjson> <table>=<mode>...")
	}
	out := util.NewOut(args[0])
	defer out.Close()
	var st rlpStats
	var seen sync.Map
	var distinct int64
	whyClasses := sync.Map{}
	nw := runtime.NumCPU()
	type job struct {
		raw  []byte
		mode int // 0 none, 1 all, n>1 one in n
	}
	ch := make(chan job, 4096)
	var wg sync.WaitGroup
	var samples atomic.Int64
	for i := 0; i < nw; i++ {
		wg.Add(1)
		go func() {
			defer wg.Done()
			w := host.NewWorld()
			for j := range ch {
				rlpRow(j.raw, j.mode, w, out, &st, &seen, &distinct, &whyClasses, &samples)
			}
		}()
	}
	for _, a := range args[1:] {
		path, modeS, _ := strings.Cut(a, "=")
		mode := 0
		switch modeS {
		case "all":
			mode = 1
		case "none", "":
			mode = 0
		default:
			n, err := strconv.Atoi(modeS)
			if err != nil || n < 1 {
				util.Die("bad mode %q", modeS)
			}
			mode = n
		}
		n := 0
		err := readRows(path, func(raw []byte) {
			n++
			ch <- job{raw, mode}
		})
		if err != nil {
			util.Die("reading %s: %v", path, err)
		}
		if n == 0 {
			util.Die("no rows in %s", path)
		}
	}
	close(ch)
	wg.Wait()
	nwhy := 0
	whyClasses.Range(func(k, v any) bool { nwhy++; return true })
	out.Write(map[string]any{"summary": true, "rows": st.rows, "distinct_inputs": distinct, "go_evals": st.goEvals,
		"cadence_evals": st.cadEvals, "accepted_string": st.accS, "accepted_list": st.accL, "accepted_deep": st.accD,
		"nontrivial": st.nontrivial, "reason_classes": nwhy})
}

func rlpRow(raw []byte, mode int, w *host.World, out *util.Out, st *rlpStats, seen *sync.Map, distinct *int64,
	whyClasses *sync.Map, samples *atomic.Int64) {
	var parts []json.RawMessage
	if err := json.Unmarshal(raw, &parts); err != nil || len(parts) < 4 {
		out.Write(rlpFail{Harness: true, Msg: "cannot parse row: " + string(raw[:min(len(raw), 200)])})
		return
	}
	var bi []int
	if err := json.Unmarshal(parts[0], &bi); err != nil {
		out.Write(rlpFail{Harness: true, Msg: "cannot parse input: " + string(parts[0])})
		return
	}
	in := toBytes(bi)
	why := []string{"", "", "", ""}
	if len(parts) >= 5 {
		_ = json.Unmarshal(parts[4], &why)
	}
	atomic.AddInt64(&st.rows, 1)
	key := string(in)
	if _, dup := seen.LoadOrStore(key, true); !dup {
		atomic.AddInt64(distinct, 1)
		// non-trivial: the first byte is a string/list header that has to be interpreted
		// against the rest of the input
		if len(in) >= 2 && in[0] >= 0x80 {
			atomic.AddInt64(&st.nontrivial, 1)
		}
	}
	whyClasses.Store(why[0]+"/"+why[1]+"/"+why[2]+"/"+why[3], true)

	var expS struct{ V *[]int }
	var expL struct{ V *[][]int }
	var expD struct{ T *rlpTree }
	sOK := string(parts[1]) != "0"
	lOK := string(parts[2]) != "0"
	dOK := string(parts[3]) != "0"
	if sOK {
		if err := json.Unmarshal(parts[1], &expS); err != nil || expS.V == nil {
			out.Write(rlpFail{Harness: true, Msg: "cannot parse S: " + string(parts[1])})
			return
		}
		atomic.AddInt64(&st.accS, 1)
	}
	if lOK {
		if err := json.Unmarshal(parts[2], &expL); err != nil || expL.V == nil {
			out.Write(rlpFail{Harness: true, Msg: "cannot parse L: " + string(parts[2])})
			return
		}
		atomic.AddInt64(&st.accL, 1)
	}
	if dOK {
		if err := json.Unmarshal(parts[3], &expD); err != nil || expD.T == nil {
			out.Write(rlpFail{Harness: true, Msg: "cannot parse D: " + string(parts[3])})
			return
		}
		atomic.AddInt64(&st.accD, 1)
	}

	fail := func(fn, level, dev, msg string) {
		f := rlpFail{Fn: fn, Level: level, Dev: dev, Input: hexOf(in), Len: len(in), Msg: msg}
		if fn == "decodeList" {
			f.Why, f.Cls = why[2], why[3]
		} else {
			f.Why, f.Cls = why[0], why[1]
		}
		if fn == "recursive" {
			f.Why = "deep"
		}
		if len(f.Input) > 600 {
			f.Input = f.Input[:600] + "..."
		}
		out.Write(f)
	}
	judgeS := func(level string, o outcome) {
		switch {
		case o.kind == "harness":
			out.Write(rlpFail{Harness: true, Fn: "decodeString", Level: level, Input: hexOf(in), Msg: o.msg})
		case o.kind == "crash":
			fail("decodeString", level, "crash", o.msg)
		case o.kind == "other":
			fail("decodeString", level, "non-user-error", o.msg)
		case o.kind == "ok" && !sOK:
			fail("decodeString", level, "accepts-rejected-input", "returned "+hexOf(o.str))
		case o.kind == "err" && sOK:
			fail("decodeString", level, "rejects-canonical-input", o.msg)
		case o.kind == "ok" && !bytes.Equal(o.str, toBytes(*expS.V)):
			fail("decodeString", level, "wrong-value", "returned "+hexOf(o.str)+", specified "+hexOf(toBytes(*expS.V)))
		}
	}
	judgeL := func(level string, o outcome) {
		switch {
		case o.kind == "harness":
			out.Write(rlpFail{Harness: true, Fn: "decodeList", Level: level, Input: hexOf(in), Msg: o.msg})
		case o.kind == "crash":
			fail("decodeList", level, "crash", o.msg)
		case o.kind == "other":
			fail("decodeList", level, "non-user-error", o.msg)
		case o.kind == "ok" && !lOK:
			fail("decodeList", level, "accepts-rejected-input", fmt.Sprintf("returned %d items", len(o.list)))
		case o.kind == "err" && lOK:
			fail("decodeList", level, "rejects-canonical-input", o.msg)
		case o.kind == "ok":
			same := len(o.list) == len(*expL.V)
			for i := 0; same && i < len(o.list); i++ {
				same = bytes.Equal(o.list[i], toBytes((*expL.V)[i]))
			}
			if !same {
				fail("decodeList", level, "wrong-value", fmt.Sprintf("returned %x", o.list))
			}
		}
	}

	judgeS("go", goDecodeString(in))
	judgeL("go", goDecodeList(in))
	t, k, m := goDeep(in, 0)
	switch {
	case k == "crash":
		// already reported by the one-level calls unless it happens on an inner item
		if goDecodeString(in).kind != "crash" && goDecodeList(in).kind != "crash" {
			fail("recursive", "go", "crash", m)
		}
	case k == "ok" && !dOK:
		fail("recursive", "go", "accepts-rejected-input", "recursive decoding through the API accepted a non-canonical encoding")
	case k != "ok" && dOK:
		fail("recursive", "go", "rejects-canonical-input", m)
	case k == "ok" && !treeEq(t, expD.T):
		fail("recursive", "go", "wrong-value", "decoded item tree differs from the specified one")
	}
	atomic.AddInt64(&st.goEvals, 3)

	doCadence := mode == 1
	if mode > 1 {
		h := fnv.New32a()
		h.Write(in)
		h.Write([]byte(os.Getenv("VERIF_SEED")))
		doCadence = h.Sum32()%uint32(mode) == 0
	}
	if doCadence {
		for _, vm := range []bool{false, true} {
			level := "interp"
			if vm {
				level = "vm"
			}
			judgeS(level, cadenceDecode(w, "decodeString", in, vm))
			judgeL(level, cadenceDecode(w, "decodeList", in, vm))
			atomic.AddInt64(&st.cadEvals, 2)
		}
	}
}
