package main

// C47: behaviours of spec/text/Random.tla replayed into revertibleRandom<T>(modulo:) through real
// scripts (interpreter and VM) with a scripted, finite random source.
//
// Row: [ty, M (big-endian bytes, the type's size), stream (bytes; zeros follow), res, reads, val, nomod]
//   res = "ok" | "error:zero-modulo";  reads = sizes of the requests to the source;  val = big-endian result.
//
// Many rows are executed by one script: the script logs before every call, and the host uses the
// log callback to switch the source to the next row's stream, so every call sees exactly its row's
// stream and the requests it makes are recorded per row.
//
//	text random <out.ndjson> <table>...

import (
	"encoding/json"
	"fmt"
	"math/big"
	"runtime"
	"strings"
	"sync"
	"sync/atomic"

	"github.com/onflow/cadence"
	cdcjson "github.com/onflow/cadence/encoding/json"

	"verifharness/host"
	"verifharness/util"
)

type rndRow struct {
	Ty     string
	M      []byte
	Stream []byte
	Res    string
	Reads  []int
	Val    []byte
	NoMod  bool
}

type rndFail struct {
	Ty      string `json:"ty"`
	Engine  string `json:"engine"`
	Dev     string `json:"dev"` // draws | draw-size | result | out-of-range | zero-modulo | internal
	Modulo  string `json:"modulo"`
	Stream  string `json:"stream"`
	Msg     string `json:"msg"`
	NoMod   bool   `json:"nomod"`
	Harness bool   `json:"harness,omitempty"`
}

var rndSizes = map[string]int{"UInt8": 1, "UInt16": 2, "UInt32": 4, "UInt64": 8, "UInt128": 16, "UInt256": 32,
	"Word8": 1, "Word16": 2, "Word32": 4, "Word64": 8, "Word128": 16, "Word256": 32}

// the model is parameterised by the size only: rows labelled with the UInt type are also run on the Word type
var rndSibling = map[string]string{"UInt8": "Word8", "UInt16": "Word16"}

func mkUnsigned(ty string, b []byte) cadence.Value {
	n := new(big.Int).SetBytes(b)
	var v cadence.Value
	var err error
	switch ty {
	case "UInt8":
		v = cadence.NewUInt8(uint8(n.Uint64()))
	case "UInt16":
		v = cadence.NewUInt16(uint16(n.Uint64()))
	case "UInt32":
		v = cadence.NewUInt32(uint32(n.Uint64()))
	case "UInt64":
		v = cadence.NewUInt64(n.Uint64())
	case "UInt128":
		v, err = cadence.NewUInt128FromBig(n)
	case "UInt256":
		v, err = cadence.NewUInt256FromBig(n)
	case "Word8":
		v = cadence.NewWord8(uint8(n.Uint64()))
	case "Word16":
		v = cadence.NewWord16(uint16(n.Uint64()))
	case "Word32":
		v = cadence.NewWord32(uint32(n.Uint64()))
	case "Word64":
		v = cadence.NewWord64(n.Uint64())
	case "Word128":
		v, err = cadence.NewWord128FromBig(n)
	case "Word256":
		v, err = cadence.NewWord256FromBig(n)
	default:
		util.Die("unknown type %s", ty)
	}
	if err != nil {
		util.Die("cannot build %s from %x: %v", ty, b, err)
	}
	return v
}

func cadenceType(ty string) cadence.Type {
	switch ty {
	case "UInt8":
		return cadence.UInt8Type
	case "UInt16":
		return cadence.UInt16Type
	case "UInt32":
		return cadence.UInt32Type
	case "UInt64":
		return cadence.UInt64Type
	case "UInt128":
		return cadence.UInt128Type
	case "UInt256":
		return cadence.UInt256Type
	case "Word8":
		return cadence.Word8Type
	case "Word16":
		return cadence.Word16Type
	case "Word32":
		return cadence.Word32Type
	case "Word64":
		return cadence.Word64Type
	case "Word128":
		return cadence.Word128Type
	case "Word256":
		return cadence.Word256Type
	}
	util.Die("unknown type %s", ty)
	return nil
}

func unsignedBig(v cadence.Value) (*big.Int, bool) {
	switch x := v.(type) {
	case cadence.UInt8:
		return big.NewInt(int64(x)), true
	case cadence.UInt16:
		return big.NewInt(int64(x)), true
	case cadence.UInt32:
		return big.NewInt(int64(x)), true
	case cadence.UInt64:
		return new(big.Int).SetUint64(uint64(x)), true
	case cadence.UInt128:
		return x.Big(), true
	case cadence.UInt256:
		return x.Big(), true
	case cadence.Word8:
		return big.NewInt(int64(x)), true
	case cadence.Word16:
		return big.NewInt(int64(x)), true
	case cadence.Word32:
		return big.NewInt(int64(x)), true
	case cadence.Word64:
		return new(big.Int).SetUint64(uint64(x)), true
	case cadence.Word128:
		return x.Big(), true
	case cadence.Word256:
		return x.Big(), true
	}
	return nil, false
}

// scripted source: one stream per call, switched by the log callback
type rndSource struct {
	rows  []*rndRow
	cur   int
	pos   int
	reads [][]int
}

func (s *rndSource) next() { s.cur++; s.pos = 0 }
func (s *rndSource) read(buf []byte) {
	if s.cur < 0 || s.cur >= len(s.rows) {
		for i := range buf {
			buf[i] = 0
		}
		return
	}
	s.reads[s.cur] = append(s.reads[s.cur], len(buf))
	st := s.rows[s.cur].Stream
	for i := range buf {
		if s.pos < len(st) {
			buf[i] = st[s.pos]
		} else {
			buf[i] = 0
		}
		s.pos++
	}
}

func rndScript(ty string, nomod bool) string {
	if nomod {
		return fmt.Sprintf(`access(all) fun main(n: Int): [%[1]s] {
  let r: [%[1]s] = []
  var i = 0
  while i < n { log("next"); r.append(revertibleRandom<%[1]s>()); i = i + 1 }
  return r
}`, ty)
	}
	return fmt.Sprintf(`access(all) fun main(ms: [%[1]s]): [%[1]s] {
  let r: [%[1]s] = []
  for m in ms { log("next"); r.append(revertibleRandom<%[1]s>(modulo: m)) }
  return r
}`, ty)
}

type rndStats struct {
	rows, execs, calls, rejectedDraws, scripts int64
}

func randomMain(args []string) {
	if len(args) < 2 {
		util.Die("usage: text random <out.ndjson> <table>...")
	}
	out := util.NewOut(args[0])
	defer out.Close()
	groups := map[string][]*rndRow{} // ty|nomod|res
	var nrows int64
	distinct := map[string]bool{}
	nontrivial := 0
	for _, path := range args[1:] {
		n := 0
		err := readRows(path, func(raw []byte) {
			var p []json.RawMessage
			if err := json.Unmarshal(raw, &p); err != nil || len(p) != 7 {
				out.Write(rndFail{Harness: true, Msg: "cannot parse row " + string(raw[:min(len(raw), 200)])})
				return
			}
			var r rndRow
			var m, st, val []int
			e1 := json.Unmarshal(p[0], &r.Ty)
			e2 := json.Unmarshal(p[1], &m)
			e3 := json.Unmarshal(p[2], &st)
			e4 := json.Unmarshal(p[3], &r.Res)
			e5 := json.Unmarshal(p[4], &r.Reads)
			e6 := json.Unmarshal(p[5], &val)
			e7 := json.Unmarshal(p[6], &r.NoMod)
			for _, e := range []error{e1, e2, e3, e4, e5, e6, e7} {
				if e != nil {
					out.Write(rndFail{Harness: true, Msg: "cannot parse row " + string(raw[:min(len(raw), 200)])})
					return
				}
			}
			r.M, r.Stream, r.Val = toBytes(m), toBytes(st), toBytes(val)
			if _, ok := rndSizes[r.Ty]; !ok {
				out.Write(rndFail{Harness: true, Msg: "unknown type " + r.Ty})
				return
			}
			n++
			tys := []string{r.Ty}
			if sib, ok := rndSibling[r.Ty]; ok {
				tys = append(tys, sib)
			}
			for _, ty := range tys {
				rr := r
				rr.Ty = ty
				k := fmt.Sprintf("%s|%v|%s", ty, r.NoMod, r.Res)
				groups[k] = append(groups[k], &rr)
				nrows++
				// distinct (type, modulus, consumed part of the stream); non-trivial when a draw was rejected
				// or the draw had bits above the mask, i.e. the masking / rejection logic decided the outcome
				used := 0
				for _, x := range r.Reads {
					used += x
				}
				if used > len(r.Stream) {
					used = len(r.Stream)
				}
				dk := ty + "|" + string(r.M) + "|" + string(r.Stream[:used]) + fmt.Sprint(r.NoMod)
				if !distinct[dk] {
					distinct[dk] = true
					if len(r.Reads) > 1 || (len(r.Reads) == 1 && r.Reads[0] > 0 && !r.NoMod &&
						new(big.Int).SetBytes(r.Stream[:used]).Cmp(new(big.Int).SetBytes(r.Val)) != 0) {
						nontrivial++
					}
				}
			}
		})
		if err != nil {
			util.Die("reading %s: %v", path, err)
		}
		if n == 0 {
			util.Die("no rows in %s", path)
		}
	}

	type chunk struct {
		ty    string
		nomod bool
		res   string
		rows  []*rndRow
	}
	var chunks []chunk
	for k, rows := range groups {
		parts := strings.Split(k, "|")
		size := 2048
		if parts[2] != "ok" {
			size = 1 // an error ends the script: one row per script
		}
		for i := 0; i < len(rows); i += size {
			chunks = append(chunks, chunk{parts[0], parts[1] == "true", parts[2], rows[i:min(i+size, len(rows))]})
		}
	}
	var st rndStats
	st.rows = nrows
	var mu sync.Mutex
	_ = mu
	util.Parallel(len(chunks), runtime.NumCPU(), func(ci int) {
		c := chunks[ci]
		for _, vm := range []bool{false, true} {
			engine := "interp"
			if vm {
				engine = "vm"
			}
			w := host.NewWorld()
			src := &rndSource{rows: c.rows, cur: -1, reads: make([][]int, len(c.rows))}
			w.Random = src.read
			w.RI.OnProgramLog = func(string) { src.next() }
			var arg []byte
			var err error
			if c.nomod {
				arg, err = cdcjson.Encode(cadence.NewInt(len(c.rows)))
			} else {
				vals := make([]cadence.Value, len(c.rows))
				for i, r := range c.rows {
					vals[i] = mkUnsigned(c.ty, r.M)
				}
				arg, err = cdcjson.Encode(cadence.NewArray(vals).WithType(cadence.NewVariableSizedArrayType(cadenceType(c.ty))))
			}
			if err != nil {
				util.Die("encode: %v", err)
			}
			res := w.Script(rndScript(c.ty, c.nomod), vm, arg)
			atomic.AddInt64(&st.scripts, 1)
			atomic.AddInt64(&st.execs, int64(len(c.rows)))
			fail := func(r *rndRow, dev, msg string) {
				out.Write(rndFail{Ty: c.ty, Engine: engine, Dev: dev, Modulo: new(big.Int).SetBytes(r.M).String(),
					Stream: hexOf(r.Stream), Msg: msg, NoMod: r.NoMod})
			}
			if c.res != "ok" {
				r := c.rows[0]
				switch {
				case res.Class == "ok":
					fail(r, "zero-modulo", "zero modulo returned "+fmt.Sprint(res.Value))
				case host.IsInternal(res.Class):
					fail(r, "internal", res.Class+": "+firstLine(res.Err))
				case !strings.HasPrefix(res.Class, "user:") || !strings.Contains(res.Err.Error(), "modulo argument cannot be zero"):
					fail(r, "zero-modulo", "expected the zero-modulo user error, got "+res.Class+": "+firstLine(res.Err))
				case len(src.reads[0]) != 0:
					fail(r, "draws", fmt.Sprintf("zero modulo requested random bytes %v", src.reads[0]))
				}
				continue
			}
			if res.Class != "ok" {
				// find the row at which the script stopped
				idx := min(max(src.cur, 0), len(c.rows)-1)
				dev := "internal"
				if !host.IsInternal(res.Class) {
					dev = "unexpected-error"
				}
				fail(c.rows[idx], dev, res.Class+": "+firstLine(res.Err))
				continue
			}
			arr, ok := res.Value.(cadence.Array)
			if !ok || len(arr.Values) != len(c.rows) {
				out.Write(rndFail{Harness: true, Msg: "unexpected script result " + fmt.Sprint(res.Value)[:200]})
				continue
			}
			for i, r := range c.rows {
				got, ok := unsignedBig(arr.Values[i])
				if !ok {
					out.Write(rndFail{Harness: true, Msg: "unexpected element " + fmt.Sprint(arr.Values[i])})
					break
				}
				want := new(big.Int).SetBytes(r.Val)
				reads := src.reads[i]
				atomic.AddInt64(&st.calls, 1)
				atomic.AddInt64(&st.rejectedDraws, int64(len(r.Reads)-1))
				if !r.NoMod && got.Cmp(new(big.Int).SetBytes(r.M)) >= 0 {
					fail(r, "out-of-range", "returned "+got.String())
				}
				switch {
				case len(reads) != len(r.Reads):
					fail(r, "draws", fmt.Sprintf("requests to the source %v, model %v (accept/reject decisions differ); returned %s, model %s",
						reads, r.Reads, got, want))
				case fmt.Sprint(reads) != fmt.Sprint(r.Reads):
					fail(r, "draw-size", fmt.Sprintf("requests to the source %v, model %v; returned %s, model %s", reads, r.Reads, got, want))
				case got.Cmp(want) != 0:
					fail(r, "result", fmt.Sprintf("returned %s, model %s", got, want))
				}
			}
		}
	})
	out.Write(map[string]any{"summary": true, "rows": st.rows, "executions": st.execs * 1, "calls_checked": st.calls,
		"scripts": st.scripts, "rejected_draws": st.rejectedDraws, "distinct": len(distinct), "nontrivial": nontrivial,
		"engines": 2})
}
