package main

// C17: table conformance against spec/text/NumText.tla through real scripts (interpreter and VM).
//
// Rows (printed by MC_NumText):
//   ["E", chars, {si,ui,sf,uf}, out]   enumerated string: per-class result 0 | {n,i,f}; `out` = types whose result is nil anyway
//   ["P", type, chars, result]         result 0 | {n,d}   (d = digits of the scaled magnitude)
//   ["S", type, neg, d, text, bytes]   value -> toString text and toBigEndianBytes (and back)
//   ["B", type, bytes, result, canon]  fromBigEndianBytes and the canonical bytes of the result
//   ["A", bytes8, text]  ["H", bytes, hexchars]  ["Q", domain chars, identifier chars, text]
//
//	text numtext <out.ndjson> <table>...

import (
	"bytes"
	"encoding/json"
	"fmt"
	"math/big"
	"runtime"
	"sort"
	"strings"
	"sync"

	fix "github.com/onflow/fixed-point"

	"github.com/onflow/cadence"
	cdcjson "github.com/onflow/cadence/encoding/json"
	"github.com/onflow/cadence/fixedpoint"

	"verifharness/host"
	"verifharness/util"
)

type numType struct {
	Name   string
	Signed bool
	Fixed  bool
	Bits   int
	Scale  int
}

var numTypes = []numType{
	{"Int8", true, false, 8, 0}, {"Int16", true, false, 16, 0}, {"Int32", true, false, 32, 0}, {"Int64", true, false, 64, 0},
	{"Int128", true, false, 128, 0}, {"Int256", true, false, 256, 0}, {"Int", true, false, 0, 0},
	{"UInt8", false, false, 8, 0}, {"UInt16", false, false, 16, 0}, {"UInt32", false, false, 32, 0}, {"UInt64", false, false, 64, 0},
	{"UInt128", false, false, 128, 0}, {"UInt256", false, false, 256, 0}, {"UInt", false, false, 0, 0},
	{"Word8", false, false, 8, 0}, {"Word16", false, false, 16, 0}, {"Word32", false, false, 32, 0}, {"Word64", false, false, 64, 0},
	{"Word128", false, false, 128, 0}, {"Word256", false, false, 256, 0},
	{"Fix64", true, true, 64, 8}, {"UFix64", false, true, 64, 8}, {"Fix128", true, true, 128, 24}, {"UFix128", false, true, 128, 24},
}

func numTypeByName(n string) *numType {
	for i := range numTypes {
		if numTypes[i].Name == n {
			return &numTypes[i]
		}
	}
	return nil
}

func (t *numType) class() string {
	switch {
	case t.Signed && !t.Fixed:
		return "si"
	case !t.Signed && !t.Fixed:
		return "ui"
	case t.Signed:
		return "sf"
	}
	return "uf"
}

func (t *numType) widthClass() string {
	if t.Bits == 0 {
		return "big"
	}
	if t.Bits <= 64 {
		return "native"
	}
	return "big"
}

// scaled value of a numeric cadence value
func numBig(v cadence.Value) (*big.Int, bool) {
	switch x := v.(type) {
	case cadence.Int:
		return x.Big(), true
	case cadence.Int8:
		return big.NewInt(int64(x)), true
	case cadence.Int16:
		return big.NewInt(int64(x)), true
	case cadence.Int32:
		return big.NewInt(int64(x)), true
	case cadence.Int64:
		return big.NewInt(int64(x)), true
	case cadence.Int128:
		return x.Big(), true
	case cadence.Int256:
		return x.Big(), true
	case cadence.UInt:
		return x.Big(), true
	case cadence.Fix64:
		return big.NewInt(int64(x)), true
	case cadence.UFix64:
		return new(big.Int).SetUint64(uint64(x)), true
	case cadence.Fix128:
		return fixedpoint.Fix128ToBigInt(fix.Fix128(x)), true
	case cadence.UFix128:
		return fixedpoint.UFix128ToBigInt(fix.UFix128(x)), true
	}
	return unsignedBig(v)
}

func mkNum(ty string, n *big.Int) (v cadence.Value, err error) {
	defer func() {
		if r := recover(); r != nil {
			err = fmt.Errorf("%v", r)
		}
	}()
	switch ty {
	case "Int":
		return cadence.NewIntFromBig(n), nil
	case "Int8":
		return cadence.NewInt8(int8(n.Int64())), nil
	case "Int16":
		return cadence.NewInt16(int16(n.Int64())), nil
	case "Int32":
		return cadence.NewInt32(int32(n.Int64())), nil
	case "Int64":
		return cadence.NewInt64(n.Int64()), nil
	case "Int128":
		return cadence.NewInt128FromBig(n)
	case "Int256":
		return cadence.NewInt256FromBig(n)
	case "UInt":
		return cadence.NewUIntFromBig(n)
	case "Fix64":
		return cadence.Fix64(n.Int64()), nil
	case "UFix64":
		return cadence.UFix64(n.Uint64()), nil
	case "Fix128":
		return cadence.Fix128(fixedpoint.Fix128FromBigInt(n)), nil
	case "UFix128":
		return cadence.UFix128(fixedpoint.UFix128FromBigInt(n)), nil
	}
	return mkUnsigned(ty, n.Bytes()), nil
}

func numCadenceType(ty string) cadence.Type {
	switch ty {
	case "Int":
		return cadence.IntType
	case "Int8":
		return cadence.Int8Type
	case "Int16":
		return cadence.Int16Type
	case "Int32":
		return cadence.Int32Type
	case "Int64":
		return cadence.Int64Type
	case "Int128":
		return cadence.Int128Type
	case "Int256":
		return cadence.Int256Type
	case "UInt":
		return cadence.UIntType
	case "Fix64":
		return cadence.Fix64Type
	case "UFix64":
		return cadence.UFix64Type
	case "Fix128":
		return cadence.Fix128Type
	case "UFix128":
		return cadence.UFix128Type
	}
	return cadenceType(ty)
}

func digitsBig(neg bool, d []int) *big.Int {
	n := new(big.Int)
	ten := big.NewInt(10)
	for _, x := range d {
		n.Mul(n, ten).Add(n, big.NewInt(int64(x)))
	}
	if neg {
		n.Neg(n)
	}
	return n
}

type ntFail struct {
	Op      string `json:"op"` // fromString | toString | fromBigEndianBytes | toBigEndianBytes | address | hex | path
	Ty      string `json:"ty"`
	Class   string `json:"class"` // si | ui | sf | uf
	Width   string `json:"width"` // native | big
	Dev     string `json:"dev"`   // accepts-specified-nil | nil-for-specified-value | wrong-value | internal | ...
	Shape   string `json:"shape"` // semantic shape of the input (sign / range situation)
	Engine  string `json:"engine"`
	Input   string `json:"input"`
	Msg     string `json:"msg"`
	Harness bool   `json:"harness,omitempty"`
}

// one expectation for T.fromString(s)
type fsCase struct {
	s     string
	want  *big.Int // nil = nil
	shape string
}
type bytesCase struct {
	b        []byte
	want     *big.Int
	canon    []byte
	alt      *big.Int // second allowed reading (short input for a signed sized type), nil if none
	altCanon []byte
}
type valCase struct {
	v     *big.Int
	text  string
	bytes []byte
}

func chars(raw json.RawMessage) (string, bool) {
	var cs []string
	if json.Unmarshal(raw, &cs) != nil {
		return "", false
	}
	return strings.Join(cs, ""), true
}

// shape of a string w.r.t. the sign rule, used in known-finding signatures
func signShape(s string, accepted bool) string {
	switch {
	case strings.HasPrefix(s, "+"):
		return "leading-plus"
	case strings.HasPrefix(s, "-"):
		body := strings.TrimLeft(s[1:], "0.")
		if body == "" {
			return "negative-zero"
		}
		return "leading-minus"
	}
	return "no-sign"
}

func numtextMain(args []string) {
	if len(args) < 2 {
		util.Die("usage: text numtext <out.ndjson> <table>...")
	}
	out := util.NewOut(args[0])
	defer out.Close()
	fs := map[string][]fsCase{}
	bs := map[string][]bytesCase{}
	vs := map[string][]valCase{}
	type aCase struct {
		b    []byte
		text string
	}
	var addrs, hexes []aCase
	type qCase struct{ dom, id, text string }
	var paths []qCase
	rows := 0
	harness := func(msg string) { out.Write(ntFail{Harness: true, Msg: msg}) }
	for _, path := range args[1:] {
		n := 0
		err := readRows(path, func(raw []byte) {
			var p []json.RawMessage
			if json.Unmarshal(raw, &p) != nil || len(p) < 3 {
				harness("cannot parse row " + string(raw[:min(len(raw), 200)]))
				return
			}
			var tag string
			_ = json.Unmarshal(p[0], &tag)
			n++
			rows++
			switch tag {
			case "E":
				s, ok := chars(p[1])
				var res map[string]json.RawMessage
				var outT []string
				if !ok || json.Unmarshal(p[2], &res) != nil || json.Unmarshal(p[3], &outT) != nil {
					harness("cannot parse E row")
					return
				}
				outSet := map[string]bool{}
				for _, t := range outT {
					outSet[t] = true
				}
				for i := range numTypes {
					t := &numTypes[i]
					r := res[t.class()]
					c := fsCase{s: s}
					if string(r) != "0" && !outSet[t.Name] {
						var pr struct {
							N    bool
							I, F []int
						}
						if json.Unmarshal(r, &pr) != nil {
							harness("cannot parse E result")
							return
						}
						d := append(append([]int{}, pr.I...), pr.F...)
						for k := len(pr.F); k < t.Scale; k++ {
							d = append(d, 0)
						}
						c.want = digitsBig(pr.N, d)
					}
					if string(r) == "0" {
						c.shape = "syntax:" + signShape(s, false)
					} else if outSet[t.Name] {
						c.shape = "out-of-range-or-scale"
					} else {
						c.shape = "accepted"
					}
					fs[t.Name] = append(fs[t.Name], c)
				}
			case "P":
				var ty string
				s, ok := chars(p[2])
				if !ok || json.Unmarshal(p[1], &ty) != nil || numTypeByName(ty) == nil {
					harness("cannot parse P row")
					return
				}
				var why string
				if len(p) >= 5 {
					_ = json.Unmarshal(p[4], &why)
				}
				c := fsCase{s: s, shape: why}
				if why == "syntax" {
					c.shape = "syntax:" + signShape(s, false)
				}
				if string(p[3]) != "0" {
					var r struct {
						N bool
						D []int
					}
					if json.Unmarshal(p[3], &r) != nil {
						harness("cannot parse P result")
						return
					}
					c.want = digitsBig(r.N, r.D)
				}
				fs[ty] = append(fs[ty], c)
			case "S":
				var ty string
				var neg bool
				var d, bb []int
				text, ok := chars(p[4])
				if !ok || len(p) != 6 || json.Unmarshal(p[1], &ty) != nil || json.Unmarshal(p[2], &neg) != nil ||
					json.Unmarshal(p[3], &d) != nil || json.Unmarshal(p[5], &bb) != nil || numTypeByName(ty) == nil {
					harness("cannot parse S row")
					return
				}
				v := digitsBig(neg, d)
				vs[ty] = append(vs[ty], valCase{v: v, text: text, bytes: toBytes(bb)})
				fs[ty] = append(fs[ty], fsCase{s: text, want: v, shape: "toString-image"})
				bs[ty] = append(bs[ty], bytesCase{b: toBytes(bb), want: v, canon: toBytes(bb)})
			case "B":
				var ty string
				var b []int
				if len(p) < 5 || json.Unmarshal(p[1], &ty) != nil || json.Unmarshal(p[2], &b) != nil || numTypeByName(ty) == nil {
					harness("cannot parse B row")
					return
				}
				c := bytesCase{b: toBytes(b)}
				if string(p[3]) != "0" {
					var r struct {
						N bool
						D []int
					}
					var canon []int
					if json.Unmarshal(p[3], &r) != nil || json.Unmarshal(p[4], &canon) != nil {
						harness("cannot parse B result")
						return
					}
					c.want = digitsBig(r.N, r.D)
					c.canon = toBytes(canon)
					if len(p) >= 7 && string(p[5]) != "0" {
						var r2 struct {
							N bool
							D []int
						}
						var canon2 []int
						if json.Unmarshal(p[5], &r2) != nil || json.Unmarshal(p[6], &canon2) != nil {
							harness("cannot parse B alternative")
							return
						}
						if a := digitsBig(r2.N, r2.D); a.Cmp(c.want) != 0 {
							c.alt, c.altCanon = a, toBytes(canon2)
						}
					}
				}
				bs[ty] = append(bs[ty], c)
			case "A", "H":
				var b []int
				text, ok := chars(p[2])
				if !ok || json.Unmarshal(p[1], &b) != nil {
					harness("cannot parse A/H row")
					return
				}
				if tag == "A" {
					addrs = append(addrs, aCase{toBytes(b), text})
				} else {
					hexes = append(hexes, aCase{toBytes(b), text})
				}
			case "Q":
				dom, ok1 := chars(p[1])
				id, ok2 := chars(p[2])
				text, ok3 := chars(p[3])
				if !ok1 || !ok2 || !ok3 {
					harness("cannot parse Q row")
					return
				}
				paths = append(paths, qCase{dom, id, text})
			default:
				harness("unknown row tag " + tag)
			}
		})
		if err != nil {
			util.Die("reading %s: %v", path, err)
		}
		if n == 0 {
			util.Die("no rows in %s", path)
		}
	}

	var mu sync.Mutex
	evals := 0
	distinct := map[string]bool{}
	nontrivial := 0
	count := func(n int) { mu.Lock(); evals += n; mu.Unlock() }

	type job func(w *host.World)
	var jobs []job
	engines := []bool{false, true}
	engName := func(vm bool) string {
		if vm {
			return "vm"
		}
		return "interp"
	}
	strArrayArg := func(ss []string) []byte {
		vals := make([]cadence.Value, len(ss))
		for i, s := range ss {
			vals[i] = cadence.String(s)
		}
		b, err := cdcjson.Encode(cadence.NewArray(vals).WithType(cadence.NewVariableSizedArrayType(cadence.StringType)))
		if err != nil {
			util.Die("encode: %v", err)
		}
		return b
	}
	bytesArrayArg := func(bb [][]byte) []byte {
		vals := make([]cadence.Value, len(bb))
		bt := cadence.NewVariableSizedArrayType(cadence.UInt8Type)
		for i, b := range bb {
			e := make([]cadence.Value, len(b))
			for j, x := range b {
				e[j] = cadence.UInt8(x)
			}
			vals[i] = cadence.NewArray(e).WithType(bt)
		}
		b, err := cdcjson.Encode(cadence.NewArray(vals).WithType(cadence.NewVariableSizedArrayType(bt)))
		if err != nil {
			util.Die("encode: %v", err)
		}
		return b
	}
	runScript := func(w *host.World, src string, vm bool, arg []byte, n int, what string) ([]cadence.Value, bool) {
		r := w.Script(src, vm, arg)
		if r.Class != "ok" {
			if host.IsInternal(r.Class) {
				out.Write(ntFail{Op: what, Dev: "internal", Engine: engName(vm), Msg: r.Class + ": " + firstLine(r.Err)})
			} else {
				out.Write(ntFail{Harness: true, Op: what, Engine: engName(vm), Msg: "script failed: " + r.Class + ": " + firstLine(r.Err) + "\n" + src})
			}
			return nil, false
		}
		arr, ok := r.Value.(cadence.Array)
		if !ok || len(arr.Values) != n {
			out.Write(ntFail{Harness: true, Op: what, Msg: "unexpected script result"})
			return nil, false
		}
		return arr.Values, true
	}
	const chunk = 4096

	// ---- fromString
	tyNames := make([]string, 0, len(fs))
	for ty := range fs {
		tyNames = append(tyNames, ty)
	}
	sort.Strings(tyNames)
	for _, ty := range tyNames {
		cases := fs[ty]
		t := numTypeByName(ty)
		for _, c := range cases {
			k := "fs|" + ty + "|" + c.s
			if !distinct[k] {
				distinct[k] = true
				// non-trivial: the string is accepted by at least the automaton of the class, or is a sign/point variant of a number
				if c.want != nil || c.shape == "out-of-range-or-scale" || c.shape == "boundary" || strings.ContainsAny(c.s, "0123456789") {
					nontrivial++
				}
			}
		}
		for i := 0; i < len(cases); i += chunk {
			part := cases[i:min(i+chunk, len(cases))]
			ty, t := ty, t
			jobs = append(jobs, func(w *host.World) {
				src := fmt.Sprintf(`access(all) fun main(ss: [String]): [%[1]s?] { let r: [%[1]s?] = []; for s in ss { r.append(%[1]s.fromString(s)) }; return r }`, ty)
				var run func(part []fsCase, vm bool)
				run = func(part []fsCase, vm bool) {
					ss := make([]string, len(part))
					for j, c := range part {
						ss[j] = c.s
					}
					r := w.Script(src, vm, strArrayArg(ss))
					if r.Class != "ok" {
						// a single bad element fails the whole script: bisect down to the offending strings
						if len(part) > 1 {
							run(part[:len(part)/2], vm)
							run(part[len(part)/2:], vm)
							return
						}
						c := part[0]
						count(1)
						out.Write(ntFail{Op: "fromString", Ty: ty, Class: t.class(), Width: t.widthClass(), Engine: engName(vm), Input: c.s, Shape: c.shape,
							Dev: "execution-error", Msg: fmt.Sprintf("script returning %s.fromString(%q) failed: %s: %s", ty, c.s, r.Class, firstLine(r.Err))})
						return
					}
					arr, ok := r.Value.(cadence.Array)
					if !ok || len(arr.Values) != len(part) {
						out.Write(ntFail{Harness: true, Op: "fromString", Msg: "unexpected script result"})
						return
					}
					vals := arr.Values
					count(len(part))
					for j, c := range part {
						opt, ok := vals[j].(cadence.Optional)
						if !ok {
							out.Write(ntFail{Harness: true, Msg: "not an optional"})
							break
						}
						f := ntFail{Op: "fromString", Ty: ty, Class: t.class(), Width: t.widthClass(), Engine: engName(vm), Input: c.s, Shape: c.shape}
						switch {
						case opt.Value == nil && c.want != nil:
							f.Dev = "nil-for-specified-value"
							f.Msg = fmt.Sprintf("%s.fromString(%q) = nil, specified scaled value %s", ty, c.s, c.want)
							out.Write(f)
						case opt.Value != nil:
							got, ok := numBig(opt.Value)
							if !ok {
								out.Write(ntFail{Harness: true, Msg: "not a number: " + opt.Value.String()})
								continue
							}
							if c.want == nil {
								f.Dev = "accepts-specified-nil"
								f.Msg = fmt.Sprintf("%s.fromString(%q) = %s, specified nil (%s)", ty, c.s, opt.Value, c.shape)
								out.Write(f)
							} else if got.Cmp(c.want) != 0 {
								f.Dev = "wrong-value"
								f.Msg = fmt.Sprintf("%s.fromString(%q) = %s (scaled %s), specified scaled value %s", ty, c.s, opt.Value, got, c.want)
								out.Write(f)
							}
						}
					}
				}
				for _, vm := range engines {
					run(part, vm)
				}
			})
		}
	}

	// ---- toString / toBigEndianBytes of given values
	for ty, cases := range vs {
		t := numTypeByName(ty)
		for _, c := range cases {
			k := "v|" + ty + "|" + c.v.String()
			if !distinct[k] {
				distinct[k] = true
				nontrivial++
			}
		}
		for i := 0; i < len(cases); i += chunk {
			part := cases[i:min(i+chunk, len(cases))]
			ty, t := ty, t
			jobs = append(jobs, func(w *host.World) {
				vals := make([]cadence.Value, len(part))
				for j, c := range part {
					v, err := mkNum(ty, c.v)
					if err != nil {
						out.Write(ntFail{Harness: true, Msg: fmt.Sprintf("cannot build %s from %s: %v", ty, c.v, err)})
						return
					}
					vals[j] = v
				}
				arg, err := cdcjson.Encode(cadence.NewArray(vals).WithType(cadence.NewVariableSizedArrayType(numCadenceType(ty))))
				if err != nil {
					util.Die("encode: %v", err)
				}
				src1 := fmt.Sprintf(`access(all) fun main(xs: [%s]): [String] { let r: [String] = []; for x in xs { r.append(x.toString()) }; return r }`, ty)
				src2 := fmt.Sprintf(`access(all) fun main(xs: [%s]): [[UInt8]] { let r: [[UInt8]] = []; for x in xs { r.append(x.toBigEndianBytes()) }; return r }`, ty)
				for _, vm := range engines {
					if res, ok := runScript(w, src1, vm, arg, len(part), "toString"); ok {
						count(len(part))
						for j, c := range part {
							got, _ := res[j].(cadence.String)
							if string(got) != c.text {
								out.Write(ntFail{Op: "toString", Ty: ty, Class: t.class(), Width: t.widthClass(), Engine: engName(vm), Dev: "wrong-text",
									Input: c.v.String(), Msg: fmt.Sprintf("(%s scaled %s).toString() = %q, specified %q", ty, c.v, string(got), c.text)})
							}
						}
					}
					if res, ok := runScript(w, src2, vm, arg, len(part), "toBigEndianBytes"); ok {
						count(len(part))
						for j, c := range part {
							got, ok := cadenceBytes(res[j])
							if !ok || !bytes.Equal(got, c.bytes) {
								out.Write(ntFail{Op: "toBigEndianBytes", Ty: ty, Class: t.class(), Width: t.widthClass(), Engine: engName(vm), Dev: "wrong-bytes",
									Input: c.v.String(), Msg: fmt.Sprintf("(%s scaled %s).toBigEndianBytes() = %x, specified %x", ty, c.v, got, c.bytes)})
							}
						}
					}
				}
			})
		}
	}

	// ---- fromBigEndianBytes (and toBigEndianBytes of the result)
	for ty, cases := range bs {
		t := numTypeByName(ty)
		for _, c := range cases {
			k := "b|" + ty + "|" + string(c.b)
			if !distinct[k] {
				distinct[k] = true
				nontrivial++
			}
		}
		for i := 0; i < len(cases); i += chunk {
			part := cases[i:min(i+chunk, len(cases))]
			ty, t := ty, t
			jobs = append(jobs, func(w *host.World) {
				bb := make([][]byte, len(part))
				for j, c := range part {
					bb[j] = c.b
				}
				arg := bytesArrayArg(bb)
				src1 := fmt.Sprintf(`access(all) fun main(bs: [[UInt8]]): [%[1]s?] { let r: [%[1]s?] = []; for b in bs { r.append(%[1]s.fromBigEndianBytes(b)) }; return r }`, ty)
				src2 := fmt.Sprintf(`access(all) fun main(bs: [[UInt8]]): [[UInt8]?] { let r: [[UInt8]?] = []; for b in bs { r.append(%[1]s.fromBigEndianBytes(b)?.toBigEndianBytes()) }; return r }`, ty)
				for _, vm := range engines {
					if res, ok := runScript(w, src1, vm, arg, len(part), "fromBigEndianBytes"); ok {
						count(len(part))
						for j, c := range part {
							opt, _ := res[j].(cadence.Optional)
							f := ntFail{Op: "fromBigEndianBytes", Ty: ty, Class: t.class(), Width: t.widthClass(), Engine: engName(vm), Input: hexOf(c.b),
								Shape: fmt.Sprintf("len=%d,size=%d", len(c.b), t.Bits/8)}
							switch {
							case opt.Value == nil && c.want != nil:
								f.Dev = "nil-for-specified-value"
								f.Msg = fmt.Sprintf("%s.fromBigEndianBytes(%x) = nil, specified scaled value %s", ty, c.b, c.want)
								out.Write(f)
							case opt.Value != nil:
								got, ok := numBig(opt.Value)
								if !ok {
									out.Write(ntFail{Harness: true, Msg: "not a number: " + opt.Value.String()})
									continue
								}
								if c.want == nil {
									f.Dev = "accepts-specified-nil"
									f.Msg = fmt.Sprintf("%s.fromBigEndianBytes(%x) = %s, specified nil (longer than the type)", ty, c.b, opt.Value)
									out.Write(f)
								} else if got.Cmp(c.want) != 0 && (c.alt == nil || got.Cmp(c.alt) != 0) {
									f.Dev = "wrong-value"
									f.Msg = fmt.Sprintf("%s.fromBigEndianBytes(%x) = %s (scaled %s), specified %s", ty, c.b, opt.Value, got, c.want)
									if c.alt != nil {
										f.Msg += " or " + c.alt.String()
									}
									out.Write(f)
								}
							}
						}
					}
					if res, ok := runScript(w, src2, vm, arg, len(part), "toBigEndianBytes"); ok {
						count(len(part))
						for j, c := range part {
							opt, _ := res[j].(cadence.Optional)
							if c.want == nil || opt.Value == nil {
								continue // nil disagreement already reported above
							}
							got, ok := cadenceBytes(opt.Value)
							if !ok || (!bytes.Equal(got, c.canon) && (c.alt == nil || !bytes.Equal(got, c.altCanon))) {
								out.Write(ntFail{Op: "toBigEndianBytes", Ty: ty, Class: t.class(), Width: t.widthClass(), Engine: engName(vm), Dev: "wrong-bytes",
									Input: hexOf(c.b), Msg: fmt.Sprintf("%s.fromBigEndianBytes(%x)!.toBigEndianBytes() = %x, specified %x", ty, c.b, got, c.canon)})
							}
						}
					}
				}
			})
		}
	}

	// ---- addresses, hex, paths
	if len(addrs) > 0 {
		jobs = append(jobs, func(w *host.World) {
			bb := make([][]byte, len(addrs))
			for j, c := range addrs {
				bb[j] = c.b
			}
			src := `access(all) fun main(bs: [[UInt8]]): [[String]] { let r: [[String]] = []
  for b in bs { let a = Address.fromBytes(b); let s = a.toString()
    r.append([s, Address.fromString(s)?.toString() ?? "nil", String.encodeHex(a.toBytes()), (a == Address.fromString(s)!) ? "eq" : "ne"]) }
  return r }`
			for _, vm := range engines {
				res, ok := runScript(w, src, vm, bytesArrayArg(bb), len(addrs), "address")
				if !ok {
					continue
				}
				count(4 * len(addrs))
				for j, c := range addrs {
					arr, _ := res[j].(cadence.Array)
					got := make([]string, len(arr.Values))
					for k, v := range arr.Values {
						s, _ := v.(cadence.String)
						got[k] = string(s)
					}
					want := []string{c.text, c.text, strings.TrimPrefix(c.text, "0x"), "eq"}
					if fmt.Sprint(got) != fmt.Sprint(want) {
						out.Write(ntFail{Op: "address", Dev: "wrong-text", Engine: engName(vm), Input: hexOf(c.b),
							Msg: fmt.Sprintf("address %x: [toString, fromString(toString), hex(toBytes), equal] = %v, specified %v", c.b, got, want)})
					}
				}
			}
		})
	}
	if len(hexes) > 0 {
		jobs = append(jobs, func(w *host.World) {
			bb := make([][]byte, len(hexes))
			for j, c := range hexes {
				bb[j] = c.b
			}
			src := `access(all) fun main(bs: [[UInt8]]): [[String]] { let r: [[String]] = []
  for b in bs { let h = String.encodeHex(b); r.append([h, String.encodeHex(h.decodeHex())]) }
  return r }`
			for _, vm := range engines {
				res, ok := runScript(w, src, vm, bytesArrayArg(bb), len(hexes), "hex")
				if !ok {
					continue
				}
				count(2 * len(hexes))
				for j, c := range hexes {
					arr, _ := res[j].(cadence.Array)
					for k, v := range arr.Values {
						s, _ := v.(cadence.String)
						if string(s) != c.text {
							out.Write(ntFail{Op: "hex", Dev: "wrong-text", Engine: engName(vm), Input: hexOf(c.b),
								Msg: fmt.Sprintf("hex of %x (step %d) = %q, specified %q", c.b, k, string(s), c.text)})
						}
					}
				}
			}
		})
	}
	if len(paths) > 0 {
		jobs = append(jobs, func(w *host.World) {
			for _, dom := range []string{"storage", "public", "private"} {
				var ids, want []string
				for _, q := range paths {
					if q.dom == dom {
						ids = append(ids, q.id)
						want = append(want, q.text)
					}
				}
				if len(ids) == 0 {
					continue
				}
				ctor := map[string]string{"storage": "StoragePath", "public": "PublicPath", "private": "PrivatePath"}[dom]
				src := fmt.Sprintf(`access(all) fun main(ids: [String]): [String] { let r: [String] = []
  for id in ids { r.append(%s(identifier: id)?.toString() ?? "nil") }
  return r }`, ctor)
				for _, vm := range engines {
					res, ok := runScript(w, src, vm, strArrayArg(ids), len(ids), "path")
					if !ok {
						continue
					}
					count(len(ids))
					for j := range ids {
						s, _ := res[j].(cadence.String)
						if string(s) != want[j] {
							out.Write(ntFail{Op: "path", Dev: "wrong-text", Engine: engName(vm), Input: ids[j],
								Msg: fmt.Sprintf("%s(identifier: %q).toString() = %q, specified %q", ctor, ids[j], string(s), want[j])})
						}
					}
				}
			}
		})
	}

	util.Parallel(len(jobs), runtime.NumCPU(), func(i int) {
		w := host.NewWorld()
		jobs[i](w)
	})
	out.Write(map[string]any{"summary": true, "rows": rows, "evaluations": evals, "distinct": len(distinct), "nontrivial": nontrivial,
		"types": len(fs), "scripts": len(jobs) * 2})
}
