package main

// C35: LEB128 table conformance (spec/text/Leb128.tla), instruction codec round trips, and
// compile determinism digests.
//
//	text leb     <out.ndjson> <table>...
//	text instr   <out.ndjson> <corpus.ndjson>
//	text compile <out.ndjson> <corpus.ndjson> [rounds]      digest per program, per round

import (
	"bytes"
	"crypto/sha256"
	"encoding/json"
	"fmt"
	"math"
	"math/big"
	"math/rand"
	"os"
	"reflect"
	"strconv"
	"strings"

	"github.com/onflow/cadence/ast"
	"github.com/onflow/cadence/bbq"
	"github.com/onflow/cadence/bbq/compiler"
	"github.com/onflow/cadence/bbq/leb128"
	"github.com/onflow/cadence/bbq/opcode"
	"github.com/onflow/cadence/common"
	"github.com/onflow/cadence/interpreter"
	"github.com/onflow/cadence/parser"
	"github.com/onflow/cadence/sema"
	"github.com/onflow/cadence/stdlib"

	"verifharness/util"
)

// ------------------------------------------------------------------ LEB128

type lebFail struct {
	Fn      string `json:"fn"`
	Dev     string `json:"dev"` // bytes | value | length | error
	Value   string `json:"value"`
	Msg     string `json:"msg"`
	Harness bool   `json:"harness,omitempty"`
}

var lebGarbage = []byte{0xff, 0x00, 0x80}

func lebMain(args []string) {
	if len(args) < 2 {
		util.Die("usage: text leb <out.ndjson> <table>...")
	}
	out := util.NewOut(args[0])
	defer out.Close()
	var rows, values, evals int
	distinctLens := map[string]bool{}
	nontrivial := 0
	fail := func(fn, dev string, v *big.Int, msg string) {
		out.Write(lebFail{Fn: fn, Dev: dev, Value: v.String(), Msg: msg})
	}
	two64 := new(big.Int).Lsh(big.NewInt(1), 64)
	min64 := new(big.Int).Neg(new(big.Int).Lsh(big.NewInt(1), 63))
	max64 := new(big.Int).Sub(new(big.Int).Lsh(big.NewInt(1), 63), big.NewInt(1))
	checkU := func(v *big.Int, enc []byte) {
		if v.Sign() < 0 || v.Cmp(two64) >= 0 {
			return
		}
		values++
		if len(enc) > 1 {
			nontrivial++
		}
		distinctLens[fmt.Sprintf("u%d", len(enc))] = true
		u := v.Uint64()
		in := append(append([]byte{}, enc...), lebGarbage...)
		got := leb128.AppendUint64(nil, u)
		evals++
		if !bytes.Equal(got, enc) {
			fail("AppendUint64", "bytes", v, fmt.Sprintf("encoded %x, specified %x", got, enc))
		}
		got = leb128.AppendUint64([]byte{0xAA}, u)
		if !bytes.Equal(got[1:], enc) || got[0] != 0xAA {
			fail("AppendUint64", "bytes", v, fmt.Sprintf("appending to a non-empty buffer gave %x", got))
		}
		d, n, err := leb128.ReadUint64(in)
		evals++
		switch {
		case err != nil:
			fail("ReadUint64", "error", v, err.Error())
		case d != u:
			fail("ReadUint64", "value", v, fmt.Sprintf("decoded %d from %x", d, enc))
		case n != len(enc):
			fail("ReadUint64", "length", v, fmt.Sprintf("reported length %d for %x", n, enc))
		}
		if u <= math.MaxUint32 {
			got := leb128.AppendUint32(nil, uint32(u))
			evals++
			if !bytes.Equal(got, enc) {
				fail("AppendUint32", "bytes", v, fmt.Sprintf("encoded %x, specified %x", got, enc))
			}
			d, n, err := leb128.ReadUint32(in)
			evals++
			switch {
			case err != nil:
				fail("ReadUint32", "error", v, err.Error())
			case uint64(d) != u:
				fail("ReadUint32", "value", v, fmt.Sprintf("decoded %d from %x", d, enc))
			case n != len(enc):
				fail("ReadUint32", "length", v, fmt.Sprintf("reported length %d for %x", n, enc))
			}
		}
	}
	checkS := func(v *big.Int, enc []byte) {
		if v.Cmp(min64) < 0 || v.Cmp(max64) > 0 {
			return
		}
		values++
		if len(enc) > 1 {
			nontrivial++
		}
		distinctLens[fmt.Sprintf("s%d/%d", len(enc), v.Sign())] = true
		s := v.Int64()
		in := append(append([]byte{}, enc...), lebGarbage...)
		got := leb128.AppendInt64(nil, s)
		evals++
		if !bytes.Equal(got, enc) {
			fail("AppendInt64", "bytes", v, fmt.Sprintf("encoded %x, specified %x", got, enc))
		}
		d, n, err := leb128.ReadInt64(in)
		evals++
		switch {
		case err != nil:
			fail("ReadInt64", "error", v, err.Error())
		case d != s:
			fail("ReadInt64", "value", v, fmt.Sprintf("decoded %d from %x", d, enc))
		case n != len(enc):
			fail("ReadInt64", "length", v, fmt.Sprintf("reported length %d for %x", n, enc))
		}
		if s >= math.MinInt32 && s <= math.MaxInt32 {
			got := leb128.AppendInt32(nil, int32(s))
			evals++
			if !bytes.Equal(got, enc) {
				fail("AppendInt32", "bytes", v, fmt.Sprintf("encoded %x, specified %x", got, enc))
			}
			d, n, err := leb128.ReadInt32(in)
			evals++
			switch {
			case err != nil:
				fail("ReadInt32", "error", v, err.Error())
			case int64(d) != s:
				fail("ReadInt32", "value", v, fmt.Sprintf("decoded %d from %x", d, enc))
			case n != len(enc):
				fail("ReadInt32", "length", v, fmt.Sprintf("reported length %d for %x", n, enc))
			}
		}
	}
	for _, path := range args[1:] {
		n := 0
		err := readRows(path, func(raw []byte) {
			var p []json.RawMessage
			if err := json.Unmarshal(raw, &p); err != nil || len(p) < 3 {
				out.Write(lebFail{Harness: true, Msg: "cannot parse row " + string(raw[:min(len(raw), 200)])})
				return
			}
			var tag string
			_ = json.Unmarshal(p[0], &tag)
			n++
			rows++
			switch tag {
			case "N":
				var start int64
				var encs [][3][]int
				if json.Unmarshal(p[1], &start) != nil || json.Unmarshal(p[2], &encs) != nil {
					out.Write(lebFail{Harness: true, Msg: "cannot parse N row"})
					return
				}
				for i, e := range encs {
					v := big.NewInt(start + int64(i))
					checkU(v, toBytes(e[0]))
					checkS(v, toBytes(e[1]))
					if v.Sign() != 0 {
						checkS(new(big.Int).Neg(v), toBytes(e[2]))
					}
				}
			case "B":
				var neg bool
				var mag []int
				if len(p) != 5 || json.Unmarshal(p[1], &neg) != nil || json.Unmarshal(p[2], &mag) != nil {
					out.Write(lebFail{Harness: true, Msg: "cannot parse B row"})
					return
				}
				v := new(big.Int).SetBytes(toBytes(mag))
				if neg {
					v.Neg(v)
				}
				if string(p[3]) != "0" {
					var ue []int
					if json.Unmarshal(p[3], &ue) != nil {
						out.Write(lebFail{Harness: true, Msg: "cannot parse B row"})
						return
					}
					checkU(v, toBytes(ue))
				}
				var se []int
				if json.Unmarshal(p[4], &se) != nil {
					out.Write(lebFail{Harness: true, Msg: "cannot parse B row"})
					return
				}
				checkS(v, toBytes(se))
			default:
				out.Write(lebFail{Harness: true, Msg: "unknown row tag " + tag})
			}
		})
		if err != nil {
			util.Die("reading %s: %v", path, err)
		}
		if n == 0 {
			util.Die("no rows in %s", path)
		}
	}
	// property-level sweep without the table: decode(encode(v)) = (v, len) for every v < 2^21 and its negation
	sweep := 0
	for v := int64(0); v < 1<<21; v++ {
		e := leb128.AppendUint64(nil, uint64(v))
		d, n, err := leb128.ReadUint64(e)
		if err != nil || d != uint64(v) || n != len(e) {
			fail("ReadUint64", "value", big.NewInt(v), "sweep: decode(encode(v)) differs")
		}
		e32 := leb128.AppendUint32(nil, uint32(v))
		d32, n32, err := leb128.ReadUint32(e32)
		if err != nil || d32 != uint32(v) || n32 != len(e32) {
			fail("ReadUint32", "value", big.NewInt(v), "sweep: decode(encode(v)) differs")
		}
		for _, s := range []int64{v, -v} {
			e := leb128.AppendInt64(nil, s)
			d, n, err := leb128.ReadInt64(e)
			if err != nil || d != s || n != len(e) {
				fail("ReadInt64", "value", big.NewInt(s), "sweep: decode(encode(v)) differs")
			}
			e32 := leb128.AppendInt32(nil, int32(s))
			d32, n32, err := leb128.ReadInt32(e32)
			if err != nil || d32 != int32(s) || n32 != len(e32) {
				fail("ReadInt32", "value", big.NewInt(s), "sweep: decode(encode(v)) differs")
			}
		}
		sweep += 6
	}
	out.Write(map[string]any{"summary": true, "rows": rows, "values": values, "evaluations": evals, "sweep_evaluations": sweep,
		"length_classes": len(distinctLens), "nontrivial": nontrivial})
}

// ------------------------------------------------------------------ compiling

type bundleProgram struct {
	Name string `json:"name"`
	Addr int    `json:"addr"`
	Code string `json:"code"`
}

// a corpus entry is one self-contained program (Code) or a bundle of programs that import each other
// (Programs, in dependency order; each is a contract / contract interface deployed at an address)
type corpusProgram struct {
	ID       string          `json:"id"`
	Code     string          `json:"code"`
	Programs []bundleProgram `json:"programs"`
}

func readCorpus(path string) []corpusProgram {
	var ps []corpusProgram
	err := util.ReadLines(path, func(line []byte) error {
		var p corpusProgram
		if err := json.Unmarshal(line, &p); err != nil {
			return err
		}
		ps = append(ps, p)
		return nil
	})
	if err != nil {
		util.Die("reading corpus: %v", err)
	}
	return ps
}

func baseActivation(common.Location) *sema.VariableActivation {
	activation := sema.NewVariableActivation(sema.BaseValueActivation)
	activation.DeclareValue(stdlib.VMPanicFunction)
	activation.DeclareValue(stdlib.VMAssertFunction)
	activation.DeclareValue(stdlib.NewVMGetAccountFunction(nil))
	return activation
}

type compiled struct {
	ins *bbq.InstructionProgram
}

func compileOne(p corpusProgram) (c compiled, err error) {
	defer func() {
		if r := recover(); r != nil {
			err = fmt.Errorf("panic: %v", r)
		}
	}()
	location := common.ScriptLocation{1}
	prog, perr := parser.ParseProgram(nil, []byte(p.Code), parser.Config{})
	if perr != nil {
		return c, fmt.Errorf("parse: %w", perr)
	}
	checker, cerr := sema.NewChecker(prog, location, nil, &sema.Config{
		AccessCheckMode:            sema.AccessCheckModeStrict,
		BaseValueActivationHandler: baseActivation,
	})
	if cerr != nil {
		return c, fmt.Errorf("checker: %w", cerr)
	}
	if err := checker.Check(); err != nil {
		return c, fmt.Errorf("check: %w", err)
	}
	iprog := interpreter.ProgramFromChecker(checker)
	c.ins = compiler.NewInstructionCompilerWithConfig(iprog, location, &compiler.Config{}).Compile()
	return c, nil
}

// ------------------------------------------------------------------ bundles of programs with imports

type checkedProgram struct {
	name     string // "<contract>@<address byte>": unique within the bundle
	location common.Location
	checker  *sema.Checker
	program  *bbq.InstructionProgram
	elab     *compiler.DesugaredElaboration
}

type bundle struct {
	programs []*checkedProgram
	byLoc    map[common.Location]*checkedProgram
}

func resolveSingleIdentifiers(identifiers []ast.Identifier, location common.Location) ([]sema.ResolvedLocation, error) {
	addr, ok := location.(common.AddressLocation)
	if !ok {
		return []sema.ResolvedLocation{{Location: location, Identifiers: identifiers}}, nil
	}
	// one resolved location per imported identifier (as the runtime's default resolver for address locations does)
	res := make([]sema.ResolvedLocation, 0, len(identifiers))
	for _, id := range identifiers {
		res = append(res, sema.ResolvedLocation{
			Location:    common.AddressLocation{Address: addr.Address, Name: id.Identifier},
			Identifiers: []ast.Identifier{id},
		})
	}
	return res, nil
}

// checkBundle parses and checks every program of the bundle (in order) and compiles it once
func checkBundle(p corpusProgram) (b *bundle, err error) {
	defer func() {
		if r := recover(); r != nil {
			err = fmt.Errorf("panic: %v", r)
		}
	}()
	b = &bundle{byLoc: map[common.Location]*checkedProgram{}}
	for _, bp := range p.Programs {
		location := common.AddressLocation{Address: common.MustBytesToAddress([]byte{byte(bp.Addr)}), Name: bp.Name}
		prog, perr := parser.ParseProgram(nil, []byte(bp.Code), parser.Config{})
		if perr != nil {
			return nil, fmt.Errorf("%s: parse: %w", bp.Name, perr)
		}
		checker, cerr := sema.NewChecker(prog, location, nil, &sema.Config{
			AccessCheckMode:            sema.AccessCheckModeStrict,
			BaseValueActivationHandler: baseActivation,
			LocationHandler:            resolveSingleIdentifiers,
			ImportHandler: func(_ *sema.Checker, loc common.Location, _ ast.Range) (sema.Import, error) {
				imported, ok := b.byLoc[loc]
				if !ok {
					return nil, fmt.Errorf("cannot find program %s", loc)
				}
				return sema.ElaborationImport{Elaboration: imported.elab.OriginalElaboration()}, nil
			},
		})
		if cerr != nil {
			return nil, fmt.Errorf("%s: checker: %w", bp.Name, cerr)
		}
		if err := checker.Check(); err != nil {
			return nil, fmt.Errorf("%s: check: %w", bp.Name, err)
		}
		cp := &checkedProgram{name: fmt.Sprintf("%s@%d", bp.Name, bp.Addr), location: location, checker: checker,
			elab: compiler.NewDesugaredElaboration(checker.Elaboration)}
		b.byLoc[location] = cp
		b.programs = append(b.programs, cp)
		program, elab := b.compile(cp)
		cp.program, cp.elab = program, elab
	}
	return b, nil
}

// compile runs a fresh compiler on an already checked program of the bundle
func (b *bundle) compile(cp *checkedProgram) (*bbq.InstructionProgram, *compiler.DesugaredElaboration) {
	config := &compiler.Config{
		LocationHandler: resolveSingleIdentifiers,
		ImportHandler: func(loc common.Location) *bbq.InstructionProgram {
			if imported, ok := b.byLoc[loc]; ok {
				return imported.program
			}
			return nil
		},
		ElaborationResolver: func(loc common.Location) (*compiler.DesugaredElaboration, error) {
			imported, ok := b.byLoc[loc]
			if !ok {
				return nil, fmt.Errorf("cannot find elaboration for %s", loc)
			}
			return imported.elab, nil
		},
	}
	comp := compiler.NewInstructionCompilerWithConfig(interpreter.ProgramFromChecker(cp.checker), cp.location, config)
	return comp.Compile(), comp.DesugaredElaboration
}

func (b *bundle) recompile(cp *checkedProgram) (prog *bbq.InstructionProgram, err error) {
	defer func() {
		if r := recover(); r != nil {
			err = fmt.Errorf("panic: %v", r)
		}
	}()
	prog, _ = b.compile(cp)
	return prog, nil
}

// digestProgram: everything the property lists (bytecode, constants, function order, type tables)
// plus globals, imports, variables, contracts, in program order.
func digestProgram(p *bbq.InstructionProgram) (string, map[string]string) {
	parts := map[string]string{}
	var sb strings.Builder
	for _, f := range p.Functions {
		var code []byte
		for _, ins := range f.Code {
			ins.Encode(&code)
		}
		fmt.Fprintf(&sb, "F %q %q p=%d tp=%d l=%d t=%d code=%x lines=%v\n", f.Name, f.QualifiedName, f.ParameterCount,
			f.TypeParameterCount, f.LocalCount, f.TypeIndex, code, f.LineNumbers.Positions)
	}
	parts["functions"] = sb.String()
	sb.Reset()
	for _, c := range p.Constants {
		fmt.Fprintf(&sb, "C %d %s\n", c.Kind, c.String())
	}
	parts["constants"] = sb.String()
	sb.Reset()
	for _, t := range p.Types {
		fmt.Fprintf(&sb, "T %s\n", t.ID())
	}
	parts["types"] = sb.String()
	sb.Reset()
	for _, g := range p.Globals {
		i := g.GetGlobalInfo()
		fmt.Fprintf(&sb, "G %T %q %q %v %d\n", g, i.Name, i.QualifiedName, i.Location, i.Index)
	}
	parts["globals"] = sb.String()
	sb.Reset()
	for _, v := range p.Variables {
		fmt.Fprintf(&sb, "V %q getter=%v\n", v.Name, v.Getter != nil)
	}
	for _, c := range p.Contracts {
		fmt.Fprintf(&sb, "K %q %v\n", c.Name, c.Location)
	}
	for _, i := range p.Imports {
		fmt.Fprintf(&sb, "I %q %v\n", i.Name, i.Location)
	}
	parts["other"] = sb.String()
	h := sha256.New()
	for _, k := range []string{"functions", "constants", "types", "globals", "other"} {
		h.Write([]byte(parts[k]))
		sum := sha256.Sum256([]byte(parts[k]))
		parts[k] = fmt.Sprintf("%x", sum[:8])
	}
	return fmt.Sprintf("%x", h.Sum(nil)), parts
}

// text compile <out> <corpus> <rounds> [bundle rounds]: one line per program: digests of every round
func compileMain(args []string) {
	if len(args) < 2 {
		util.Die("usage: text compile <out.ndjson> <corpus.ndjson> [rounds]")
	}
	rounds := 3
	if len(args) >= 3 {
		rounds, _ = strconv.Atoi(args[2])
	}
	out := util.NewOut(args[0])
	defer out.Close()
	ps := readCorpus(args[1])
	nfun, nins := 0, 0
	bundleRounds := rounds
	if len(args) >= 4 {
		bundleRounds, _ = strconv.Atoi(args[3])
	}
	nprog := 0
	for _, p := range ps {
		if len(p.Programs) > 0 {
			// a bundle: checked once, every program then compiled bundleRounds times by fresh compilers
			// (Go randomises map iteration per iteration, so repeated compilation in one process explores orders)
			b, err := checkBundle(p)
			if err != nil {
				out.Write(map[string]any{"harness": true, "id": p.ID, "msg": err.Error()})
				continue
			}
			for _, cp := range b.programs {
				nprog++
				var digests []string
				var parts []map[string]string
				for r := 0; r < bundleRounds; r++ {
					prog := cp.program
					if r > 0 {
						prog, err = b.recompile(cp)
						if err != nil {
							out.Write(map[string]any{"harness": true, "id": p.ID + "/" + cp.name, "msg": err.Error()})
							digests = nil
							break
						}
					}
					d, pp := digestProgram(prog)
					digests = append(digests, d)
					parts = append(parts, pp)
					if r == 0 {
						nfun += len(prog.Functions)
						for _, f := range prog.Functions {
							nins += len(f.Code)
						}
					}
				}
				if digests != nil {
					out.Write(map[string]any{"id": p.ID + "/" + cp.name, "digests": digests, "parts": parts, "pid": os.Getpid()})
				}
			}
			continue
		}
		nprog++
		var digests []string
		var parts []map[string]string
		for r := 0; r < rounds; r++ {
			c, err := compileOne(p)
			if err != nil {
				out.Write(map[string]any{"harness": true, "id": p.ID, "msg": err.Error(), "code": p.Code})
				digests = nil
				break
			}
			d, pp := digestProgram(c.ins)
			digests = append(digests, d)
			parts = append(parts, pp)
			if r == 0 {
				nfun += len(c.ins.Functions)
				for _, f := range c.ins.Functions {
					nins += len(f.Code)
				}
			}
		}
		if digests != nil {
			out.Write(map[string]any{"id": p.ID, "digests": digests, "parts": parts, "pid": os.Getpid()})
		}
	}
	out.Write(map[string]any{"summary": true, "programs": nprog, "rounds": rounds, "bundle_rounds": bundleRounds, "functions": nfun, "instructions": nins})
}

// ------------------------------------------------------------------ instruction codec

type instrFail struct {
	Dev     string `json:"dev"` // roundtrip | length | reencode | bytecode-compiler | crash
	Opcode  string `json:"opcode"`
	Src     string `json:"src"` // corpus | generated
	Msg     string `json:"msg"`
	Harness bool   `json:"harness,omitempty"`
}

func decodeSafe(code []byte) (ins opcode.Instruction, n int, err error) {
	defer func() {
		if r := recover(); r != nil {
			err = fmt.Errorf("%v", r)
		}
	}()
	var ip uint16
	ins = opcode.DecodeInstruction(&ip, code)
	return ins, int(ip), nil
}

func encodeSafe(ins opcode.Instruction) (code []byte, err error) {
	defer func() {
		if r := recover(); r != nil {
			err = fmt.Errorf("%v", r)
		}
	}()
	ins.Encode(&code)
	return code, nil
}

// normalise nil/empty slices so that DeepEqual compares contents
func insEqual(a, b opcode.Instruction) bool {
	return fmt.Sprintf("%T%+v", a, a) == fmt.Sprintf("%T%+v", b, b)
}

func roundTrip(ins opcode.Instruction, src string, out *util.Out) bool {
	name := ins.Opcode().String()
	enc, err := encodeSafe(ins)
	if err != nil {
		out.Write(instrFail{Dev: "crash", Opcode: name, Src: src, Msg: fmt.Sprintf("Encode(%+v) panicked: %v", ins, err)})
		return false
	}
	// decode with trailing bytes: the decoder must stop after the instruction
	in := append(append([]byte{}, enc...), 0xff, 0xff, 0xff)
	dec, n, err := decodeSafe(in)
	switch {
	case err != nil:
		out.Write(instrFail{Dev: "crash", Opcode: name, Src: src, Msg: fmt.Sprintf("Decode(%x) of %+v panicked: %v", enc, ins, err)})
	case !insEqual(dec, ins):
		out.Write(instrFail{Dev: "roundtrip", Opcode: name, Src: src, Msg: fmt.Sprintf("%T%+v encodes to %x which decodes to %T%+v", ins, ins, enc, dec, dec)})
	case n != len(enc):
		out.Write(instrFail{Dev: "length", Opcode: name, Src: src, Msg: fmt.Sprintf("%+v encodes to %d bytes, decoding consumed %d", ins, len(enc), n)})
	default:
		return true
	}
	return false
}

var u16Bounds = []uint16{0, 1, 127, 128, 255, 256, 257, 32767, 32768, 65534, 65535}

// fill sets every operand of the instruction (a struct value) from the generator
func fillOperands(v reflect.Value, r *rand.Rand, mode int) {
	for i := 0; i < v.NumField(); i++ {
		f := v.Field(i)
		switch f.Kind() {
		case reflect.Uint16:
			f.SetUint(uint64(pickU16(r, mode)))
		case reflect.Bool:
			f.SetBool(r.Intn(2) == 0)
		case reflect.Uint8:
			f.SetUint(uint64([]uint8{0, 1, 2, 127, 128, 255}[r.Intn(6)]))
		case reflect.Uint, reflect.Uint32, reflect.Uint64, reflect.Int:
			// encoded as uint16 (CompositeKind)
			if f.Kind() == reflect.Int {
				f.SetInt(int64(pickU16(r, mode) & 0x7fff))
			} else {
				f.SetUint(uint64(pickU16(r, mode)))
			}
		case reflect.Slice:
			n := []int{0, 1, 2, 3, 255, 256, 1000}[r.Intn(7)]
			if mode == 2 {
				n = r.Intn(4)
			}
			s := reflect.MakeSlice(f.Type(), n, n)
			for j := 0; j < n; j++ {
				e := s.Index(j)
				switch e.Kind() {
				case reflect.Uint16:
					e.SetUint(uint64(pickU16(r, mode)))
				case reflect.Struct:
					fillOperands(e, r, mode)
				default:
					util.Die("unsupported operand element kind %s", e.Kind())
				}
			}
			if n == 0 {
				f.Set(reflect.Zero(f.Type()))
			} else {
				f.Set(s)
			}
		case reflect.Struct:
			fillOperands(f, r, mode)
		default:
			util.Die("unsupported operand kind %s in %s", f.Kind(), v.Type())
		}
	}
}

func pickU16(r *rand.Rand, mode int) uint16 {
	if mode == 0 || (mode == 1 && r.Intn(2) == 0) {
		return u16Bounds[r.Intn(len(u16Bounds))]
	}
	return uint16(r.Intn(65536))
}

func instrMain(args []string) {
	if len(args) < 2 {
		util.Die("usage: text instr <out.ndjson> <corpus.ndjson>")
	}
	out := util.NewOut(args[0])
	defer out.Close()
	ps := readCorpus(args[1])
	r := rand.New(rand.NewSource(util.Seed()*7919 + 35))
	corpusIns, corpusFuncs, genIns := 0, 0, 0
	opcodesSeen := map[string]bool{}
	distinct := map[string]bool{}
	var progs []*bbq.InstructionProgram
	var progIDs []string
	for _, p := range ps {
		if len(p.Programs) > 0 {
			b, err := checkBundle(p)
			if err != nil {
				out.Write(map[string]any{"harness": true, "id": p.ID, "msg": err.Error()})
				continue
			}
			for _, cp := range b.programs {
				progs = append(progs, cp.program)
				progIDs = append(progIDs, p.ID+"/"+cp.name)
			}
			continue
		}
		c, err := compileOne(p)
		if err != nil {
			out.Write(map[string]any{"harness": true, "id": p.ID, "msg": err.Error(), "code": p.Code})
			continue
		}
		progs = append(progs, c.ins)
		progIDs = append(progIDs, p.ID)
	}
	for pi, prog := range progs {
		p := corpusProgram{ID: progIDs[pi]}
		for _, f := range prog.Functions {
			corpusFuncs++
			var code []byte
			for _, ins := range f.Code {
				corpusIns++
				opcodesSeen[ins.Opcode().String()] = true
				distinct[fmt.Sprintf("%T%+v", ins, ins)] = true
				roundTrip(ins, "corpus", out)
				ins.Encode(&code)
			}
			// whole function: decoding the concatenated encodings gives back the instruction list
			if len(code) <= math.MaxUint16 {
				func() {
					defer func() {
						if rr := recover(); rr != nil {
							out.Write(instrFail{Dev: "crash", Opcode: "*", Src: "corpus", Msg: fmt.Sprintf("DecodeInstructions panicked on function %s of %s: %v", f.QualifiedName, p.ID, rr)})
						}
					}()
					dec := opcode.DecodeInstructions(code)
					ok := len(dec) == len(f.Code)
					for i := 0; ok && i < len(dec); i++ {
						ok = insEqual(dec[i], f.Code[i])
					}
					if !ok {
						out.Write(instrFail{Dev: "reencode", Opcode: "*", Src: "corpus", Msg: fmt.Sprintf("function %s of %s: decoding the encoded instruction list gives a different list", f.QualifiedName, p.ID)})
					}
				}()
			}
		}
	}
	// generated instructions: every opcode the decoder knows, operands at width boundaries and random
	perOpcode := 60
	if util.Tier() != "quick" {
		perOpcode = 1500
	}
	decodable := 0
	for op := 0; op < 256; op++ {
		zero := make([]byte, 64)
		zero[0] = byte(op)
		ins, _, err := decodeSafe(zero)
		if err != nil || ins == nil {
			continue
		}
		if ins.Opcode() != opcode.Opcode(op) {
			if ins.Opcode() == opcode.Unknown && op != int(opcode.Unknown) {
				continue
			}
			out.Write(instrFail{Dev: "roundtrip", Opcode: ins.Opcode().String(), Src: "generated", Msg: fmt.Sprintf("byte %d decodes to an instruction with opcode %d", op, ins.Opcode())})
			continue
		}
		decodable++
		t := reflect.TypeOf(ins)
		if t.Kind() != reflect.Struct {
			util.Die("instruction %T is not a struct", ins)
		}
		n := perOpcode
		if t.NumField() == 0 {
			n = 1
		}
		for k := 0; k < n; k++ {
			v := reflect.New(t).Elem()
			fillOperands(v, r, k%3)
			gi := v.Interface().(opcode.Instruction)
			genIns++
			opcodesSeen[gi.Opcode().String()] = true
			distinct[fmt.Sprintf("%T%+v", gi, gi)] = true
			roundTrip(gi, "generated", out)
		}
	}
	out.Write(map[string]any{"summary": true, "programs": len(ps), "functions": corpusFuncs, "corpus_instructions": corpusIns,
		"generated_instructions": genIns, "opcodes": len(opcodesSeen), "decodable_opcodes": decodable,
		"distinct_instructions": len(distinct)})
}
