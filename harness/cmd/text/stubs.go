package main

func randomMain(args []string)   { panic("todo") }
func lebMain(args []string)      { panic("todo") }
func instrMain(args []string)    { panic("todo") }
func compileMain(args []string)  { panic("todo") }
func numtextMain(args []string)  { panic("todo") }
func literalsMain(args []string) { panic("todo") }
