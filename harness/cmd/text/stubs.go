package main

func literalsMain(args []string) { panic("todo") }
