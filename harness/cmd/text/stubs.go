package main

func numtextMain(args []string)  { panic("todo") }
func literalsMain(args []string) { panic("todo") }
