// storage: replays behaviours of spec/system/Storage.tla into the real runtime (C22).
//
//	storage <behaviours.ndjson> <results.ndjson> [engines=interp,vm]
package main

import (
	"encoding/json"
	"os"
	"runtime"
	"strings"
	"sync/atomic"

	. "verifharness/storagedrv"
	"verifharness/util"
)

func main() {
	if len(os.Args) < 3 {
		util.Die("usage: storage behaviours.ndjson results.ndjson [engines]")
	}
	engines := []bool{false, true}
	if len(os.Args) > 3 {
		engines = nil
		for _, e := range strings.Split(os.Args[3], ",") {
			engines = append(engines, e == "vm")
		}
	}
	var behs []*Beh
	err := util.ReadLines(os.Args[1], func(line []byte) error {
		var b Beh
		if err := json.Unmarshal(line, &b); err != nil {
			return err
		}
		behs = append(behs, &b)
		return nil
	})
	if err != nil {
		util.Die("reading behaviours: %v", err)
	}
	out := util.NewOut(os.Args[2])
	defer out.Close()
	var nfail, ntx, nsteps int64
	util.Parallel(len(behs), runtime.NumCPU(), func(i int) {
		b := behs[i]
		for _, vm := range engines {
			if f := Replay(b, vm); f != nil {
				atomic.AddInt64(&nfail, 1)
				out.Write(f)
			}
		}
		for _, s := range b.Steps {
			if s.Op == "begin" {
				atomic.AddInt64(&ntx, 1)
			}
		}
		atomic.AddInt64(&nsteps, int64(len(b.Steps)))
	})
	out.Write(map[string]any{"summary": true, "behaviours": len(behs), "engines": len(engines),
		"transactions": ntx, "steps": nsteps, "failures": nfail})
}
