package main

import (
	"fmt"
	"os"
	"strings"

	"verifharness/host"
)

func main() {
	src, _ := os.ReadFile(os.Args[1])
	for i, p := range strings.Split(string(src), "\n---\n") {
		if strings.TrimSpace(p) == "" {
			continue
		}
		for _, vm := range []bool{false, true} {
			w := host.NewWorld()
			parts := strings.SplitN(p, "\n===\n", 2)
			code := p
			if len(parts) == 2 {
				if err := w.Deploy(host.Addr(1), "C", parts[0]); err != nil {
					fmt.Println("DEPLOY ERR", err)
				}
				code = parts[1]
			}
			var r host.Result
			if strings.Contains(code, "transaction") {
				r = w.Tx(code, nil, vm)
			} else {
				r = w.Script(code, vm)
			}
			e := ""
			if r.Err != nil {
				e = r.Err.Error()
				if len(e) > 400 {
					e = e[:400]
				}
			}
			var evs []string
			for _, ev := range r.Events {
				evs = append(evs, ev.String())
			}
			fmt.Printf("#%d vm=%v class=%s v=%v events=%v %s\n", i, vm, r.Class, r.Value, evs, e)
		}
	}
}
