package main

// C45 driver. Input: NDJSON, one row per location of the run's pool, printed by TLC from
// spec/lang/TypeId.tla: the location, the type terms of the universe and their specified IDs,
// and for every nominal type its ID with the (location, qualified identifier) it must decode to.
//
// For every (location, type): checker type ID = static type ID = exported cadence.Type ID = spec ID, for
// two construction orders of set members; sema -> static -> sema and export -> import round trips;
// DecodeTypeID of nominal IDs; and (script location) the run-time type constructors on both engines.

import (
	"encoding/hex"
	"encoding/json"
	"fmt"
	"runtime"
	"strings"
	"sync"

	"github.com/onflow/cadence"
	"github.com/onflow/cadence/common"
	"github.com/onflow/cadence/interpreter"
	cdcrt "github.com/onflow/cadence/runtime"
	"github.com/onflow/cadence/sema"

	"verifharness/host"
	"verifharness/util"
)

type locT struct {
	K    string `json:"k"`
	Addr []int  `json:"addr"`
	ID   string `json:"id"`
	H    []int  `json:"h"`
}

type decodeT struct {
	K    string `json:"k"`
	Loc  string `json:"loc"`
	Name string `json:"name"`
	QID  string `json:"qid"`
}

type idRow struct {
	Kind    string   `json:"kind"`
	Loc     locT     `json:"loc"`
	Prefix  string   `json:"prefix"`
	Types   []TT     `json:"types"`
	IDs     []string `json:"ids"`
	Nominal map[string]struct {
		ID     string  `json:"id"`
		Decode decodeT `json:"decode"`
	} `json:"nominal"`
}

func toBytes(xs []int) []byte {
	b := make([]byte, len(xs))
	for i, x := range xs {
		b[i] = byte(x)
	}
	return b
}

func (l locT) location() common.Location {
	switch l.K {
	case "A":
		return common.NewAddressLocation(nil, common.MustBytesToAddress(toBytes(l.Addr)), "C0")
	case "S":
		return common.StringLocation(l.ID)
	case "I":
		return common.IdentifierLocation(l.ID)
	case "t":
		var t common.TransactionLocation
		copy(t[:], toBytes(l.H))
		return t
	case "s":
		var s common.ScriptLocation
		copy(s[:], toBytes(l.H))
		return s
	case "REPL":
		return common.REPLLocation{}
	}
	panic("location kind " + l.K)
}

func describeLocation(l common.Location) decodeT {
	switch l := l.(type) {
	case common.AddressLocation:
		return decodeT{K: "A", Loc: hex.EncodeToString(l.Address[:]), Name: l.Name}
	case common.StringLocation:
		return decodeT{K: "S", Loc: string(l)}
	case common.IdentifierLocation:
		return decodeT{K: "I", Loc: string(l)}
	case common.TransactionLocation:
		return decodeT{K: "t", Loc: hex.EncodeToString(l[:])}
	case common.ScriptLocation:
		return decodeT{K: "s", Loc: hex.EncodeToString(l[:])}
	case common.REPLLocation:
		return decodeT{K: "REPL"}
	case nil:
		return decodeT{K: "nil"}
	}
	return decodeT{K: fmt.Sprintf("%T", l)}
}

func indent(s string) string {
	return "  " + strings.ReplaceAll(strings.TrimSpace(s), "\n", "\n  ") + "\n"
}

// envSource: the nominal environment as declared at a location of the given kind
func envSource(kind string) string {
	if kind == "A" {
		return "access(all) contract C0 {\n" + indent(typeEnvDecls) + "  access(all) struct N {}\n}\n"
	}
	return typeEnvDecls + "access(all) contract C0 {\n  access(all) struct N {}\n}\n"
}

func runTid(in, out string) {
	o := util.NewOut(out)
	defer o.Close()
	var rows []*idRow
	err := util.ReadLines(in, func(line []byte) error {
		r := &idRow{}
		if err := json.Unmarshal(line, r); err != nil {
			return err
		}
		if r.Kind == "ids" {
			rows = append(rows, r)
		}
		return nil
	})
	if err != nil || len(rows) == 0 {
		util.Die("reading %s: %v (%d rows)", in, err, len(rows))
	}
	var mu sync.Mutex
	evals, fails, progs := 0, 0, 0
	nontriv := map[string]struct{}{}
	kinds := map[string]int{}
	report := func(f Fail) {
		f.Fail = true
		mu.Lock()
		fails++
		nf := fails
		mu.Unlock()
		if nf <= 3000 {
			o.Write(f)
		}
	}
	harness := func(msg, src string) { o.Write(Fail{Harness: true, Kind: "harness", Msg: msg, Src: src}) }

	util.Parallel(len(rows), runtime.NumCPU(), func(ri int) {
		r := rows[ri]
		loc := r.Loc.location()
		src := envSource(r.Loc.K)
		c, err := checkSource(src, loc)
		if err != nil || c.errs != nil {
			harness(fmt.Sprintf("environment rejected at %s: %v %v", r.Prefix, err, c.errs), src)
			return
		}
		env := &typeEnv{c: c, nested: r.Loc.K == "A"}
		inter, err := newInterpreter(c, loc)
		if err != nil {
			harness(err.Error(), src)
			return
		}
		le := 0
		for i := range r.Types {
			t := &r.Types[i]
			want := r.IDs[i]
			name := syntax(t, false)
			cs := func(extra map[string]any) map[string]any {
				m := map[string]any{"location": r.Prefix, "type": name, "spec_id": want}
				for k, v := range extra {
					m[k] = v
				}
				return m
			}
			var semas [2]sema.Type
			var statics [2]interpreter.StaticType
			for ord := 0; ord < 2; ord++ {
				ty := env.build(t, ord == 1)
				semas[ord] = ty
				check := func(repr string, f func() string) {
					le++
					var got string
					_, p := recoverBool(func() bool { got = f(); return true })
					if p != "" {
						report(Fail{Kind: "id-panic", Impl: repr, Shape: t.K, Case: cs(nil), Msg: fmt.Sprintf("%s: ID of %s at %s panics: %s", repr, name, r.Prefix, p)})
						return
					}
					if got != want {
						report(Fail{Kind: "id", Impl: repr, Shape: t.K, Case: cs(map[string]any{"impl_id": got, "member_order_reversed": ord == 1}),
							Msg: fmt.Sprintf("%s: ID of %s at %s is %q, specification says %q", repr, name, r.Prefix, got, want)})
					}
				}
				check("sema.Type.ID", func() string { return string(ty.ID()) })
				st := interpreter.ConvertSemaToStaticType(nil, ty)
				statics[ord] = st
				check("interpreter.StaticType.ID", func() string { return string(st.ID()) })
				var ext cadence.Type
				check("cadence.Type.ID (exported)", func() string {
					ext = cdcrt.ExportType(ty, map[sema.TypeID]cadence.Type{})
					return ext.ID()
				})
				// sema -> static -> sema
				le++
				back, err := interpreter.ConvertStaticToSemaType(inter, st)
				if err != nil || !back.Equal(ty) || !ty.Equal(back) {
					report(Fail{Kind: "roundtrip-static", Shape: t.K, Case: cs(nil),
						Msg: fmt.Sprintf("sema -> static -> sema of %s at %s: got %v (err %v)", name, r.Prefix, back, err)})
				}
				// export -> import
				// (function and attachment types are not importable: ImportType rejects them by design)
				if ext != nil && !mentions(t, func(x *TT) bool {
					return x.K == "fun" || x.K == "nom" && (x.name() == "At" || x.name() == "As")
				}) {
					le++
					var imp interpreter.StaticType
					_, p := recoverBool(func() bool { imp = cdcrt.ImportType(nil, ext); return true })
					if p != "" || imp == nil || !imp.Equal(st) {
						report(Fail{Kind: "roundtrip-export", Shape: t.K, Case: cs(nil),
							Msg: fmt.Sprintf("export -> import of %s at %s: got %v (panic %q), want %v", name, r.Prefix, imp, p, st)})
					}
				}
			}
			le += 2
			if !semas[0].Equal(semas[1]) || !semas[1].Equal(semas[0]) {
				report(Fail{Kind: "order-dependence", Impl: "sema.Type.Equal", Shape: t.K, Case: cs(nil), Msg: fmt.Sprintf("%s: equality depends on the order of set members", name)})
			}
			if !statics[0].Equal(statics[1]) || !statics[1].Equal(statics[0]) {
				report(Fail{Kind: "order-dependence", Impl: "interpreter.StaticType.Equal", Shape: t.K, Case: cs(nil), Msg: fmt.Sprintf("%s: equality depends on the order of set members", name)})
			}
			if t.K != "prim" {
				mu.Lock()
				nontriv[r.Prefix+"/"+want] = struct{}{}
				mu.Unlock()
			}
		}
		// decoding of nominal IDs
		for n, nom := range r.Nominal {
			le++
			l, q, err := common.DecodeTypeID(nil, nom.ID)
			got := describeLocation(l)
			got.QID = q
			if err != nil || got != nom.Decode {
				report(Fail{Kind: "decode", Shape: r.Loc.K, Case: map[string]any{"id": nom.ID, "nominal": n, "impl": got, "spec": nom.Decode},
					Msg: fmt.Sprintf("DecodeTypeID(%q) = %+v (err %v), specification says %+v", nom.ID, got, err, nom.Decode)})
			}
			// and the nominal type's own view: location + qualified identifier rebuild the ID
			le++
			if l != nil {
				if re := string(l.TypeID(nil, q)); re != nom.ID {
					report(Fail{Kind: "decode", Shape: r.Loc.K, Case: map[string]any{"id": nom.ID, "rebuilt": re},
						Msg: fmt.Sprintf("location.TypeID(qualified identifier) of the decoded pair gives %q, not %q", re, nom.ID)})
				}
			}
		}
		mu.Lock()
		evals += le
		kinds[r.Loc.K]++
		mu.Unlock()
		// run-time type constructors: first script of a fresh world has location s.00..01
		if r.Loc.K == "s" && len(r.Loc.H) == 32 && r.Loc.H[31] == 1 && allZero(r.Loc.H[:31]) {
			n, e := constructorScript(r, src, report, harness)
			mu.Lock()
			evals += e
			progs += n
			mu.Unlock()
		}
	})
	if len(rows) > 0 {
		r := rows[0]
		o.Write(Fail{Sample: true, Kind: "id", Msg: "specified ID", Case: map[string]any{"location": r.Prefix, "type": syntax(&r.Types[len(r.Types)/2], false), "id": r.IDs[len(r.IDs)/2]}})
	}
	o.Write(map[string]any{"summary": true, "locations": len(rows), "location_kinds": kinds, "types": len(rows[0].Types),
		"evaluations": evals, "distinct_nontrivial": len(nontriv), "programs": progs, "fails": fails})
}

// mentions reports whether the term or one of its components satisfies p.
func mentions(t *TT, p func(*TT) bool) bool {
	if t == nil {
		return false
	}
	if p(t) {
		return true
	}
	for i := range t.Ps {
		if mentions(&t.Ps[i], p) {
			return true
		}
	}
	return mentions(t.T, p) || mentions(t.KT, p) || mentions(t.VT, p) || mentions(t.R, p)
}

func allZero(xs []int) bool {
	for _, x := range xs {
		if x != 0 {
			return false
		}
	}
	return true
}

// constructorScript: OptionalType(..), ReferenceType(..), CompositeType(..) ... against Type<T>() and the specified ID.
func constructorScript(r *idRow, envSrc string, report func(Fail), harness func(string, string)) (int, int) {
	idOf := map[string]string{}
	for n, nom := range r.Nominal {
		idOf[n] = nom.ID
	}
	typeExpr := func(t *TT) string {
		at := ""
		if termIsResource(t) {
			at = "@"
		}
		return "Type<" + at + syntax(t, false) + ">()"
	}
	quoteIDs := func(ns []string) string {
		var qs []string
		for _, n := range ns {
			qs = append(qs, fmt.Sprintf("%q", idOf[n]))
		}
		return "[" + strings.Join(qs, ", ") + "]"
	}
	type probe struct {
		i    int
		line string
	}
	var probes []probe
	for i := range r.Types {
		t := &r.Types[i]
		if !denotableSyntax(t) {
			continue
		}
		var ctor string
		switch t.K {
		case "opt":
			ctor = "OptionalType(" + typeExpr(t.T) + ")"
		case "varr":
			ctor = "VariableSizedArrayType(" + typeExpr(t.T) + ")"
		case "carr":
			ctor = fmt.Sprintf("ConstantSizedArrayType(type: %s, size: %d)", typeExpr(t.T), t.size())
		case "dict":
			ctor = "DictionaryType(key: " + typeExpr(t.KT) + ", value: " + typeExpr(t.VT) + ")"
		case "ref":
			if t.A.K == "disj" {
				continue // ReferenceType(entitlements:type:) builds conjunctions only
			}
			ents := append([]string{}, t.A.S...)
			if i%2 == 1 { // order of the argument must not matter
				for a, b := 0, len(ents)-1; a < b; a, b = a+1, b-1 {
					ents[a], ents[b] = ents[b], ents[a]
				}
			}
			ctor = "ReferenceType(entitlements: " + quoteIDs(ents) + ", type: " + typeExpr(t.T) + ")"
		case "inter":
			ns := append([]string{}, t.S...)
			if i%2 == 1 {
				for a, b := 0, len(ns)-1; a < b; a, b = a+1, b-1 {
					ns[a], ns[b] = ns[b], ns[a]
				}
			}
			ctor = "IntersectionType(types: " + quoteIDs(ns) + ")"
		case "cap":
			ctor = "CapabilityType(" + typeExpr(t.T) + ")"
		case "range":
			ctor = "InclusiveRangeType(" + typeExpr(t.T) + ")"
		case "fun":
			if t.Pure {
				continue // FunctionType(parameters:return:) builds impure function types
			}
			var ps []string
			nonStorable := false
			for k := range t.Ps {
				ps = append(ps, typeExpr(&t.Ps[k]))
				// the argument is an array of Type values; a Type value of a non-storable type (function,
				// reference) cannot be put into an array at run time ("cannot store non-storable type")
				nonStorable = nonStorable || mentions(&t.Ps[k], func(x *TT) bool { return x.K == "fun" || x.K == "ref" })
			}
			if nonStorable {
				continue
			}
			ctor = "FunctionType(parameters: [" + strings.Join(ps, ", ") + "], return: " + typeExpr(t.R) + ")"
		case "nom":
			switch t.name() {
			case "S", "S2", "S3", "R", "R2", "R3", "En", "N", "At", "As":
				ctor = fmt.Sprintf("CompositeType(%q)", r.IDs[i])
			default:
				continue
			}
		default:
			continue
		}
		probes = append(probes, probe{i, fmt.Sprintf("  out.append(probe(%s, %s, %q))", ctor, typeExpr(t), r.IDs[i])})
	}
	helper := `access(all) fun probe(_ c: Type?, _ t: Type, _ id: String): [Bool] {
  if c == nil { return [false, false, t.identifier == id] }
  return [c! == t, c!.identifier == id, t.identifier == id]
}
`
	render := func(keep map[int]bool) (string, map[int]int) {
		var sb strings.Builder
		sb.WriteString(envSrc)
		sb.WriteString(helper)
		sb.WriteString("access(all) fun main(): [[Bool]] {\n  let out: [[Bool]] = []\n")
		line := strings.Count(sb.String(), "\n") + 1
		lineOf := map[int]int{}
		for k, p := range probes {
			if keep != nil && !keep[k] {
				continue
			}
			lineOf[line] = k
			sb.WriteString(p.line + "\n")
			line++
		}
		sb.WriteString("  return out\n}\n")
		return sb.String(), lineOf
	}
	full, lineOf := render(nil)
	c, err := checkSource(full, r.Loc.location())
	if err != nil {
		harness(err.Error(), full)
		return 0, 0
	}
	keep := map[int]bool{}
	for k := range probes {
		keep[k] = true
	}
	for _, e := range c.errs {
		k, ok := lineOf[errLine(e)]
		if !ok {
			harness(fmt.Sprintf("checker error outside a probe line: %v", e), full)
			return 0, 0
		}
		keep[k] = false // the type (or a component) cannot be written as an annotation
	}
	pruned, _ := render(keep)
	evals := 0
	for _, eng := range engines {
		// executed at exactly the script location of the specification's row
		w := host.NewWorld()
		val, err := w.RT.ExecuteScript(cdcrt.Script{Source: []byte(pruned)},
			cdcrt.Context{Interface: w.RI, Location: r.Loc.location(), UseVM: eng.vm})
		if err != nil {
			harness(fmt.Sprintf("constructor script fails on %s: %v", eng.name, err), pruned)
			return 0, 0
		}
		arr := val.(cadence.Array)
		k2 := 0
		for k, p := range probes {
			if !keep[k] {
				continue
			}
			row := arr.Values[k2].(cadence.Array)
			k2++
			t := &r.Types[p.i]
			names := []string{"constructed type == Type<T>()", "constructed.identifier == specified ID", "Type<T>().identifier == specified ID"}
			for b := 0; b < 3; b++ {
				evals++
				if !bool(row.Values[b].(cadence.Bool)) {
					shape := t.K
					if t.K == "range" {
						shape = "range:" + syntax(t.T, false)
					}
					report(Fail{Kind: "runtime-constructor", Engine: eng.name, Shape: shape,
						Case: map[string]any{"probe": strings.TrimSpace(p.line), "failed": names[b]},
						Msg:  fmt.Sprintf("%s: %s fails for %s", eng.name, names[b], strings.TrimSpace(p.line))})
				}
			}
		}
	}
	return 1, evals
}
