package main

// Type terms of spec/lang/Types.tla -> real sema types (and Cadence source syntax).

import (
	"encoding/json"
	"fmt"
	"sort"
	"strings"

	"github.com/onflow/cadence/ast"
	"github.com/onflow/cadence/common"
	"github.com/onflow/cadence/sema"
)

// TT is a type term as printed by TLC (ToJson of the record).
type TT struct {
	K    string          `json:"k"`
	N    json.RawMessage `json:"n"`
	T    *TT             `json:"t"`
	KT   *TT             `json:"kt"`
	VT   *TT             `json:"vt"`
	A    *AuthT          `json:"a"`
	S    []string        `json:"s"`
	Pure bool            `json:"pure"`
	TP   string          `json:"tp"`
	Ps   []TT            `json:"ps"`
	R    *TT             `json:"r"`
}

func (t *TT) name() string {
	var n string
	_ = json.Unmarshal(t.N, &n)
	return n
}

func (t *TT) size() int64 {
	var n int64
	_ = json.Unmarshal(t.N, &n)
	return n
}

// the nominal environment of Types.tla
const typeEnvDecls = `
access(all) entitlement E1
access(all) entitlement E2
access(all) entitlement E3
access(all) struct interface I1 {}
access(all) struct interface I2 {}
access(all) struct interface I3: I1 {}
access(all) struct interface I4: I3 {}
access(all) resource interface RI {}
access(all) resource interface RI2: RI {}
access(all) resource interface RI3: RI2 {}
access(all) struct S: I1, I3 {}
access(all) struct S2: I2 {}
access(all) resource R: RI {}
access(all) resource R2 {}
access(all) struct S3: I4 {}
access(all) resource R3: RI3 {}
access(all) enum En: UInt8 { access(all) case a }
access(all) attachment At for R {}
access(all) attachment As for S {}
`

var primTypes = func() map[string]sema.Type {
	m := map[string]sema.Type{}
	for _, p := range []sema.Type{
		sema.NeverType, sema.AnyType, sema.AnyStructType, sema.AnyResourceType,
		sema.AnyStructAttachmentType, sema.AnyResourceAttachmentType, sema.HashableStructType,
		sema.StringType, sema.CharacterType, sema.BoolType, sema.TheAddressType, sema.VoidType, sema.MetaType,
		sema.NumberType, sema.SignedNumberType, sema.IntegerType, sema.SignedIntegerType,
		sema.FixedSizeUnsignedIntegerType, sema.FixedPointType, sema.SignedFixedPointType,
		sema.IntType, sema.Int8Type, sema.Int16Type, sema.Int32Type, sema.Int64Type, sema.Int128Type, sema.Int256Type,
		sema.UIntType, sema.UInt8Type, sema.UInt16Type, sema.UInt32Type, sema.UInt64Type, sema.UInt128Type, sema.UInt256Type,
		sema.Word8Type, sema.Word16Type, sema.Word32Type, sema.Word64Type, sema.Word128Type, sema.Word256Type,
		sema.Fix64Type, sema.Fix128Type, sema.UFix64Type, sema.UFix128Type,
		sema.PathType, sema.StoragePathType, sema.CapabilityPathType, sema.PublicPathType, sema.PrivatePathType,
	} {
		m[p.String()] = p
	}
	return m
}()

type typeEnv struct {
	c *checked
	// nested: the environment is declared inside contract C0 (address locations)
	nested bool
}

// nominal looks a nominal type of the environment up: top level, or nested in contract C0.
func (e *typeEnv) nominal(name string) sema.Type {
	if e.nested || name == "N" {
		c0, ok := globalType(e.c, "C0").(*sema.CompositeType)
		if !ok {
			panic("no contract C0")
		}
		t, ok := c0.GetNestedTypes().Get(name)
		if !ok {
			panic("no nested type C0." + name)
		}
		return t
	}
	return globalType(e.c, name)
}

func newTypeEnv(loc common.Location, extra string) (*typeEnv, error) {
	c, err := checkSource(typeEnvDecls+extra, loc)
	if err != nil {
		return nil, err
	}
	if c.errs != nil {
		return nil, fmt.Errorf("environment declarations rejected: %v", c.errs[0])
	}
	return &typeEnv{c: c}, nil
}

func (e *typeEnv) access(a *AuthT) sema.Access {
	if a == nil || a.K == "un" {
		return sema.UnauthorizedAccess
	}
	ss := append([]string{}, a.S...)
	sort.Strings(ss)
	var es []*sema.EntitlementType
	for _, n := range ss {
		es = append(es, e.nominal(n).(*sema.EntitlementType))
	}
	kind := sema.Conjunction
	if a.K == "disj" {
		kind = sema.Disjunction
	}
	return sema.NewEntitlementSetAccess(es, kind)
}

// build constructs the sema type of a term; reverse=true enumerates set members (intersection
// members, entitlements) in the opposite order (identity must not depend on it).
func (e *typeEnv) build(t *TT, reverse bool) sema.Type {
	switch t.K {
	case "prim":
		ty, ok := primTypes[t.name()]
		if !ok {
			panic("unknown primitive " + t.name())
		}
		return ty
	case "nom":
		return e.nominal(t.name())
	case "opt":
		return &sema.OptionalType{Type: e.build(t.T, reverse)}
	case "varr":
		return &sema.VariableSizedType{Type: e.build(t.T, reverse)}
	case "carr":
		return &sema.ConstantSizedType{Type: e.build(t.T, reverse), Size: t.size()}
	case "dict":
		return &sema.DictionaryType{KeyType: e.build(t.KT, reverse), ValueType: e.build(t.VT, reverse)}
	case "ref":
		acc := e.access(t.A)
		if sa, ok := acc.(sema.EntitlementSetAccess); ok && reverse {
			var es []*sema.EntitlementType
			sa.Entitlements.Foreach(func(k *sema.EntitlementType, _ struct{}) { es = append([]*sema.EntitlementType{k}, es...) })
			acc = sema.NewEntitlementSetAccess(es, sa.SetKind)
		}
		return sema.NewReferenceType(nil, acc, e.build(t.T, reverse))
	case "inter":
		ss := append([]string{}, t.S...)
		sort.Strings(ss)
		if reverse {
			for i, j := 0, len(ss)-1; i < j; i, j = i+1, j-1 {
				ss[i], ss[j] = ss[j], ss[i]
			}
		}
		var is []*sema.InterfaceType
		for _, n := range ss {
			is = append(is, e.nominal(n).(*sema.InterfaceType))
		}
		return sema.NewIntersectionType(nil, nil, is)
	case "cap":
		return sema.NewCapabilityType(nil, e.build(t.T, reverse))
	case "capu":
		return &sema.CapabilityType{}
	case "range":
		return sema.NewInclusiveRangeType(nil, e.build(t.T, reverse))
	case "fun":
		ps := []sema.Parameter{}
		for i := range t.Ps {
			ps = append(ps, sema.Parameter{TypeAnnotation: sema.NewTypeAnnotation(e.build(&t.Ps[i], reverse))})
		}
		purity := sema.FunctionPurityImpure
		if t.Pure {
			purity = sema.FunctionPurityView
		}
		ft := &sema.FunctionType{Purity: purity, Parameters: ps, ReturnTypeAnnotation: sema.NewTypeAnnotation(e.build(t.R, reverse))}
		if t.TP != "" && t.TP != "none" {
			ft.TypeParameters = []*sema.TypeParameter{{Name: "T", TypeBound: primTypes[t.TP]}}
		}
		return ft
	}
	panic("unknown type term kind " + t.K)
}

// denotable reports whether the term can be written in source at all (independent of the checker's opinion).
func denotableSyntax(t *TT) bool {
	switch t.K {
	case "prim":
		return t.name() != "Any"
	case "fun":
		if t.TP != "" && t.TP != "none" {
			return false // function types with type parameters exist for built-ins only
		}
		for i := range t.Ps {
			if !denotableSyntax(&t.Ps[i]) {
				return false
			}
		}
		return denotableSyntax(t.R)
	case "opt", "varr", "carr", "ref", "cap", "range":
		return denotableSyntax(t.T)
	case "dict":
		return denotableSyntax(t.KT) && denotableSyntax(t.VT)
	}
	return true
}

// termIsResource: resource-kindedness of a term as source annotations need it (`@T`).
func termIsResource(t *TT) bool {
	switch t.K {
	case "prim":
		n := t.name()
		return n == "AnyResource" || n == "AnyResourceAttachment"
	case "nom":
		switch t.name() {
		case "R", "R2", "R3", "RI", "RI2", "RI3", "At":
			return true
		}
	case "opt", "varr", "carr":
		return termIsResource(t.T)
	case "dict":
		return termIsResource(t.VT)
	case "inter":
		for _, i := range t.S {
			if i == "RI" || i == "RI2" || i == "RI3" {
				return true
			}
		}
	}
	return false
}

// syntax renders the term as a Cadence type (without resource annotation).
func syntax(t *TT, reverse bool) string {
	switch t.K {
	case "prim", "nom":
		return t.name()
	case "opt":
		in := syntax(t.T, reverse)
		if t.T.K == "ref" || t.T.K == "fun" {
			return "(" + in + ")?"
		}
		return in + "?"
	case "varr":
		return "[" + syntax(t.T, reverse) + "]"
	case "carr":
		return fmt.Sprintf("[%s; %d]", syntax(t.T, reverse), t.size())
	case "dict":
		return "{" + syntax(t.KT, reverse) + ": " + syntax(t.VT, reverse) + "}"
	case "ref":
		ss := append([]string{}, t.A.S...)
		sort.Strings(ss)
		if reverse {
			for i, j := 0, len(ss)-1; i < j; i, j = i+1, j-1 {
				ss[i], ss[j] = ss[j], ss[i]
			}
		}
		pre := ""
		switch t.A.K {
		case "conj":
			pre = "auth(" + strings.Join(ss, ", ") + ") "
		case "disj":
			pre = "auth(" + strings.Join(ss, " | ") + ") "
		}
		return pre + "&" + syntax(t.T, reverse)
	case "inter":
		ss := append([]string{}, t.S...)
		sort.Strings(ss)
		if reverse {
			for i, j := 0, len(ss)-1; i < j; i, j = i+1, j-1 {
				ss[i], ss[j] = ss[j], ss[i]
			}
		}
		return "{" + strings.Join(ss, ", ") + "}"
	case "cap":
		return "Capability<" + syntax(t.T, reverse) + ">"
	case "capu":
		return "Capability"
	case "range":
		return "InclusiveRange<" + syntax(t.T, reverse) + ">"
	case "fun":
		var ps []string
		for i := range t.Ps {
			at := ""
			if termIsResource(&t.Ps[i]) {
				at = "@"
			}
			ps = append(ps, at+syntax(&t.Ps[i], reverse))
		}
		v := ""
		if t.Pure {
			v = "view "
		}
		return v + "fun(" + strings.Join(ps, ", ") + "): " + syntax(t.R, reverse)
	}
	panic("syntax " + t.K)
}

// newTypeEnvWithDecls builds the environment from a program that also declares `fun dI(x: T)` for
// every given type syntax (one per line). It returns the checker's type of each parameter (nil where
// the checker rejects the annotation, with the error type in why). Entitlement sets compare by
// pointer identity, so the built types must come from the *same* checker run as the declared ones.
func newTypeEnvWithDecls(syn []string, res []bool, loc common.Location) (*typeEnv, []sema.Type, []string, error) {
	var sb strings.Builder
	sb.WriteString(typeEnvDecls)
	first := strings.Count(typeEnvDecls, "\n") + 1
	for i, s := range syn {
		at, body := "", ""
		if res[i] {
			at, body = "@", "destroy x"
		}
		fmt.Fprintf(&sb, "access(all) fun d%d(x: %s%s) { %s }\n", i, at, s, body)
	}
	c, err := checkSource(sb.String(), loc)
	if err != nil {
		return nil, nil, nil, err
	}
	why := make([]string, len(syn))
	for _, e := range c.errs {
		l := errLine(e) - first
		if l < 0 || l >= len(syn) {
			return nil, nil, nil, fmt.Errorf("checker error outside the type declarations: %v", e)
		}
		if why[l] == "" {
			why[l] = fmt.Sprintf("%T", e)
		}
	}
	out := make([]sema.Type, len(syn))
	byName := map[string]*ast.FunctionDeclaration{}
	for _, d := range c.program.FunctionDeclarations() {
		byName[d.Identifier.Identifier] = d
	}
	for i := range syn {
		if why[i] != "" {
			continue
		}
		ft := c.checker.Elaboration.FunctionDeclarationFunctionType(byName[fmt.Sprintf("d%d", i)])
		if ft == nil || len(ft.Parameters) != 1 {
			return nil, nil, nil, fmt.Errorf("no function type for d%d", i)
		}
		out[i] = ft.Parameters[0].TypeAnnotation.Type
	}
	return &typeEnv{c: c}, out, why, nil
}
