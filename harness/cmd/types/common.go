package main

import (
	"fmt"
	"os"
	"strconv"

	"github.com/onflow/cadence/ast"
	"github.com/onflow/cadence/common"
	"github.com/onflow/cadence/interpreter"
	"github.com/onflow/cadence/parser"
	"github.com/onflow/cadence/sema"

	"verifharness/util"
)

// Fail is one row of a driver's output that is not the summary.
type Fail struct {
	Fail      bool   `json:"fail,omitempty"`
	Harness   bool   `json:"harness,omitempty"`
	Note      bool   `json:"note,omitempty"`
	Sample    bool   `json:"sample,omitempty"`
	Kind      string `json:"kind"`
	Impl      string `json:"impl,omitempty"`
	Deviation string `json:"deviation,omitempty"`
	Engine    string `json:"engine,omitempty"`
	Shape     string `json:"shape,omitempty"`
	Msg       string `json:"msg"`
	Case      any    `json:"case,omitempty"`
	Src       string `json:"src,omitempty"`
}

type checked struct {
	checker *sema.Checker
	program *ast.Program
	errs    []error // checker errors (nil: accepted)
}

// checkSource parses and type-checks src. A parse error is a harness error.
func checkSource(src string, loc common.Location) (*checked, error) {
	program, err := parser.ParseProgram(nil, []byte(src), parser.Config{})
	if err != nil {
		return nil, fmt.Errorf("parse error: %v", err)
	}
	checker, err := sema.NewChecker(program, loc, nil, &sema.Config{AccessCheckMode: sema.AccessCheckModeStrict})
	if err != nil {
		return nil, err
	}
	res := &checked{checker: checker, program: program}
	if err := checker.Check(); err != nil {
		ce, ok := err.(*sema.CheckerError)
		if !ok {
			return nil, fmt.Errorf("unexpected checker failure: %v", err)
		}
		res.errs = ce.Errors
	}
	return res, nil
}

func newInterpreter(c *checked, loc common.Location) (*interpreter.Interpreter, error) {
	return interpreter.NewInterpreter(
		interpreter.ProgramFromChecker(c.checker),
		loc,
		&interpreter.Config{Storage: interpreter.NewInMemoryStorage(nil, nil)},
	)
}

func errLine(e error) int {
	if p, ok := e.(ast.HasPosition); ok {
		return p.StartPosition().Line
	}
	return -1
}

func globalType(c *checked, name string) sema.Type {
	v, ok := c.checker.Elaboration.GetGlobalType(name)
	if !ok || v == nil {
		util.Die("no global type %s", name)
	}
	return v.Type
}

func envInt(name string, def int) int {
	if v, err := strconv.Atoi(os.Getenv(name)); err == nil {
		return v
	}
	return def
}

// recoverBool evaluates f, turning a Go panic into (false, message).
func recoverBool(f func() bool) (res bool, panicked string) {
	defer func() {
		if r := recover(); r != nil {
			panicked = fmt.Sprint(r)
		}
	}()
	return f(), ""
}
