// types: conformance drivers of the "types" family (spec/lang/{Entitlements,Types,Subtype,TypeId,Casts}.tla).
//
//	types ent  <tables.ndjson> <out.ndjson>     C06  authorization algebra tables + upcast programs
//	types sub  <table.json>    <out.ndjson>     C08  subtype relation: five implementations vs. the spec table
//	types tid  <table.json>    <out.ndjson>     C45  type IDs across representations
//	types cast <table.json>    <out.ndjson>     C09  casts / isInstance / isSubtype on both engines
//
// The specification decides: every expected entry in the input files was evaluated by TLC.
// The drivers only construct the real objects, execute, and report differences.
package main

import (
	"fmt"
	"os"
)

func main() {
	if len(os.Args) < 4 {
		fmt.Fprintln(os.Stderr, "usage: types ent|sub|tid|cast <in> <out>")
		os.Exit(2)
	}
	switch os.Args[1] {
	case "ent":
		runEnt(os.Args[2], os.Args[3])
	case "sub":
		runSub(os.Args[2], os.Args[3])
	case "tid":
		runTid(os.Args[2], os.Args[3])
	case "cast":
		runCast(os.Args[2], os.Args[3])
	default:
		fmt.Fprintln(os.Stderr, "unknown sub-command", os.Args[1])
		os.Exit(2)
	}
}
