package main

// C09 driver. Input: NDJSON printed by TLC from spec/lang/Casts.tla: one "targets" row (the target type
// terms) and one "case" row per (value term, holding) with the sets of targets for which the
// specification says `as?` succeeds (cast), isInstance/isSubtype hold (inst), and what the named
// deviation DevRefForward predicts for isInstance/getType (fwd).
//
// Per case and engine: one script evaluates, for every target, `v as? T`, `v.isInstance(Type<T>())`,
// `v.getType().isSubtype(of: Type<T>())` and the identity of a successful cast; a second script runs
// `v as! T` for every target where `as?` succeeded; separate scripts run `v as! T` for a seeded sample
// of targets where `as?` gave nil and must fail with a force-cast error.

import (
	"encoding/json"
	"fmt"
	"math/rand"
	"runtime"
	"strings"
	"sync"

	"github.com/onflow/cadence"
	"github.com/onflow/cadence/common"

	"verifharness/host"
	"verifharness/util"
)

// VT is a value term of Casts.tla
type VT struct {
	K    string            `json:"k"`
	T    json.RawMessage   `json:"t"` // primitive name (num/simple) or element/borrow type term
	KT   *TT               `json:"kt"`
	VT   *TT               `json:"vt"`
	Es   []json.RawMessage `json:"es"`
	N    string            `json:"n"`
	Pure bool              `json:"pure"`
	Ps   []TT              `json:"ps"`
	R    *TT               `json:"r"`
	A    *AuthT            `json:"a"`
	X    string            `json:"x"`
	V    *VT               `json:"v"`
}

type caseRow struct {
	Kind      string `json:"kind"`
	V         VT     `json:"v"`
	Held      string `json:"held"`
	Dyn       TT     `json:"dyn"`
	Decl      TT     `json:"decl"`
	Optional  bool   `json:"optional"`
	Reference bool   `json:"reference"`
	Cast      []int  `json:"cast"`
	Inst      []int  `json:"inst"`
	Fwd       []int  `json:"fwd"`
}

const castDecls = `
access(all) entitlement E1
access(all) entitlement E2
access(all) entitlement E3
access(all) struct interface I1 {}
access(all) struct interface I2 {}
access(all) struct interface I3: I1 {}
access(all) struct interface I4: I3 {}
access(all) resource interface RI {}
access(all) resource interface RI2: RI {}
access(all) resource interface RI3: RI2 {}
access(all) struct S: I1, I3 { access(all) let id: Int; init() { self.id = 7 } }
access(all) struct S2: I2 { access(all) let id: Int; init() { self.id = 8 } }
access(all) resource R: RI { access(all) let id: Int; init() { self.id = 9 } }
access(all) resource R2 {}
access(all) struct S3: I4 {}
access(all) resource R3: RI3 {}
access(all) enum En: UInt8 { access(all) case a }
access(all) attachment At for R {}
access(all) attachment As for S {}
access(all) fun same(_ a: AnyStruct, _ b: AnyStruct): Bool {
  if let x = a as? Integer { if let y = b as? Integer { return x == y }; return false }
  if let x = a as? FixedPoint { if let y = b as? FixedPoint { return x == y }; return false }
  if let x = a as? String { if let y = b as? String { return x == y }; return false }
  if let x = a as? Character { if let y = b as? Character { return x == y }; return false }
  if let x = a as? Bool { if let y = b as? Bool { return x == y }; return false }
  if let x = a as? Address { if let y = b as? Address { return x == y }; return false }
  if let x = a as? Path { if let y = b as? Path { return x == y }; return false }
  if let x = a as? Type { if let y = b as? Type { return x == y }; return false }
  if let x = a as? En { if let y = b as? En { return x == y }; return false }
  if let x = a as? S { if let y = b as? S { return x.id == y.id }; return false }
  if let x = a as? S2 { if let y = b as? S2 { return x.id == y.id }; return false }
  if let x = a as? &S { if let y = b as? &S { return x.id == y.id }; return false }
  if let x = a as? &R { if let y = b as? &R { return x.uuid == y.uuid }; return false }
  if let x = a as? &Int { if let y = b as? &Int { return *x == *y }; return false }
  if let x = a as? &[Int] { if let y = b as? &[Int] { return x.length == y.length }; return false }
  if let x = a as? [AnyStruct] { if let y = b as? [AnyStruct] { return x.length == y.length && (x.length == 0 || same(x[0], y[0])) }; return false }
  if let x = a as? {String: AnyStruct} { if let y = b as? {String: AnyStruct} { return x.length == y.length }; return false }
  if let x = a as? {Int: AnyStruct} { if let y = b as? {Int: AnyStruct} { return x.length == y.length }; return false }
  return a.getType() == b.getType()
}
access(all) fun mkR0(): @R { return <- create R() }
access(all) fun mkR1(): @R? { return <- create R() }
access(all) fun mkR2(): @R?? { let a: @R? <- create R(); return <- a }
access(all) fun mkR3(): @R??? { let a: @R?? <- mkR2(); return <- a }
access(all) fun row(_ c: AnyStruct?, _ i: Bool, _ s: Bool, _ v: AnyStruct): [Bool] {
  return [c != nil, i, s, c == nil || same(c!, v)]
}
`

func (v *VT) prim() string {
	var s string
	_ = json.Unmarshal(v.T, &s)
	return s
}

func (v *VT) typeTerm() *TT {
	t := &TT{}
	if err := json.Unmarshal(v.T, t); err != nil {
		panic(err)
	}
	return t
}

func primTerm(n string) *TT {
	b, _ := json.Marshal(n)
	return &TT{K: "prim", N: b}
}

// declType mirrors DynType of Casts.tla, for the annotations the rendering needs (cross-checked with the
// specification's `decl` at the top level).
func (v *VT) declType() *TT {
	switch v.K {
	case "num", "simple":
		return primTerm(v.prim())
	case "arr":
		return &TT{K: "varr", T: v.typeTerm()}
	case "carr":
		n, _ := json.Marshal(len(v.Es))
		return &TT{K: "carr", T: v.typeTerm(), N: n}
	case "dict":
		return &TT{K: "dict", KT: v.KT, VT: v.VT}
	case "comp":
		n, _ := json.Marshal(v.N)
		return &TT{K: "nom", N: n}
	case "fun":
		return &TT{K: "fun", Pure: v.Pure, TP: "none", Ps: v.Ps, R: v.R}
	case "ref":
		return &TT{K: "ref", A: v.A, T: v.typeTerm()}
	case "some":
		return &TT{K: "opt", T: v.V.declType()}
	case "nil":
		return &TT{K: "opt", T: primTerm("Never")}
	}
	panic("declType " + v.K)
}

func subValue(raw json.RawMessage) *VT {
	v := &VT{}
	if err := json.Unmarshal(raw, v); err != nil {
		panic(err)
	}
	return v
}

// expr renders a value term as a Cadence expression.
func (v *VT) expr() string {
	switch v.K {
	case "num":
		switch v.prim() {
		case "UFix64", "Fix64", "UFix128", "Fix128":
			return "(1.5 as " + v.prim() + ")"
		}
		return "(1 as " + v.prim() + ")"
	case "simple":
		switch v.prim() {
		case "String":
			return `"s"`
		case "Bool":
			return "true"
		case "Address":
			return "(0x1 as Address)"
		case "StoragePath":
			return "/storage/a"
		case "PublicPath":
			return "/public/a"
		case "Type":
			return "Type<Int>()"
		case "Character":
			return `("c" as Character)`
		}
	case "arr", "carr":
		var es []string
		for _, e := range v.Es {
			es = append(es, subValue(e).expr())
		}
		return "([" + strings.Join(es, ", ") + "] as " + syntax(v.declType(), false) + ")"
	case "dict":
		var es []string
		for _, e := range v.Es {
			var kv []json.RawMessage
			if err := json.Unmarshal(e, &kv); err != nil || len(kv) != 2 {
				panic("dict entry")
			}
			es = append(es, subValue(kv[0]).expr()+": "+subValue(kv[1]).expr())
		}
		return "({" + strings.Join(es, ", ") + "} as " + syntax(v.declType(), false) + ")"
	case "comp":
		if v.N == "En" {
			return "En.a"
		}
		return v.N + "()"
	case "fun":
		var ps []string
		for i := range v.Ps {
			ps = append(ps, fmt.Sprintf("a%d: %s", i, syntax(&v.Ps[i], false)))
		}
		body := "{ return 1 }"
		if v.R.K == "prim" && v.R.name() == "Void" {
			body = "{}"
		}
		pre := ""
		if v.Pure {
			pre = "view "
		}
		return "(" + pre + "fun (" + strings.Join(ps, ", ") + "): " + syntax(v.R, false) + " " + body + ")"
	case "ref":
		return "(&" + v.X + " as " + syntax(v.declType(), false) + ")"
	case "some":
		return "(" + v.V.expr() + " as " + syntax(v.declType(), false) + ")"
	case "nil":
		return "nil"
	}
	panic("expr " + v.K)
}

func (v *VT) uses(x string) bool {
	if v == nil {
		return false
	}
	if v.K == "ref" && v.X == x {
		return true
	}
	for _, e := range v.Es {
		var kv []json.RawMessage
		if json.Unmarshal(e, &kv) == nil && len(kv) == 2 {
			if subValue(kv[0]).uses(x) || subValue(kv[1]).uses(x) {
				return true
			}
			continue
		}
		if subValue(e).uses(x) {
			return true
		}
	}
	return v.V.uses(x)
}

func toSet(xs []int) map[int]bool {
	m := map[int]bool{}
	for _, x := range xs {
		m[x-1] = true
	}
	return m
}

func runCast(in, out string) {
	o := util.NewOut(out)
	defer o.Close()
	var targets []TT
	var cases []*caseRow
	var depths []*depthRow
	err := util.ReadLines(in, func(line []byte) error {
		var k struct {
			Kind string `json:"kind"`
		}
		if err := json.Unmarshal(line, &k); err != nil {
			return err
		}
		switch k.Kind {
		case "targets":
			var t struct {
				Types []TT `json:"types"`
			}
			if err := json.Unmarshal(line, &t); err != nil {
				return err
			}
			targets = t.Types
		case "depth":
			d := &depthRow{}
			if err := json.Unmarshal(line, d); err != nil {
				return err
			}
			depths = append(depths, d)
		case "case":
			c := &caseRow{}
			if err := json.Unmarshal(line, c); err != nil {
				return err
			}
			cases = append(cases, c)
		}
		return nil
	})
	if err != nil || len(targets) == 0 || len(cases) == 0 {
		util.Die("reading %s: %v (%d targets, %d cases)", in, err, len(targets), len(cases))
	}
	nfailSample := envInt("VERIF_CAST_FAILS", 3)
	var mu sync.Mutex
	evals, fails, progs, pruned := 0, 0, 0, 0
	nontriv := map[string]struct{}{}
	report := func(f Fail) {
		f.Fail = true
		mu.Lock()
		fails++
		nf := fails
		mu.Unlock()
		if nf <= 4000 {
			o.Write(f)
		}
	}
	harness := func(msg, src string) { o.Write(Fail{Harness: true, Kind: "harness", Msg: msg, Src: src}) }
	tsyn := make([]string, len(targets))
	for j := range targets {
		tsyn[j] = syntax(&targets[j], false)
	}

	util.Parallel(len(cases), runtime.NumCPU(), func(ci int) {
		c := cases[ci]
		rng := rand.New(rand.NewSource(util.Seed()*1000003 + int64(ci)))
		// self-check of the rendering against the specification's declared type
		if syntax(c.V.declType(), false) != syntax(&c.Decl, false) {
			harness(fmt.Sprintf("value renderer: declared type %s, specification says %s", syntax(c.V.declType(), false), syntax(&c.Decl, false)), "")
			return
		}
		vexpr := c.V.expr()
		held := "AnyStruct"
		if c.Held == "exact" {
			held = syntax(&c.Decl, false)
		}
		desc := fmt.Sprintf("%s held as %s", vexpr, held)
		var pre strings.Builder
		pre.WriteString("  let sv = S()\n  let iv: Int = 1\n  let av: [Int] = [1]\n")
		usesR := c.V.uses("rv")
		if usesR {
			pre.WriteString("  let rv <- create R()\n")
		}
		fmt.Fprintf(&pre, "  let v: %s = %s\n", held, vexpr)
		post := ""
		if usesR {
			post = "  destroy rv\n"
		}
		instExpr := func(j int) (string, string) {
			if c.Optional && c.Held == "exact" {
				return "false", "false" // members of an optional-typed variable: exempt anyway
			}
			return fmt.Sprintf("v.isInstance(Type<%s>())", tsyn[j]), fmt.Sprintf("v.getType().isSubtype(of: Type<%s>())", tsyn[j])
		}
		renderA := func(keep map[int]bool) (string, map[int]int) {
			var sb strings.Builder
			sb.WriteString(castDecls)
			sb.WriteString("access(all) fun main(): [[Bool]] {\n")
			sb.WriteString(pre.String())
			sb.WriteString("  let out: [[Bool]] = []\n")
			line := strings.Count(sb.String(), "\n") + 1
			lineOf := map[int]int{}
			for j := range targets {
				if keep != nil && !keep[j] {
					continue
				}
				i1, i2 := instExpr(j)
				lineOf[line] = j
				fmt.Fprintf(&sb, "  out.append(row(v as? %s, %s, %s, v))\n", tsyn[j], i1, i2)
				line++
			}
			sb.WriteString(post)
			sb.WriteString("  return out\n}\n")
			return sb.String(), lineOf
		}
		full, lineOf := renderA(nil)
		ch, err := checkSource(full, common.StringLocation("cast"))
		if err != nil {
			harness(err.Error(), full)
			return
		}
		keep := map[int]bool{}
		for j := range targets {
			keep[j] = true
		}
		for _, e := range ch.errs {
			j, ok := lineOf[errLine(e)]
			if !ok {
				harness(fmt.Sprintf("checker error outside a target line (%s): %T %v", desc, e, e), full)
				return
			}
			if keep[j] {
				keep[j] = false
				mu.Lock()
				pruned++
				mu.Unlock()
			}
		}
		srcA, _ := renderA(keep)
		specCast, specInst, specFwd := toSet(c.Cast), toSet(c.Inst), toSet(c.Fwd)
		isNil := c.V.K == "nil"
		le := 0
		for _, eng := range engines {
			w := host.NewWorld()
			res := w.Script(srcA, eng.vm)
			mu.Lock()
			progs++
			mu.Unlock()
			if res.Err != nil {
				if host.IsInternal(res.Class) {
					report(Fail{Kind: "crash", Engine: eng.name, Deviation: "none", Case: map[string]any{"value": desc}, Src: srcA,
						Msg: fmt.Sprintf("%s: table script for %s fails with %s: %v", eng.name, desc, res.Class, res.Err)})
				} else {
					harness(fmt.Sprintf("table script for %s fails on %s (%s): %v", desc, eng.name, res.Class, res.Err), srcA)
				}
				return
			}
			arr := res.Value.(cadence.Array)
			k := 0
			obsCast := map[int]bool{}
			for j := range targets {
				if !keep[j] {
					continue
				}
				r := arr.Values[k].(cadence.Array)
				k++
				cast, inst, sub, ident := bool(r.Values[0].(cadence.Bool)), bool(r.Values[1].(cadence.Bool)), bool(r.Values[2].(cadence.Bool)), bool(r.Values[3].(cadence.Bool))
				obsCast[j] = cast
				cs := map[string]any{"value": vexpr, "held": held, "dynamic_type": syntax(&c.Dyn, false), "target": tsyn[j],
					"as?": cast, "isInstance": inst, "isSubtype": sub, "spec_cast": specCast[j], "spec_instance": specInst[j], "spec_DevRefForward": specFwd[j]}
				if specCast[j] || specInst[j] {
					mu.Lock()
					nontriv[fmt.Sprintf("%d/%d", ci, j)] = struct{}{}
					mu.Unlock()
				}
				if !isNil {
					le++
					if cast != specCast[j] {
						report(Fail{Kind: "cast", Engine: eng.name, Deviation: "none", Shape: c.V.K, Case: cs,
							Msg: fmt.Sprintf("%s: (%s) as? %s succeeds=%v, specification says %v", eng.name, desc, tsyn[j], cast, specCast[j])})
					}
					le++
					if cast && !ident && targets[j].K != "opt" { // (a cast to an optional target yields the value boxed)
						report(Fail{Kind: "identity", Engine: eng.name, Deviation: "none", Shape: c.V.K, Case: cs,
							Msg: fmt.Sprintf("%s: (%s) as? %s succeeds but does not yield the original value", eng.name, desc, tsyn[j])})
					}
				}
				if c.Optional {
					continue // isInstance / isSubtype on optional values: exempt by the property
				}
				for _, m := range []struct {
					name string
					got  bool
				}{{"isInstance", inst}, {"isSubtype", sub}} {
					le++
					if m.got == specInst[j] {
						continue
					}
					dev := "none"
					if c.Reference && m.got == specFwd[j] {
						dev = "DevRefForward"
					}
					report(Fail{Kind: m.name, Engine: eng.name, Deviation: dev, Shape: c.V.K, Case: cs,
						Msg: fmt.Sprintf("%s: (%s) %s %s is %v, specification says %v (as? gives %v; DevRefForward predicts %v)", eng.name, desc, m.name, tsyn[j], m.got, specInst[j], cast, specFwd[j])})
				}
			}
			// force casts: must succeed exactly where as? did
			expectOK := func(j int) bool {
				if isNil {
					return specCast[j]
				}
				return obsCast[j]
			}
			renderB := func(js []int) string {
				var sb strings.Builder
				sb.WriteString(castDecls)
				sb.WriteString("access(all) fun main(): Int {\n")
				sb.WriteString(pre.String())
				sb.WriteString("  var n = 0\n")
				for _, j := range js {
					fmt.Fprintf(&sb, "  let y%d = v as! %s; n = n + 1\n", j, tsyn[j])
				}
				sb.WriteString(post)
				sb.WriteString("  return n\n}\n")
				return sb.String()
			}
			var okJs, failJs []int
			for j := range targets {
				if !keep[j] {
					continue
				}
				if expectOK(j) {
					okJs = append(okJs, j)
				} else {
					failJs = append(failJs, j)
				}
			}
			runB := func(js []int) string {
				w := host.NewWorld()
				r := w.Script(renderB(js), eng.vm)
				mu.Lock()
				progs++
				mu.Unlock()
				return r.Class
			}
			le += len(okJs)
			if len(okJs) > 0 && runB(okJs) != "ok" {
				for _, j := range okJs { // locate the culprit(s)
					if cl := runB([]int{j}); cl != "ok" {
						report(Fail{Kind: "force-cast", Engine: eng.name, Deviation: "none", Shape: c.V.K,
							Case: map[string]any{"value": vexpr, "held": held, "target": tsyn[j], "as?": "succeeds", "as!": cl},
							Msg:  fmt.Sprintf("%s: (%s) as! %s fails (%s) although as? succeeds", eng.name, desc, tsyn[j], cl)})
					}
				}
			}
			rng.Shuffle(len(failJs), func(a, b int) { failJs[a], failJs[b] = failJs[b], failJs[a] })
			if len(failJs) > nfailSample {
				failJs = failJs[:nfailSample]
			}
			for _, j := range failJs {
				le++
				cl := runB([]int{j})
				if cl != "user:ForceCastTypeMismatchError" {
					kind := "force-cast"
					if host.IsInternal(cl) {
						kind = "crash"
					}
					report(Fail{Kind: kind, Engine: eng.name, Deviation: "none", Shape: c.V.K,
						Case: map[string]any{"value": vexpr, "held": held, "target": tsyn[j], "as?": "nil", "as!": cl},
						Msg:  fmt.Sprintf("%s: (%s) as! %s ends with %s although as? yields nil (expected a force-cast error)", eng.name, desc, tsyn[j], cl)})
				}
			}
		}
		mu.Lock()
		evals += le
		mu.Unlock()
		if ci == len(cases)/2 {
			o.Write(Fail{Sample: true, Kind: "case", Msg: desc, Case: map[string]any{"value": vexpr, "held": held, "dynamic_type": syntax(&c.Dyn, false),
				"as?_succeeds_for": len(c.Cast), "targets": len(targets)}})
		}
	})
	// optional depth: the result of a successful cast is the operand (same run-time type, same number of
	// optional layers), for struct and resource operands
	de, dp := depthProbes(depths, report, harness)
	evals += de
	progs += dp
	o.Write(map[string]any{"summary": true, "depth_cases": len(depths), "cases": len(cases), "targets": len(targets), "engines": len(engines),
		"evaluations": evals, "distinct_nontrivial": len(nontriv), "programs": progs, "pruned_target_lines": pruned, "fails": fails})
}

type depthRow struct {
	Kind     string `json:"kind"`
	V        VT     `json:"v"`
	Decl     TT     `json:"decl"`
	Resource bool   `json:"resource"`
	Targets  []struct {
		T      TT   `json:"t"`
		OK     bool `json:"ok"`
		Result TT   `json:"result"`
	} `json:"targets"`
}

func (v *VT) someDepth() (int, *VT) {
	d := 0
	for v.K == "some" {
		d++
		v = v.V
	}
	return d, v
}

// depthProbes: per (operand of optional depth d, target) one function; `as?` decides success, and on success the
// run-time type of the result of `as?` and of `as!` (on a fresh operand) must be the specified result type.
func depthProbes(rows []*depthRow, report func(Fail), harness func(string, string)) (int, int) {
	evals, progs := 0, 0
	for _, r := range rows {
		d, payload := r.V.someDepth()
		at := ""
		var mk string
		if r.Resource {
			if payload.K != "res" || d > 3 {
				harness("depth probe: unsupported resource operand", "")
				return evals, progs
			}
			at = "@"
			mk = fmt.Sprintf("mkR%d()", d)
		} else {
			mk = r.V.expr()
		}
		orig := syntax(&r.Decl, false)
		var sb strings.Builder
		sb.WriteString(castDecls)
		for j, t := range r.Targets {
			ts, exp := syntax(&t.T, false), syntax(&t.Result, false)
			if r.Resource {
				fmt.Fprintf(&sb, `access(all) fun p%d(): [Bool] {
  let v: @AnyResource <- %s
  let before = v.getType() == Type<@%s>()
  if let y <- v as? @%s {
    let z: @AnyResource <- y
    let ok1 = z.getType() == Type<@%s>()
    let v2: @AnyResource <- %s
    let w <- v2 as! @%s
    let z2: @AnyResource <- w
    let ok2 = z2.getType() == Type<@%s>()
    destroy z
    destroy z2
    return [true, ok1, ok2, before]
  } else {
    destroy v
    return [false, true, true, before]
  }
}
`, j, mk, orig, ts, exp, mk, ts, exp)
			} else {
				fmt.Fprintf(&sb, `access(all) fun p%d(): [Bool] {
  let v: AnyStruct = %s
  let before = v.getType() == Type<%s>()
  if let y = v as? %s {
    let z: AnyStruct = y
    let w = v as! %s
    let z2: AnyStruct = w
    return [true, z.getType() == Type<%s>(), z2.getType() == Type<%s>(), before]
  }
  return [false, true, true, before]
}
`, j, mk, orig, ts, ts, exp, exp)
			}
		}
		sb.WriteString("access(all) fun main(): [[Bool]] {\n  return [")
		for j := range r.Targets {
			if j > 0 {
				sb.WriteString(", ")
			}
			fmt.Fprintf(&sb, "p%d()", j)
		}
		sb.WriteString("]\n}\n")
		src := sb.String()
		desc := fmt.Sprintf("%s%s (optional depth %d)", at, orig, d)
		for _, eng := range engines {
			w := host.NewWorld()
			res := w.Script(src, eng.vm)
			progs++
			if res.Err != nil {
				if host.IsInternal(res.Class) {
					report(Fail{Kind: "crash", Engine: eng.name, Deviation: "none", Case: map[string]any{"value": desc}, Src: src,
						Msg: fmt.Sprintf("%s: depth probes for %s fail with %s: %v", eng.name, desc, res.Class, res.Err)})
					continue
				}
				harness(fmt.Sprintf("depth probes for %s fail on %s (%s): %v", desc, eng.name, res.Class, res.Err), src)
				return evals, progs
			}
			arr := res.Value.(cadence.Array)
			for j, t := range r.Targets {
				row := arr.Values[j].(cadence.Array)
				b := func(i int) bool { return bool(row.Values[i].(cadence.Bool)) }
				ts, exp := syntax(&t.T, false), syntax(&t.Result, false)
				cs := map[string]any{"operand_type": at + orig, "optional_depth": d, "target": at + ts, "spec_cast": t.OK, "spec_result_type": at + exp, "as?": b(0)}
				evals += 4
				if !b(3) {
					harness(fmt.Sprintf("depth probe: operand of %s does not have the run-time type %s", desc, orig), src)
					return evals, progs
				}
				if b(0) != t.OK {
					report(Fail{Kind: "cast", Engine: eng.name, Deviation: "none", Shape: "depth", Case: cs,
						Msg: fmt.Sprintf("%s: (%s) as? %s%s succeeds=%v, specification says %v", eng.name, desc, at, ts, b(0), t.OK)})
					continue
				}
				for i, op := range []string{"as?", "as!"} {
					if !b(1 + i) {
						report(Fail{Kind: "identity", Engine: eng.name, Deviation: "none", Shape: "depth", Case: cs,
							Msg: fmt.Sprintf("%s: (%s) %s %s%s succeeds but the result's run-time type is not %s%s: the cast does not yield the original value (optional layers changed)", eng.name, desc, op, at, ts, at, exp)})
					}
				}
			}
		}
	}
	return evals, progs
}
