package main

// C06 driver. Input: NDJSON, first the "base" row of spec/lang/Entitlements.tla (authorizations,
// Permits table, intersection rule + soundness sets), then one "map" row per mapping of the model
// (exact image, DevImageDropsEmpty image, semantic reach sets).
//
// Level 1 (objects): real sema.EntitlementSetAccess / EntitlementMapAccess values, obtained by
// type-checking generated declarations, and their static-authorization counterparts:
//   PermitsAccess (sema, sema.PermitsAccess, interpreter.PermitsAccess on static authorizations,
//   reference subtyping in the checker and on static types), IntersectAccess, Image,
//   resolution of include chains / Identity.
// Level 2 (programs, checker + interpreter + VM): upcasts, direct members, nested references and
// mapped fields reached through an upcast reference; run-time downcasts of what was obtained.

import (
	"encoding/json"
	"fmt"
	"math/rand"
	"os"
	"runtime"
	"runtime/pprof"
	"sort"
	"strings"
	"sync"
	"time"

	"github.com/onflow/cadence"
	"github.com/onflow/cadence/ast"
	"github.com/onflow/cadence/common"
	"github.com/onflow/cadence/interpreter"
	"github.com/onflow/cadence/sema"

	"verifharness/host"
	"verifharness/util"
)

type AuthT struct {
	K string   `json:"k"`
	S []string `json:"s"`
}

func (a AuthT) String() string {
	switch a.K {
	case "un":
		return "unauthorized"
	case "self":
		return "self"
	case "conj":
		return "auth(" + strings.Join(a.S, ", ") + ")"
	case "disj":
		return "auth(" + strings.Join(a.S, " | ") + ")"
	}
	return a.K
}

type BaseRow struct {
	Kind      string     `json:"kind"`
	Auths     []AuthT    `json:"auths"`
	Permits   []string   `json:"permits"`
	Intersect [][]int    `json:"intersect"`
	ISound    [][]string `json:"isound"`
}

type MapRow struct {
	Kind       string     `json:"kind"`
	Rel        [][]string `json:"rel"`
	ID         bool       `json:"id"`
	Exact      []int      `json:"exact"`
	Dev        []int      `json:"dev"`
	DevApplies string     `json:"devapplies"`
	Sound      []string   `json:"sound"`
	DevReach   []string   `json:"devreach"`
}

func (m *MapRow) String() string {
	var ps []string
	for _, p := range m.Rel {
		ps = append(ps, p[0]+" -> "+p[1])
	}
	if m.ID {
		ps = append(ps, "include Identity")
	}
	return "{" + strings.Join(ps, "; ") + "}"
}

type entCtx struct {
	base    BaseRow
	n       int
	ents    []string // universe, sorted
	out     *util.Out
	seed    int64
	mu      sync.Mutex
	evals   int64
	nontriv map[string]struct{}
	notes   map[string]int
	fails   int
	progs   int64
	samples int
}

func (c *entCtx) count(n int) {
	c.mu.Lock()
	c.evals += int64(n)
	c.mu.Unlock()
}

func (c *entCtx) nt(key string) {
	c.mu.Lock()
	c.nontriv[key] = struct{}{}
	c.mu.Unlock()
}

func (c *entCtx) note(kind string) {
	c.mu.Lock()
	c.notes[kind]++
	c.mu.Unlock()
}

func (c *entCtx) fail(f Fail) {
	f.Fail = true
	c.mu.Lock()
	c.fails++
	n := c.fails
	c.mu.Unlock()
	if n > 400 {
		f.Src = ""
	}
	c.out.Write(f)
}

func (c *entCtx) harness(msg, src string) {
	c.out.Write(Fail{Harness: true, Kind: "harness", Msg: msg, Src: src})
}

func (c *entCtx) isSet(i int) bool { k := c.base.Auths[i].K; return k == "conj" || k == "disj" }

// denotable in source as a reference authorization
func (c *entCtx) denotableRef(i int) bool {
	a := c.base.Auths[i]
	switch a.K {
	case "un", "conj":
		return true
	case "disj":
		return len(a.S) > 1
	}
	return false
}

func bit(s string, i int) bool { return s[i] == '1' }

// ---------------------------------------------------------------------------------- rendering

func entDecls(ents []string) string {
	var sb strings.Builder
	for _, e := range ents {
		fmt.Fprintf(&sb, "access(all) entitlement %s\n", e)
	}
	return sb.String()
}

func authPrefix(a AuthT, rng *rand.Rand) string {
	s := append([]string{}, a.S...)
	if rng != nil {
		rng.Shuffle(len(s), func(i, j int) { s[i], s[j] = s[j], s[i] })
	}
	switch a.K {
	case "un":
		return ""
	case "conj":
		return "auth(" + strings.Join(s, ", ") + ") "
	case "disj":
		return "auth(" + strings.Join(s, " | ") + ") "
	}
	panic("authPrefix " + a.K)
}

func refType(a AuthT, t string, rng *rand.Rand) string { return authPrefix(a, rng) + "&" + t }

func accessMod(a AuthT, rng *rand.Rand) string {
	s := append([]string{}, a.S...)
	if rng != nil {
		rng.Shuffle(len(s), func(i, j int) { s[i], s[j] = s[j], s[i] })
	}
	switch a.K {
	case "un":
		return "access(all)"
	case "conj":
		return "access(" + strings.Join(s, ", ") + ")"
	case "disj":
		return "access(" + strings.Join(s, " | ") + ")"
	}
	panic("accessMod " + a.K)
}

// mappingDecl renders mapping `name` (flattened relation m) in a seed-chosen shape:
// 1..3 layers chained by `include`, identity as `include Identity` on a random layer.
func mappingDecl(name string, m *MapRow, rng *rand.Rand) (string, int) {
	layers := 1 + rng.Intn(3)
	rels := make([][]string, layers)
	for _, p := range m.Rel {
		l := rng.Intn(layers)
		rels[l] = append(rels[l], p[0]+" -> "+p[1])
		if rng.Intn(6) == 0 { // a relation may be repeated in another layer
			l2 := rng.Intn(layers)
			if l2 != l {
				rels[l2] = append(rels[l2], p[0]+" -> "+p[1])
			}
		}
	}
	idLayer := -1
	if m.ID {
		idLayer = rng.Intn(layers)
	}
	var sb strings.Builder
	for l := layers - 1; l >= 0; l-- {
		n := name
		if l > 0 {
			n = fmt.Sprintf("%s_%d", name, l)
		}
		fmt.Fprintf(&sb, "access(all) entitlement mapping %s {", n)
		if l < layers-1 {
			fmt.Fprintf(&sb, " include %s_%d", name, l+1)
			sb.WriteString("\n")
		}
		if idLayer == l {
			sb.WriteString(" include Identity\n")
		}
		rng.Shuffle(len(rels[l]), func(i, j int) { rels[l][i], rels[l][j] = rels[l][j], rels[l][i] })
		for _, r := range rels[l] {
			sb.WriteString(" " + r + "\n")
		}
		sb.WriteString(" }\n")
	}
	return sb.String(), layers
}

// ----------------------------------------------------------------------------- level 1: objects

type objEnv struct {
	c     *checked
	inter *interpreter.Interpreter
	ent   map[string]*sema.EntitlementType
}

func (c *entCtx) access(env *objEnv, i int, rng *rand.Rand) sema.Access {
	a := c.base.Auths[i]
	switch a.K {
	case "un":
		return sema.UnauthorizedAccess
	case "self":
		return sema.PrimitiveAccess(ast.AccessSelf)
	}
	s := append([]string{}, a.S...)
	rng.Shuffle(len(s), func(i, j int) { s[i], s[j] = s[j], s[i] })
	var es []*sema.EntitlementType
	for _, e := range s {
		es = append(es, env.ent[e])
	}
	kind := sema.Conjunction
	if a.K == "disj" {
		kind = sema.Disjunction
	}
	return sema.NewEntitlementSetAccess(es, kind)
}

// index of a real access value in the model's list of authorizations (-1: not representable there)
func (c *entCtx) indexOf(acc sema.Access) int {
	var k string
	var s []string
	switch a := acc.(type) {
	case sema.PrimitiveAccess:
		switch ast.PrimitiveAccess(a) {
		case ast.AccessAll:
			k = "un"
		case ast.AccessSelf:
			k = "self"
		default:
			return -1
		}
	case sema.EntitlementSetAccess:
		k = "conj"
		if a.SetKind == sema.Disjunction {
			k = "disj"
		}
		a.Entitlements.Foreach(func(e *sema.EntitlementType, _ struct{}) { s = append(s, e.Identifier) })
		sort.Strings(s)
		if len(s) == 0 {
			return -1
		}
	default:
		return -1
	}
	for i, b := range c.base.Auths {
		if b.K != k || len(b.S) != len(s) {
			continue
		}
		bs := append([]string{}, b.S...)
		sort.Strings(bs)
		same := true
		for j := range bs {
			if bs[j] != s[j] {
				same = false
			}
		}
		if same {
			return i
		}
	}
	return -1
}

func (c *entCtx) newObjEnv(src string, loc common.Location) *objEnv {
	ch, err := checkSource(src, loc)
	if err != nil {
		c.harness(err.Error(), src)
		return nil
	}
	if ch.errs != nil {
		c.harness(fmt.Sprintf("declarations rejected: %v", ch.errs[0]), src)
		return nil
	}
	inter, err := newInterpreter(ch, loc)
	if err != nil {
		c.harness(err.Error(), src)
		return nil
	}
	env := &objEnv{c: ch, inter: inter, ent: map[string]*sema.EntitlementType{}}
	for _, e := range c.ents {
		env.ent[e] = globalType(ch, e).(*sema.EntitlementType)
	}
	return env
}

func (c *entCtx) baseTables() {
	rng := rand.New(rand.NewSource(c.seed))
	src := entDecls(c.ents) + "access(all) struct T {}\n"
	loc := common.StringLocation("ent-base")
	env := c.newObjEnv(src, loc)
	if env == nil {
		return
	}
	tT := globalType(env.c, "T")
	n := c.n
	acc := make([]sema.Access, n)
	acc2 := make([]sema.Access, n) // same authorizations, independently ordered
	for i := 0; i < n; i++ {
		acc[i] = c.access(env, i, rng)
		acc2[i] = c.access(env, i, rng)
		if c.indexOf(acc[i]) != i {
			c.harness(fmt.Sprintf("indexOf(%s) = %d, want %d", c.base.Auths[i], c.indexOf(acc[i]), i), "")
			return
		}
	}
	for i := 0; i < n; i++ { // i: requirement / super authorization
		for j := 0; j < n; j++ { // j: held / sub authorization
			want := bit(c.base.Permits[i], j)
			cs := map[string]any{"req": c.base.Auths[i].String(), "held": c.base.Auths[j].String(), "spec": want}
			if c.isSet(i) && c.isSet(j) {
				c.nt(fmt.Sprintf("permits/%d/%d", i, j))
			}
			report := func(impl string, got bool) {
				c.count(1)
				if got != want {
					c.fail(Fail{Kind: "permits", Impl: impl, Deviation: "none", Case: cs,
						Msg: fmt.Sprintf("%s: requirement %s, holder %s: implementation says %v, set semantics says %v", impl, c.base.Auths[i], c.base.Auths[j], got, want)})
				}
			}
			report("sema.Access.PermitsAccess", acc[i].PermitsAccess(acc2[j]))
			report("sema.PermitsAccess", sema.PermitsAccess(acc2[i], acc[j]))
			if c.base.Auths[i].K != "self" && c.base.Auths[j].K != "self" {
				si := interpreter.ConvertSemaAccessToStaticAuthorization(nil, acc[i])
				sj := interpreter.ConvertSemaAccessToStaticAuthorization(nil, acc2[j])
				got, p := recoverBool(func() bool { return interpreter.PermitsAccess(env.inter, si, sj) })
				if p != "" {
					c.fail(Fail{Kind: "permits", Impl: "interpreter.PermitsAccess", Deviation: "none", Case: cs, Msg: "panic: " + p})
				} else {
					report("interpreter.PermitsAccess(static)", got)
				}
				// round trip of the authorization through the static representation
				back, err := env.inter.SemaAccessFromStaticAuthorization(sj)
				c.count(1)
				if err != nil || c.indexOf(back) != j {
					c.fail(Fail{Kind: "auth-roundtrip", Deviation: "none", Case: cs,
						Msg: fmt.Sprintf("static authorization of %s converts back to %v (err %v)", c.base.Auths[j], back, err)})
				}
				// reference subtyping by authorization, checker and run-time relation
				sub := sema.NewReferenceType(nil, acc2[j], tT)
				sup := sema.NewReferenceType(nil, acc[i], tT)
				report("sema.IsSubType(reference)", sema.IsSubType(sub, sup))
				ssub := interpreter.ConvertSemaToStaticType(nil, sub)
				ssup := interpreter.ConvertSemaToStaticType(nil, sup)
				got, p = recoverBool(func() bool { return interpreter.IsSubType(env.inter, ssub, ssup) })
				if p != "" {
					c.fail(Fail{Kind: "permits", Impl: "interpreter.IsSubType(reference)", Deviation: "none", Case: cs, Msg: "panic: " + p})
				} else {
					report("interpreter.IsSubType(reference)", got)
				}
			}
			// intersection: the result must be entailed by both sides
			res := sema.IntersectAccess(acc[i], acc2[j])
			ri := c.indexOf(res)
			c.count(1)
			ics := map[string]any{"a": c.base.Auths[i].String(), "b": c.base.Auths[j].String(), "impl": res.String(),
				"rule": c.base.Auths[c.base.Intersect[i][j]-1].String()}
			if ri < 0 {
				c.fail(Fail{Kind: "intersect", Deviation: "none", Case: ics, Msg: fmt.Sprintf("IntersectAccess(%s, %s) = %s is not an authorization of the model", c.base.Auths[i], c.base.Auths[j], res)})
			} else if !bit(c.base.ISound[i][j], ri) {
				c.fail(Fail{Kind: "intersect", Deviation: "none", Case: ics,
					Msg: fmt.Sprintf("IntersectAccess(%s, %s) = %s is not entailed by both sides (documented rule gives %s)", c.base.Auths[i], c.base.Auths[j], c.base.Auths[ri], ics["rule"])})
			} else if ri != c.base.Intersect[i][j]-1 {
				c.note("intersect: sound but differs from the documented rule")
			}
		}
	}
	c.out.Write(Fail{Sample: true, Kind: "permits", Msg: "table cell",
		Case: map[string]any{"req": c.base.Auths[n-1].String(), "held": c.base.Auths[n/2].String(), "spec": bit(c.base.Permits[n-1], n/2)}})
}

func (c *entCtx) mapTables(maps []*MapRow) {
	const batch = 64
	nb := (len(maps) + batch - 1) / batch
	util.Parallel(nb, runtime.NumCPU(), func(b int) {
		rng := rand.New(rand.NewSource(c.seed*7919 + int64(b)))
		lo, hi := b*batch, (b+1)*batch
		if hi > len(maps) {
			hi = len(maps)
		}
		var sb strings.Builder
		sb.WriteString(entDecls(c.ents))
		for k := lo; k < hi; k++ {
			d, _ := mappingDecl(fmt.Sprintf("M%d", k), maps[k], rng)
			sb.WriteString(d)
		}
		src := sb.String()
		loc := common.StringLocation(fmt.Sprintf("ent-maps-%d", b))
		env := c.newObjEnv(src, loc)
		if env == nil {
			return
		}
		for k := lo; k < hi; k++ {
			m := maps[k]
			mt, ok := globalType(env.c, fmt.Sprintf("M%d", k)).(*sema.EntitlementMapType)
			if !ok {
				c.harness("not a mapping type", src)
				return
			}
			// include resolution: flattened relation and identity flag
			got := map[string]bool{}
			for _, r := range mt.Relations {
				got[r.Input.Identifier+">"+r.Output.Identifier] = true
			}
			want := map[string]bool{}
			for _, p := range m.Rel {
				want[p[0]+">"+p[1]] = true
			}
			c.count(1)
			same := len(got) == len(want) && mt.IncludesIdentity == m.ID
			for x := range want {
				if !got[x] {
					same = false
				}
			}
			if !same {
				c.fail(Fail{Kind: "include-resolution", Deviation: "none", Src: src,
					Case: map[string]any{"mapping": m.String()},
					Msg:  fmt.Sprintf("mapping M%d: resolved relations %v identity=%v, specification (union of included layers) %s", k, got, mt.IncludesIdentity, m)})
				continue
			}
			ma := sema.NewEntitlementMapAccess(mt)
			for u := 0; u < c.n; u++ {
				in := c.access(env, u, rng)
				res, err := ma.Image(nil, in, ast.EmptyRange)
				c.count(1)
				if c.isSet(u) && (len(m.Rel) > 0 || m.ID) {
					c.nt(fmt.Sprintf("image/%d/%d", k, u))
				}
				cs := map[string]any{"mapping": m.String(), "input": c.base.Auths[u].String()}
				if m.Exact[u] > 0 {
					cs["exact"] = c.base.Auths[m.Exact[u]-1].String()
				} else {
					cs["exact"] = "not representable"
				}
				if err != nil {
					if _, ok := err.(*sema.UnrepresentableEntitlementMapOutputError); !ok {
						c.harness(fmt.Sprintf("Image: unexpected error %T %v", err, err), src)
						continue
					}
					if m.Exact[u] != 0 {
						c.note("image: rejected as unrepresentable although the rule gives an authorization")
					}
					continue // a rejection grants nothing
				}
				ri := c.indexOf(res)
				cs["impl"] = res.String()
				if ri < 0 {
					c.fail(Fail{Kind: "image", Deviation: "none", Case: cs, Msg: fmt.Sprintf("Image(%s, %s) = %s is not an authorization of the model", m, c.base.Auths[u], res)})
					continue
				}
				if !bit(m.Sound[u], ri) {
					dev := "none"
					if bit(m.DevApplies, u) && m.Dev[u]-1 == ri {
						dev = "DevImageDropsEmpty"
					}
					c.fail(Fail{Kind: "image", Deviation: dev, Case: cs, Src: src,
						Msg: fmt.Sprintf("Image(%s, %s) = %s grants more than some holder of the input really obtains (sound rule: %s)",
							m, c.base.Auths[u], c.base.Auths[ri], cs["exact"])})
					continue
				}
				if m.Exact[u] == 0 {
					c.note("image: accepted although the rule says not representable (still sound)")
				} else if ri != m.Exact[u]-1 {
					c.note("image: sound but differs from the documented rule")
				}
			}
		}
	})
}

// ---------------------------------------------------------------------------- level 2: programs

// a generated test function: header lines, then probe lines (each decides one case), then footer
type probe struct {
	line  string
	kind  string // "member" | "dyn" | "upcast" ...
	a, b  int    // case coordinates (meaning depends on the program)
	r     int
	guard int // index of the probe (in the same function) whose rejection makes this one meaningless, -1 none
}

type tfun struct {
	name   string
	header []string
	probes []probe
}

type progResult struct {
	accepted map[[2]int]bool           // (function, probe) accepted by the checker
	value    map[string]map[[2]int]int // engine -> (function, probe) -> produced Int
}

var engines = []struct {
	name string
	vm   bool
}{{"interpreter", false}, {"vm", true}}

// runProbes type-checks the full program (every probe on its own line), removes what the checker
// rejected, and runs the rest on both engines. allowed: error types that mean "probe rejected".
func (c *entCtx) runProbes(prelude string, funs []tfun, tag string) *progResult {
	render := func(keep func(f, p int) bool) (string, map[int][2]int) {
		var sb strings.Builder
		sb.WriteString(prelude)
		lineOf := map[int][2]int{}
		line := strings.Count(prelude, "\n") + 1
		emit := func(s string) {
			sb.WriteString(s)
			sb.WriteString("\n")
			line++
		}
		var names []string
		for fi, f := range funs {
			if !keep(fi, -1) {
				continue
			}
			names = append(names, f.name)
			emit(fmt.Sprintf("access(all) fun %s(): [Int] {", f.name))
			emit("  let res: [Int] = []")
			for _, h := range f.header {
				emit("  " + h)
			}
			for pi, p := range f.probes {
				if !keep(fi, pi) {
					continue
				}
				lineOf[line] = [2]int{fi, pi}
				emit("  " + p.line)
			}
			emit("  return res")
			emit("}")
		}
		emit("access(all) fun main(): [[Int]] {")
		emit("  let out: [[Int]] = []")
		for _, n := range names {
			emit(fmt.Sprintf("  out.append(%s())", n))
		}
		emit("  return out")
		emit("}")
		return sb.String(), lineOf
	}
	full, lineOf := render(func(f, p int) bool { return true })
	ch, err := checkSource(full, common.StringLocation("ent-"+tag))
	if err != nil {
		c.harness(err.Error(), full)
		return nil
	}
	rejected := map[[2]int]bool{}
	for _, e := range ch.errs {
		fp, ok := lineOf[errLine(e)]
		if !ok {
			c.harness(fmt.Sprintf("checker error outside a probe line (line %d): %T %v", errLine(e), e, e), full)
			return nil
		}
		switch e.(type) {
		case *sema.InvalidAccessError, *sema.UnrepresentableEntitlementMapOutputError, *sema.TypeMismatchError:
			rejected[fp] = true
		default:
			c.harness(fmt.Sprintf("unexpected checker error on probe line %d: %T %v", errLine(e), e, e), full)
			return nil
		}
	}
	res := &progResult{accepted: map[[2]int]bool{}, value: map[string]map[[2]int]int{}}
	keep := func(f, p int) bool {
		if p < 0 {
			return true
		}
		if rejected[[2]int{f, p}] {
			return false
		}
		if g := funs[f].probes[p].guard; g >= 0 && rejected[[2]int{f, g}] {
			return false
		}
		return true
	}
	for fi, f := range funs {
		for pi := range f.probes {
			if keep(fi, pi) {
				res.accepted[[2]int{fi, pi}] = true
			}
		}
	}
	pruned, _ := render(keep)
	c.mu.Lock()
	c.progs++
	c.mu.Unlock()
	for _, eng := range engines {
		w := host.NewWorld()
		r := w.Script(pruned, eng.vm)
		if r.Err != nil {
			c.harness(fmt.Sprintf("pruned program fails on %s (%s): %v", eng.name, r.Class, r.Err), pruned)
			return nil
		}
		vals := map[[2]int]int{}
		outer, ok := r.Value.(cadence.Array)
		if !ok || len(outer.Values) != len(funs) {
			c.harness("unexpected script result shape", pruned)
			return nil
		}
		for fi, f := range funs {
			inner := outer.Values[fi].(cadence.Array)
			k := 0
			for pi := range f.probes {
				if !keep(fi, pi) {
					continue
				}
				if k >= len(inner.Values) {
					c.harness("result shorter than probes", pruned)
					return nil
				}
				vals[[2]int{fi, pi}] = inner.Values[k].(cadence.Int).Int()
				k++
			}
			if k != len(inner.Values) {
				c.harness("result longer than probes", pruned)
				return nil
			}
		}
		res.value[eng.name] = vals
	}
	return res
}

func (c *entCtx) innerDecl(rng *rand.Rand) string {
	var sb strings.Builder
	sb.WriteString("access(all) struct Inner {\n")
	for r := 0; r < c.n; r++ {
		a := c.base.Auths[r]
		if a.K == "self" || !c.denotableRef(r) {
			continue
		}
		fmt.Fprintf(&sb, "  %s fun f%d(): Int { return 1 }\n", accessMod(a, rng), r)
	}
	sb.WriteString("}\n")
	return sb.String()
}

func (c *entCtx) fullConj() AuthT { return AuthT{K: "conj", S: c.ents} }

// denotable requirement indices (members an outside holder could be asked for)
func (c *entCtx) reqs() []int {
	var rs []int
	for r := 0; r < c.n; r++ {
		if c.base.Auths[r].K != "self" && c.denotableRef(r) {
			rs = append(rs, r)
		}
	}
	return rs
}

// upcastProgram: static upcasts, dynamic casts of references, direct entitled members.
func (c *entCtx) upcastProgram() {
	rng := rand.New(rand.NewSource(c.seed + 11))
	rs := c.reqs()
	var sb strings.Builder
	sb.WriteString(entDecls(c.ents))
	sb.WriteString(strings.Replace(c.innerDecl(rng), "struct Inner", "struct Outer", 1))
	var funs []tfun
	for _, h := range rs {
		f := tfun{name: fmt.Sprintf("h%d", h)}
		f.header = []string{"let o = Outer()", fmt.Sprintf("let r = &o as %s", refType(c.base.Auths[h], "Outer", rng))}
		for _, u := range rs {
			f.probes = append(f.probes, probe{kind: "upcast", a: h, b: u, guard: -1,
				line: fmt.Sprintf("let u%d = r as %s; res.append(1)", u, refType(c.base.Auths[u], "Outer", rng))})
			// after a legal upcast the run-time reference carries the target authorization only
			f.probes = append(f.probes, probe{kind: "regain", a: u, b: h, guard: len(f.probes) - 1,
				line: fmt.Sprintf("res.append((u%d as? %s) != nil ? 1 : 0)", u, refType(c.base.Auths[h], "Outer", rng))})
			f.probes = append(f.probes, probe{kind: "dyncast", a: h, b: u, guard: -1,
				line: fmt.Sprintf("res.append((r as? %s) != nil ? 1 : 0)", refType(c.base.Auths[u], "Outer", rng))})
			f.probes = append(f.probes, probe{kind: "member", a: h, b: u, guard: -1,
				line: fmt.Sprintf("res.append(r.f%d())", u)})
		}
		funs = append(funs, f)
	}
	res := c.runProbes(sb.String(), funs, "upcast")
	if res == nil {
		return
	}
	for fi, f := range funs {
		for pi, p := range f.probes {
			key := [2]int{fi, pi}
			held, other := c.base.Auths[p.a], c.base.Auths[p.b]
			want := bit(c.base.Permits[p.b], p.a) // `other` as requirement/target, `held` as holder
			cs := map[string]any{"held": held.String(), "target": other.String(), "spec": want, "probe": p.line}
			if c.isSet(p.a) && c.isSet(p.b) {
				c.nt(fmt.Sprintf("prog-%s/%d/%d", p.kind, p.a, p.b))
			}
			switch p.kind {
			case "upcast", "member":
				c.count(1)
				if res.accepted[key] != want {
					c.fail(Fail{Kind: "program-" + p.kind, Deviation: "none", Case: cs,
						Msg: fmt.Sprintf("checker %s `%s` for a holder of %s; set semantics says permitted=%v", map[bool]string{true: "accepts", false: "rejects"}[res.accepted[key]], p.line, held, want)})
				}
			case "dyncast", "regain":
				if !res.accepted[key] {
					continue // (regain) the upcast itself was rejected
				}
				for _, eng := range engines {
					c.count(1)
					got := res.value[eng.name][key] == 1
					if got != want {
						c.fail(Fail{Kind: "program-" + p.kind, Engine: eng.name, Deviation: "none", Case: cs,
							Msg: fmt.Sprintf("%s: run-time cast of a %s reference to %s succeeds=%v; set semantics says %v", eng.name, held, other, got, want)})
					}
				}
			}
		}
	}
}

// nestedProgram: a reference-typed field auth(c) &Inner read through auth(a) &Outer2.
func (c *entCtx) nestedProgram() {
	rng := rand.New(rand.NewSource(c.seed + 13))
	rs := c.reqs()
	var sb strings.Builder
	sb.WriteString(entDecls(c.ents))
	sb.WriteString(c.innerDecl(rng))
	sb.WriteString("access(all) struct Outer2 {\n")
	var inits []string
	for _, cc := range rs {
		fmt.Fprintf(&sb, "  access(all) let n%d: %s\n", cc, refType(c.base.Auths[cc], "Inner", rng))
		inits = append(inits, fmt.Sprintf("self.n%d = &i as %s", cc, refType(c.base.Auths[cc], "Inner", rng)))
	}
	sb.WriteString("  init() {\n    let i = Inner()\n")
	for _, s := range inits {
		sb.WriteString("    " + s + "\n")
	}
	sb.WriteString("  }\n}\n")
	prelude := sb.String()
	// one program per outer authorization (the parser limits a program to 2^19 tokens)
	util.Parallel(len(rs), runtime.NumCPU(), func(ai int) {
		a := rs[ai]
		rng := rand.New(rand.NewSource(c.seed*31 + int64(a)))
		var funs []tfun
		for _, cc := range rs {
			f := tfun{name: fmt.Sprintf("n%d_%d", a, cc)}
			f.header = []string{"let o = Outer2()", fmt.Sprintf("let up = &o as %s", refType(c.base.Auths[a], "Outer2", rng)),
				fmt.Sprintf("let y = up.n%d", cc)}
			for _, r := range rs {
				f.probes = append(f.probes, probe{kind: "member", a: a, b: cc, r: r, guard: -1, line: fmt.Sprintf("res.append(y.f%d())", r)})
				f.probes = append(f.probes, probe{kind: "dyn", a: a, b: cc, r: r, guard: -1,
					line: fmt.Sprintf("res.append((y as? %s) != nil ? 1 : 0)", refType(c.base.Auths[r], "Inner", rng))})
			}
			funs = append(funs, f)
		}
		res := c.runProbes(prelude, funs, fmt.Sprintf("nested-%d", a))
		if res == nil {
			return
		}
		c.judgeNested(funs, res)
	})
}

func (c *entCtx) judgeNested(funs []tfun, res *progResult) {
	for fi, f := range funs {
		for pi, p := range f.probes {
			key := [2]int{fi, pi}
			outer, inner, req := c.base.Auths[p.a], c.base.Auths[p.b], c.base.Auths[p.r]
			sound := bit(c.base.Permits[p.r], p.a) && bit(c.base.Permits[p.r], p.b)
			rule := bit(c.base.Permits[p.r], c.base.Intersect[p.a][p.b]-1)
			cs := map[string]any{"outer": outer.String(), "declared": inner.String(), "requirement": req.String(), "entailed_by_both": sound}
			if c.isSet(p.a) && c.isSet(p.b) && c.isSet(p.r) {
				c.nt(fmt.Sprintf("prog-nested/%d/%d/%d", p.a, p.b, p.r))
			}
			check := func(engine string, got bool) {
				c.count(1)
				if got && !sound {
					c.fail(Fail{Kind: "program-nested-" + p.kind, Engine: engine, Deviation: "none", Case: cs,
						Msg: fmt.Sprintf("through %s &Outer2, a field declared %s &Inner yields %s although not both sides guarantee it", outer, inner, req)})
				} else if got != rule {
					c.note("nested reference: sound but differs from the documented intersection rule")
				}
			}
			if p.kind == "member" {
				check("checker", res.accepted[key])
			} else {
				for _, eng := range engines {
					check(eng.name, res.value[eng.name][key] == 1)
				}
			}
		}
	}
}

// mappedPrograms: per mapping, a mapped field and a mapped accessor reached through an upcast reference.
func (c *entCtx) mappedPrograms(maps []*MapRow) {
	rs := c.reqs()
	var sampled int32
	var smu sync.Mutex
	util.Parallel(len(maps), runtime.NumCPU(), func(k int) {
		m := maps[k]
		rng := rand.New(rand.NewSource(c.seed*104729 + int64(k)))
		var sb strings.Builder
		sb.WriteString(entDecls(c.ents))
		decl, _ := mappingDecl("M", m, rng)
		sb.WriteString(decl)
		sb.WriteString(c.innerDecl(rng))
		sb.WriteString("access(all) struct Outer {\n  access(mapping M) let inner: Inner\n  init() { self.inner = Inner() }\n}\n")
		var funs []tfun
		full := c.fullConj()
		// (mapped accessor functions `auth(mapping M) &T` are not part of the language any more:
		// the checker answers InvalidMappingAuthorizationError; mapped fields are the only mapped members)
		for _, via := range []string{"field"} {
			for _, u := range rs {
				f := tfun{name: fmt.Sprintf("%s%d", via[:1], u)}
				f.header = []string{"let o = Outer()",
					fmt.Sprintf("let up = (&o as %s) as %s", refType(full, "Outer", rng), refType(c.base.Auths[u], "Outer", rng))}
				get := "let i = up.inner; res.append(1)"
				if via == "accessor" {
					get = "let i = up.get(); res.append(1)"
				}
				f.probes = append(f.probes, probe{kind: via + "-get", a: u, guard: -1, line: get})
				for _, r := range rs {
					f.probes = append(f.probes, probe{kind: via, a: u, r: r, guard: 0, line: fmt.Sprintf("res.append(i.f%d())", r)})
				}
				for _, r := range rs {
					f.probes = append(f.probes, probe{kind: via + "-dyn", a: u, r: r, guard: 0,
						line: fmt.Sprintf("res.append((i as? %s) != nil ? 1 : 0)", refType(c.base.Auths[r], "Inner", rng))})
				}
				funs = append(funs, f)
			}
		}
		prelude := sb.String()
		res := c.runProbes(prelude, funs, fmt.Sprintf("map-%d", k))
		if res == nil {
			return
		}
		// accepted[via][u][r]
		acc := map[string]map[[2]int]bool{"field": {}}
		for fi, f := range funs {
			for pi, p := range f.probes {
				key := [2]int{fi, pi}
				u, r := p.a, p.r
				switch p.kind {
				case "field-get", "accessor-get":
					c.count(1)
					if !res.accepted[key] && m.Exact[u] != 0 {
						c.note("mapped member: rejected as unrepresentable although the rule gives an authorization")
					}
				case "field", "accessor", "field-dyn", "accessor-dyn":
					if c.isSet(u) && c.isSet(r) && (len(m.Rel) > 0 || m.ID) {
						c.nt(fmt.Sprintf("prog-mapped/%d/%d/%d", k, u, r))
					}
					sound := bit(m.Sound[u], r)
					cs := map[string]any{"mapping": m.String(), "upcast_target": c.base.Auths[u].String(), "obtained": c.base.Auths[r].String(), "via": p.kind}
					judge := func(engine string, got bool) {
						c.count(1)
						if !got || sound {
							if got != (m.Exact[u] != 0 && bit(c.base.Permits[r], m.Exact[u]-1)) {
								c.note("mapped member: sound but differs from the documented image rule")
							}
							return
						}
						dev := "none"
						if bit(m.DevApplies, u) && bit(m.DevReach[u], r) {
							dev = "DevImageDropsEmpty"
						}
						// a weak holder that can be upcast to u and provably cannot reach r
						weak := -1
						for _, h := range rs {
							if bit(c.base.Permits[u], h) && !bit(m.Sound[h], r) && (weak < 0 || len(c.base.Auths[h].S) < len(c.base.Auths[weak].S)) && c.base.Auths[h].K == "conj" {
								weak = h
							}
						}
						if weak >= 0 {
							cs["holder"] = c.base.Auths[weak].String()
						}
						c.fail(Fail{Kind: "program-mapped-" + p.kind, Engine: engine, Deviation: dev, Case: cs, Src: c.escalationProgram(prelude, m, weak, u, r, p.kind),
							Msg: fmt.Sprintf("%s: a reference upcast to %s reaches %s on the mapped member (mapping %s); a holder of %s does not obtain it in every possible world",
								engine, c.base.Auths[u], c.base.Auths[r], m, cs["holder"])})
					}
					if p.kind == "field" || p.kind == "accessor" {
						a := res.accepted[key]
						acc[p.kind][[2]int{u, r}] = a
						ok := a
						for _, eng := range engines {
							ok = ok && res.value[eng.name][key] == 1
						}
						judge("checker+engines", ok)
					} else {
						for _, eng := range engines {
							judge(eng.name, res.accepted[key] && res.value[eng.name][key] == 1)
						}
					}
				}
			}
		}
		// the property's last sentence, literally: what is reachable through the upcast type is reachable through the original
		for _, via := range []string{"field"} {
			for _, h := range rs {
				if m.Exact[h] == 0 {
					continue // the original reference cannot use the mapped member at all (rejected program)
				}
				for _, u := range rs {
					if h == u || !bit(c.base.Permits[u], h) {
						continue
					}
					for _, r := range rs {
						c.count(1)
						if acc[via][[2]int{u, r}] && !acc[via][[2]int{h, r}] {
							dev := "none"
							if bit(m.DevApplies, u) && bit(m.DevReach[u], r) && !bit(m.Sound[u], r) {
								dev = "DevImageDropsEmpty"
							} else if bit(m.Sound[h], r) {
								// the original holder is entitled to it; the checker is merely imprecise for the original type
								c.note("upcast: reachable through the upcast type only, but the original holder is semantically entitled (imprecision)")
								continue
							}
							c.fail(Fail{Kind: "program-upcast-escalation", Engine: "checker", Deviation: dev, Src: c.escalationProgram(prelude, m, h, u, r, via),
								Case: map[string]any{"mapping": m.String(), "holder": c.base.Auths[h].String(), "upcast_target": c.base.Auths[u].String(), "obtained": c.base.Auths[r].String(), "via": via},
								Msg: fmt.Sprintf("upcast %s -> %s is accepted; through the upcast reference the mapped %s (mapping %s) yields %s, through the original it is rejected",
									c.base.Auths[h], c.base.Auths[u], via, m, c.base.Auths[r])})
						}
					}
				}
			}
		}
		smu.Lock()
		if sampled < 2 && len(m.Rel) >= 2 {
			sampled++
			c.out.Write(Fail{Sample: true, Kind: "mapped-program", Msg: "mapping " + m.String(), Src: prelude})
		}
		smu.Unlock()
	})
}

// escalationProgram renders the minimal stand-alone script for a reported case (replay artefact).
func (c *entCtx) escalationProgram(prelude string, m *MapRow, h, u, r int, via string) string {
	if h < 0 {
		h = u
	}
	get := "up.inner"
	if strings.HasPrefix(via, "accessor") {
		get = "up.get()"
	}
	return prelude + fmt.Sprintf(`access(all) fun main(): Int {
  let o = Outer()
  let original = &o as %s
  let up = original as %s
  let i = %s
  return i.f%d()   // requires %s
}
`, refType(c.base.Auths[h], "Outer", nil), refType(c.base.Auths[u], "Outer", nil), get, r, c.base.Auths[r])
}

func runEnt(in, out string) {
	if pf := os.Getenv("VERIF_PPROF"); pf != "" {
		f, _ := os.Create(pf)
		pprof.StartCPUProfile(f)
		defer pprof.StopCPUProfile()
	}
	c := &entCtx{out: util.NewOut(out), seed: util.Seed(), nontriv: map[string]struct{}{}, notes: map[string]int{}}
	defer c.out.Close()
	var maps []*MapRow
	err := util.ReadLines(in, func(line []byte) error {
		var k struct {
			Kind string `json:"kind"`
		}
		if err := json.Unmarshal(line, &k); err != nil {
			return err
		}
		switch k.Kind {
		case "base":
			return json.Unmarshal(line, &c.base)
		case "map":
			m := &MapRow{}
			if err := json.Unmarshal(line, m); err != nil {
				return err
			}
			maps = append(maps, m)
		}
		return nil
	})
	if err != nil {
		util.Die("reading %s: %v", in, err)
	}
	c.n = len(c.base.Auths)
	if c.n == 0 || len(maps) == 0 {
		util.Die("no base table / no mapping rows in %s", in)
	}
	seen := map[string]bool{}
	for i := range c.base.Auths {
		sort.Strings(c.base.Auths[i].S)
		for _, e := range c.base.Auths[i].S {
			if !seen[e] {
				seen[e] = true
				c.ents = append(c.ents, e)
			}
		}
	}
	sort.Strings(c.ents)
	for _, m := range maps {
		sort.Slice(m.Rel, func(i, j int) bool { return m.Rel[i][0]+m.Rel[i][1] < m.Rel[j][0]+m.Rel[j][1] })
	}
	t0 := time.Now()
	phase := func(name string, f func()) {
		t := time.Now()
		f()
		fmt.Fprintf(os.Stderr, "ent: %s %.1fs (total %.1fs)\n", name, time.Since(t).Seconds(), time.Since(t0).Seconds())
	}
	phase("base tables", c.baseTables)
	phase("mapping tables", func() { c.mapTables(maps) })
	phase("upcast program", c.upcastProgram)
	phase("nested program", c.nestedProgram)
	// program level: all mappings, or (quick tier) the small ones plus a seeded sample
	progMaps := maps
	if limit := envInt("VERIF_ENT_PROGS", 0); limit > 0 && limit < len(maps) {
		rng := rand.New(rand.NewSource(c.seed + 17))
		var small, rest []*MapRow
		for _, m := range maps {
			if len(m.Rel) <= 1 {
				small = append(small, m)
			} else {
				rest = append(rest, m)
			}
		}
		rng.Shuffle(len(rest), func(i, j int) { rest[i], rest[j] = rest[j], rest[i] })
		progMaps = small
		for _, m := range rest {
			if len(progMaps) >= limit {
				break
			}
			progMaps = append(progMaps, m)
		}
	}
	phase("mapped programs", func() { c.mappedPrograms(progMaps) })
	c.out.Write(map[string]any{"summary": true, "evaluations": c.evals, "distinct_nontrivial": len(c.nontriv),
		"mappings": len(maps), "program_mappings": len(progMaps), "authorizations": c.n, "programs": c.progs, "engines": len(engines), "notes": c.notes, "fails": c.fails})
}
